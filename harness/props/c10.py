"""C10 -- Eliminating Dirichlet dofs is algebraically exact for any index set.

Stage 1: coq/C10 (theorems over every commutative ring, every index order).
Stage 2: exact correspondence of the Gallina model (evaluated over Z by vm_compute) with
         RestrictedLinearSystem, slice_indices/boundary_dofs/boundary_cells, the index part of
         compute_dirichlet_bc(s), combine_bcs, _drop_nans, compute_initial_condition_01 and
         Multipatch.compute_dirichlet_bcs of /repo's current source.
Stage 3: the property itself evaluated on the implementation's outputs with independent
         oracles written here (exact Fraction arithmetic; own Cox-de Boor evaluation).

Float bounds (the only inexact comparisons; everything else is exact):
  INTERP_TOL: |sum_j B_j(node) c_j - g(G(node))| <= 1e-11 * max(1, max|g|) at every Greville node of a
    boundary face.  Derivation: the coefficients c solve (C_1 x ... x C_k) c = g(nodes), k <= 2 face
    axes, by one banded LU solve per axis.  Every C_a is a collocation matrix at Greville abscissae
    with n <= 8 (generators: degree <= 3, <= 4 interior knots, uniform / graded / doubled knots),
    non-negative entries, row sums 1, totally positive (no pivot growth), cond_inf <= 100 at these
    sizes.  A backward stable solve leaves a residual <= 3 n u cond |g| = 3*8*1.1e-16*100 |g| ~ 2.7e-13 |g|
    per axis (u = 2^-53); the oracle
    re-multiplies by C_a exactly (row sums 1, no amplification).  Two axes: < 1e-12 |g|.
    INTERP_TOL = 1e-11 (the value fixed in DESIGN.md, C10) leaves a factor >= 10; the largest
    deviation of a run is recorded in the evidence (observed ~1e-15).
  time derivative at the initial face: sum_k N_k'(t0) a_k with |N_k'(t0)| <= c = p/h; errors of the two
    coefficients are amplified by c each, so the bound is (1 + 2c) * INTERP_TOL.
"""
import itertools
from fractions import Fraction

from harness.core import cbool, clist, cz, log, parse_coq_list_of_nat

PROPS = 'C10/Props.v'
INTERP_TOL = Fraction(1, 10 ** 11)


# ---------------------------------------------------------------------------
# small exact helpers (harness-side oracle; independent of model and implementation)
# ---------------------------------------------------------------------------

def to_frac(x):
    if isinstance(x, bool):
        raise ValueError(x)
    if isinstance(x, int):
        return Fraction(x)
    if isinstance(x, float):
        return Fraction(x)
    if x == 'nan':
        return None
    return Fraction(float.fromhex(x))


def is_int(x):
    return isinstance(x, int) and not isinstance(x, bool)


def solve_exact(M, rhs):
    """One solution of M u = rhs over the rationals (free variables 0), or None if inconsistent."""
    m = len(M)
    n = len(M[0]) if m else 0
    A = [[Fraction(x) for x in row] + [Fraction(r)] for row, r in zip(M, rhs)]
    piv = []
    r = 0
    for c in range(n):
        p = next((i for i in range(r, m) if A[i][c] != 0), None)
        if p is None:
            continue
        A[r], A[p] = A[p], A[r]
        pv = A[r][c]
        A[r] = [x / pv for x in A[r]]
        for i in range(m):
            if i != r and A[i][c] != 0:
                f = A[i][c]
                A[i] = [x - f * y for x, y in zip(A[i], A[r])]
        piv.append(c)
        r += 1
        if r == m:
            break
    for i in range(r, m):
        if A[i][n] != 0:
            return None
    u = [Fraction(0)] * n
    for i, c in enumerate(piv):
        u[c] = A[i][n]
    return u


def bspline_basis(p, knots, t, deriv=0):
    """All B-spline basis functions of degree p on the open knot vector `knots` (Fractions) at t,
    or their first derivatives: Cox-de Boor, right end point taken from the left."""
    m = len(knots)
    n = m - p - 1
    last = knots[-1]

    def N(i, q, t):
        if q == 0:
            if knots[i] <= t < knots[i + 1]:
                return Fraction(1)
            if t == last and knots[i + 1] == last and knots[i] < knots[i + 1]:
                return Fraction(1)
            return Fraction(0)
        v = Fraction(0)
        d1 = knots[i + q] - knots[i]
        if d1 != 0:
            v += (t - knots[i]) / d1 * N(i, q - 1, t)
        d2 = knots[i + q + 1] - knots[i + 1]
        if d2 != 0:
            v += (knots[i + q + 1] - t) / d2 * N(i + 1, q - 1, t)
        return v

    def dN(i, q, t):
        v = Fraction(0)
        d1 = knots[i + q] - knots[i]
        if d1 != 0:
            v += q / d1 * N(i, q - 1, t)
        d2 = knots[i + q + 1] - knots[i + 1]
        if d2 != 0:
            v -= q / d2 * N(i + 1, q - 1, t)
        return v
    return [(N(i, p, t) if deriv == 0 else dN(i, p, t)) for i in range(n)]


def gval(name, X):
    """The boundary data of c10_driver.gfun, exactly."""
    X = list(X) + [Fraction(0)] * 3
    if name == 'one':
        return Fraction(1)
    if name == 'lin':
        return 1 + 2 * X[0] - Fraction(1, 2) * X[1] + Fraction(1, 4) * X[2]
    if name == 'quad':
        return X[0] * X[0] - X[0] * X[1] + 3 * X[2] + Fraction(1, 2)
    if name == 'cub':
        return X[0] ** 3 - 2 * X[1] ** 2 + X[0] * X[2]
    raise KeyError(name)


def gcomps(g):
    """Components of boundary data `g` (a number or a name) as functions of the physical point."""
    if isinstance(g, (int, float)):
        return None, [lambda X, v=Fraction(g): v]
    if g == 'vec2':
        return 2, [lambda X: gval('lin', X), lambda X: gval('quad', X)]
    if g == 'vec3':
        return 3, [lambda X: gval('quad', X), lambda X: gval('one', X), lambda X: gval('lin', X)]
    return None, [lambda X, n=g: gval(n, X)]


def ncomp_of(g):
    return 0 if isinstance(g, (int, float)) or not g.startswith('vec') else int(g[3])


def prod(l):
    r = 1
    for x in l:
        r *= x
    return r


def ravel(shape, mi):
    r = 0
    for n, i in zip(shape, mi):
        r = r * n + i
    return r


NAMES = {'left': (1, 0), 'right': (1, 1), 'bottom': (2, 0), 'top': (2, 1), 'front': (3, 0), 'back': (3, 1)}


def parse_bdspec_oracle(bs, dim):
    """(axis, side) a boundary specification denotes according to the documentation, or None."""
    if isinstance(bs, str):
        if bs not in NAMES:
            return None
        k, side = NAMES[bs]
        ax = dim - k
    else:
        if len(bs) != 2:
            return None
        ax, side = bs
    if side not in (0, 1) or not (0 <= ax < dim):
        return None
    return ax, side


def face_set(shape, ax, i):
    return {ravel(shape, mi) for mi in itertools.product(*[range(n) for n in shape]) if mi[ax] == i}


# ---------------------------------------------------------------------------
# Coq literals
# ---------------------------------------------------------------------------

def cqq(fr):
    fr = Fraction(fr)
    return '((%d) # %d)%%Q' % (fr.numerator, fr.denominator)


def cn(n):
    return '%d' % n


def zl(v):
    return clist(v, cz)


def zll(M):
    return clist([zl(r) for r in M])


def nl(v):
    return clist(v, cn)


def nll(M):
    return clist([nl(r) for r in M])


def csv(x):
    return '(Arr %s)' % zl(x) if isinstance(x, list) else '(Scalar %s)' % cz(x)


def copt(x, f):
    return 'None' if x is None else '(Some %s)' % f(x)


def cbd(bs):
    if isinstance(bs, str):
        return '(BName B%s)' % bs.capitalize()
    return '(BPair %s %s)' % (cz(bs[0]), cz(bs[1]))


HEADER = '''From Coq Require Import List Arith Bool ZArith.
From Verif.lib Require Import Slice.
From Verif.C10 Require Import Model.
Import ListNotations.
Open Scope nat_scope.
Fixpoint leqb {X} (e : X -> X -> bool) (a b : list X) : bool :=
  match a, b with [] , [] => true | x :: a', y :: b' => e x y && leqb e a' b' | _, _ => false end.
Definition zl := leqb Z.eqb.
Definition zll := leqb zl.
Definition nl := leqb Nat.eqb.
Definition nll := leqb nl.
Definition oeqb {X} (e : X -> X -> bool) (a b : option X) : bool :=
  match a, b with None, None => true | Some x, Some y => e x y | _, _ => false end.
Fixpoint bad {C} (ok : C -> bool) (k : nat) (cs : list C) : list nat :=
  match cs with [] => [] | c :: cs' => if ok c then bad ok (S k) cs' else k :: bad ok (S k) cs' end.
'''

HEADER_RLS = HEADER + '''
Record rcase := RC { cA : list (list Z); cn : nat; cb : sv Z; cidx : list nat; cvals : sv Z;
  cer : option (list nat); cxs : list (list Z); cfs : list (list Z); cus : list (list Z); cB : list (list Z);
  eA : list (list Z); eb : list Z; erestrict : list (list Z); erhs : list (list Z);
  eextend : list (list Z); ecomplete : list (list Z); eRB : list (list Z) }.
Definition ctype := rcase.
Definition ok (c : rcase) : bool :=
  let s := rls_init Z 0%Z Z.add Z.mul Z.sub (cA c) (cn c) (cb c) (cidx c) (cvals c) (cer c) in
  zll (r_A Z s) (eA c) && zl (r_b Z s) (eb c)
  && zll (map (rls_restrict Z s) (cxs c)) (erestrict c)
  && zll (map (rls_restrict_rhs Z s) (cfs c)) (erhs c)
  && zll (map (rls_extend Z 0%Z s) (cus c)) (eextend c)
  && zll (map (rls_complete Z 0%Z Z.add s) (cus c)) (ecomplete c)
  && zll (rls_restrict_matrix Z s (cB c)) (eRB c).
'''

HEADER_SLICE = HEADER + '''
(* (ravel?, ax, idx, shape, flip, expected raveled, expected multi) *)
Definition ctype := (bool * nat * Z * list nat * list bool * option (list nat) * option (list (list nat)))%type.
Definition ok (c : ctype) : bool :=
  let '(rv, ax, idx, shape, flip, e1, e2) := c in
  if rv then oeqb nl (slice_indices_z ax idx shape flip) e1
  else oeqb nll (slice_multi_z ax idx shape flip) e2.
'''

HEADER_BD = HEADER + '''
(* (shape, bdspec, flip, expected) for boundary_dofs / boundary_cells *)
Definition ctype := (list nat * bdspec * list bool * option (list nat))%type.
Definition ok (c : ctype) : bool :=
  let '(shape, b, flip, e) := c in oeqb nl (boundary_slice shape b flip) e.
'''

HEADER_BC = HEADER.replace('From Verif.C10 Require Import Model.', 'From Verif.C14 Require Model.\nFrom Verif.C10 Require Import Model.') + '''
Definition get (o : option (list nat)) : list nat := match o with Some l => l | None => [] end.
(* (shape, [(bdspec, ncomp)], p2g per condition (empty = identity), expected local index lists,
    value ids of the concatenated local values, combine?, expected (idx, value ids)) *)
Definition ctype := (list nat * list (bdspec * nat) * list (list nat) * list (list nat) * list nat * bool * (list nat * list nat))%type.
Definition ok (c : ctype) : bool :=
  let '(shape, conds, p2gs, elocal, vids, comb, (eidx, evals)) := c in
  let locals := map (fun bc => dirichlet_indices shape (fst bc) (snd bc)) conds in
  forallb (fun o => match o with Some _ => true | None => false end) locals
  && nll (map get locals) elocal
  && (let glob := map (fun lp => match snd lp with [] => fst lp | p2g => renumber p2g (fst lp) end)
                      (combine (map get locals) p2gs) in
      if comb then
        let r := combine_flat nat 0 (concat glob) vids in nl (fst r) eidx && nl (snd r) evals
      else nl (concat glob) eidx && nl vids evals).
(* several patches: shapes per patch, joins (C14's bjoin), p2g per patch as returned by the implementation,
   conditions (patch, (bdspec, ncomp), expected local indices, value ids), expected (idx, value ids).
   The global numbering is recomputed by C14's model from the joins and must equal the implementation's;
   the loop of Multipatch.compute_dirichlet_bcs (with its cache) is the model's mp_compute_dirichlet_bcs. *)
Definition ctypemp := (list (list nat) * list C14.Model.bjoin * list (list nat)
                       * list (nat * (bdspec * nat) * list nat * list nat) * (list nat * list nat))%type.
Definition okmp (c : ctypemp) : bool :=
  let '(shapes, js, p2gs, conds, (eidx, evals)) := c in
  let p2gm := snd (C14.Model.observe shapes js) in
  let locals := map (fun q => let '(p, bc, eloc, vids) := q in dirichlet_indices (nth p shapes []) (fst bc) (snd bc)) conds in
  nll p2gm p2gs
  && forallb (fun o => match o with Some _ => true | None => false end) locals
  && nll (map get locals) (map (fun q => snd (fst q)) conds)
  && (let mc := map (fun lq => let '(p, bc, eloc, vids) := snd lq in (p, fst lq, vids)) (combine (map get locals) conds) in
      let r := mp_compute_dirichlet_bcs nat 0 (fun p => nth p p2gm []) mc in nl (fst r) eidx && nl (snd r) evals).
'''

HEADER_COMB = HEADER + '''
(* combine_bcs on value ids; _drop_nans with None = nan *)
Definition ctypec := (list (list nat * list nat) * (list nat * list nat))%type.
Definition okc (c : ctypec) : bool :=
  let '(bcs, (eidx, evals)) := c in
  let r := combine_bcs nat 0 bcs in nl (fst r) eidx && nl (snd r) evals.
Definition ctyped := (list nat * list (option nat) * (list nat * list nat))%type.
Definition okd (c : ctyped) : bool :=
  let '(idx, vals, (eidx, evals)) := c in
  let r := drop_nans nat idx vals in nl (fst r) eidx && nl (snd r) evals.
Definition ctypei := (list nat * bdspec * option (list nat))%type.
Definition oki (c : ctypei) : bool :=
  let '(shape, b, e) := c in oeqb nl (initial_indices shape b) e.
'''


HEADER_ICQ = '''From Coq Require Import QArith Qcanon Qcabs List Arith Bool.
From Verif.lib Require Import Bsp.
From Verif.C10 Require Import Model_ic.
Import ListNotations.
Fixpoint bad {C} (ok : C -> bool) (k : nat) (cs : list C) : list nat :=
  match cs with [] => [] | c :: cs' => if ok c then bad ok (S k) cs' else k :: bad ok (S k) cs' end.
Definition close (bound a b : Qc) : bool := qleb (Qcabs (a - b)) bound.
(* (time knots, degree, side, rows (G0, G1, impl a, impl b, bound)): the two coefficients of every spatial dof
   against the model ic_coeffs (exact active_deriv at the end point + exact 2x2 solve) *)
Definition ctypeq := (list Q * nat * nat * list (Q * Q * Q * Q * Q))%type.
Definition okq (c : ctypeq) : bool :=
  let '(kvq, p, side, rows) := c in
  let kv := map Q2Qc kvq in
  open_kv kv p &&
  forallb (fun row : Q * Q * Q * Q * Q => let '(G0, G1, a, b, bnd) := row in
     let m := ic_coeffs kv p side (Q2Qc G0) (Q2Qc G1) in
     close (Q2Qc bnd) (Q2Qc a) (fst m) && close (Q2Qc bnd) (Q2Qc b) (snd m)) rows.
'''

# bound for the 2x2 solve of compute_initial_condition_01 against the exact model: LAPACK's LU with partial pivoting
# of [[1,0],[-c,c]] (resp. [[0,1],[-c,c]]) computes a = g0 and b = g0 + g1/c (resp. mirrored) with <= 4 roundings each on
# quantities of size <= |g0| + |g1|/c, and c itself (active_deriv in binary64) has relative error <= 8u: together
# <= 16 u (|g0| + |g1|/c) = 2^-49 (...); IC_SOLVE_TOL = 2^-44 (1 + |g0| + |g1|/c) leaves a factor 32.
IC_SOLVE_TOL = Fraction(1, 2 ** 44)

# ---------------------------------------------------------------------------
# generators
# ---------------------------------------------------------------------------

def gen_rls(ctx):
    rng = ctx.rng
    thorough = ctx.tier == 'thorough'
    cases = []
    dist = {'sorted': 0, 'unsorted': 0, 'all_but_one': 0, 'empty': 0, 'elim_rows': 0, 'rectangular': 0,
            'scalar_values': 0, 'scalar_b': 0, 'sparse': 0, 'dense': 0, 'tuple_or_list': 0}

    def one(n, kind):
        m = n
        er = None
        if kind == 'empty':
            idx = []
        elif kind == 'all_but_one':
            idx = rng.sample(range(n), n - 1)
        else:
            idx = rng.sample(range(n), rng.randint(1, max(1, n - 1)))
        if kind == 'sorted':
            idx = sorted(idx)
        elif kind == 'unsorted' and len(idx) >= 2:
            while idx == sorted(idx):
                rng.shuffle(idx)
        if kind in ('elim_rows', 'rectangular'):
            if kind == 'rectangular':
                m = max(1, n + rng.choice([-2, -1, 1, 2]))
            ner = len(idx) if rng.random() < 0.7 else rng.randint(0, m)
            er = rng.sample(range(m), min(m, ner))
        # diagonally dominant integer matrix => the square restricted systems are nonsingular
        A = [[rng.randint(-3, 3) if rng.random() < 0.7 else 0 for _ in range(n)] for _ in range(m)]
        for i in range(min(m, n)):
            A[i][i] = 4 * n + rng.randint(0, 3)
        scalar_vals = rng.random() < 0.15
        values = rng.randint(-5, 5) if scalar_vals else [rng.randint(-9, 9) for _ in idx]
        vlist = [values] * len(idx) if scalar_vals else values
        # a full vector with the prescribed values; b agrees with A x on the non-eliminated rows
        # and is arbitrary on the eliminated ones, so that the restricted system has the integer
        # solution x|free while the eliminated equations do NOT hold
        x = [rng.randint(-6, 6) for _ in range(n)]
        for k, j in enumerate(idx):
            x[j] = vlist[k]
        elim_r = set(er) if er is not None else set(idx)
        scalar_b = rng.random() < 0.12
        if scalar_b:
            b = rng.randint(-2, 2)
        else:
            b = [sum(A[i][j] * x[j] for j in range(n)) + (rng.randint(1, 7) if i in elim_r else 0) for i in range(m)]
            if rng.random() < 0.2:
                b = [rng.randint(-9, 9) for _ in range(m)]
        nfree = n - len(idx)
        free = [j for j in range(n) if j not in set(idx)]
        us = [[x[j] for j in free]] + [[rng.randint(-7, 7) for _ in range(nfree)] for _ in range(2)]
        xs = [[rng.randint(-7, 7) for _ in range(n)] for _ in range(2)]
        fs = [[rng.randint(-7, 7) for _ in range(m)] for _ in range(2)]
        B = A if rng.random() < 0.4 else [[rng.randint(-4, 4) for _ in range(n)] for _ in range(m)]
        fmt = rng.choice(['dense', 'csr', 'csr', 'csc', 'coo'])
        idx_type = 'array'
        if not scalar_vals and rng.random() < 0.25:
            idx_type = rng.choice(['tuple', 'list'])
        c = {'A': A, 'n': n, 'm': m, 'fmt': fmt, 'fmtB': rng.choice(['dense', 'csr', 'csc']), 'b': b, 'indices': idx,
             'idx_type': idx_type, 'values': values, 'elim_rows': er, 'er_type': rng.choice(['list', 'array']),
             'xs': xs, 'fs': fs, 'us': us, 'B': B, 'kind': kind}
        cases.append(c)
        dist[kind] += 1
        dist['scalar_values'] += scalar_vals
        dist['scalar_b'] += scalar_b
        dist['dense' if fmt == 'dense' else 'sparse'] += 1
        dist['tuple_or_list'] += idx_type != 'array'

    # the input of DESIGN section 5 first
    cases.append({'A': [[9, 1, 0, 2, 1], [1, 9, 2, 0, 3], [0, 2, 9, 1, 0], [2, 0, 1, 9, 2], [1, 3, 0, 2, 9]], 'n': 5, 'm': 5,
                  'fmt': 'csr', 'fmtB': 'csr', 'b': [1, 2, 3, 4, 5], 'indices': [3, 0], 'idx_type': 'array', 'values': [10, 20],
                  'elim_rows': None, 'er_type': 'list', 'xs': [[1, 2, 3, 4, 5]], 'fs': [[5, 4, 3, 2, 1]], 'us': [[0, 0, 0], [1, -2, 3]],
                  'B': [[1, 0, 0, 0, 0], [0, 1, 0, 0, 0], [0, 0, 1, 0, 0], [0, 0, 0, 1, 0], [0, 0, 0, 0, 1]], 'kind': 'unsorted'})
    dist['unsorted'] += 1
    # all orders of small index sets
    for n in (3, 4):
        for k in (2, 3):
            for sub in itertools.combinations(range(n), k):
                for perm in itertools.permutations(sub):
                    _fixed_order(cases, dist, rng, n, list(perm))
    reps = 1200 if thorough else 150
    for _ in range(reps):
        kind = rng.choice(['sorted', 'unsorted', 'unsorted', 'unsorted', 'all_but_one', 'empty', 'elim_rows', 'elim_rows', 'rectangular'])
        one(rng.randint(2, 9 if thorough else 7), kind)
    return cases, dist


def _fixed_order(cases, dist, rng, n, idx):
    A = [[rng.randint(-3, 3) for _ in range(n)] for _ in range(n)]
    for i in range(n):
        A[i][i] = 4 * n + 1
    values = [rng.randint(-9, 9) for _ in idx]
    x = [rng.randint(-6, 6) for _ in range(n)]
    for k, j in enumerate(idx):
        x[j] = values[k]
    b = [sum(A[i][j] * x[j] for j in range(n)) + (3 if i in idx else 0) for i in range(n)]
    free = [j for j in range(n) if j not in idx]
    kind = 'sorted' if idx == sorted(idx) else 'unsorted'
    cases.append({'A': A, 'n': n, 'm': n, 'fmt': 'csr', 'fmtB': 'csr', 'b': b, 'indices': idx, 'idx_type': 'array',
                  'values': values, 'elim_rows': None, 'er_type': 'list', 'xs': [x], 'fs': [b],
                  'us': [[x[j] for j in free]], 'B': A, 'kind': kind})
    dist[kind] += 1


def check_rls_property(c, r):
    """The property evaluated on the implementation's outputs, exactly.  Returns None or
    (signature-tag, description)."""
    if r['status'] != 'Ok':
        return ('raises-' + r['status'], 'RestrictedLinearSystem raised %s (%s) on a valid input' % (r['status'], r.get('msg', '')))
    n, m, idx = c['n'], c['m'], c['indices']
    vlist = c['values'] if isinstance(c['values'], list) else [c['values']] * len(idx)
    blist = c['b'] if isinstance(c['b'], list) else [c['b']] * m
    A = c['A']
    try:
        Ar = [[to_frac(x) for x in row] for row in r['A']]
        br = [to_frac(x) for x in r['b']]
        E = [[to_frac(x) for x in row] for row in r['E']]
        c0 = [to_frac(x) for x in r['c0']]
    except Exception as e:  # noqa
        return ('bad-output', 'unreadable output: %s' % e)
    nfree = n - len(idx)
    elim_rows = set(c['elim_rows']) if c['elim_rows'] is not None else set(idx)
    nrows = m - len(elim_rows)
    if r['A_shape'] != [nrows, nfree] or len(br) != nrows:
        return ('shape', 'restricted system has shape %s, rhs %d; expected %d x %d' % (r['A_shape'], len(br), nrows, nfree))
    if len(c0) != n or any(len(e) != n for e in E):
        return ('shape', 'extend/complete return vectors of the wrong length')
    # mutual consistency on the integer test vectors
    for u, ext, comp in zip(c['us'], r['extend'], r['complete']):
        ext = [to_frac(v) for v in ext]
        comp = [to_frac(v) for v in comp]
        aff = [sum(E[k][j] * u[k] for k in range(nfree)) + c0[j] for j in range(n)]
        if comp != aff:
            return ('complete-not-affine', 'complete(u) != extend(u) + complete(0) for u=%s' % u)
        if [sum(E[k][j] * u[k] for k in range(nfree)) for j in range(n)] != ext:
            return ('extend-not-linear', 'extend(u) is not the linear map given by extend(e_k), u=%s' % u)
    # the driver's restrict is applied to xs only; restrict(extend(u)) = u is checked through E:
    # restrict(x) for x = extend(e_k) needs another call, so use the structure: E must be a 0/1
    # selection with E[k] having its single 1 at the k-th free dof in increasing order
    free = [j for j in range(n) if j not in set(idx)]
    for k in range(nfree):
        if E[k] != [Fraction(1) if j == free[k] else Fraction(0) for j in range(n)]:
            return ('extend', 'extend(e_%d) = %s is not the unit vector of free dof %d' % (k, [str(v) for v in E[k]], free[k]))
    for x, rx in zip(c['xs'], r['restrict']):
        if [to_frac(v) for v in rx] != [Fraction(x[j]) for j in free]:
            return ('restrict', 'restrict(x) does not list the free dofs of x in increasing order, x=%s' % x)
    rows = [i for i in range(m) if i not in elim_rows]
    for f, rf in zip(c['fs'], r['restrict_rhs']):
        if [to_frac(v) for v in rf] != [Fraction(f[i]) for i in rows]:
            return ('restrict_rhs', 'restrict_rhs(f) does not list the non-eliminated rows of f, f=%s' % f)
    RB = [[to_frac(v) for v in row] for row in r['restrict_matrix']]
    expRB = [[Fraction(c['B'][i][j]) for j in free] for i in rows]
    if nfree and nrows and RB != expRB:
        return ('restrict_matrix', 'restrict_matrix(B) is not B[non-eliminated rows][:, free dofs]')
    # prescribed values: complete(u) at constrained dofs, for every u (c0 carries them)
    for k, j in enumerate(idx):
        if c0[j] != vlist[k]:
            return ('prescribed', 'complete(u)[%d] = %s but dof %d was prescribed the value %s (indices=%s, values=%s)' % (
                j, c0[j], j, vlist[k], idx, vlist))
    # solve the implementation's restricted system exactly and complete the solution
    if nfree == 0 or nrows == 0:
        return None
    u = solve_exact(Ar, br)
    if u is None:
        return 'vacuous'
    xfull = [sum(E[k][j] * u[k] for k in range(nfree)) + c0[j] for j in range(n)]
    for i in rows:
        lhs = sum(Fraction(A[i][j]) * xfull[j] for j in range(n))
        if lhs != blist[i]:
            return ('equation', 'row %d of A x = b fails for x = complete(solution of the restricted system): %s != %s '
                    '(indices=%s, elim_rows=%s)' % (i, lhs, blist[i], idx, c['elim_rows']))
    return None


def coq_rls_case(c, r):
    return ('RC %s %d %s %s %s %s %s %s %s %s %s %s %s %s %s %s %s' % (
        zll(c['A']), c['n'], csv(c['b']), nl(c['indices']), csv(c['values']), copt(c['elim_rows'], nl),
        zll(c['xs']), zll(c['fs']), zll(c['us']), zll(c['B']),
        zll(r['A']), zl(r['b']), zll(r['restrict']), zll(r['restrict_rhs']), zll(r['extend']), zll(r['complete']),
        zll(r['restrict_matrix'])))


def all_ints(r):
    def walk(o):
        if isinstance(o, list):
            return all(walk(x) for x in o)
        return is_int(o)
    return all(walk(r[k]) for k in ('A', 'b', 'restrict', 'restrict_rhs', 'extend', 'complete', 'restrict_matrix'))


def gen_slices(ctx):
    thorough = ctx.tier == 'thorough'
    rng = ctx.rng
    cases = []
    mx = 4 if thorough else 3
    for dim in (1, 2, 3):
        for shape in itertools.product(range(1, mx + 1), repeat=dim):
            if dim == 3 and not thorough and rng.random() < 0.5:
                continue
            for ax in range(dim):
                n = shape[ax]
                flips = [None] + [list(f) for f in itertools.product([False, True], repeat=dim - 1)]
                for idx in range(-n - 1, n + 1):
                    for flip in flips:
                        valid = -n <= idx < n
                        cases.append({'ax': ax, 'idx': idx, 'shape': list(shape), 'flip': flip, 'ravel': True, 'valid': valid})
                        if valid and (flip is None or rng.random() < 0.3):
                            cases.append({'ax': ax, 'idx': idx, 'shape': list(shape), 'flip': flip, 'ravel': False, 'valid': True})
    return cases


def gen_bdofs(ctx):
    rng = ctx.rng
    cases = []
    specs = ['left', 'right', 'bottom', 'top', 'front', 'back', 'middle']
    for dim in (1, 2, 3):
        for _ in range(6 if ctx.tier == 'quick' else 30):
            kvs = [[rng.randint(1, 3), rng.randint(1, 4), 0, 1] for _ in range(dim)]
            pairs = [[ax, s] for ax in range(-1, dim + 1) for s in (-1, 0, 1, 2)]
            for bs in specs + pairs:
                flip = None if rng.random() < 0.5 else [rng.random() < 0.5 for _ in range(dim - 1)]
                cases.append({'kvs': kvs, 'bdspec': bs, 'flip': flip})
    for dim in (2, 3):
        for _ in range(2 if ctx.tier == 'quick' else 10):
            fam = knot_family(rng.randint(2, 3), rng.randint(2, 4))
            kvs = [rng.choice(fam) for _ in range(dim)]
            for bs in ['left', 'right', 'bottom', 'top'] + [[ax, s] for ax in range(dim) for s in (0, 1)]:
                cases.append({'kvs': kvs, 'bdspec': bs, 'flip': None})
    return cases


GEOS2 = [{'name': 'identity'}, {'name': 'affine', 'scale': [2.0, 0.5], 'shift': [1.0, -0.25]}, {'name': 'annulus'},
         {'name': 'bspline_annulus'}]
GEOS3 = [{'name': 'identity'}, {'name': 'affine', 'scale': [0.5, 2.0, 1.5], 'shift': [0.25, 1.0, -1.0]}, {'name': 'twisted_box'}]
GS = ['one', 'lin', 'quad', 'cub', 'vec2', 'vec3', 1.5, -2, 0]


def spec_p(s):
    return s['p'] if isinstance(s, dict) else s[0]


def spec_numdofs(s):
    return len(s['knots']) - s['p'] - 1 if isinstance(s, dict) else s[0] + s[1]


def spec_numspans(s):
    return len(set(s['knots'])) - 1 if isinstance(s, dict) else s[1]


def spec_support(s):
    return (s['knots'][0], s['knots'][-1]) if isinstance(s, dict) else (s[2], s[3])


def knot_family(p, ninner, a=0.0, b=1.0):
    """Different open knot vectors with the SAME degree, number of dofs (p+1+ninner) and interval:
    uniform, graded towards a, graded towards b, one knot moved, and (p >= 2) doubled interior knots."""
    h = b - a
    def mk(inner):
        return {'p': p, 'knots': [a] * (p + 1) + [float(t) for t in inner] + [b] * (p + 1)}
    fam = [mk([a + h * k / (ninner + 1) for k in range(1, ninner + 1)]),
           mk([a + h * (k / (ninner + 1)) ** 2 for k in range(1, ninner + 1)]),
           mk([b - h * ((ninner + 1 - k) / (ninner + 1)) ** 2 for k in range(1, ninner + 1)]),
           mk([a + h * (k + (0.5 if k == 1 else 0)) / (ninner + 2) for k in range(1, ninner + 1)])]
    if p >= 2 and ninner >= 2:
        nd = ninner // 2
        dbl = [a + h * k / (nd + 1) for k in range(1, nd + 1) for _ in (0, 1)]
        if ninner % 2:
            dbl = sorted(dbl + [a + h * (nd + 0.5) / (nd + 1)])
        fam.append(mk(dbl))
    return fam


def gen_bc_aniso(ctx):
    """Anisotropic spaces: the directions have equal degree, equal number of dofs and the same interval but
    DIFFERENT knots (graded, moved, repeated interior knots); every face on its own and the 'all' shorthand,
    non-constant scalar and vector data.  All cases run in one driver process, one after the other."""
    rng = ctx.rng
    cases = []
    reps = 12 if ctx.tier == 'thorough' else 2
    for dim, geos in ((2, [{'name': 'identity'}, {'name': 'annulus'}]), (3, [{'name': 'identity'}, {'name': 'twisted_box'}])):
        faces = [[ax, s] for ax in range(dim) for s in (0, 1)]
        for geo in geos:
            for _ in range(reps):
                pdeg = rng.choice([2, 2, 3, 3, 1])      # (degree 1: the Greville collocation matrix is the identity)
                fam = knot_family(pdeg, rng.randint(2, 4 if dim == 2 else 3))
                kvs = rng.sample(fam, dim)
                for order in (kvs, kvs[::-1]):
                    g = rng.choice(['quad', 'cub', 'vec2', 'lin'])
                    cases.append({'kvs': order, 'geo': geo, 'call': 'all', 'conds': [[f, g] for f in faces]})
                    for f in faces:
                        cases.append({'kvs': order, 'geo': geo, 'call': 'one', 'conds': [[f, rng.choice(['quad', 'cub', 'vec3'])]]})
    return cases


def rand_kvs(rng, dim, mx=4):
    return [[rng.randint(1, 3), rng.randint(1, mx), 0, 1] for _ in range(dim)]


def gen_bc_3d_faces():
    """Deterministic block: 3-D patches with pairwise different numbers of dofs per direction (n0 != n1 != n2), every
    one of the 6 faces on its own and the 'all' shorthand, data that is not symmetric under any exchange of
    coordinates ('lin' = 1 + 2x - y/2 + z/4, 'cub', vector data).  check_local_bc evaluates 'the values interpolate
    the data on the physical face' dof by dof, so an enumeration of a face that is transposed against
    dircoeffs.ravel() (e.g. the faces normal to the last axis) is reported with the face and space as failing input."""
    cases = []
    faces = [[ax, s] for ax in range(3) for s in (0, 1)]
    for kvs in ([[2, 1, 0, 1], [2, 2, 0, 1], [2, 3, 0, 1]], [[1, 3, 0, 1], [3, 2, 0, 1], [2, 1, 0, 1]]):
        for geo in ({'name': 'identity'}, GEOS3[1]):
            for f in faces:
                for g in ('lin', 'cub', 'vec2'):
                    cases.append({'kvs': kvs, 'geo': geo, 'call': 'one', 'conds': [[f, g]]})
            cases.append({'kvs': kvs, 'geo': geo, 'call': 'all', 'conds': [[f, 'lin'] for f in faces]})
    return cases


def gen_bc(ctx):
    rng = ctx.rng
    cases = gen_bc_3d_faces()
    reps = 40 if ctx.tier == 'thorough' else 5
    for dim, geos in ((2, GEOS2), (3, GEOS3)):
        faces = [[ax, s] for ax in range(dim) for s in (0, 1)]
        names = ['left', 'right', 'bottom', 'top'] + (['front', 'back'] if dim == 3 else [])
        for geo in geos:
            for _ in range(reps):
                kvs = rand_kvs(rng, dim, 4 if dim == 2 else 3)
                # every face on its own, every kind of data over the run
                for f in faces:
                    cases.append({'kvs': kvs, 'geo': geo, 'call': 'one', 'conds': [[rng.choice([f, names[(dim - 1 - f[0]) * 2 + f[1]]]), rng.choice(GS)]]})
                g = rng.choice(GS)
                cases.append({'kvs': kvs, 'geo': geo, 'call': 'all', 'conds': [[f, g] for f in faces]})
                k = rng.randint(1, 4)
                conds = [[rng.choice(faces + names), rng.choice(GS)] for _ in range(k)]
                # combine_bcs needs equal kinds only in so far as index/value shapes agree: any mix is fine
                cases.append({'kvs': kvs, 'geo': geo, 'call': 'list', 'conds': conds})
    return cases


def gen_bc1d(ctx):
    """1-D spaces: the face is a point."""
    rng = ctx.rng
    cases = []
    for _ in range(4 if ctx.tier == 'quick' else 20):
        kvs = [[rng.randint(1, 3), rng.randint(1, 4), 0, 1]]
        for f in ([0, 0], [0, 1], 'left', 'right'):
            cases.append({'kvs': kvs, 'geo': {'name': 'identity'}, 'call': 'one', 'conds': [[f, rng.choice(['lin', 'quad', 2.5])]]})
        cases.append({'kvs': kvs, 'geo': {'name': 'identity'}, 'call': 'all', 'conds': [[[0, 0], 'lin'], [[0, 1], 'lin']]})
    return cases


def gen_combine(ctx):
    rng = ctx.rng
    cases = []
    for _ in range(60 if ctx.tier == 'quick' else 600):
        nb = rng.randint(1, 4)
        bcs = []
        for _b in range(nb):
            k = rng.randint(0, 6)
            idx = [rng.randint(0, 12) for _ in range(k)]       # duplicates within and across conditions
            vals = [rng.randint(-20, 20) / 4.0 for _ in range(k)]
            bcs.append([idx, vals])
        if not any(b[0] for b in bcs):
            bcs[0] = [[3], [1.0]]
        cases.append({'bcs': bcs, 'generator': rng.random() < 0.5})
    return cases


def gen_dropnans(ctx):
    rng = ctx.rng
    cases = []
    for _ in range(40 if ctx.tier == 'quick' else 400):
        k = rng.randint(0, 8)
        idx = [rng.randint(0, 30) for _ in range(k)]
        pn = rng.choice([0.0, 0.3, 1.0])
        vals = [None if rng.random() < pn else rng.randint(-20, 20) / 4.0 for _ in range(k)]
        cases.append({'idx': idx, 'vals': vals})
    return cases


def gen_ic(ctx):
    rng = ctx.rng
    cases = []
    for _ in range(8 if ctx.tier == 'quick' else 60):
        dim = rng.choice([2, 2, 3])
        # time intervals other than [0,1] as well
        iv = rng.choice([(0, 1), (0, 1), (2, 3), (0, 2), (-1, 1), (1, 5)])
        tax = rng.randrange(dim)
        kvs = []
        for a in range(dim):
            if a == tax:
                kvs.append([rng.randint(1, 3), rng.randint(1, 4), iv[0], iv[1]])
            else:
                kvs.append([rng.randint(1, 3), rng.randint(1, 3), 0, 1])
        for side in (0, 1):
            cases.append({'kvs': kvs, 'geo': {'name': 'identity'}, 'bdspec': [tax, side],
                          'g0': rng.choice(['one', 'lin', 'quad', 'cub']), 'g1': rng.choice(['one', 'lin', 'quad'])})
    # equal degree / size / interval in all directions, different knots
    for _ in range(3 if ctx.tier == 'quick' else 20):
        dim = rng.choice([2, 3])
        iv = rng.choice([(0, 1), (2, 3)])
        fam = knot_family(rng.randint(2, 3), rng.randint(2, 3), float(iv[0]), float(iv[1]))   # degree 1: collocation = identity
        kvs = rng.sample(fam, dim)
        for tax in range(dim):
            cases.append({'kvs': kvs, 'geo': {'name': 'identity'}, 'bdspec': [tax, rng.randint(0, 1)],
                          'g0': rng.choice(['quad', 'cub']), 'g1': rng.choice(['lin', 'quad'])})
    return cases


def gen_mp(ctx):
    rng = ctx.rng
    cases = []
    for _ in range(6 if ctx.tier == 'quick' else 50):
        # two or three patches in a row (x direction), equal spaces
        kv = rand_kvs(rng, 2, 3)
        npatch = rng.choice([2, 3])
        geos = [{'name': 'affine', 'scale': [1.0, 1.0], 'shift': [float(p), 0.0]} for p in range(npatch)]
        joins = [[p, 'right', p + 1, 'left', None] for p in range(npatch - 1)]
        if rng.random() < 0.5:
            joins.reverse()
        conds = []
        for _c in range(rng.randint(1, 5)):
            conds.append([rng.randrange(npatch), rng.choice(['left', 'right', 'bottom', 'top', [0, 0], [0, 1], [1, 0], [1, 1]]),
                          rng.choice(['one', 'lin', 'quad', 1.5])])
        cases.append({'kvs': [kv] * npatch, 'geos': geos, 'joins': joins, 'conds': conds})
        # a patch re-appears after conditions for another patch (walking around the domain)
        g = rng.choice(['lin', 'quad'])
        cases.append({'kvs': [kv] * npatch, 'geos': geos, 'joins': joins,
                      'conds': [[0, 'bottom', g], [1, 'bottom', g], [0, 'left', g], [npatch - 1, 'right', 1.5], [0, 'top', g], [1, [0, 1], g]]})
    return cases


# ---------------------------------------------------------------------------
# oracles for the boundary-condition functions
# ---------------------------------------------------------------------------

def kv_shape(kvs):
    return [spec_numdofs(k) for k in kvs]


def check_local_bc(kvdata, shape, bs, g, lidx, lvals, faces):
    """One compute_dirichlet_bc result against the property: indices are the face dofs exactly once
    (blocked for vector data) and the values interpolate g on the physical face."""
    dim = len(shape)
    pa = parse_bdspec_oracle(bs, dim)
    if pa is None:
        return ('accepts-invalid-bdspec', 'compute_dirichlet_bc accepted the invalid bdspec %r' % (bs,)), Fraction(0)
    ax, side = pa
    nc, comps = gcomps(g)
    NN = prod(shape)
    fs = sorted(face_set(shape, ax, 0 if side == 0 else shape[ax] - 1))
    exp = fs if nc is None else [i + j * NN for j in range(nc) for i in fs]
    if len(lidx) != len(set(lidx)):
        return ('dof-twice', 'a dof is returned more than once for face %r' % (bs,)), Fraction(0)
    if sorted(lidx) != exp:
        return ('wrong-dofs', 'face %r of shape %s: returned dofs %s, expected %s' % (bs, shape, sorted(lidx)[:20], exp[:20])), Fraction(0)
    if len(lvals) != len(lidx):
        return ('lengths', 'indices and values differ in length'), Fraction(0)
    val = {i: Fraction(float.fromhex(v)) for i, v in zip(lidx, lvals)}
    F = faces['%d,%d' % (ax, side)]
    axes = [a for a in range(dim) if a != ax]
    knots = [[Fraction(t) for t in kvdata[a]['knots']] for a in axes]
    colloc = [[bspline_basis(kvdata[a]['p'], kn, Fraction(t)) for t in nodes] for a, kn, nodes in zip(axes, knots, F['nodes'])]
    fshape = [shape[a] for a in axes]
    worst = Fraction(0)
    for comp in range(nc or 1):
        gv = [comps[comp]([Fraction(x) for x in P]) for P in F['pts']]
        scale = max([Fraction(1)] + [abs(v) for v in gv])
        for q, nmi in enumerate(itertools.product(*[range(n) for n in fshape])):
            s = Fraction(0)
            for cmi in itertools.product(*[range(n) for n in fshape]):
                w = Fraction(1)
                for d in range(len(fshape)):
                    w *= colloc[d][nmi[d]][cmi[d]]
                    if w == 0:
                        break
                if w == 0:
                    continue
                full = list(cmi)
                full.insert(ax, 0 if side == 0 else shape[ax] - 1)
                s += w * val[ravel(shape, full) + comp * NN]
            err = abs(s - gv[q]) / scale
            worst = max(worst, err)
            if err > INTERP_TOL:
                return ('not-interpolating', 'face %r: interpolant at Greville node %s is %s, boundary data there is %s '
                        '(component %d)' % (bs, list(nmi), float(s), float(gv[q]), comp)), worst
    return None, worst


def combine_oracle(parts):   # (unused by the checks; kept for replay inspection)
    """(sorted unique indices, value of the first occurrence)"""
    first = {}
    for idx, vals in parts:
        for i, v in zip(idx, vals):
            first.setdefault(i, v)
    ks = sorted(first)
    return ks, [first[k] for k in ks]


def one_value_per_dof(parts, idx, vals):
    """The property for a combination: every dof of the input exactly once (increasing), with one of
    the values given for it.  Returns None or a description."""
    given = {}
    for pidx, pvals in parts:
        for i, v in zip(pidx, pvals):
            given.setdefault(i, set()).add(float.fromhex(v) if isinstance(v, str) else float(v))
    if len(idx) != len(vals):
        return 'indices and values differ in length'
    if idx != sorted(given):
        return 'dofs %s returned, the conditions constrain %s' % (idx[:30], sorted(given)[:30])
    for i, v in zip(idx, vals):
        v = float.fromhex(v) if isinstance(v, str) else float(v)
        if v not in given[i]:
            return 'dof %d gets the value %r which none of the conditions gives it (%s)' % (i, v, sorted(given[i]))
    return None


def vids_of(parts, extra):
    """dense ids of float values (hex strings): equal floats <-> equal ids"""
    ids = {}
    for vals in parts:
        for v in vals:
            ids.setdefault(float.fromhex(v) if isinstance(v, str) else float(v), len(ids) + 1)
    def f(v):
        return ids.get(float.fromhex(v) if isinstance(v, str) else float(v), 0)
    return [[f(v) for v in vals] for vals in parts], [f(v) for v in extra]


# ---------------------------------------------------------------------------

def run_case_files(ctx, prefix, header, okname, texts, chunk=250, ctype='ctype'):
    """texts: list of Coq terms (one per case).  Returns indices of disagreeing cases."""
    files = []
    spans = []
    for n, i in enumerate(range(0, len(texts), chunk)):
        part = texts[i:i + chunk]
        body = header + 'Definition cases : list %s := [\n' % ctype + ';\n'.join(part) + '].\nEval vm_compute in bad %s 0 cases.\n' % okname
        files.append(('C10_%s_%03d' % (prefix, n), body))
        spans.append(i)
    badidx = []
    for (name, ok, out), base in zip(ctx.coq_eval_many(files), spans):
        ctx.obligations += 1
        b = parse_coq_list_of_nat(out) if ok else None
        if not ok or b is None:
            ctx.broken.append('case file %s did not evaluate: %s' % (name, out[-600:]))
            continue
        ctx.discharged += 1
        badidx += [base + k for k in b]
    return badidx


def run(ctx):
    ctx.obligations_stage(PROPS, extra_targets=['C10/Examples.vo'], gate_dirs=['C02', 'C14'])
    ctx.obligations_stage('C10/Props2.v', extra_targets=['C10/Examples2.vo'])
    ctx.assumptions += [
        'model: hand transcription of RestrictedLinearSystem, slice_indices/boundary_dofs/boundary_cells, _parse_bdspec, '
        'combine_bcs, _drop_nans, the index parts of compute_dirichlet_bc(s)/compute_initial_condition_01 and of '
        'Multipatch.compute_dirichlet_bcs into Gallina (coq/C10/Model.v, coq/lib/Slice.v); I[mask] row selection and its '
        'transpose are modelled by compress/expand, np.argsort by a stable insertion sort, np.unique by filtering a range',
        'model includes the repairs 14223d2 (values[np.argsort(indices)]; the unrepaired line is refuted) and 0cee539 (time basis at the end '
        'points of the knot vector); Model_ic.ic_coeffs = exact active_deriv (lib/Bsp.v, proved against Cox-de Boor in C02) + exact 2x2 solve, '
        'tied to the implementation within IC_SOLVE_TOL = 2^-44 (1+|g0|+|g1|/c); the multipatch loop (with its cache) is Model.mp_compute_dirichlet_bcs '
        'evaluated on the numbering recomputed by C14\'s model from the joins',
        'theorems are over commutative rings with Leibniz equality (Z, Qc); binary64 rounding of A.dot is not modelled: the tie '
        'uses integer data, for which the implementation computes exactly',
        'tie: exact comparison (Z / nat, vm_compute) of A, b, restrict, restrict_rhs, extend, complete, restrict_matrix and of all '
        'index arrays; values of boundary conditions are compared bit-for-bit where they are copies (combine_bcs, multipatch) '
        'and within INTERP_TOL=1e-11*max(1,|g|) where they come from LU solves (interpolation)',
        'not modelled: interpolate() itself (C17), geometry evaluation (C07), B-spline evaluation (C02): the value oracle uses '
        'an own exact Cox-de Boor evaluation and the geometry map evaluated by the implementation on the full patch',
    ]
    P, dist = gen_all(ctx)
    log('[C10] cases: ' + ' '.join('%s=%d' % (k, len(v)) for k, v in P.items()))
    res = ctx.impl.run('harness/impl/c10_driver.py', P, timeout=2400, extra_env=DRIVER_ENV)
    process(ctx, P, res, dist)
    ctx.sample({'rls': {k: P['rls'][0][k] for k in ('A', 'b', 'indices', 'values')}, 'impl_complete': res['rls'][0].get('complete')})
    ctx.sample({'bc': P['bc'][0], 'impl_idx': res['bc'][0].get('idx')})
    return ctx.finish()


# the systems are tiny: BLAS/OpenMP thread pools only cost time
DRIVER_ENV = {'OMP_NUM_THREADS': '1', 'OPENBLAS_NUM_THREADS': '1', 'MKL_NUM_THREADS': '1'}
FAMILIES = ('rls', 'slices', 'bdofs', 'bc', 'combine', 'dropnans', 'ic', 'mp')


def gen_all(ctx):
    rls, dist = gen_rls(ctx)
    P = {'rls': rls, 'slices': gen_slices(ctx), 'bdofs': gen_bdofs(ctx), 'bc': gen_bc(ctx) + gen_bc1d(ctx) + gen_bc_aniso(ctx),
         'combine': gen_combine(ctx), 'dropnans': gen_dropnans(ctx), 'ic': gen_ic(ctx), 'mp': gen_mp(ctx)}
    return P, dist


def replay(ctx, data):
    """./check C10 --replay evidence/replay/C10-n.json: run the recorded input alone."""
    ctx.obligations_stage(PROPS, extra_targets=['C10/Examples.vo'], gate_dirs=['C02', 'C14'])
    ctx.obligations_stage('C10/Props2.v', extra_targets=['C10/Examples2.vo'])
    sig = data.get('signature', '')
    case = (data.get('replay') or {}).get('case')
    fam = None
    for key, f in (('rls', 'rls'), ('slice', 'slices'), ('bdspec', 'bdofs'), ('bdofs', 'bdofs'), ('bcells', 'bdofs'), (':bcs:', 'bc'),
                   (':bc:', 'bc'), ('combine', 'combine'), ('dropnans', 'dropnans'), (':ic', 'ic'), (':mp', 'mp')):
        if key in sig:
            fam = f
            break
    if case is None or fam is None:
        ctx.broken.append('replay file has no input (signature %s): %s' % (sig, data.get('what', '')[:300]))
        return ctx.finish()
    P = {f: [] for f in FAMILIES}
    P[fam] = [case]
    res = ctx.impl.run('harness/impl/c10_driver.py', P, timeout=1200, extra_env=DRIVER_ENV)
    process(ctx, P, res, {})
    return ctx.finish()


def process(ctx, P, res, dist):
    thorough = ctx.tier == 'thorough'
    rls, slices, bdofs, allbc, comb, dn, ic, mp = (P[f] for f in FAMILIES)
    ndis = 0
    worst = Fraction(0)

    # ------------------------------------------------------------------ RestrictedLinearSystem
    nfail = 0
    texts, owners = [], []
    for k, (c, r) in enumerate(zip(rls, res['rls'])):
        ctx.count(('rls', c['A'], c['indices'], c['values'], c['elim_rows']), nontrivial=len(c['indices']) >= 1)
        bad = check_rls_property(c, r)
        if bad == 'vacuous':
            bad = None
        if bad:
            nfail += 1
            order = 'sorted' if c['indices'] == sorted(c['indices']) else 'unsorted'
            sig = 'impl:rls:%s:%s%s' % (bad[0], order, ':elim_rows' if c['elim_rows'] is not None else '')
            ctx.report(sig, bad[1], {'case': c, 'impl': r, 'how': 'RestrictedLinearSystem(A, b, (indices, values), elim_rows); '
                                     'solve LS.A u = LS.b exactly; x = LS.complete(u)'})
        if r['status'] == 'Ok' and all_ints(r):
            texts.append(coq_rls_case(c, r))
            owners.append(k)
        elif r['status'] == 'Ok':
            ctx.broken.append('RestrictedLinearSystem returned non-integer data for integer input (case %d)' % k)
    for b in run_case_files(ctx, 'rls', HEADER_RLS, 'ok', texts, 150):
        k = owners[b]
        ndis += 1
        c, r = rls[k], res['rls'][k]
        bad = check_rls_property(c, r)
        ctx.broken.append('correspondence C10 model<->impl (RestrictedLinearSystem) differs on case #%d' % k)
        if not bad or bad == 'vacuous':
            ctx.report('tie:rls:%s' % c['kind'], 'model and implementation of RestrictedLinearSystem differ (the property oracle '
                       'does not fail on this input)', {'case': c, 'impl': r}, found_input=False)
    ctx.cov['rls_property_failures_on_impl'] = nfail
    # self-test of the differ: a case whose recorded implementation output is perturbed must be flagged
    if texts:
        k = owners[0]
        r2 = dict(res['rls'][k])
        r2['complete'] = [[v + 1 for v in row] for row in r2['complete']]
        flagged = run_case_files(ctx, 'selftest', HEADER_RLS, 'ok', [coq_rls_case(rls[k], r2), texts[0]], 150)
        if flagged not in ([0], [0, 1]):
            ctx.broken.append('self-test: a perturbed implementation output was not reported as a disagreement (got %s)' % flagged)
        ctx.cov['differ_selftest'] = 'perturbed case flagged' if flagged and flagged[0] == 0 else 'FAILED'

    # ------------------------------------------------------------------ slices
    texts = []
    for c, r in zip(slices, res['slices']):
        shape, ax = c['shape'], c['ax']
        ctx.count(('slice', shape, ax, c['idx'], c['flip'], c['ravel']), nontrivial=prod(shape) > 1)
        n = shape[ax]
        if c['valid']:
            want = face_set(shape, ax, c['idx'] % n)
            if r['status'] != 'Ok':
                ctx.report('impl:slice:raises', 'slice_indices raised %s for a valid slice' % r['status'], {'case': c, 'impl': r})
            else:
                got = r['out'] if c['ravel'] else [ravel(shape, mi) for mi in r['out']]
                if len(got) != len(set(got)) or set(got) != want:
                    ctx.report('impl:slice:wrong-dofs', 'slice_indices(%d, %d, %s, flip=%s) does not list every dof of the slice exactly once: %s'
                               % (ax, c['idx'], shape, c['flip'], got), {'case': c, 'impl': r})
        # (an index outside the axis is only compared with the model: None <-> the call raises)
        ok = r['status'] == 'Ok'
        e1 = copt(r['out'] if ok and c['ravel'] else None, nl)
        e2 = copt(r['out'] if ok and not c['ravel'] else None, nll)
        texts.append('(%s, %d, %s, %s, %s, %s, %s)' % (cbool(c['ravel']), ax, cz(c['idx']), nl(shape), clist(c['flip'] or [], cbool), e1, e2))
    for b in run_case_files(ctx, 'slice', HEADER_SLICE, 'ok', texts, 300):
        ndis += 1
        ctx.broken.append('correspondence C10 model<->impl (slice_indices) differs on case %s' % slices[b])
        ctx.report('tie:slice', 'model and implementation of slice_indices differ (order of the slice, wrap or flip convention)',
                   {'case': slices[b], 'impl': res['slices'][b]}, found_input=False)

    # ------------------------------------------------------------------ boundary_dofs / boundary_cells
    texts, owners = [], []
    for k, (c, r) in enumerate(zip(bdofs, res['bdofs'])):
        dim = len(c['kvs'])
        shape = kv_shape(c['kvs'])
        cells = [spec_numspans(k) for k in c['kvs']]
        ctx.count(('bdofs', c['kvs'], c['bdspec'], c['flip']))
        pa = parse_bdspec_oracle(c['bdspec'], dim)
        if pa is None:
            if r['status'] == 'Ok':
                ctx.report('impl:bdspec:accepts-invalid', 'boundary_dofs accepted the invalid bdspec %r in dimension %d' % (c['bdspec'], dim),
                           {'case': c, 'impl': r})
        else:
            ax, side = pa
            if r['status'] != 'Ok':
                ctx.report('impl:bdofs:raises', 'boundary_dofs raised %s for the valid bdspec %r' % (r['status'], c['bdspec']), {'case': c, 'impl': r})
            else:
                if r['numdofs'] != shape or r['numspans'] != cells:
                    continue    # knot-vector construction (C19), not this property
                if sorted(r['dofs']) != sorted(face_set(shape, ax, 0 if side == 0 else shape[ax] - 1)) or len(set(r['dofs'])) != len(r['dofs']):
                    ctx.report('impl:bdofs:wrong-dofs', 'boundary_dofs(%r) on %s = %s' % (c['bdspec'], shape, r['dofs']), {'case': c, 'impl': r})
                if sorted(r['cells']) != sorted(face_set(cells, ax, 0 if side == 0 else cells[ax] - 1)):
                    ctx.report('impl:bcells:wrong-cells', 'boundary_cells(%r) on %s = %s' % (c['bdspec'], cells, r['cells']), {'case': c, 'impl': r})
        if c['bdspec'] == 'middle':
            continue    # not a bdspec of the model's type
        ok = r['status'] == 'Ok'
        texts.append('(%s, %s, %s, %s)' % (nl(shape), cbd(c['bdspec']), clist(c['flip'] or [], cbool), copt(r['dofs'] if ok else None, nl)))
        owners.append(k)
        texts.append('(%s, %s, [], %s)' % (nl(cells), cbd(c['bdspec']), copt(r['cells'] if ok else None, nl)))
        owners.append(k)
    for b in run_case_files(ctx, 'bd', HEADER_BD, 'ok', texts, 300):
        ndis += 1
        k = owners[b]
        ctx.broken.append('correspondence C10 model<->impl (boundary_dofs/cells, _parse_bdspec) differs on case %s' % bdofs[k])
        ctx.report('tie:bdofs', 'model and implementation of boundary_dofs/boundary_cells/_parse_bdspec differ',
                   {'case': bdofs[k], 'impl': res['bdofs'][k]}, found_input=False)

    # ------------------------------------------------------------------ compute_dirichlet_bc(s)
    texts, owners = [], []
    for k, (c, r) in enumerate(zip(allbc, res['bc'])):
        dim = len(c['kvs'])
        shape = kv_shape(c['kvs'])
        ctx.count(('bc', c['kvs'], c['geo']['name'], c['call'], c['conds']))
        tag = '%dd' % dim
        if r['status'] != 'Ok':
            ctx.report('impl:bc:raises-%s:%s' % (r['status'], tag), 'compute_dirichlet_bc%s raised %s (%s) for valid faces of a %d-D space'
                       % ('' if c['call'] == 'one' else 's', r['status'], r.get('msg', ''), dim), {'case': c, 'impl': r})
            continue
        if r['numdofs'] != shape:
            continue
        failed = False
        for (bs, g), (lidx, lvals) in zip(c['conds'], r['local']):
            bad, w = check_local_bc(r['kvs'], shape, bs, g, lidx, lvals, r['faces'])
            worst = max(worst, w)
            if bad:
                failed = True
                ctx.report('impl:bc:%s:%s:%s' % (bad[0], tag, c['geo']['name']), bad[1], {'case': c, 'impl': {kk: r[kk] for kk in ('local', 'idx', 'vals')}})
        # combined result: one value per dof (which of several values wins is the model's business)
        why = one_value_per_dof(r['local'], r['idx'], r['vals']) if c['call'] != 'one' else (
            None if (r['idx'], r['vals']) == tuple(r['local'][0]) else 'compute_dirichlet_bc is not deterministic')
        if why:
            failed = True
            ctx.report('impl:bcs:combine:%s' % c['call'], 'compute_dirichlet_bcs does not keep exactly one of the given values per dof of the '
                       'requested faces: ' + why, {'case': c, 'impl': {kk: r[kk] for kk in ('local', 'idx', 'vals')}})
        # the values of the COMBINED result of the 'all' shorthand on every face (same data on all faces)
        if c['call'] == 'all' and not why and not failed:
            comb_val = dict(zip(r['idx'], r['vals']))
            for (bs, g), (lidx, _lv) in zip(c['conds'], r['local']):
                bad, w = check_local_bc(r['kvs'], shape, bs, g, lidx, [comb_val[i] for i in lidx], r['faces'])
                worst = max(worst, w)
                if bad:
                    ctx.report('impl:bcs:all-values:%s:%s:%s' % (bad[0], tag, c['geo']['name']), "compute_dirichlet_bcs(('all', g)): " + bad[1],
                               {'case': c, 'impl': {kk: r[kk] for kk in ('idx', 'vals')}})
        lv, ev = vids_of([l[1] for l in r['local']], r['vals'])
        texts.append('(%s, %s, %s, %s, %s, %s, (%s, %s))' % (
            nl(shape), clist(['(%s, %d)' % (cbd(bs), ncomp_of(g)) for bs, g in c['conds']]), nll([[] for _ in c['conds']]),
            nll([l[0] for l in r['local']]), nl([v for l in lv for v in l]), cbool(c['call'] != 'one'), nl(r['idx']), nl(ev)))
        owners.append(k)
    for b in run_case_files(ctx, 'bc', HEADER_BC, 'ok', texts, 200):
        ndis += 1
        k = owners[b]
        ctx.broken.append('correspondence C10 model<->impl (compute_dirichlet_bc(s) indices/combination) differs on case %s' % allbc[k])
        ctx.report('tie:bc:%s' % allbc[k]['call'], 'model and implementation of compute_dirichlet_bc(s) differ in the index arrays or the combination',
                   {'case': allbc[k], 'impl': {kk: res['bc'][k].get(kk) for kk in ('local', 'idx', 'vals')}}, found_input=False)

    # ------------------------------------------------------------------ combine_bcs, _drop_nans, initial-condition indices
    texts = []
    for c, r in zip(comb, res['combine']):
        ctx.count(('combine', c['bcs']))
        if r['status'] != 'Ok':
            ctx.report('impl:combine:raises', 'combine_bcs raised %s' % r['status'], {'case': c, 'impl': r})
            continue
        why = one_value_per_dof(c['bcs'], r['idx'], r['vals'])
        if why:
            ctx.report('impl:combine:not-one-value-per-dof', 'combine_bcs(%s) = (%s, %s): %s' % (c['bcs'], r['idx'], r['vals'], why),
                       {'case': c, 'impl': r})
        lv, ev = vids_of([b[1] for b in c['bcs']], r['vals'])
        texts.append('(%s, (%s, %s))' % (clist(['(%s, %s)' % (nl(b[0]), nl(v)) for b, v in zip(c['bcs'], lv)]), nl(r['idx']), nl(ev)))
    for b in run_case_files(ctx, 'comb', HEADER_COMB, 'okc', texts, 300, 'ctypec'):
        ndis += 1
        ctx.broken.append('correspondence C10 model<->impl (combine_bcs) differs on %s' % comb[b])
        ctx.report('tie:combine', 'model and implementation of combine_bcs differ', {'case': comb[b], 'impl': res['combine'][b]}, found_input=False)
    texts = []
    for c, r in zip(dn, res['dropnans']):
        ctx.count(('dropnans', c['idx'], c['vals']), nontrivial=any(v is None for v in c['vals']))
        keep = [(i, v) for i, v in zip(c['idx'], c['vals']) if v is not None]
        if r['status'] != 'Ok' or r['idx'] != [i for i, _ in keep] or r['vals'] != [v for _, v in keep]:
            ctx.report('impl:dropnans', '_drop_nans(%s, %s) = %s' % (c['idx'], c['vals'], r), {'case': c, 'impl': r})
            continue
        ids = {}
        for v in c['vals']:
            if v is not None:
                ids.setdefault(v, len(ids) + 1)
        texts.append('(%s, %s, (%s, %s))' % (nl(c['idx']), clist(['None' if v is None else '(Some %d)' % ids[v] for v in c['vals']]),
                                            nl(r['idx']), nl([ids.get(v, 0) for v in r['vals']])))
    for b in run_case_files(ctx, 'dn', HEADER_COMB, 'okd', texts, 300, 'ctyped'):
        ndis += 1
        ctx.broken.append('correspondence C10 model<->impl (_drop_nans) differs')
        ctx.report('tie:dropnans', 'model and implementation of _drop_nans differ', {'case': dn[b]}, found_input=False)

    # ------------------------------------------------------------------ compute_initial_condition_01
    texts = []
    for c, r in zip(ic, res['ic']):
        shape = kv_shape(c['kvs'])
        ax, side = c['bdspec']
        t0, t1 = spec_support(c['kvs'][ax])
        ctx.count(('ic', c['kvs'], c['bdspec'], c['g0'], c['g1']))
        unit = 'unit' if (t0, t1) == (0, 1) else 'general'
        if r['status'] != 'Ok':
            ctx.report('impl:ic:raises-%s:%s-interval' % (r['status'], unit), 'compute_initial_condition_01 raised %s (%s)' % (r['status'], r.get('msg', '')),
                       {'case': c, 'impl': r})
            continue
        if r['numdofs'] != shape:
            continue
        bad, w = check_ic(c, r, shape)
        worst = max(worst, w)
        if bad:
            ctx.report('impl:ic:%s:%s-interval' % (bad[0], unit), bad[1], {'case': c, 'impl': {kk: r[kk] for kk in ('idx', 'vals')}})
        texts.append('(%s, %s, %s)' % (nl(shape), cbd(c['bdspec']), copt(r['idx'], nl)))
    for b in run_case_files(ctx, 'ic', HEADER_COMB, 'oki', texts, 300, 'ctypei'):
        ndis += 1
        ctx.broken.append('correspondence C10 model<->impl (compute_initial_condition_01 indices) differs')
        ctx.report('tie:ic', 'model and implementation of compute_initial_condition_01 differ in the index array', {'case': ic[b]}, found_input=False)

    # the two coefficients per spatial dof against the model of the collocation solve (Model_ic.ic_coeffs)
    texts, owners = [], []
    for k, (c, r) in enumerate(zip(ic, res['ic'])):
        if r['status'] != 'Ok' or 'G0' not in r or any(v != v for v in r['vals']):
            continue
        ax, side = c['bdspec']
        tk = [Fraction(float.fromhex(t)) for t in r['tknots']]
        pdeg = r['tp']
        cc = Fraction(pdeg) / ((tk[pdeg + 1] - tk[0]) if side == 0 else (tk[-1] - tk[len(tk) - pdeg - 2]))
        nface = len(r['G0'])
        if len(r['vals']) != 2 * nface:
            continue
        rows = []
        for sidx in range(nface):
            G0 = Fraction(float.fromhex(r['G0'][sidx]))
            G1 = Fraction(float.fromhex(r['G1'][sidx]))
            bnd = IC_SOLVE_TOL * (1 + abs(G0) + abs(G1) / cc)
            rows.append('(%s, %s, %s, %s, %s)' % (cqq(G0), cqq(G1), cqq(Fraction(r['vals'][sidx])), cqq(Fraction(r['vals'][nface + sidx])), cqq(bnd)))
        texts.append('(%s, %d%%nat, %d%%nat, %s)' % (clist([cqq(t) for t in tk]), pdeg, side, clist(rows)))
        owners.append(k)
    for b in run_case_files(ctx, 'icq', HEADER_ICQ, 'okq', texts, 40, 'ctypeq'):
        ndis += 1
        k = owners[b]
        ctx.broken.append('correspondence C10 model<->impl (collocation solve of compute_initial_condition_01) differs on %s' % ic[k])
        bad, _w = check_ic(ic[k], res['ic'][k], kv_shape(ic[k]['kvs']))
        ctx.report('tie:ic:solve', 'the coefficients of compute_initial_condition_01 differ from the model ic_coeffs by more than IC_SOLVE_TOL'
                   + (': ' + bad[1] if bad else ' (the reproduction oracle does not fail on this input)'),
                   {'case': ic[k], 'impl': {kk: res['ic'][k].get(kk) for kk in ('idx', 'vals', 'G0', 'G1')}}, found_input=bool(bad))

    # ------------------------------------------------------------------ Multipatch.compute_dirichlet_bcs
    texts, owners = [], []
    for k, (c, r) in enumerate(zip(mp, res['mp'])):
        ctx.count(('mp', c['kvs'], c['joins'], c['conds']))
        if r['status'] != 'Ok':
            ctx.report('impl:mp:raises-%s' % r['status'], 'Multipatch.compute_dirichlet_bcs raised %s (%s)' % (r['status'], r.get('msg', '')), {'case': c, 'impl': r})
            continue
        shapes = [kv_shape(kvs) for kvs in c['kvs']]
        if r['shapes'] != shapes:
            continue
        glob = [([r['p2g'][p][i] for i in l[0]], l[1]) for (p, bs, g), l in zip(c['conds'], r['local'])]
        why = one_value_per_dof(glob, r['idx'], r['vals'])
        if why:
            ctx.report('impl:mp:glued-combine', 'Multipatch.compute_dirichlet_bcs does not return every glued dof of the faces once with one of '
                       'its values: ' + why, {'case': c, 'impl': r})
        if any(not (0 <= i < r['numdofs']) for i in r['idx']):
            ctx.report('impl:mp:range', 'global index outside range(numdofs)', {'case': c, 'impl': r})
        lv, ev = vids_of([l[1] for l in r['local']], r['vals'])
        conds = clist(['(%d, (%s, %d), %s, %s)' % (p, cbd(bs), ncomp_of(g), nl(l[0]), nl(v))
                       for (p, bs, g), l, v in zip(c['conds'], r['local'], lv)])
        js = []
        for (p1, b1, p2, b2, flip) in c['joins']:
            a1, s1 = parse_bdspec_oracle(b1, len(shapes[p1]))
            a2, s2 = parse_bdspec_oracle(b2, len(shapes[p2]))
            js.append('C14.Model.mk_bjoin %d %d %d %d %d %d %s' % (p1, a1, s1, p2, a2, s2, clist(flip or [], cbool)))
        texts.append('(%s, %s, %s, %s, (%s, %s))' % (nll(shapes), clist(js), nll(r['p2g']), conds, nl(r['idx']), nl(ev)))
        owners.append(k)
    for b in run_case_files(ctx, 'mp', HEADER_BC, 'okmp', texts, 200, 'ctypemp'):
        ndis += 1
        k = owners[b]
        ctx.broken.append('correspondence C10 model<->impl (Multipatch.compute_dirichlet_bcs) differs on %s' % mp[k])
        ctx.report('tie:mp', 'model and implementation of Multipatch.compute_dirichlet_bcs differ', {'case': mp[k], 'impl': res['mp'][k]}, found_input=False)

    ctx.cov['disagreements_checked'] = ndis
    ctx.cov['traces_validated_against_impl'] = len(rls) + len(slices) + len(bdofs) + len(allbc) + len(comb) + len(dn) + len(ic) + len(mp)
    ctx.cov['rule'] = ('linear systems with integer entries (n<=9) x index subsets in all orders (exhaustive for n<=4, k<=3; random beyond; '
                       'all-but-one, empty) x scalar/array values and b x elim_rows (square and rectangular) x dense/csr/csc/coo; '
                       'slice_indices exhaustively for 1-3-D shapes with sizes<=%d, all axes, all indices incl. out of range, all flips; '
                       'boundary_dofs/cells for all names and pairs incl. invalid; compute_dirichlet_bc(s) for all faces of 2-D/3-D (and 1-D) '
                       'spaces, 7 geometries, scalar/vector/constant data, incl. anisotropic spaces whose directions have equal degree, size and interval but '
                       'different knots (graded, moved, doubled interior knots), all computed one after the other in ONE driver process, value oracle on every face '
                       'of the single calls and of the combined result of the "all" shorthand; combine_bcs with duplicates; initial conditions on several time '
                       'intervals; multipatch rows. non-trivial = at least one constrained dof / more than one dof' % (4 if thorough else 3))
    dist.update({'slices': len(slices), 'bdofs': len(bdofs), 'bc': len(allbc), 'combine': len(comb), 'dropnans': len(dn), 'ic': len(ic), 'mp': len(mp)})
    ctx.cov['input_distribution'] = dist
    ctx.cov['rounding_bound'] = 'INTERP_TOL = 1e-11 * max(1, max|g|) (see module docstring)'
    ctx.cov['largest_observed_deviation'] = float(worst)
    ctx.cov['exhaustive'] = False
    ctx.cov['partial'] = [
        'values of compute_dirichlet_bc interpolate the data: evaluated on the implementation within INTERP_TOL (interpolate is C17)',
        'initial_condition_01_reproduces is a theorem for the time direction (every open knot vector, both ends); the spatial '
        'interpolation of g0, g1 (C17) and the tensor-product lifting to the space-time spline are evaluated on the implementation',
    ]


def check_ic(c, r, shape):
    """compute_initial_condition_01: the spline with the returned coefficients on the two boundary
    slices reproduces g0 and its time derivative reproduces g1 at the Greville nodes of the initial face."""
    dim = len(shape)
    ax, side = c['bdspec']
    fs0 = sorted(face_set(shape, ax, 0 if side == 0 else shape[ax] - 2))
    fs1 = sorted(face_set(shape, ax, 1 if side == 0 else shape[ax] - 1))
    if r['idx'] != fs0 + fs1:
        return ('wrong-dofs', 'indices %s are not the two boundary slices %s' % (r['idx'][:20], (fs0 + fs1)[:20])), Fraction(0)
    if len(r['vals']) != len(r['idx']):
        return ('lengths', 'indices and values differ in length'), Fraction(0)
    if any(v != v for v in r['vals']):
        return ('nan', 'the computed coefficients are nan (time axis on [%s,%s])' % spec_support(c['kvs'][ax])), Fraction(0)
    val = {i: Fraction(v) for i, v in zip(r['idx'], r['vals'])}
    kvd = r['kvs']
    tk = [Fraction(t) for t in kvd[ax]['knots']]
    tb = tk[0] if side == 0 else tk[-1]
    N0 = bspline_basis(kvd[ax]['p'], tk, tb, 0)
    N1 = bspline_basis(kvd[ax]['p'], tk, tb, 1)
    sl = [0, 1] if side == 0 else [shape[ax] - 2, shape[ax] - 1]
    cder = max(abs(N1[s]) for s in sl)
    axes = [a for a in range(dim) if a != ax]
    colloc = [[bspline_basis(kvd[a]['p'], [Fraction(t) for t in kvd[a]['knots']], Fraction(t)) for t in nodes]
              for a, nodes in zip(axes, r['nodes'])]
    fshape = [shape[a] for a in axes]
    g0 = [gval(c['g0'], [Fraction(x) for x in P]) for P in r['pts']]
    g1 = [gval(c['g1'], [Fraction(x) for x in P]) for P in r['pts']]
    scale = max([Fraction(1)] + [abs(v) for v in g0 + g1])
    worst = Fraction(0)
    for q, nmi in enumerate(itertools.product(*[range(n) for n in fshape])):
        s0 = s1 = Fraction(0)
        for cmi in itertools.product(*[range(n) for n in fshape]):
            w = Fraction(1)
            for d in range(len(fshape)):
                w *= colloc[d][nmi[d]][cmi[d]]
            if w == 0:
                continue
            for s in sl:
                full = list(cmi)
                full.insert(ax, s)
                cf = val[ravel(shape, full)]
                s0 += w * N0[s] * cf
                s1 += w * N1[s] * cf
        e0 = abs(s0 - g0[q]) / scale
        e1 = abs(s1 - g1[q]) / scale / (1 + 2 * cder)
        worst = max(worst, e0, e1)
        if e0 > INTERP_TOL:
            return ('value', 'u(t0, node %s) = %s but g0 = %s' % (list(nmi), float(s0), float(g0[q]))), worst
        if e1 > INTERP_TOL:
            return ('derivative', 'du/dt(t0, node %s) = %s but g1 = %s' % (list(nmi), float(s1), float(g1[q]))), worst
    return None, worst


META = {
    'technique': 'Rocq proofs over an arbitrary commutative ring (mask selection algebra: compress/expand, argsort by insertion sort) '
                 '+ exact correspondence over Z/nat with the implementation + exact rational oracle for the property itself',
    'level_text': 'Theorems (Coq, unbounded, closed under the global context): for every commutative ring, every m x n matrix, every right-hand side '
                  '(scalar or array), every duplicate-free list of constrained dofs in ANY order with scalar or per-dof values and optional elim_rows, '
                  'complete(u) takes the prescribed value at every constrained dof (complete_prescribed[_scalar]); if u solves the restricted system '
                  'then complete(u) satisfies every non-eliminated equation of A x = b (complete_solves); restrict(extend u) = u, restrict(complete u) = u, '
                  'restrict_matrix(B) u = restrict_rhs(B extend(u)), R_free^T R_free + R_elim^T R_elim = I, the number of free dofs is n - #indices; '
                  'np.argsort of the indices lists them in the row order of I[~mask] (argsort_orders_rows); the line before the repair is refuted '
                  '(complete_prescribed_unrepaired_refuted). combine_bcs keeps exactly one value per dof, the first one (combine_one_value_per_dof); blocked '
                  'numbering is collision-free; _parse_bdspec accepts exactly the valid pairs; "all" is all 2d faces. The model is tied to /repo on every run '
                  'by exact comparison (Z/nat, vm_compute) of A, b, restrict, restrict_rhs, extend, complete, restrict_matrix on ~300 (thorough ~1400) systems '
                  'incl. all orders of small index sets, of slice_indices on every 1-3-D shape with sizes<=3 (4), every axis/index/flip, of boundary_dofs/cells, '
                  'of the index arrays of compute_dirichlet_bc(s), compute_initial_condition_01 and Multipatch.compute_dirichlet_bcs, and of combine_bcs/_drop_nans. '
                  'slice_indices / boundary_dofs / boundary_cells list every dof (cell) of the face exactly once for every shape, axis, index, flip '
                  '(slice_indices_face, boundary_dofs_face, boundary_cells_face), compute_dirichlet_bcs("all") is every boundary dof of every component once '
                  '(dirichlet_bcs_all_each_dof_once). On top of C02: for every open knot vector of degree >= 1 on any interval the end-point collocation matrix '
                  'is [[1,0],[-c,c]] resp. [[0,1],[-c,c]] and the computed coefficient pair reproduces value and first time derivative whatever the other '
                  'coefficients (initial_condition_01_reproduces[_right]). On top of C14: Multipatch.compute_dirichlet_bcs, for any order/repetition of '
                  'conditions, returns exactly the glued indices, each once, first value (mp_loop_any_order, mp_bcs_glued, mp_bcs_one_entry_per_class). '
                  'Round 5: compute_dirichlet_bcs for ANY list of conditions returns every requested dof (of every component) once '
                  '(dirichlet_bcs_any_list_each_dof_once; an invalid spec fails the call); compute_dirichlet_bc WITH values: every (dof, component) is '
                  'paired with its own coefficient at index bd[k]+j*NN, nan dropped (dirichlet_bc_scalar_values, dirichlet_bc_vector_blocked_values, '
                  'combine_bcs_nodup_is_sort, drop_nans_*); initial conditions: coefficient (k,s) lands on the dof with time index firstidx+k and the s-th '
                  'spatial multi-index (initial_condition_alignment, slice_positions_aligned) and on the initial face the space-time spline is the spatial '
                  'spline with coefficients G0 resp. G1 (initial_condition_spacetime[_right]). 43 theorems; clause-by-clause NOT PROVED account at the end of Props.v. '
                  'PARTIAL: that boundary values interpolate the data (C17) and the space-time lifting of the initial-condition theorem are evaluated on the '
                  'implementation (within 1e-11 relative), not proved.',
    'level_note': 'Trusted: Coq kernel + vm_compute; the hand transcription of assemble.py:346-652,1385-1405 and bspline.py:13-33 into Gallina (validated by the '
                  'exact correspondence run); scipy.sparse row selection I[mask] and products are what compress/expand say; the harness oracles (Fraction Gauss-Jordan, '
                  'own Cox-de Boor). Not modelled: binary64 rounding in A.dot (integer data are exact), interpolate (C17), geometry and basis evaluation (C07, C02).',
}
