(* C05 -- non-vacuity for HierThb.v and HierReach.v. *)
From Coq Require Import QArith Qcanon ZArith List Bool Arith Lia.
From Verif.lib Require Import FinSet Bsp.
Require Verif.C04.Examples.
From Verif.C05 Require Import Model Proofs Hier HierEx HierThb HierReach.
Import ListNotations.
Open Scope Qc_scope.

(* the three-level hierarchy of HierEx.v, coefficients on all three levels (zero outside the
   active functions, as split_coeffs/_reindex produce them) *)
Definition ex_actb (k j : nat) : bool := memb j (exact k).
Definition ex_u (l i : nat) : Qc := if ex_actb l i then q (Z.of_nat (3 * l + i + 1)) 2 else 0.

(* hypotheses of levelwise_eval_eq_fine_thb hold (HierEx.ex_two_scale, Lmax = 2, T = 2); the
   conclusion evaluated at sample points (a test), and truncation is not the identity here *)
Example ex_thb_levelwise_eval :
  forallb (fun x => qeqb (levelwise Qc exn exB 2 (t2h exn exP ex_actb 2 ex_u) x)
                         (bigsum (exn 2) (fun J => fine_coeff exn exP ex_actb 2 ex_u J * exB 2 J x)))
          [q 1 8; q 3 4; q 3 2; q 7 2] = true.
Proof. vm_compute. reflexivity. Qed.

Example ex_thb_nontrivial :
  existsb (fun J => negb (qeqb (fine_coeff exn exP noZ 2 ex_u J) (fine_coeff exn exP ex_actb 2 ex_u J))) (seq 0 (exn 2)) = true.
Proof. vm_compute. reflexivity. Qed.

(* HierReach.v: a reachable C04 state with deactivated functions on two levels meets the hypotheses
   on axes / disparity / history *)
Example ex_reachable_hyps :
  Forall Verif.C04.ProofsMesh.axis_ok Verif.C04.Examples.ex_axes
  /\ (forall d, Some 1%nat = Some d -> (1 <= d)%nat)
  /\ P4.ops_valid (M4.hs_init Verif.C04.Examples.ex_axes (Some 1%nat)) Verif.C04.Examples.ex_ops.
Proof.
  split; [exact Verif.C04.Examples.ex_axes_ok|]. split; [exact Verif.C04.Examples.ex_disp|exact Verif.C04.Examples.ex_ops_valid].
Qed.

Example ex_reachable_deact_nonempty :
  negb (Nat.eqb (length (P4.DF Verif.C04.Examples.ex_st 0)) 0) && negb (Nat.eqb (length (P4.DF Verif.C04.Examples.ex_st 1)) 0) = true.
Proof. vm_compute. reflexivity. Qed.
