(* C06 -- non-vacuity for Props3.v *)
From Coq Require Import List String Bool Arith ZArith QArith Qcanon.
From Verif.C06 Require Import Model FoldTol.
Import ListNotations. Import QcInst. Import QcTol.
Close Scope Qc_scope. Close Scope Q_scope. Open Scope nat_scope. Open Scope string_scope.
Definition q (n : Z) (d : positive) : Qc := Q2Qc (Qmake n d).
Definition tol15 : Qc := q 1 1000000000000000.
(* (1e-9 * w0 + 0) * 1 : outside the window, the rules fire, the hypothesis holds *)
Definition ex_out : qexpr := Op OMul (Op OAdd (Op OMul (Const (q 1 1000000000)) (GW 0)) (Const (q 0 1))) (Const (q 1 1)).
Example ex_out_folds : qfold_all_t tol15 ex_out = Some (Op OMul (Const (q 1 1000000000)) (GW 0)).
Proof. vm_compute. reflexivity. Qed.
Example ex_out_window_free : qwindow_free tol15 ex_out = true.
Proof. vm_compute. reflexivity. Qed.
(* with a looser window (1e-8) the same tree is NOT window free: the hypothesis detects it *)
Example ex_out_loose : qwindow_free (q 1 100000000) ex_out = false.
Proof. vm_compute. reflexivity. Qed.
(* (1 + 1e-9) * w0 is kept by the 1e-15 window and rounded to w0 by a 1e-8 window *)
Example ex_near_one : qfold_all_t tol15 (Op OMul (Const (q 1000000001 1000000000)) (GW 0)) = Some (Op OMul (Const (q 1000000001 1000000000)) (GW 0))
  /\ qfold_all_t (q 1 100000000) (Op OMul (Const (q 1000000001 1000000000)) (GW 0)) = Some (GW 0).
Proof. split; vm_compute; reflexivity. Qed.
