(* C16 -- executable model, third part (definitions only): adjoints over a carrier with a
   conjugation (ring with involution), the NullOperator fallback of BlockOperator, and the
   2-D argument of DiagonalOperator.

   Source lines refer to /repo at the time of writing:
     pyiga/operators.py 15-19    _adjoint_of  (B.H for a LinearOperator, B.conj().T otherwise)
     pyiga/operators.py 58-74    DiagonalOperator._matvec/_matmat/_adjoint
     pyiga/operators.py 101-102  KroneckerOperator._adjoint
     pyiga/operators.py 131-134  BaseBlockOperator._adjoint
     pyiga/operators.py 191-194  BlockOperator: BaseBlockOperator, or NullOperator when every block is null *)
From Coq Require Import List Arith Bool.
From Verif.C16 Require Import Model.
Import ListNotations.

Section Model3.
Variable R : Type.
Variable rO : R.
Variable radd rmul : R -> R -> R.
Variable conj : R -> R.

(* B.conj().T *)
Definition mH (A : mat R) : mat R := mkmat R (mcols R A) (mrows R A) (fun i j => conj (ment R A j i)).
Definition oH (o : operand R) : operand R := mkop R (okind R o) (mH (omat R o)).

(* operators.py:101-102: a KroneckerOperator of the adjoints of the factors (dispatch re-run in __init__) *)
Definition kronecker_operator_H (ops : list (operand R)) (x : arr R) : arr R :=
  kronecker_operator R rO radd rmul (map oH ops) x.

(* operators.py:131-134: the ranges are swapped, every block is replaced by its adjoint *)
Definition placed_H (b : placed R) : placed R := mkplaced R (mH (pb R b)) (pci R b) (pro R b).

(* operators.py:70-73: DiagonalOperator(self.diag.conj()) *)
Definition diagonal_H_matvec (d x : nat -> R) : nat -> R := diagonal_matvec R rmul (fun i => conj (d i)) x.

(* operators.py:58-65 for a 2-D argument: self.diag[:,None] * x *)
Definition diagonal_matmat (d : nat -> R) (X : mat R) : mat R :=
  mkmat R (mrows R X) (mcols R X) (fun i c => rmul (d i) (ment R X i c)).

(* operators.py:191-194: `if ops_list: BaseBlockOperator(...) else: NullOperator(shape)` *)
Definition block_operator_apply (grid : list (list (option (mat R)))) (hs ws : list nat) (x : nat -> R) : nat -> R :=
  match block_operator R grid hs ws with
  | [] => null_matvec R rO x
  | bl => base_block_matvec R rO radd rmul bl x
  end.

(* the operands apply_tprod sees when every None placeholder is replaced by a dense identity
   matrix of the size of its axis *)
Fixpoint fill_eye (rI : R) (ops : list (option (operand R))) (sS : list nat) : list (option (operand R)) :=
  match ops, sS with
  | o :: ops', c :: sS' =>
      Some (match o with
            | Some op => op
            | None => mkop R Dense (mkmat R c c (fun i j => if Nat.eqb j i then rI else rO))
            end) :: fill_eye rI ops' sS'
  | _, _ => []
  end.

End Model3.
