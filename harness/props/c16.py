"""C16 -- Linear-operator building blocks equal their dense definitions.

Stage 1: theorems of coq/C16 (Props.v) + non-vacuity examples.
Stage 2 (tie): the Gallina model (coq/C16/Model.v, instantiated at Z in Cases.v) and the
  implementation are run on the same integer-valued operands; every output array is
  compared EXACTLY inside Coq (all entries are small integers, so binary64/binary32
  arithmetic is exact: |entries| <= 4, at most 81 terms per sum and 4 factors, every
  intermediate < 2^24).
Stage 3 (property on the implementation): the same outputs are compared exactly with the
  dense definition (np.kron / np.block / block_diag / diag / sum P B P^T / CSR rows)
  computed by an independent numpy-integer oracle in the harness process; the solver
  factories (floating point) are checked through the exactly computed residual
  |A y - b| against a bound derived from dimension and conditioning (see solver_tol).
"""
import copy
import itertools
import time
from fractions import Fraction
from functools import reduce

import numpy as np

from harness.core import cbool, clist, cz, log, parse_coq_list_of_nat

PROPS = 'C16/Props.v'
DRIVER = 'harness/impl/c16_driver.py'

ABSTRACT_KINDS = ('csr', 'csc', 'aslinop', 'linop')
DENSE_KINDS = ('dense', 'denseF', 'denseT')     # ndarray in C order, F order, transposed view
U = 2.0 ** -53


# ---------------------------------------------------------------------------
# generators (every random choice comes from ctx.rng)
# ---------------------------------------------------------------------------

def rmat(rng, r, c, kind=None, dtype=None, lim=3):
    kind = kind or rng.choice(DENSE_KINDS + ABSTRACT_KINDS)
    data = [rng.randint(-lim, lim) for _ in range(r * c)]
    # make sure sparse formats see real zeros and non-zeros
    if r * c > 2 and rng.random() < 0.5:
        for _ in range(rng.randint(1, max(1, r * c // 2))):
            data[rng.randrange(r * c)] = 0
    return {'kind': kind, 'r': r, 'c': c, 'data': data, 'dtype': dtype or 'f8'}


def rx(rng, n, form=None, dtype='f8', lim=4):
    form = form or rng.choice(['vec', 'vec', 'col1', 'mat', 'mat'])
    if form == 'vec':
        shape = [n]
    elif form == 'col1':
        shape = [n, 1]
    else:
        shape = [n, rng.randint(2, 3)]
    size = int(np.prod(shape))
    x = {'shape': shape, 'data': [rng.randint(-lim, lim) for _ in range(size)], 'dtype': dtype}
    if len(shape) == 2 and rng.random() < 0.3:
        x['order'] = 'F'
    return x


def rhow(rng):
    return rng.choice(['dot', 'dot', 'matmul', 'mul'])


VARIANTS = ['N'] + [''.join(t) for n in (1, 2, 3) for t in itertools.product('TH', repeat=n)]


def rvariant(rng):
    """a chain of .T/.H of length 0..3 (all 15 chains occur)"""
    r = rng.random()
    if r < 0.25:
        return 'N'
    if r < 0.45:
        return rng.choice(['T', 'H'])
    return rng.choice(VARIANTS[3:])


XDTYPES = ['f8', 'f8', 'i8', 'i4', '?', 'f4']      # argument dtypes: float64, int64, int32, bool, float32
DENS = [1, 2, 2, 4]                                # operand entries are k/den (dyadic: exact in f8 and f4)


def set_xdtype(rng, x, dtype=None):
    x['dtype'] = dtype or rng.choice(XDTYPES)
    if x['dtype'] == '?':
        x['data'] = [abs(v) % 2 for v in x['data']]
    return x


def diversify(rng, c):
    """Non-integer (dyadic) operand entries and every real argument dtype.  The harness-side data stay
    integers: the driver divides the operand data by den and multiplies the result by den^k
    (k = degree of the result in the operands), both exact, so oracle and Coq model see integers
    while the implementation sees fractional operands and int/bool/f4/f8 arguments."""
    fam = c['fam']
    den = rng.choice(DENS)
    if fam in ('tprod', 'kronop', 'applykron', 'blockdiag'):
        ops = [o for o in c['ops'] if o is not None]
        k = len(ops) if fam != 'blockdiag' else 1
    elif fam == 'modek':
        ops, k = [c['B']], 1
    elif fam == 'block':
        ops, k = [o for row in c['grid'] for o in row if o is not None], 1
    elif fam == 'subspace':
        ops, k = c['B'], 1
    elif fam == 'diag':
        ops, k = [c], 1
    elif fam in ('rowslice', 'rowsubset'):
        ops, k = [c['A']], 1
    else:
        ops, k = [], 0
    for o in ops:
        o['den'] = den
    c['outscale'] = den ** k
    set_xdtype(rng, c['x'])
    return c


def kind_class(specs):
    ks = {('dense' if s['kind'] in DENSE_KINDS else 'abstract') for s in specs if s is not None}
    return 'mixed' if len(ks) > 1 else (ks.pop() if ks else 'none')


def gen_cases(ctx):
    rng = ctx.rng
    thorough = ctx.tier == 'thorough'
    mult = 4 if thorough else 1
    cases = []
    dist = {}

    def add(c):
        cases.append(diversify(rng, c))
        dist[c['fam']] = dist.get(c['fam'], 0) + 1
        dist['xdtype:' + c['x']['dtype']] = dist.get('xdtype:' + c['x']['dtype'], 0) + 1

    def factor_shapes(nf, square):
        big = 3 if nf >= 4 else (4 if nf == 3 else 5)
        while True:
            shp = []
            for _ in range(nf):
                r = rng.randint(1, big)
                shp.append((r, r if square else rng.randint(1, big)))
            if np.prod([a for a, _ in shp]) * np.prod([b for _, b in shp]) <= (2000 if not thorough else 8000):
                return shp

    # --- apply_tprod: 1..4 factors, rectangular, all kinds, None placeholders, trailing axes
    for _ in range(170 * mult):
        nf = rng.randint(1, 4)
        shp = factor_shapes(nf, False)
        dtype = rng.choice(['f8', 'f8', 'f4'])
        ops = [None if rng.random() < 0.2 else rmat(rng, r, c, dtype=dtype) for (r, c) in shp]
        trailing = [rng.randint(1, 3) for _ in range(rng.choice([0, 0, 1, 1, 2]))]
        xshape = [c for (_, c) in shp] + trailing
        if np.prod(xshape) > 400:
            trailing = []
            xshape = [c for (_, c) in shp]
        x = {'shape': xshape, 'data': [rng.randint(-4, 4) for _ in range(int(np.prod(xshape)))], 'dtype': dtype}
        add({'fam': 'tprod', 'ops': ops, 'x': x})
    # --- modek_tprod
    for _ in range(60 * mult):
        nd = rng.randint(1, 4)
        xshape = [rng.randint(1, 3) for _ in range(nd)]
        k = rng.randrange(nd)
        B = rmat(rng, rng.randint(1, 4), xshape[k])
        x = {'shape': xshape, 'data': [rng.randint(-4, 4) for _ in range(int(np.prod(xshape)))]}
        add({'fam': 'modek', 'B': B, 'k': k, 'x': x})
    # --- KroneckerOperator: every dispatch class (all dense / abstract+square / abstract+rectangular)
    for i in range(260 * mult):
        nf = rng.randint(1, 4)
        cls = ['alldense', 'square_abstract', 'rect_abstract', 'any'][i % 4]
        shp = factor_shapes(nf, cls == 'square_abstract')
        dtype = rng.choice(['f8', 'f8', 'f8', 'f4'])
        if cls == 'alldense':
            ops = [rmat(rng, r, c, rng.choice(DENSE_KINDS), dtype) for (r, c) in shp]
        elif cls == 'any':
            ops = [rmat(rng, r, c, dtype=dtype) for (r, c) in shp]
        else:
            ops = [rmat(rng, r, c, dtype=dtype) for (r, c) in shp]
            j = rng.randrange(nf)
            ops[j]['kind'] = rng.choice(ABSTRACT_KINDS)
        variant = rvariant(rng)
        tr = sum(ch in 'TH' for ch in variant) % 2 == 1
        n_in = int(np.prod([(o['r'] if tr else o['c']) for o in ops]))
        add({'fam': 'kronop', 'ops': ops, 'variant': variant, 'x': rx(rng, n_in, dtype=dtype), 'how': rhow(rng),
             'cls': cls})
    # --- kronecker.apply_kronecker (square factors unless all are ndarrays)
    for i in range(90 * mult):
        nf = rng.randint(1, 4)
        alld = i % 3 == 0
        shp = factor_shapes(nf, not alld)
        ops = [rmat(rng, r, c, rng.choice(DENSE_KINDS) if alld else None) for (r, c) in shp]
        add({'fam': 'applykron', 'ops': ops, 'x': rx(rng, int(np.prod([o['c'] for o in ops])))})
    # --- BlockOperator: rectangular layouts with null blocks
    for _ in range(150 * mult):
        Mb, Nb = rng.randint(1, 4), rng.randint(1, 4)
        heights = [rng.randint(1, 3) for _ in range(Mb)]
        widths = [rng.randint(1, 3) for _ in range(Nb)]
        pnull = rng.choice([0.0, 0.3, 0.6, 1.0]) if rng.random() < 0.9 else 1.0
        grid = [[None if rng.random() < pnull else rmat(rng, heights[i], widths[j]) for j in range(Nb)]
                for i in range(Mb)]
        variant = rvariant(rng)
        tr = sum(ch in 'TH' for ch in variant) % 2 == 1
        add({'fam': 'block', 'grid': grid, 'heights': heights, 'widths': widths, 'variant': variant,
             'x': rx(rng, sum(heights) if tr else sum(widths)), 'how': rhow(rng)})
    # --- BlockDiagonalOperator
    for _ in range(80 * mult):
        ops = [rmat(rng, rng.randint(1, 3), rng.randint(1, 3)) for _ in range(rng.randint(1, 4))]
        variant = rvariant(rng)
        tr = sum(ch in 'TH' for ch in variant) % 2 == 1
        add({'fam': 'blockdiag', 'ops': ops, 'variant': variant,
             'x': rx(rng, sum(o['r'] if tr else o['c'] for o in ops)), 'how': rhow(rng)})
    # --- Diagonal / Identity / Null
    for _ in range(45 * mult):
        n = rng.randint(1, 6)
        c = {'fam': 'diag', 'd': [rng.randint(-4, 4) for _ in range(n)], 'variant': rvariant(rng),
             'x': rx(rng, n), 'how': rhow(rng), 'dtype': rng.choice(['f8', 'f4'])}
        if rng.random() < 0.3:
            c['dshape'] = rng.choice([[n, 1], [1, n]]) if n > 1 else [1]
        add(c)
    for _ in range(30 * mult):
        n = rng.randint(1, 6)
        add({'fam': 'identity', 'n': n, 'variant': rvariant(rng), 'x': rx(rng, n), 'how': rhow(rng)})
    for _ in range(30 * mult):
        r, c = rng.randint(1, 5), rng.randint(1, 5)
        variant = rvariant(rng)
        tr = sum(ch in 'TH' for ch in variant) % 2 == 1
        add({'fam': 'null', 'r': r, 'c': c, 'variant': variant, 'x': rx(rng, r if tr else c), 'how': rhow(rng)})
    # --- SubspaceOperator: arbitrary (also overlapping, non-0/1) prolongations
    for _ in range(110 * mult):
        n = rng.randint(1, 5)
        k = rng.randint(1, 3)
        P, B = [], []
        for _j in range(k):
            nj = rng.randint(1, 3)
            pk = rng.choice(['dense', 'csr', 'csc', 'denseF'])
            if rng.random() < 0.5:      # selection of coordinates
                cols = [rng.randrange(n) for _ in range(nj)]
                data = [1 if cols[b] == a else 0 for a in range(n) for b in range(nj)]
                P.append({'kind': pk, 'r': n, 'c': nj, 'data': data})
            else:
                P.append(rmat(rng, n, nj, pk, lim=2))
            B.append(rmat(rng, nj, nj, lim=2))
        add({'fam': 'subspace', 'P': P, 'B': B, 'variant': rvariant(rng), 'x': rx(rng, n, lim=3), 'how': rhow(rng)})
    # --- CSRRowSlice / CSRRowSubset on canonical and non-canonical CSR structures
    for i in range(90 * mult):
        r, c = rng.randint(1, 6), rng.randint(1, 5)
        indptr, indices, data = [0], [], []
        for _row in range(r):
            cnt = rng.choice([0, 0, 1, 2, 3])
            cols = sorted(rng.sample(range(c), min(cnt, c)))
            if rng.random() < 0.15 and cols:       # unsorted / duplicate column indices
                cols = cols + [rng.choice(cols)]
                rng.shuffle(cols)
            indices += cols
            data += [rng.randint(-4, 4) for _ in cols]
            indptr.append(len(indices))
        A = {'r': r, 'c': c, 'indptr': indptr, 'indices': indices, 'data': data}
        if i % 2 == 0:
            r0 = rng.randint(0, r)
            r1 = rng.randint(r0, r)
            if rng.random() < 0.3:
                r1 = r
            add({'fam': 'rowslice', 'A': A, 'r0': r0, 'r1': r1, 'x': rx(rng, c), 'how': rng.choice(['dot', 'mul'])})
        else:
            rows = [rng.randrange(r) for _ in range(rng.randint(0, 5))]
            add({'fam': 'rowsubset', 'A': A, 'rows': rows, 'rows_list': rng.random() < 0.5,
                 'x': rx(rng, c, form='vec'), 'how': rng.choice(['dot', 'mul'])})
    return cases, dist


# ---------------------------------------------------------------------------
# independent oracle: the dense definitions, exact integer arithmetic (numpy int64)
# ---------------------------------------------------------------------------

def imat(s):
    return np.array(s['data'], dtype=np.int64).reshape(s['r'], s['c'])


def ix(s):
    return np.array(s['data'], dtype=np.int64).reshape(s['shape'])


def is_tr(variant):
    return sum(ch in 'TH' for ch in variant) % 2 == 1


def dense_definition(c):
    """The explicit matrix the operator of case c denotes (None for tprod/modek)."""
    fam = c['fam']
    if fam in ('kronop', 'applykron'):
        D = reduce(np.kron, [imat(o) for o in c['ops']])
    elif fam == 'block':
        D = np.block([[imat(o) if o is not None else np.zeros((c['heights'][i], c['widths'][j]), dtype=np.int64)
                       for j, o in enumerate(row)] for i, row in enumerate(c['grid'])])
    elif fam == 'blockdiag':
        ms = [imat(o) for o in c['ops']]
        D = np.zeros((sum(m.shape[0] for m in ms), sum(m.shape[1] for m in ms)), dtype=np.int64)
        a = b = 0
        for m in ms:
            D[a:a + m.shape[0], b:b + m.shape[1]] = m
            a += m.shape[0]
            b += m.shape[1]
    elif fam == 'diag':
        D = np.diag(np.array(c['d'], dtype=np.int64))
    elif fam == 'identity':
        D = np.eye(c['n'], dtype=np.int64)
    elif fam == 'null':
        D = np.zeros((c['r'], c['c']), dtype=np.int64)
    elif fam == 'subspace':
        D = sum(imat(p) @ imat(b) @ imat(p).T for p, b in zip(c['P'], c['B']))
    elif fam in ('rowslice', 'rowsubset'):
        a = c['A']
        full = np.zeros((a['r'], a['c']), dtype=np.int64)
        for r in range(a['r']):
            for jj in range(a['indptr'][r], a['indptr'][r + 1]):
                full[r, a['indices'][jj]] += a['data'][jj]
        D = full[c['r0']:c['r1']] if fam == 'rowslice' else full[c['rows']] if c['rows'] else full[:0]
    else:
        return None
    if is_tr(c.get('variant', 'N')):
        D = D.T
    return D


def oracle(c):
    """(shape, flat list) the implementation must return."""
    fam = c['fam']
    if fam == 'tprod':
        Y = ix(c['x'])
        for k, o in enumerate(c['ops']):
            if o is not None:
                Y = np.moveaxis(np.tensordot(imat(o), Y, axes=(1, k)), 0, k)
        return Y
    if fam == 'modek':
        return np.moveaxis(np.tensordot(imat(c['B']), ix(c['x']), axes=(1, c['k'])), 0, c['k'])
    return dense_definition(c) @ ix(c['x'])


def check_property_on_impl(c, res):
    """The property itself on the implementation's output.  None or (slug, text)."""
    want = oracle(c)
    v = c.get('variant', '')
    if res['status'] != 'Ok':
        return ('raises-' + res['status'].replace('Other:', ''),
                '%s%s raised %s (%s) for a valid input' % (c['fam'], ('.' + v) if v else '', res['status'], res.get('msg', '')))
    if res['shape'] != list(want.shape):
        return ('shape', 'result has shape %s, the dense definition gives %s' % (res['shape'], list(want.shape)))
    got = np.array(res['data'], dtype=np.int64).reshape(want.shape)
    if not np.array_equal(got, want):
        w = np.argwhere(got != want)[0]
        return ('value', 'entry %s is %d, the dense definition gives %d' % (tuple(int(t) for t in w), got[tuple(w)], want[tuple(w)]))
    if res.get('mutated'):
        return ('operand-modified', '%s altered its operands (%s) bitwise' % (c['fam'], ', '.join(res['mutated'][:4])))
    bad = dtype_rule(c, res)
    if bad:
        return bad
    return None


def operand_dtypes(c):
    fam = c['fam']
    if fam in ('tprod', 'kronop', 'applykron', 'blockdiag'):
        ops = [o for o in c['ops'] if o is not None]
    elif fam == 'modek':
        ops = [c['B']]
    elif fam == 'block':
        ops = [o for row in c['grid'] for o in row if o is not None]
    elif fam == 'subspace':
        ops = c['B'] + c['P']
    elif fam == 'diag':
        ops = [c]
    else:
        return ['f8']
    return [o.get('dtype', 'f8') for o in ops] or ['f8']


def dtype_rule(c, res):
    """The explicit matrix (float dtype of the operands) times the argument has dtype
    np.result_type(operands, argument) -- float64 for integer arguments of a float64 operator.  The
    implementation may return more precision, never less, and never an integer array (IdentityOperator and
    apply_tprod with only None placeholders return their argument without arithmetic: exempt)."""
    if c['fam'] == 'identity' or (c['fam'] == 'tprod' and all(o is None for o in c['ops'])):
        return None      # the argument is returned (re-ordered) without any arithmetic
    want = np.result_type(*([np.dtype(d) for d in operand_dtypes(c)] + [np.dtype({'?': 'bool'}.get(c['x']['dtype'], c['x']['dtype']))]))
    got = np.dtype(res['dtype'])
    if got.kind != 'f':
        return ('result-dtype', 'result has dtype %s for operands %s and a %s argument; the dense definition gives %s' % (
            got, sorted(set(operand_dtypes(c))), c['x']['dtype'], want))
    if got.itemsize < want.itemsize:
        return ('result-precision', 'result has dtype %s for operands %s and a %s argument; the dense definition gives %s' % (
            got, sorted(set(operand_dtypes(c))), c['x']['dtype'], want))
    return None


def case_class(c):
    fam = c['fam']
    if fam in ('tprod', 'kronop', 'applykron', 'blockdiag'):
        return kind_class(c['ops'])
    if fam == 'block':
        return kind_class([o for row in c['grid'] for o in row])
    if fam == 'modek':
        return kind_class([c['B']])
    if fam == 'subspace':
        return kind_class(c['B'])
    return 'plain'


def signature(c, slug):
    v = c.get('variant', '')
    vv = ('H' if 'H' in v else 'T' if 'T' in v else 'N') if v else '-'
    xd = c['x'].get('dtype', 'f8')
    return 'impl:%s:%s.%s:%s:x=%s' % (slug, c['fam'], vv, case_class(c), xd)


# ---------------------------------------------------------------------------
# histories on ONE object: several applications with all results kept, compositions, results fed back
# ---------------------------------------------------------------------------

def all_operands(c):
    fam = c['fam']
    if fam in ('tprod', 'kronop', 'applykron', 'blockdiag'):
        return [o for o in c['ops'] if o is not None]
    if fam == 'modek':
        return [c['B']]
    if fam == 'block':
        return [o for row in c['grid'] for o in row if o is not None]
    if fam == 'subspace':
        return c['B'] + c['P']
    if fam == 'diag':
        return [c]
    return []


def make_history(rng, c):
    """The same operator (float64 operands: the compositions square the magnitudes) with two further
    arguments of the same length in any form and dtype."""
    h = copy.deepcopy(c)
    for o in all_operands(h):
        o['dtype'] = 'f8'
    xs = []
    for _ in range(2):
        if c['fam'] in ('tprod', 'modek'):
            x = {'shape': list(c['x']['shape']), 'data': [rng.randint(-4, 4) for _ in c['x']['data']]}
        elif c['fam'] == 'rowsubset':
            x = rx(rng, c['x']['shape'][0], form='vec')
        else:
            x = rx(rng, c['x']['shape'][0])
        xs.append(set_xdtype(rng, x))
    h['hist'] = {'xs': xs}
    return h


def check_history(h, res):
    """None or (slug, text)."""
    v = h.get('variant', '')
    if res['status'] != 'Ok':
        return ('raises-' + res['status'].replace('Other:', ''),
                'history on one %s%s object raised %s (%s)' % (h['fam'], ('.' + v) if v else '', res['status'], res.get('msg', '')))
    xs = [h['x']] + h['hist']['xs']
    D = dense_definition(h)
    X1 = ix(h['x'])
    for st in res['steps']:
        name = st['name']
        if name.startswith('y'):
            want = oracle(dict(h, x=xs[int(name[1:]) - 1]))
        elif name.startswith(('AT', '(AT')):
            want = D.T @ (D @ X1)
        else:
            want = D @ (D @ X1)
        if st['status'] != 'Ok':
            return ('value', 'step %s: non-integral/invalid result %s' % (name, st.get('repr', '')[:5]))
        if st['shape'] != list(want.shape):
            return ('shape', 'step %s has shape %s, the dense definition gives %s' % (name, st['shape'], list(want.shape)))
        got = np.array(st['data'], dtype=np.int64).reshape(want.shape)
        if not np.array_equal(got, want):
            w = np.argwhere(got != want)[0]
            return ('value', 'step %s of a history on one object: entry %s is %d, the dense definition gives %d' % (
                name, tuple(int(t) for t in w), got[tuple(w)], want[tuple(w)]))
    if res['changed']:
        return ('result-changed-later', 'results kept from earlier applications of the same object changed afterwards: %s' % (
            ', '.join(res['changed'][:5])))
    if res['aliased']:
        return ('results-share-memory', 'results of different applications share memory: %s' % ('; '.join(res['aliased'][:5])))
    if res.get('mutated'):
        return ('operand-modified', 'operands altered bitwise during the history: %s' % ', '.join(res['mutated'][:4]))
    return None


# ---------------------------------------------------------------------------
# Coq case files
# ---------------------------------------------------------------------------

HEADER = '''From Coq Require Import List ZArith.
From Verif.C16 Require Import Model Cases.
Import ListNotations.
'''


def zl(xs):
    return clist(xs, cz)


def nl(xs):
    return '[' + '; '.join('%d' % int(x) for x in xs) + ']%nat'


def coq_op(s):
    return '(%s %d %d %s)' % ('D' if s['kind'] in DENSE_KINDS else 'A', s['r'], s['c'], zl(s['data']))


def coq_mat(s):
    return '(M %d %d %s)' % (s['r'], s['c'], zl(s['data']))


def xcols(x):
    return 1 if len(x['shape']) == 1 else x['shape'][1]


def coq_case(c, res):
    fam = c['fam']
    yd = zl(res['data'])
    ys = nl(res['shape'])
    if fam == 'tprod':
        ops = clist(['None' if o is None else '(Some %s)' % coq_op(o) for o in c['ops']])
        return '(CTprod %s %s %s %s %s)' % (ops, nl(c['x']['shape']), zl(c['x']['data']), ys, yd)
    if fam == 'modek':
        return '(CModek %s %d %s %s %s %s)' % (coq_op(c['B']), c['k'], nl(c['x']['shape']), zl(c['x']['data']), ys, yd)
    if fam == 'kronop':
        return '(CKronOp %s %s %s %s %s %s)' % (cbool(is_tr(c['variant'])), clist([coq_op(o) for o in c['ops']]),
                                                 nl(c['x']['shape']), zl(c['x']['data']), ys, yd)
    if fam == 'applykron':
        return '(CApplyKron %s %s %s %s %s)' % (clist([coq_op(o) for o in c['ops']]), nl(c['x']['shape']),
                                                zl(c['x']['data']), ys, yd)
    nc = xcols(c['x'])
    xd = zl(c['x']['data'])
    tr = cbool(is_tr(c.get('variant', 'N')))
    if fam == 'block':
        grid = clist([clist(['None' if o is None else '(Some %s)' % coq_mat(o) for o in row]) for row in c['grid']])
        return '(CBlock %s %s %s %s %d %s %s)' % (tr, grid, nl(c['heights']), nl(c['widths']), nc, xd, yd)
    if fam == 'blockdiag':
        return '(CBlockDiag %s %s %d %s %s)' % (tr, clist([coq_mat(o) for o in c['ops']]), nc, xd, yd)
    if fam == 'diag':
        return '(CDiag %s %d %s %s)' % (zl(c['d']), nc, xd, yd)
    if fam == 'identity':
        return '(CIdent %d %d %s %s)' % (c['n'], nc, xd, yd)
    if fam == 'null':
        r, cc = (c['c'], c['r']) if is_tr(c['variant']) else (c['r'], c['c'])
        return '(CNull %d %d %d %s %s)' % (r, cc, nc, xd, yd)
    if fam == 'subspace':
        pb = clist(['(%s, %s)' % (coq_mat(p), coq_mat(b)) for p, b in zip(c['P'], c['B'])])
        return '(CSubspace %s %d %s %d %s %s)' % (tr, c['P'][0]['r'], pb, nc, xd, yd)
    a = c['A']
    csr = '(mkcsr Z %d %d %s %s %s)' % (a['r'], a['c'], nl(a['indptr']), nl(a['indices']), zl(a['data']))
    if fam == 'rowslice':
        return '(CRowSlice %s %d %d %d %s %s)' % (csr, c['r0'], c['r1'], nc, xd, yd)
    if fam == 'rowsubset':
        return '(CRowSubset %s %s %s %s)' % (csr, nl(c['rows']), xd, yd)
    raise ValueError(fam)


def expected_len_ok(c, res):
    """shape bookkeeping the column-wise Coq comparison relies on (checked here, exactly)."""
    if c['fam'] in ('tprod', 'modek', 'kronop', 'applykron'):
        return True
    xs = c['x']['shape']
    return len(res['shape']) == len(xs) and res['shape'][1:] == xs[1:]


# ---------------------------------------------------------------------------
# solver factories (floating point): exact residual against a derived bound
# ---------------------------------------------------------------------------

def fr_mat(s):
    return [[Fraction(s['data'][i * s['c'] + j]) * Fraction(s.get('scale', 1)) for j in range(s['c'])] for i in range(s['r'])]


def fkron(A, B):
    return [[a * b for a in ra for b in rb] for ra in A for rb in B]


def norm_inf(A):
    return max(sum(abs(v) for v in row) for row in A)


def inv_norm_bound(A):
    """||A^-1||_inf <= 1 / min_i(|a_ii| - sum_{j != i} |a_ij|) for strictly diagonally dominant A."""
    m = min(abs(A[i][i]) - sum(abs(A[i][j]) for j in range(len(A)) if j != i) for i in range(len(A)))
    assert m > 0
    return 1 / m


def dd_matrix(rng, n, sym, kind):
    """strictly diagonally dominant integer matrix, dominance margin >= 2"""
    M = [[0] * n for _ in range(n)]
    for i in range(n):
        for j in range(n):
            if i != j and rng.random() < 0.7 and (not sym or j > i):
                M[i][j] = rng.randint(-2, 2)
                if sym:
                    M[j][i] = M[i][j]
    for i in range(n):
        M[i][i] = sum(abs(v) for j, v in enumerate(M[i]) if j != i) + rng.randint(2, 4)
    return {'kind': kind, 'r': n, 'c': n, 'data': [v for row in M for v in row]}


SOLVER_DENSE_LAYOUTS = ('dense', 'denseF', 'denseT')     # C order, F order, transposed view


def gen_solver_cases(ctx):
    """Solver-factory cases.  'mats' are distinct matrix objects (dense in C order, F order or as a
    transposed view; csr; csc); the factories refer to them by index so that the SAME array object is
    handed over more than once (make_solver twice, make_kronecker_solver(A, A), fastdiag with the same
    (K, M) pair in several directions and with K is M)."""
    rng = ctx.rng
    mult = 5 if ctx.tier == 'thorough' else 1
    cases = []

    def skind():
        return rng.choice(SOLVER_DENSE_LAYOUTS + SOLVER_DENSE_LAYOUTS + ('csr', 'csc'))

    for i in range(72 * mult):
        n = rng.randint(1, 6)
        cls = ['general', 'symmetric', 'spd', 'symmetric_indefinite'][i % 4]
        B = dd_matrix(rng, n, cls != 'general', skind())
        if cls == 'symmetric_indefinite':
            k = rng.randrange(n)      # one negative pivot: indefinite, still strictly diagonally dominant
            B['data'][k * n + k] = -B['data'][k * n + k]
        own = {'general': {}, 'symmetric': {'symmetric': True}, 'spd': {'spd': True},
               'symmetric_indefinite': {'symmetric': True}}[cls]
        legal = [{}, own] + ([{'symmetric': True}] if cls == 'spd' else [])
        builds = [own] if rng.random() < 0.3 else [rng.choice(legal) for _ in range(rng.randint(2, 3))]
        cases.append({'fam': 'solver', 'cls': '%s:%s:x%d' % (cls, B['kind'], len(builds)), 'mats': [B], 'B': 0,
                      'builds': builds, 'x': set_xdtype(rng, rx(rng, n)), 'how': rhow(rng),
                      'xs': [set_xdtype(rng, rx(rng, n)) for _ in range(2)]})
    # sparse/dense SYMMETRIC INDEFINITE, well-conditioned matrices whose diagonal is present but tiny
    # (path-graph adjacency + 2^-53 I, n even: cond < 20; saddle point [[A, B^T], [B, -2^-40 I]]) with
    # symmetric=True: a pivoting strategy that trusts the diagonal fails here; partial pivoting does not
    for i in range(24 * mult):
        if i % 2 == 0:
            n = rng.choice([2, 4, 6])
            M = [[1.0 if abs(a - b) == 1 else (2.0 ** -53 if a == b else 0.0) for b in range(n)] for a in range(n)]
            nm_ = 'path'
        else:
            k = rng.randint(2, 4)
            m = rng.randint(1, k)
            n = k + m
            M = [[0.0] * n for _ in range(n)]
            for a in range(k):
                M[a][a] = 2.0
                if a + 1 < k:
                    M[a][a + 1] = M[a + 1][a] = -1.0
            for a in range(m):
                M[k + a][a] = M[a][k + a] = 1.0
                M[k + a][k + a] = -(2.0 ** -40)
            nm_ = 'saddle'
        kind = rng.choice(['csr', 'csc', 'csr', 'csc', 'dense', 'denseF'])
        B = {'kind': kind, 'r': n, 'c': n, 'data': [v for row in M for v in row]}
        builds = [{'symmetric': True}] if i % 4 < 2 else [{'symmetric': True}, {}]
        cases.append({'fam': 'solver', 'cls': 'symmetric_indefinite_tinydiag_%s:%s:x%d' % (nm_, kind, len(builds)),
                      'mats': [B], 'B': 0, 'builds': builds, 'x': set_xdtype(rng, rx(rng, n)), 'how': rhow(rng),
                      'xs': [set_xdtype(rng, rx(rng, n)) for _ in range(2)]})
    for i in range(54 * mult):
        nm = rng.randint(1, 2)
        mats = [dd_matrix(rng, rng.randint(1, 4), rng.random() < 0.4, skind()) for _ in range(nm)]
        nf = rng.randint(1, 3)
        idx = [rng.randrange(nm) for _ in range(nf)]
        if i % 3 == 0 and nf >= 2:
            idx = [idx[0]] * nf                                   # make_kronecker_solver(A, A[, A])
        N = int(np.prod([mats[k]['r'] for k in idx]))
        shared = len(set(idx)) < len(idx)
        cases.append({'fam': 'kronsolver', 'cls': '%s:%s' % ('shared' if shared else 'distinct',
                      '+'.join(sorted({mats[k]['kind'] for k in idx}))), 'mats': mats, 'idx': idx,
                      'x': set_xdtype(rng, rx(rng, N)), 'how': rhow(rng),
                      'xs': [set_xdtype(rng, rx(rng, N)) for _ in range(2)]})
    for i in range(42 * mult):
        dim = 1 + i % 3
        npairs = rng.randint(1, dim)
        mats, pairs = [], []
        for _p in range(npairs):
            n = rng.randint(1, 4 if dim == 3 else 5)
            kind = skind()
            # stiffness-like and mass-like tridiagonal SPD matrices with random (dyadic) element sizes
            h = [rng.choice([1, 2, 4]) for _ in range(n + 1)]
            K = [[0] * n for _ in range(n)]
            Mm = [[0] * n for _ in range(n)]
            for e in range(n + 1):          # element e couples dofs e-1 and e (Dirichlet ends dropped)
                for a in (e - 1, e):
                    for b in (e - 1, e):
                        if 0 <= a < n and 0 <= b < n:
                            K[a][b] += (4 // h[e]) * (1 if a == b else -1)      # 4/h
                            Mm[a][b] += h[e] * (2 if a == b else 1)             # h/6 * (2,1), scaled by 6
            mats.append({'kind': kind, 'r': n, 'c': n, 'data': [v for row in Mm for v in row]})
            if rng.random() < 0.2:
                pairs.append((len(mats) - 1, len(mats) - 1))       # K is M (same object): pencil (M, M)
            else:
                mats.append({'kind': kind, 'r': n, 'c': n, 'data': [v for row in K for v in row]})
                pairs.append((len(mats) - 1, len(mats) - 2))
        KM = [list(pairs[d]) if d < npairs else list(rng.choice(pairs)) for d in range(dim)]
        N = int(np.prod([mats[k]['r'] for k, _ in KM]))
        shared = len({tuple(p) for p in KM}) < dim or any(k == m for k, m in KM)
        cases.append({'fam': 'fastdiag', 'cls': 'dim%d:%s:%s' % (dim, 'shared' if shared else 'distinct',
                      '+'.join(sorted({mats[k]['kind'] for k, _ in KM}))), 'mats': mats, 'KM': KM,
                      'x': set_xdtype(rng, rx(rng, N)), 'how': rhow(rng),
                      'xs': [set_xdtype(rng, rx(rng, N)) for _ in range(2)]})
    return cases


def solver_matrix(c):
    """The matrix the solver was built from, from the harness's own (snapshot) integer data."""
    if c['fam'] == 'solver':
        return fr_mat(c['mats'][c['B']])
    if c['fam'] == 'kronsolver':
        return reduce(fkron, [fr_mat(c['mats'][k]) for k in c['idx']])
    dim = len(c['KM'])
    tot = None
    for d in range(dim):
        fs = [fr_mat(c['mats'][c['KM'][j][0 if j == d else 1]]) for j in range(dim)]
        t = reduce(fkron, fs)
        tot = t if tot is None else [[a + b for a, b in zip(ra, rb)] for ra, rb in zip(tot, t)]
    return tot


def solver_tol(c, A, ynorm, bnorm):
    """Bound on ||A y - b||_inf for a backward-stable factorisation-based solve.
    LU with partial pivoting / Cholesky on an n x n matrix: (A + dA) y = b with
    ||dA|| <= 8 n^3 rho u ||A||, growth rho <= 2^(n-1)  (Higham, Thm 9.5), hence
    ||A y - b|| <= 8 n^3 2^(n-1) u ||A|| ||y||.  The Kronecker solver applies d such
    solves in sequence to slices; its residual is bounded by the sum of the factor
    bounds times the condition numbers of the other factors (each <= ||B_k|| / margin_k,
    margin_k >= 2 by construction).  fastdiag: eigh of the pencil (K,M) is backward
    stable up to cond(M) <= 3 (mass matrix with element sizes in {1,2,4}: cond <= 3*4),
    two orthogonal-like transforms and one diagonal scaling per solve; the same form
    with n := max factor size and an extra factor cond(M)^dim <= 12^dim is used.
    The bound is never tuned: a wrong operator gives residuals of order ||b||."""
    if c['fam'] == 'solver':
        n = c['mats'][c['B']]['r']
        return 8 * n ** 3 * 2 ** (n - 1) * U * float(norm_inf(A)) * ynorm
    if c['fam'] == 'kronsolver':
        tot = 0.0
        Bs = [c['mats'][k] for k in c['idx']]
        conds = [float(norm_inf(fr_mat(b)) * inv_norm_bound(fr_mat(b))) for b in Bs]
        for b in Bs:
            n = b['r']
            tot += 8 * n ** 3 * 2 ** (n - 1) * U
        return tot * float(np.prod(conds)) * float(norm_inf(A)) * ynorm + 16 * U * bnorm
    dim = len(c['KM'])
    n = max(c['mats'][k]['r'] for k, _ in c['KM'])
    return 64 * dim * n ** 3 * U * 12.0 ** dim * (float(norm_inf(A)) * ynorm + bnorm)


def check_solver(c, res):
    """(slug, text, worst residual/bound).  The reference matrix is the harness's own integer data
    (the snapshot taken before anything was handed to the implementation)."""
    if res['status'] != 'Ok':
        return ('raises-' + res['status'].replace('Other:', ''),
                '%s raised %s (%s) for a valid input' % (c['fam'], res['status'], res.get('msg', '')), None)
    A = solver_matrix(c)
    N = len(A)
    worst = 0.0
    for o in res['outs']:
        # the right-hand side of this stage: the case's x, a further argument, or an earlier result fed back
        rhs = o.get('rhs', 0)
        if isinstance(rhs, list):
            src = res['outs'][rhs[1]]
            xs = src['shape']
            bvals = [Fraction(float.fromhex(h)) for h in src['hex']]
        else:
            xspec = c['x'] if rhs == 0 else c['xs'][rhs - 1]
            xs = xspec['shape']
            bvals = [Fraction(v) for v in xspec['data']]
        nc = 1 if len(xs) == 1 else xs[1]
        if o.get('dtype') != 'float64':
            return ('result-dtype', '%s (%s): result has dtype %s for a float64 matrix and a %s right-hand side' % (
                c['fam'], o['stage'], o.get('dtype'), c['x']['dtype']), None)
        if o['shape'] != xs or o['opshape'] != [N, N]:
            return ('shape', '%s: result shape %s / operator shape %s for a %dx%d matrix and right-hand side %s' % (
                o['stage'], o['shape'], o['opshape'], N, N, xs), None)
        ys = [Fraction(float.fromhex(h)) for h in o['hex']]
        for col in range(nc):
            y = [ys[i * nc + col] for i in range(N)]
            b = [bvals[i * nc + col] for i in range(N)]
            resid = max(abs(sum(A[i][j] * y[j] for j in range(N)) - b[i]) for i in range(N))
            ynorm = float(max(abs(v) for v in y))
            bnorm = float(max(abs(v) for v in b))
            tol = solver_tol(c, A, ynorm, bnorm)
            ratio = float(resid) / tol if tol > 0 else (0.0 if resid == 0 else float('inf'))
            worst = max(worst, ratio)
            if resid > tol:
                return ('residual', '%s (%s): ||A y - b||_inf = %.3e exceeds the bound %.3e (column %d); A is the matrix '
                        'the solver was built from' % (c['fam'], o['stage'], float(resid), tol, col), worst)
    if res.get('mutated'):
        return ('operand-modified', '%s altered its operands: %s' % (c['fam'], '; '.join(res['mutated'][:4])), worst)
    if res.get('changed'):
        return ('result-changed-later', '%s: results kept from earlier applications changed afterwards: %s' % (
            c['fam'], '; '.join(res['changed'][:4])), worst)
    if res.get('aliased'):
        return ('results-share-memory', '%s: results of different applications share memory: %s' % (
            c['fam'], '; '.join(res['aliased'][:4])), worst)
    return (None, None, worst)


# ---------------------------------------------------------------------------

def run_impl(ctx, cases, B=400):
    results = []
    for i in range(0, len(cases), B):
        results += ctx.impl.run(DRIVER, {'cases': cases[i:i + B]})['results']
    return results


def run(ctx):
    ctx.obligations_stage(PROPS, extra_targets=['C16/Examples.vo', 'C16/Cases.vo'])
    # theorems over mathcomp's algebraic hierarchy (bridge file, ssreflect style)
    ctx.obligations_stage('C16/PropsField.v', extra_targets=['C16/ExamplesField.vo'])
    # adjoints over a ring with conjugation, BlockOperator fallback, fastdiag operator = U diag U^T, placeholders
    ctx.obligations_stage('C16/Props3.v', extra_targets=['C16/Examples3.vo', 'C16/Cases3.vo'])
    ctx.assumptions += [
        'model: hand transcription of apply_tprod/_modek_tensordot_sparse/modek_tprod (tensor.py), '
        '_apply_kronecker_dense/_apply_kronecker_linops/apply_kronecker (kronecker.py), KroneckerOperator dispatch, '
        'BaseBlockOperator/_sizes_to_ranges/BlockOperator/BlockDiagonalOperator, Diagonal/Identity/Null/SubspaceOperator '
        '(operators.py), CSRRowSlice/CSRRowSubset (utils.py) into Gallina over an arbitrary commutative ring (coq/C16/Model.v)',
        'numpy semantics read into the model: ndarray = shape + index function, C-order reshape, tensordot/rollaxis/moveaxis '
        'axis conventions, F-contiguous buffers under reshape(order=F)/resize; scipy LinearOperator.dot/matvec/matmat wrappers '
        'and the default column-by-column _matmat are outside the model',
        'adjoints: real operands in every class (.H compared with the transposed dense definition); complex operands only where the code accepts them '
        '(KroneckerOperator on its tensordot branch, DiagonalOperator): conjugate transpose, model over the Gaussian integers (Cases3.v)',
        'solver factories: LAPACK/SuperLU/eigh satisfy their contracts (hypotheses of kron_solver_inverts/fastdiag_inverts); '
        'checked numerically through exact residuals',
    ]
    cases, dist = gen_cases(ctx)
    log('[C16] %d operator cases: %s' % (len(cases), dist))
    t0 = time.time()
    results = run_impl(ctx, cases)
    log('[C16] implementation run: %.1fs' % (time.time() - t0))

    # ---- stage 3: the property on the implementation, independent dense oracle
    nfail = 0
    for c, r in zip(cases, results):
        key = (c['fam'], c.get('variant'), repr(c.get('ops') or c.get('grid') or c.get('P') or c.get('A') or c.get('B') or
                                                  c.get('d') or c.get('n') or (c.get('r'), c.get('c'))), repr(c['x']))
        ctx.count(key, nontrivial=True)
        bad = check_property_on_impl(c, r)
        if bad:
            nfail += 1
            ctx.report(signature(c, bad[0]), bad[1], {'case': c, 'impl': r,
                       'how': 'harness/impl/c16_driver.py run_case(case): builds the operands from integer data and applies the operator'})
    # ---- histories on one object (every operator case once more, with float64 operands)
    hcases = [make_history(ctx.rng, c) for c in cases]
    t0 = time.time()
    hres = run_impl(ctx, hcases)
    log('[C16] %d histories on one object: %.1fs' % (len(hcases), time.time() - t0))
    nsteps = 0
    for h, r in zip(hcases, hres):
        ctx.count(('hist', h['fam'], h.get('variant'), repr(h['hist']), repr(h['x'])), nontrivial=True)
        nsteps += len(r.get('steps', []))
        bad = check_history(h, r)
        if bad:
            nfail += 1
            ctx.report(signature(h, 'history-' + bad[0]), bad[1], {'case': h, 'impl': r,
                       'how': 'harness/impl/c16_driver.py run_history(case): one object, applications y1..y3 kept, compositions, y1 fed back'})
    ctx.cov['history_cases'] = len(hcases)
    ctx.cov['history_steps_compared'] = nsteps
    ctx.cov['traces_validated_against_impl'] = len(cases) + len(hcases)
    ctx.cov['property_failures_on_impl'] = nfail

    # ---- stage 2: correspondence model <-> implementation, exact, inside Coq
    okcases = [(k, c, r) for k, (c, r) in enumerate(zip(cases, results)) if r['status'] == 'Ok' and expected_len_ok(c, r)]
    files, chunks = [], []
    CH = 120
    for n, i in enumerate(range(0, len(okcases), CH)):
        chunk = okcases[i:i + CH]
        chunks.append(chunk)
        body = HEADER + 'Definition cases : list case := [\n' + ';\n'.join(coq_case(c, r) for (_, c, r) in chunk) + '].\n'
        body += 'Eval vm_compute in bad 0 cases.\n'
        files.append(('C16_cases_%03d' % n, body))
    # self-test of the differ: the first case with one output entry perturbed must be flagged
    st = None
    for (_, c, r) in okcases:
        if r['data']:
            r2 = dict(r, data=[r['data'][0] + 1] + r['data'][1:])
            st = HEADER + 'Definition cases : list case := [%s; %s].\nEval vm_compute in bad 0 cases.\n' % (
                coq_case(c, r), coq_case(c, r2))
            break
    if st:
        files.append(('C16_selftest', st))
    disagreements = []
    t0 = time.time()
    evals = ctx.coq_eval_many(files, timeout=1500)
    log('[C16] %d case files evaluated in Coq: %.1fs' % (len(files), time.time() - t0))
    for (name, ok, out), chunk in zip(evals, chunks + [None]):
        badidx = parse_coq_list_of_nat(out) if ok else None
        if name == 'C16_selftest':
            ctx.obligations += 1
            if badidx == [1]:
                ctx.discharged += 1
            else:
                ctx.broken.append('differ self-test: a perturbed output was not flagged (%s)' % (out[-300:],))
            continue
        ctx.obligations += 1
        if not ok or badidx is None:
            ctx.broken.append('case file %s did not evaluate: %s' % (name, out[-600:]))
            continue
        ctx.discharged += 1
        for b in badidx:
            disagreements.append(chunk[b])
    ctx.cov['disagreements_checked'] = len(disagreements)
    ctx.cov['cases_compared_in_coq'] = len(okcases)
    for (k, c, r) in disagreements[:5]:
        bad = check_property_on_impl(c, r)
        ctx.broken.append('correspondence C16 model<->impl differs on case #%d (%s)' % (k, c['fam']))
        ctx.report('tie:%s:%s' % (c['fam'], case_class(c)),
                   'model and implementation disagree' + (': ' + bad[1] if bad else
                   ' although the dense definition is met (model or numpy reading out of date)'),
                   {'case': c, 'impl': r}, found_input=bool(bad))

    # ---- solver factories
    scases = gen_solver_cases(ctx)
    t0 = time.time()
    sres = run_impl(ctx, scases)
    log('[C16] %d solver cases: %.1fs' % (len(scases), time.time() - t0))
    worst = 0.0
    sdist = {}
    for c, r in zip(scases, sres):
        sdist[c['fam'] + ':' + str(c['cls'])] = sdist.get(c['fam'] + ':' + str(c['cls']), 0) + 1
        ctx.count(('solver', repr(c)), nontrivial=True)
        slug, text, ratio = check_solver(c, r)
        if ratio is not None:
            worst = max(worst, ratio)
        if slug:
            ctx.report('impl:%s:%s:%s:x=%s' % (slug, c['fam'], c['cls'], c['x'].get('dtype', 'f8')), text, {'case': c, 'impl': r,
                       'how': 'harness/impl/c16_driver.py run_case(case)'})
    # ---- extension: complex operands, fastdiag factors into the model, every placeholder mask
    from harness.props import c16_ext
    c16_ext.run_ext(ctx)
    ctx.cov['solver_cases'] = len(scases)
    ctx.cov['solver_distribution'] = sdist
    ctx.cov['rounding_bound'] = 'see solver_tol in harness/props/c16.py (8 n^3 2^(n-1) u ||A|| ||y|| per factorisation, times conditioning)'
    ctx.cov['largest_residual_over_bound'] = worst
    ctx.cov['rule'] = ('operator cases: random dyadic operands k/den (|k|<=3, den in {1,2,4}; harness/Coq side scaled to integers), argument dtypes float64/int64/int32/bool/float32 in every family incl. the solver factories (value from the dense definition of the float operator, result dtype never integer and never less precise than np.result_type), .T/.H chains of length 0..3; 1..4 Kronecker factors with independent shapes and '
                       'storage kinds (ndarray C/F/transposed view, csr, csc, aslinearoperator, plain LinearOperator), f8/f4, x as vector/(n,1)/matrix '
                       '(C/F order), variants N/T/H/TT/TH, dot/@/*; every operand is compared bitwise with its snapshot after the operation; '
                       'solver factories: dense C/F/transposed-view and sparse inputs, the same array object handed over several times '
                       '(make_solver x2-3, make_kronecker_solver(A,A), fastdiag with repeated (K,M) pairs and K is M), applied twice, '
                       'residual against the harness-side snapshot; histories on ONE object for every operator class and solver operator: three applications with '
                       'all results kept and re-compared bitwise at the end, compositions A(Ax), A*A, AT(Ax), AT*A, kept results fed back as arguments, '
                       'np.shares_memory between results and between results and operands; non-trivial = every case; distinct by operands and argument')
    ctx.cov['input_distribution'] = dist
    ctx.cov['exhaustive'] = False
    for k in (0, len(cases) // 2, len(cases) - 1):
        ctx.sample({'case': cases[k], 'impl': results[k]})
    return ctx.finish()


def replay(ctx, rec):
    """./check C16 --replay file: re-run the recorded case on the current implementation."""
    c = rec['replay']['case']
    r = run_impl(ctx, [c])[0]
    if 'hist' in c:
        bad = check_history(c, r)
    elif c['fam'] in ('solver', 'kronsolver', 'fastdiag'):
        slug, text, _ = check_solver(c, r)
        bad = (slug, text) if slug else None
    else:
        bad = check_property_on_impl(c, r)
    ctx.count(repr(c))
    if bad:
        ctx.report(rec.get('signature', 'replay'), bad[1], {'case': c, 'impl': r})
    else:
        log('[C16] replayed case now meets the dense definition')
    return ctx.finish()


META = {
    'technique': 'Rocq proofs over an arbitrary commutative ring (induction over the operand list / block list / CSR row, '
                 'sum algebra, ravel/unravel index arithmetic) + exact integer correspondence of every operator class with '
                 'the implementation evaluated by vm_compute + dense-definition oracle on the implementation + exact residual '
                 'bounds for the solver factories',
    'level_text': 'Theorems (Coq, unbounded, any commutative ring; 55 theorems (39 in Props.v, 4 in PropsField.v over mathcomp comRingType, 12 in Props3.v), all closed under the global context; Props3.v: adjoints over a commutative ring with a conjugation (kron_adjoint[_multi], block_adjoint, diag_adjoint[_spec], adjoint_involutive, adjoint_real_is_transpose), BlockOperator incl. its NullOperator fallback (block_operator_apply_spec), DiagonalOperator on 2-D arguments (diag_matmat_spec), fastdiag_solver operator = kron(U) diag(dinv) kron(U)^T for any U, dinv (fastdiag_apply_spec[_multi]), None placeholders of apply_tprod = identity matrices (apply_tprod_placeholders); apply_kronecker_spec[_multi] (its own dispatch); left_inverse_is_right_inverse, eigh_contract_suffices, fastdiag_inverts_eigh[_multi] (fastdiag from the contract eigh actually provides, U^T M U = I); in addition to the list below: grid_block_transpose_full, kron_reduce_spec (left-nested reduce(np.kron) = kron_ent), lap_code_spec, diag_code_spec, fastdiag_inverts_multi, fastdiag_inverts_code[_multi] about the expressions the code builds): apply_tprod '
                  'computes Y[a,t] = sum_J prod_k B_k[a_k,j_k] X[J,t] for any number of operands, dense (tensordot) and '
                  'sparse/LinearOperator (_modek_tensordot_sparse) branches, rectangular shapes, None placeholders, trailing axes '
                  '(apply_tprod_spec, modek_sparse_spec, kron_core_spec); _apply_kronecker_dense equals the flat np.kron matrix times x '
                  'for vectors, (n,1) and (n,m) arguments (kron_dense_spec[_multi]); the column-major sweeps of _apply_kronecker_linops '
                  'equal the same product for any number of square factors, vectors and multi-column arguments (kron_linops_spec[_multi], '
                  'via the rotating mixed-radix invariant linops_inv); KroneckerOperator on either dispatch branch and its transpose '
                  '(kron_operator_spec[_multi], kron_transpose[_multi]); modek_tprod shape and values on both branches '
                  '(modek_tprod_shape, modek_tprod_spec); BaseBlockOperator accumulation = sum of placed blocks, transpose '
                  '(block_spec, block_transpose); BlockDiagonalOperator = block_diag (blockdiag_spec, blockdiag_transpose); BlockOperator '
                  'layout with null blocks = np.block, and its transpose (grid_block_spec, grid_block_transpose); Diagonal/Identity/Null '
                  '(diag_spec, diag_symmetric, identity_spec, null_spec); SubspaceOperator = sum P B P^T and transposed flag '
                  '(subspace_spec, subspace_transpose); CSRRowSlice/CSRRowSubset (rowslice_spec, rowsubset_spec); '
                  'make_kronecker_solver applies the inverse of kron(B_k) given B_k.Binv_k = I, vectors and several right-hand sides '
                  '(kron_solver_inverts[_multi], mixed-product property kron_ent_mul); fastdiag_solver applies the inverse of the '
                  'Kronecker-sum matrix in ANY dimension given the eigh contract K U = M U Lambda, (M U) U^T = I (fastdiag_inverts, vectors). '
                  'NOT theorems: the LAPACK/SuperLU/eigh contracts themselves (residual check only); (fastdiag_apply[_mat] IS now in the correspondence run: the U_k, eigenvalues and 1/diag held by the implementation enter the model over Qc as exact rationals, application compared exactly for monomial power-of-two U_k and within gamma_K sum|U||dinv||U^T||x| otherwise; complex operands for KroneckerOperator(tensordot branch)/DiagonalOperator incl. .H are compared exactly over the Gaussian integers; every None mask x axis count 1..4 x 0..2 trailing axes of apply_tprod). The model is tied to /repo by '
                  '~1100 (thorough ~4500) random integer cases over all operator classes, storage kinds and argument forms compared exactly '
                  'inside Coq and against np.kron/np.block/...; operands are compared bitwise with snapshots; solver factories are checked by '
                  'exactly computed residuals (shared array objects, C/F/transposed layouts) against a stated bound.',
    'level_note': 'Trusted: Coq kernel + vm_compute; hand transcription of the operator classes into Gallina and the reading of numpy '
                  'axis/reshape/F-order conventions (validated by the exact correspondence run); scipy LinearOperator.dot/matvec/matmat '
                  'wrappers; LAPACK/SuperLU/eigh contracts (numerical residual check only). Adjoints are checked for real operands.',
}
