(* C18 -- property theorems, deepening round: TensorSum / TensorProd (tensor.py:1059-1152, model and
   lemmas in Sum.v) and the subtraction of canonical tensors and Kronecker-rank operators.
   entry2 is the entry of asarray() of a (nested) sum / product tensor. *)
From Coq Require Import List Arith ZArith Ring Field.
From Verif.C18 Require Import Model Proofs Sum.
Import ListNotations.

(* asarray(S + T) = asarray(S) + asarray(T) for a TensorSum S and ANY tensor T (term, sum or product). *)
Theorem sum_add :
  forall (R : Type) (rO rI : R) (radd rmul rsub : R -> R -> R) (ropp : R -> R),
    ring_theory rO rI radd rmul rsub ropp eq ->
    forall (xs : list (tens2 R)) (b t : tens2 R) (idx : list nat),
    add2 R (T2Sum R xs) b = Ok t ->
    entry2 R rO rI radd rmul t idx =
    radd (entry2 R rO rI radd rmul (T2Sum R xs) idx) (entry2 R rO rI radd rmul b idx).
Proof. exact sum_add_spec. Qed.
Print Assumptions sum_add.

(* asarray(P + T) = asarray(P) + asarray(T) for a TensorProd P. *)
Theorem prod_add :
  forall (R : Type) (rO rI : R) (radd rmul rsub : R -> R -> R) (ropp : R -> R),
    ring_theory rO rI radd rmul rsub ropp eq ->
    forall (ps : list (tens2 R)) (b t : tens2 R) (idx : list nat),
    add2 R (T2Prod R ps) b = Ok t ->
    entry2 R rO rI radd rmul t idx =
    radd (entry2 R rO rI radd rmul (T2Prod R ps) idx) (entry2 R rO rI radd rmul b idx).
Proof. exact prod_add_spec. Qed.
Print Assumptions prod_add.

(* every term of a TensorSum accepted by the constructor has the shape of the sum. *)
Theorem sum_terms_have_sum_shape :
  forall (R : Type) (xs : list (tens2 R)) (t : tens2 R),
    mk_sum R xs = Ok t -> Forall (fun x : tens2 R => list_eqb (shape2 R x) (shape2 R t) = true) xs.
Proof. exact mk_sum_shapes. Qed.
Print Assumptions sum_terms_have_sum_shape.

(* asarray(-T) = -asarray(T) for every term format at once: scalar, ndarray, canonical, Tucker. *)
Theorem term_neg :
  forall (R : Type) (rO rI : R) (radd rmul rsub : R -> R -> R) (ropp : R -> R),
    ring_theory rO rI radd rmul rsub ropp eq ->
    forall (b b' : tens R) (idx : list nat),
    length idx = length (shape_of R b) ->
    neg R ropp b = Ok b' -> entry R rO rI radd rmul b' idx = ropp (entry R rO rI radd rmul b idx).
Proof. exact base_neg_spec. Qed.
Print Assumptions term_neg.

(* asarray(-S) = -asarray(S) for a TensorSum of any number of scalar / ndarray / canonical / Tucker terms. *)
Theorem sum_neg :
  forall (R : Type) (rO rI : R) (radd rmul rsub : R -> R -> R) (ropp : R -> R),
    ring_theory rO rI radd rmul rsub ropp eq ->
    forall (bs : list (tens R)) (t : tens2 R) (idx : list nat),
    Forall (fun b : tens R => length idx = length (shape_of R b)) bs ->
    neg2 R ropp (T2Sum R (map (T2B R) bs)) = Ok t ->
    entry2 R rO rI radd rmul t idx = ropp (entry2 R rO rI radd rmul (T2Sum R (map (T2B R) bs)) idx).
Proof. exact sum_neg_spec. Qed.
Print Assumptions sum_neg.

(* asarray(S - T) = asarray(S) - asarray(T) for a TensorSum S (terms of any kind) and a term T. *)
Theorem sum_sub :
  forall (R : Type) (rO rI : R) (radd rmul rsub : R -> R -> R) (ropp : R -> R),
    ring_theory rO rI radd rmul rsub ropp eq ->
    forall (xs : list (tens2 R)) (b : tens R) (t : tens2 R) (idx : list nat),
    length idx = length (shape_of R b) ->
    sub2 R ropp (T2Sum R xs) (T2B R b) = Ok t ->
    entry2 R rO rI radd rmul t idx =
    rsub (entry2 R rO rI radd rmul (T2Sum R xs) idx) (entry2 R rO rI radd rmul (T2B R b) idx).
Proof. exact sum_sub_spec. Qed.
Print Assumptions sum_sub.

(* asarray(-P) = -asarray(P) for a TensorProd whose first factor is a term (only that factor is negated;
   the remaining factors are arbitrary). *)
Theorem prod_neg :
  forall (R : Type) (rO rI : R) (radd rmul rsub : R -> R -> R) (ropp : R -> R),
    ring_theory rO rI radd rmul rsub ropp eq ->
    forall (b : tens R) (ps : list (tens2 R)) (t : tens2 R) (idx : list nat),
    length (firstn (length (shape_of R b)) idx) = length (shape_of R b) ->
    neg2 R ropp (T2Prod R (T2B R b :: ps)) = Ok t ->
    entry2 R rO rI radd rmul t idx = ropp (entry2 R rO rI radd rmul (T2Prod R (T2B R b :: ps)) idx).
Proof. exact prod_neg_spec. Qed.
Print Assumptions prod_neg.

(* PARTIAL: TensorSum.__getitem__ (tensor.py:1100-1105) relative to the __getitem__ gi of its terms: if gi
   returns, at idx', the entry of the term at sel idx' (canon_getitem / tucker_getitem: sel idx' =
   sel_idx (sel_ranges ax) (unsqb (map snd ax) idx')), the sum's result - a TensorSum, or the sum of the
   scalars for an all-int expression - has the entry of the sum at sel idx'.
   NOT PROVED: the term statement for an ndarray term (_getitem: np.ix_ selection + squeeze) and the
   TensorProd case (the index expression is cut into per-factor pieces). *)
Theorem sum_getitem_partial :
  forall (R : Type) (rO rI : R) (radd rmul : R -> R -> R) (gi : tens2 R -> res (tens2 R))
      (sel : list nat -> list nat) (xs : list (tens2 R)) (t : tens2 R) (idx' : list nat),
    (forall x y : tens2 R,
     In x xs -> gi x = Ok y -> entry2 R rO rI radd rmul y idx' = entry2 R rO rI radd rmul x (sel idx')) ->
    sum_getitem R rO rI radd rmul gi xs = Ok t ->
    entry2 R rO rI radd rmul t idx' = entry2 R rO rI radd rmul (T2Sum R xs) (sel idx').
Proof. exact sum_getitem_spec. Qed.
Print Assumptions sum_getitem_partial.

(* TensorSum.nway_prod: the expansion of the result is the sum of the expansions F of the transformed
   terms (F = apply_tprod of the term's expansion by canon_nway / tucker_nway / definition). *)
Theorem sum_nway :
  forall (R : Type) (rO rI : R) (radd rmul : R -> R -> R) (Bs : list (option (mat R)))
      (xs : list (tens R)) (t : tens2 R) (idx : list nat) (F : tens R -> list nat -> R),
    (forall x y : tens R,
     In x xs -> nway R rO radd rmul Bs x = Ok y -> entry R rO rI radd rmul y idx = F x idx) ->
    sum_nway R rO radd rmul Bs xs = Ok t ->
    entry2 R rO rI radd rmul t idx = rsum R rO radd (map (fun x : tens R => F x idx) xs).
Proof. exact sum_nway_spec. Qed.
Print Assumptions sum_nway.

(* asarray(A - B) = asarray(A) - asarray(B) for canonical tensors (A - B is A + (-B), tensor.py:813). *)
Theorem canon_sub :
  forall (R : Type) (rO rI : R) (radd rmul rsub : R -> R -> R) (ropp : R -> R),
    ring_theory rO rI radd rmul rsub ropp eq ->
    forall (A B : list (mat R)) (idx : list nat) (ra rb : nat),
    uniform R A ra ->
    uniform R B rb ->
    length A = length B ->
    A <> nil ->
    length idx = length B ->
    centry R rO rI radd rmul (canon_add R A (canon_neg R ropp B)) idx =
    rsub (centry R rO rI radd rmul A idx) (centry R rO rI radd rmul B idx).
Proof. exact canon_sub_spec. Qed.
Print Assumptions canon_sub.

(* asmatrix(A - B) = asmatrix(A) - asmatrix(B) for Kronecker-rank operators (tensor.py:1220). *)
Theorem canop_sub :
  forall (R : Type) (rO rI : R) (radd rmul rsub : R -> R -> R) (ropp : R -> R),
    ring_theory rO rI radd rmul rsub ropp eq ->
    forall (A B : list (list (mat R))) (I J : list nat),
    Forall (fun t : list (mat R) => t <> nil) B ->
    I <> nil ->
    J <> nil ->
    kentry R rO rI radd rmul (canop_add R A (canop_neg R ropp B)) I J =
    rsub (kentry R rO rI radd rmul A I J) (kentry R rO rI radd rmul B I J).
Proof. exact canop_sub_spec. Qed.
Print Assumptions canop_sub.
