(* C17 -- non-vacuity: concrete spaces meet the hypotheses of the theorems. *)
From Coq Require Import QArith Qcanon ZArith List Arith Bool Lia.
From Verif.lib Require Import Bsp.
From Verif.C17 Require Import Model Spec Proofs ProofsGrid.
Import ListNotations.
Open Scope Qc_scope.

Definition q (n : Z) (d : positive) : Qc := Q2Qc (n # d).
(* quadratic, one interior knot; cubic with a double knot and uneven spans *)
Definition kv2 := [q 0 1; q 0 1; q 0 1; q 1 2; q 1 1; q 1 1; q 1 1].
Definition kv3 := [q 0 1; q 0 1; q 0 1; q 0 1; q 1 8; q 1 8; q 3 4; q 1 1; q 1 1; q 1 1; q 1 1].

Definition C2 := collocation kv2 2 (greville kv2 2).
Definition C3 := collocation kv3 3 (greville kv3 3).
Definition inv_or_nil (M : mat) : mat := match inverse M with Some R => R | None => [] end.
Definition S2 := inv_or_nil C2.
Definition S3 := inv_or_nil C3.

Example ex_open : open_kv kv2 2 = true /\ open_kv kv3 3 = true.
Proof. split; vm_compute; reflexivity. Qed.

(* the Greville points are unisolvent here: the exact inverse exists and is a two-sided inverse *)
Example ex_left_inverse :
  Forall2 is_id [4%nat; 7%nat] (mul_list [op_of_mat S2; op_of_mat S3] [op_of_mat C2; op_of_mat C3]).
Proof. repeat constructor; apply is_id_b_sound; vm_compute; reflexivity. Qed.

Example ex_right_inverse :
  Forall2 is_id [4%nat; 7%nat] (mul_list [op_of_mat C2; op_of_mat C3] [op_of_mat S2; op_of_mat S3]).
Proof. repeat constructor; apply is_id_b_sound; vm_compute; reflexivity. Qed.

Example ex_inrange : inrange [4%nat; 7%nat] [3%nat; 6%nat; 1%nat].
Proof. simpl. lia. Qed.

(* the conclusion of interp_reproduces, computed: vector-valued (2 components) coefficients *)
Definition ex_c : tens := fun idx => q (Z.of_nat (7 * nth 0 idx 0 + nth 1 idx 0)%nat - 3 * Z.of_nat (nth 2 idx 0%nat)) 4.
Example ex_reproduces :
  forallb (fun idx => qeqb (tprod_loop [op_of_mat S2; op_of_mat S3]
                              (tprod [op_of_mat C2; op_of_mat C3] ex_c) idx) (ex_c idx))
          (all_idx [4%nat; 7%nat; 2%nat]) = true.
Proof. vm_compute. reflexivity. Qed.

(* a non-unisolvent grid (a repeated node) is detected: no inverse *)
Example ex_singular : inverse (collocation kv2 2 [q 0 1; q 1 4; q 1 4; q 1 1]) = None.
Proof. vm_compute. reflexivity. Qed.

(* ---- discrete L2: a 1D quadratic space sampled at 2 rational points per span with positive
   weights (a Newton-Cotes like rule; any rule satisfies the hypotheses used here) ---- *)
Definition pts := [q 1 8; q 3 8; q 5 8; q 7 8; q 1 4; q 3 4].
Definition Cq_ex (k i : nat) : Qc := mget (collocation kv2 2 pts) k i.
Definition w_ex (k : nat) : Qc := q 1 6.
Definition c_ex (i : nat) : Qc := nth i [q 1 1; q (-2) 1; q 3 2; q 5 1] 0.

Example ex_weights_positive : forall k, (k < 6)%nat -> 0 < w_ex k.
Proof. intros. reflexivity. Qed.

(* M x = b has the solution x = c for the load vector of spl c, and the residual statement
   of l2_residual_orthogonal is computed to be 0 for a function outside the space *)
Example ex_normal_equations :
  forallb (fun i => qeqb (mv 4 (massq 6 Cq_ex w_ex) c_ex i) (loadq 6 Cq_ex w_ex (spl 4 Cq_ex c_ex) i)) (seq 0 4) = true.
Proof. vm_compute. reflexivity. Qed.

(* the Gram matrix of this example is invertible (hypothesis of l2_reproduces is satisfiable) *)
Example ex_mass_invertible :
  match inverse (map (fun i => map (fun j => massq 6 Cq_ex w_ex i j) (seq 0 4)) (seq 0 4)) with Some _ => true | None => false end = true.
Proof. vm_compute. reflexivity. Qed.

(* Kronecker L2 path: 1D Gram matrix M = C^T D C and its exact inverse *)
Definition Cqm := collocation kv2 2 pts.
Definition Ct_op := transpose_op 6 (op_of_mat Cqm).
Definition D_op := diag_op (map w_ex (seq 0 6)).
Definition Mm : mat := map (fun i => map (fun j => oe (mul Ct_op (mul D_op (op_of_mat Cqm))) i j) (seq 0 4)) (seq 0 4).
Example ex_kron_hyp :
  Forall2 is_id [4%nat] (mul_list [op_of_mat (inv_or_nil Mm)] (mul_list [Ct_op] (mul_list [D_op] [op_of_mat Cqm]))).
Proof. repeat constructor; apply is_id_b_sound; vm_compute; reflexivity. Qed.

(* ---- projections and default nodes ---- *)
Definition kv1 := [q 0 1; q 0 1; q 1 4; q 1 2; q 1 1; q 1 1].
Definition kv0 := [q 0 1; q 1 4; q 1 1].
Example ex_open_p01 : open_kv kv1 1 = true /\ open_kv kv0 0 = true.
Proof. split; vm_compute; reflexivity. Qed.
(* greville_unisolvent_p01 computed on these two knot vectors *)
Example ex_identity_p01 :
  is_id_b 4 (op_of_mat (collocation kv1 1 (greville kv1 1))) = true /\
  is_id_b 2 (op_of_mat (collocation kv0 0 (greville kv0 0))) = true.
Proof. split; vm_compute; reflexivity. Qed.
(* greville_satisfies_sw_necessary computed for the cubic knot vector with a double knot *)
Example ex_sw_diag : forallb (fun i => qltb 0 (mget C3 i i)) (seq 0 7) = true.
Proof. vm_compute. reflexivity. Qed.

(* l2_projection_is_projection: an exact solver exists for the example Gram matrix (its inverse),
   weights are positive (ex_weights_positive); the unisolvence hypothesis holds because the
   Gram matrix is invertible (ex_mass_invertible).  The projection of a function of the space,
   computed with that solver, returns its coefficients: *)
Definition Minv_ex := inv_or_nil (map (fun i => map (fun j => massq 6 Cq_ex w_ex i j) (seq 0 4)) (seq 0 4)).
Definition sol_ex (b : nat -> Qc) (i : nat) : Qc := sumn 4 (fun j => mget Minv_ex i j * b j).
Example ex_solver_contract_on_basis :
  forallb (fun k => forallb (fun i =>
     qeqb (mv 4 (massq 6 Cq_ex w_ex) (sol_ex (fun j => if Nat.eqb j k then 1 else 0)) i) (if Nat.eqb i k then 1 else 0))
     (seq 0 4)) (seq 0 4) = true.
Proof. vm_compute. reflexivity. Qed.
Example ex_l2_reproduced :
  forallb (fun i => qeqb (sol_ex (loadq 6 Cq_ex w_ex (spl 4 Cq_ex c_ex)) i) (c_ex i)) (seq 0 4) = true.
Proof. vm_compute. reflexivity. Qed.

(* ---- hierarchical setting: two "hierarchical" functions made of the four fine quadratic ones ---- *)
Definition P_ex (r i : nat) : Qc := nth i (nth r [[q 1 1; q 0 1]; [q 1 2; q 1 2]; [q 0 1; q 1 1]; [q 0 1; q 1 1]] []) 0.
Example ex_hier_gram :
  forallb (fun i => forallb (fun j => qeqb (massq 6 (Ch 4 Cq_ex P_ex) w_ex i j) (galerkin 4 6 Cq_ex P_ex w_ex i j)) (seq 0 2)) (seq 0 2) = true.
Proof. vm_compute. reflexivity. Qed.
(* the Galerkin matrix of the example is invertible: hypothesis of hspace_l2_reproduces_partial *)
Example ex_hier_injective :
  match inverse (map (fun i => map (fun j => galerkin 4 6 Cq_ex P_ex w_ex i j) (seq 0 2)) (seq 0 2)) with Some _ => true | None => false end = true.
Proof. vm_compute. reflexivity. Qed.

(* ---- ProofsGrid: hypotheses are met by the two-axis example (4 and 7 nodes) ---- *)
Example ex_cols_are : ProofsGrid.cols_are [4%nat; 7%nat] [op_of_mat S2; op_of_mat S3].
Proof. repeat constructor. Qed.
(* data that agree with the spline on the node grid only (and are junk elsewhere) are reproduced *)
Definition ex_rhs : tens := fun idx =>
  if (Nat.ltb (nth 0 idx 0%nat) 4 && Nat.ltb (nth 1 idx 0%nat) 7)%bool
  then tprod [op_of_mat C2; op_of_mat C3] ex_c idx else q 99 1.
Example ex_reproduced_on_grid :
  forallb (fun idx => qeqb (tprod_loop [op_of_mat S2; op_of_mat S3] ex_rhs idx) (ex_c idx))
          (all_idx [4%nat; 7%nat; 2%nat]) = true.
Proof. vm_compute. reflexivity. Qed.
(* component selection on a vector valued polynomial, through grid_eval *)
Definition ex_f : func := poly_func [[(q 1 1, [1%nat; 2%nat])]; [(q 3 1, [0%nat; 1%nat]); (q (-1) 2, [2%nat; 0%nat])]].
Example ex_component_selection :
  forallb (fun i => forallb (fun t =>
     qeqb (tprod_loop [op_of_mat S2; op_of_mat S3] (grid_eval ex_f [greville kv2 2; greville kv3 3]) (i ++ [t]))
          (tprod_loop [op_of_mat S2; op_of_mat S3] (grid_eval (ProofsGrid.select ex_f [t]) [greville kv2 2; greville kv3 3]) i))
     [0%nat; 1%nat]) (all_idx [4%nat; 7%nat]) = true.
Proof. vm_compute. reflexivity. Qed.
