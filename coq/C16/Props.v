(* C16 -- property theorems only. *)
From Coq Require Import List Arith Bool Ring.
From Verif.C16 Require Import Model Proofs.
Import ListNotations.

Theorem diag_spec : forall (R : Type) (rO rI : R) (radd rmul rsub : R -> R -> R) (ropp : R -> R),
  ring_theory rO rI radd rmul rsub ropp eq ->
  forall n d x i, i < n ->
  diagonal_matvec R rmul d x i = mv R rO radd rmul (diag_dense R rO n d) x i.
Proof. exact diag_spec_l. Qed.
Print Assumptions diag_spec.
