"""Implementation driver for C19: runs make_knots / KnotVector / Spline.derivative on the real code.
Floats cross the boundary as float.hex() strings (bit-exact)."""
import json
import sys

import numpy as np


def errclass(e):
    for c in (TypeError, ValueError, AssertionError, IndexError, KeyError, ZeroDivisionError, NotImplementedError):
        if isinstance(e, c):
            return c.__name__
    return 'Other:' + type(e).__name__


def fh(x):
    return float(x).hex()


def hx(lst):
    return [float(x).hex() for x in lst]


def unhex(lst):
    return np.array([float.fromhex(s) for s in lst], dtype=float)


def guarded(res, key, f):
    try:
        res[key] = f()
    except Exception as e:  # noqa
        res[key] = {'err': errclass(e), 'msg': str(e)[:160]}


def main():
    import os
    import pyiga
    assert os.path.realpath(pyiga.__file__).startswith(os.path.realpath(os.environ['VERIF_IMPL_DIR'])), pyiga.__file__
    from pyiga import bspline, spline, bspline_cy

    payload = json.load(sys.stdin)
    out = {'mk': [], 'sweep': [], 'kvs': [], 'eqscan': []}

    # ---- make_knots, full output -------------------------------------------------
    for (p, a, b, n, mult) in payload.get('mk', []):
        res = {}
        try:
            k = bspline.make_knots(p, float.fromhex(a), float.fromhex(b), n, mult)
            res = {'status': 'Ok', 'kv': hx(k.kv), 'numspans': int(k.numspans), 'numdofs': int(k.numdofs),
                   'mesh': hx(k.mesh), 'p': int(k.p)}
        except Exception as e:  # noqa
            res = {'status': errclass(e), 'msg': str(e)[:160]}
        out['mk'].append(res)

    # ---- make_knots, sweeps over n (facts only) ----------------------------------
    for sw in payload.get('sweep', []):
        a, b = float.fromhex(sw['a']), float.fromhex(sw['b'])
        rows = []
        for (p, n, mult) in sw['pnm']:
            try:
                k = bspline.make_knots(p, a, b, n, mult)
                kv = np.asarray(k.kv, dtype=float)
                rows.append(['Ok', int(k.numspans), int(k.numdofs), int(kv.size),
                             bool(np.all(kv[1:] >= kv[:-1])), len(set(kv.tolist())),
                             fh(kv[0]), fh(kv[-1]), fh(kv[p]), fh(kv[-p - 1])])
            except Exception as e:  # noqa
                rows.append([errclass(e)])
        out['sweep'].append(rows)

    # ---- KnotVector queries --------------------------------------------------------
    for c in payload.get('kvs', []):
        res = {}
        p = c['p']
        try:
            kv = bspline.KnotVector(unhex(c['kv']), p)
            res['status'] = 'Ok'
        except Exception as e:  # noqa
            out['kvs'].append({'status': errclass(e), 'msg': str(e)[:160]})
            continue
        us = [float.fromhex(u) for u in c.get('us', [])]
        guarded(res, 'findspan', lambda: [int(kv.findspan(u)) for u in us])
        guarded(res, 'findspans', lambda: [int(s) for s in bspline_cy.pyx_findspans(kv.kv, kv.p, np.array(us, dtype=float))])
        guarded(res, 'first_active_at', lambda: [int(kv.first_active_at(u)) for u in us])
        guarded(res, 'mesh', lambda: hx(kv.mesh))
        guarded(res, 'k2m', lambda: [int(i) for i in (kv._ensure_mesh() or kv._knots_to_mesh)])
        guarded(res, 'numspans', lambda: int(kv.numspans))
        guarded(res, 'numdofs', lambda: int(kv.numdofs))
        guarded(res, 'numknots', lambda: int(kv.numknots))
        guarded(res, 'msia', lambda: [[int(r[0]), int(r[1])] for r in kv.mesh_support_idx_all()])
        guarded(res, 'msi1', lambda: [[int(x) for x in kv.mesh_support_idx(j)] for j in range(kv.numdofs)])
        guarded(res, 'span_idx', lambda: [int(i) for i in kv.mesh_span_indices()])
        guarded(res, 'support', lambda: [hx(kv.support(j)) for j in range(kv.numdofs)])
        guarded(res, 'support_all', lambda: hx(kv.support()))
        guarded(res, 'greville', lambda: hx(kv.greville()))
        guarded(res, 'meshsize_avg', lambda: fh(kv.meshsize_avg()))
        if 'new_knots' in c:
            guarded(res, 'refined', lambda: hx(kv.refine(unhex(c['new_knots'])).kv))
        guarded(res, 'urefined', lambda: hx(kv.refine().kv))
        guarded(res, 'urefined_p', lambda: int(kv.refine().p))
        guarded(res, 'eq_self', lambda: [bool(kv == kv), bool(kv == kv.copy()), bool(kv.copy() == kv)])

        def eqs():
            r = []
            for o in c.get('others', []):
                ko = bspline.KnotVector(unhex(o['kv']), o['p'])
                r.append([bool(kv == ko), bool(ko == kv)])
            return r
        guarded(res, 'eq', eqs)
        if c.get('coeffs'):
            def der():
                s = spline.Spline(kv, unhex(c['coeffs']))
                d = s.derivative()
                x = unhex(c.get('x', []))
                return {'kv': hx(d.kv.kv), 'p': int(d.kv.p), 'coeffs': hx(d.coeffs),
                        'dev': hx(d.eval(x)) if len(x) else [], 'sdev': hx(s.deriv(x)) if len(x) else []}
            guarded(res, 'derivative', der)
        out['kvs'].append(res)

    # ---- __eq__ on single-knot perturbations (symmetry scan) ----------------------
    for sc in payload.get('eqscan', []):
        base = unhex(sc['kv'])
        p = sc['p']
        i = sc['i']
        rows = []
        k1 = bspline.KnotVector(base, p)
        for v in sc['vals']:
            other = base.copy()
            other[i] = float.fromhex(v)
            try:
                k2 = bspline.KnotVector(other, p)
                rows.append([bool(k1 == k2), bool(k2 == k1)])
            except Exception as e:  # noqa
                rows.append([errclass(e)])
        out['eqscan'].append(rows)

    print(json.dumps(out))


if __name__ == '__main__':
    main()
