"""Implementation driver for C12: runs pyiga.solvers on the real code (stdin JSON -> last stdout line JSON).

Nothing in /repo is edited: observation points are obtained by wrapping module globals of
pyiga.solvers from the outside (newton, make_solver, dirk_step, rosenbrock_step), each wrapper
calls the original."""
import json
import os
import sys

import numpy as np
import scipy.sparse


def errclass(e):
    for c in (TypeError, ValueError, AssertionError, IndexError, KeyError, ZeroDivisionError, NotImplementedError):
        if isinstance(e, c):
            return c.__name__
    return 'Other:' + type(e).__name__


def fl(v):
    return [float(t) for t in np.asarray(v, dtype=float).ravel()]


def closure_vars(f):
    if f.__closure__ is None:
        return {}
    return dict(zip(f.__code__.co_freevars, [c.cell_contents for c in f.__closure__]))


def mk_matrix(kind, rows):
    if kind == 'none':
        return None
    a = np.array(rows, dtype=float)
    if kind == 'sparse':
        return scipy.sparse.csr_matrix(a)
    return a


def mk_problem(case):
    """F(y) = L y + g - nl * y^3 (componentwise), J(y) = L - 3 nl diag(y^2); L dense or sparse."""
    L = np.array(case['L'], dtype=float)
    g = np.array(case['g'], dtype=float)
    nl = float(case.get('nl', 0.0))
    sparse = case.get('Lkind') == 'sparse'
    Ls = scipy.sparse.csr_matrix(L) if sparse else L
    log = []

    def F(y):
        y = np.asarray(y, dtype=float)
        log.append(y.copy())
        r = Ls @ y + g
        if nl != 0.0:
            r = r - nl * y ** 3
        return r

    def J(y):
        if nl == 0.0:
            return Ls
        D = np.diag(3 * nl * np.asarray(y, dtype=float) ** 2)
        if sparse:
            return scipy.sparse.csr_matrix(L - D)
        return L - D
    return F, J, log


def main():
    import pyiga
    assert os.path.realpath(pyiga.__file__).startswith(os.path.realpath(os.environ['VERIF_IMPL_DIR'])), pyiga.__file__
    from pyiga import solvers

    payload = json.load(sys.stdin)
    out = []
    orig_newton = solvers.newton
    orig_make_solver = solvers.make_solver
    orig_dirk_step = solvers.dirk_step
    orig_ros_step = solvers.rosenbrock_step

    for task in payload['tasks']:
        kind = task['kind']
        res = {'kind': kind}
        try:
            if kind == 'tables':
                tabs = {}
                for name in task['names']:
                    f = getattr(solvers, name)
                    cv = closure_vars(f)
                    st = closure_vars(cv['stepper'])
                    ent = {k: (np.asarray(v, dtype=float).tolist() if v is not None else None)
                           for k, v in st.items() if isinstance(v, (np.ndarray, list)) or v is None}
                    ent['err_order'] = cv.get('err_order')
                    ent['has_const_fallback'] = 'const_method' in cv
                    if 'const_method' in cv:
                        cst = closure_vars(closure_vars(cv['const_method'])['stepper'])
                        ent['const'] = {k: np.asarray(v, dtype=float).tolist() for k, v in cst.items()
                                        if isinstance(v, np.ndarray)}
                    ent['name_attr'] = f.__name__
                    tabs[name] = ent
                res['tables'] = tabs
                import types
                res['exported'] = sorted(n for n in dir(solvers)
                                         if isinstance(getattr(solvers, n), types.FunctionType)
                                         and 'stepper' in closure_vars(getattr(solvers, n)))

            elif kind == 'dirk':
                A = np.array(task['A'], dtype=float)
                M = mk_matrix(task['Mkind'], task.get('M'))
                F, J, flog = mk_problem(task)
                x = np.array(task['x'], dtype=float)
                tau = float(task['tau'])
                nrec = []

                def rec_newton(Fn, Jn, x0, **kw):
                    n0 = len(flog)
                    ent = {'x0': fl(x0), 'res0': float(np.linalg.norm(Fn(np.array(x0)))), 'kw': {k: kw[k] for k in kw}}
                    del flog[n0:]
                    nrec.append(ent)
                    try:
                        y = orig_newton(Fn, Jn, x0, **kw)
                    except solvers.NoConvergenceError:
                        ent['raised'] = True
                        ent['nF'] = len(flog) - n0
                        raise
                    ent['y'] = fl(y)
                    ent['nF'] = len(flog) - n0
                    ent['last_eval'] = fl(flog[-1])
                    return y
                solvers.newton = rec_newton
                try:
                    Fx = F(x) if task.get('give_Fx') else None
                    data = {}
                    r = orig_dirk_step(A, M, F, J, x, tau, data, Fx=Fx)
                finally:
                    solvers.newton = orig_newton
                res['ntuple'] = len(r)
                res['x_new'] = fl(r[0])
                if len(r) == 3:
                    res['x_est'] = fl(r[1])
                Fxn = r[-1]
                res['F_x_new'] = None if Fxn is None else fl(Fxn)
                res['newton'] = nrec
                res['M_inv_cached'] = 'M_inv' in data

            elif kind == 'ros':
                A = np.array(task['A'], dtype=float)
                G = np.array(task['G'], dtype=float)
                b = np.array(task['b'], dtype=float)
                bh = None if task.get('bh') is None else np.array(task['bh'], dtype=float)
                M = mk_matrix(task['Mkind'], task.get('M'))
                F, J, flog = mk_problem(task)
                x = np.array(task['x'], dtype=float)
                tau = float(task['tau'])
                ks = []

                class Rec:
                    def __init__(self, op):
                        self.op = op

                    def dot(self, v):
                        r = self.op.dot(v)
                        ks.append(fl(r))
                        return r
                    __matmul__ = dot

                def rec_make_solver(B, *a, **kw):
                    return Rec(orig_make_solver(B, *a, **kw))
                solvers.make_solver = rec_make_solver
                try:
                    r = orig_ros_step(A, G, b, bh, M, F, J, x, tau, {})
                finally:
                    solvers.make_solver = orig_make_solver
                res['ntuple'] = len(r)
                res['x_new'] = fl(r[0])
                if len(r) == 3:
                    res['x_est'] = fl(r[1])
                res['last_is_none'] = r[-1] is None
                res['ks'] = ks
                res['F_points'] = [fl(p) for p in flog]

            elif kind == 'const':
                fail_at = task.get('fail_at')
                calls = []

                def stepper(M, F, J, x, tau, data, Fx=None):
                    calls.append(float(tau))
                    if fail_at is not None and len(calls) - 1 == fail_at:
                        raise solvers.NoConvergenceError('newton', 1, x)
                    return x + 1.0, None
                meth = solvers._constant_step_method(stepper)
                sys.stdout = open(os.devnull, 'w')
                try:
                    times, sols = meth(None, None, None, np.array([0.0]), task['tau'], task['t_end'], t0=task['t0'])
                finally:
                    sys.stdout = sys.__stdout__
                res['times'] = [float(t) for t in times]
                res['sols'] = [float(s[0]) for s in sols]
                res['ncalls'] = len(calls)
                res['taus_same'] = all(c == float(task['tau']) for c in calls)

            elif kind == 'adaptive':
                evs = list(task['events'])
                x0 = np.array(task['x0'], dtype=float)
                taus = []

                class Exhausted(Exception):
                    pass

                def stepper(M, F, J, x, tau, data, Fx=None):
                    if len(taus) >= len(evs):
                        raise Exhausted()
                    e = evs[len(taus)]
                    taus.append(float(tau))
                    if e.get('fail'):
                        raise solvers.NoConvergenceError('newton', 1, x)
                    xnew = x.copy()
                    xhat = xnew + np.array(e['diff'], dtype=float)
                    return xnew, xhat, None
                meth = solvers._adaptive_step_method(stepper, task['err_order'], None)
                try:
                    times, sols = meth(None, None, None, x0, task['tau0'], task['t_end'], task['tol'],
                                       t0=task['t0'], step_factor=task['step_factor'])
                    res['times'] = [float(t) for t in times]
                    res['nsols'] = len(sols)
                    res['exhausted'] = False
                except Exhausted:
                    res['exhausted'] = True
                res['taus'] = taus

            elif kind == 'newton_exact':
                # scalar, dyadic: F(x) = x^2 - c, "Jacobian" d(x) = dhi if x >= thr else dlo (powers of two)
                c, thr, dlo, dhi = task['c'], task['thr'], task['dlo'], task['dhi']
                Fpts, Jpts = [], []

                def F(x):
                    Fpts.append(float(x[0]))
                    return np.array([x[0] * x[0] - c])

                def J(x):
                    Jpts.append(float(x[0]))
                    return np.array([[dhi if x[0] >= thr else dlo]])
                try:
                    y = orig_newton(F, J, np.array([task['x0']]), atol=task['atol'], rtol=task['rtol'],
                                    maxiter=task['maxiter'], freeze_jac=task['freeze'])
                    res['x'] = float(y[0])
                    res['raised'] = False
                except solvers.NoConvergenceError as e:
                    res['raised'] = True
                    res['last_iterate'] = float(e.last_iterate[0])
                    res['num_iter'] = e.num_iter
                res['Fpts'] = Fpts
                res['Jpts'] = Jpts

            elif kind == 'newton':
                F, J, flog = mk_problem(task)
                jlog = []

                def J2(y):
                    jlog.append(fl(y))
                    return J(y)
                x0 = np.array(task['x0'], dtype=float)
                try:
                    y = orig_newton(F, J2, x0, atol=task['atol'], rtol=task['rtol'], maxiter=task['maxiter'],
                                    freeze_jac=task['freeze'])
                    res['x'] = fl(y)
                    res['raised'] = False
                except solvers.NoConvergenceError as e:
                    res['raised'] = True
                    res['last_iterate'] = fl(e.last_iterate)
                res['Fpts'] = [fl(p) for p in flog]
                res['Jpts'] = jlog
                res['x0_unchanged'] = bool(np.array_equal(x0, np.array(task['x0'], dtype=float)))

            elif kind == 'method':
                name = task['name']
                meth = getattr(solvers, name)
                M = mk_matrix(task['Mkind'], task.get('M'))
                F, J, flog = mk_problem(task)
                x0 = np.array(task['x'], dtype=float)
                steps = []

                def rec_dirk(A, *a, **kw):
                    r = orig_dirk_step(A, *a, **kw)
                    steps.append({'x': fl(a[3]), 'tau': float(a[4]), 'x_new': fl(r[0]),
                                  'x_est': fl(r[1]) if len(r) == 3 else None})
                    return r

                def rec_ros(A, G, b, bh, *a, **kw):
                    r = orig_ros_step(A, G, b, bh, *a, **kw)
                    steps.append({'x': fl(a[3]), 'tau': float(a[4]), 'x_new': fl(r[0]),
                                  'x_est': fl(r[1]) if len(r) == 3 else None})
                    return r
                nskip = [0]

                def rec_newton(Fn, Jn, x0_, **kw):
                    n0 = len(flog)
                    y = orig_newton(Fn, Jn, x0_, **kw)
                    if len(flog) - n0 <= 1:
                        nskip[0] += 1
                    return y
                solvers.dirk_step, solvers.rosenbrock_step, solvers.newton = rec_dirk, rec_ros, rec_newton
                try:
                    args = [M, F, J, x0, task['tau'], task['t_end']]
                    kw = {'t0': task['t0']}
                    if task['adaptive_api']:
                        args.append(task['tol'])
                        if task.get('step_factor') is not None:
                            kw['step_factor'] = task['step_factor']
                    times, sols = meth(*args, **kw)
                finally:
                    solvers.dirk_step, solvers.rosenbrock_step, solvers.newton = orig_dirk_step, orig_ros_step, orig_newton
                res['times'] = [float(t) for t in times]
                res['sols'] = [fl(s) for s in sols]
                res['steps'] = steps if task.get('want_steps') else None
                res['nsteps'] = len(steps)
                res['newton_skipped'] = nskip[0]
            elif kind == 'trace':
                # a shipped method through its REAL driver; every call of dirk_step / rosenbrock_step
                # (accepted, rejected or failed) is recorded with its arguments (x, tau, Fx, table) and
                # everything the single-step oracles need (Newton calls per stage / linear-solve outputs)
                name = task['name']
                meth = getattr(solvers, name)
                M = mk_matrix(task['Mkind'], task.get('M'))
                F, J, flog = mk_problem(task)
                x0 = np.array(task['x'], dtype=float)
                attempts = []
                cur = {'newton': None, 'ks': None}
                cap = int(task.get('max_attempts', 400))

                class TooMany(Exception):
                    pass

                def rec_newton(Fn, Jn, xs, **kw):
                    n0 = len(flog)
                    ent = {'x0': fl(xs), 'res0': float(np.linalg.norm(Fn(np.array(xs)))), 'kw': {k: kw[k] for k in kw}}
                    del flog[n0:]
                    if cur['newton'] is not None:
                        cur['newton'].append(ent)
                    try:
                        y = orig_newton(Fn, Jn, xs, **kw)
                    except solvers.NoConvergenceError:
                        ent['raised'] = True
                        ent['nF'] = len(flog) - n0
                        raise
                    ent['y'] = fl(y)
                    ent['nF'] = len(flog) - n0
                    ent['last_eval'] = fl(flog[-1])
                    return y

                class Rec:
                    def __init__(self, op):
                        self.op = op

                    def dot(self, v):
                        r = self.op.dot(v)
                        if cur['ks'] is not None:
                            cur['ks'].append(fl(r))
                        return r
                    __matmul__ = dot

                def rec_make_solver(B, *a, **kw):
                    return Rec(orig_make_solver(B, *a, **kw))

                def common(a, kw):
                    if len(attempts) >= cap:
                        raise TooMany()
                    Fx_in = kw.get('Fx')
                    return {'x': fl(a[3]), 'tau': float(a[4]), 'Fx_in': None if Fx_in is None else fl(Fx_in),
                            'data_keys': sorted(str(k) for k in a[5].keys()) if isinstance(a[5], dict) else None}

                def rec_dirk(A, *a, **kw):
                    ent = common(a, kw)
                    ent.update(kind='dirk', A=np.asarray(A, dtype=float).tolist(), newton=[])
                    attempts.append(ent)
                    cur['newton'], cur['ks'] = ent['newton'], None
                    n0 = len(flog)
                    try:
                        r = orig_dirk_step(A, *a, **kw)
                    except solvers.NoConvergenceError:
                        ent['status'] = 'Other:NoConvergenceError'
                        raise
                    finally:
                        cur['newton'] = None
                    ent['status'] = 'Ok'
                    ent['ntuple'] = len(r)
                    ent['x_new'] = fl(r[0])
                    if len(r) == 3:
                        ent['x_est'] = fl(r[1])
                    ent['F_x_new'] = None if r[-1] is None else fl(r[-1])
                    return r

                def rec_ros(A, G, b, bh, *a, **kw):
                    ent = common(a, kw)
                    ent.update(kind='ros', A=np.asarray(A, dtype=float).tolist(), G=np.asarray(G, dtype=float).tolist(),
                               b=fl(b), bh=None if bh is None else fl(bh), ks=[])
                    attempts.append(ent)
                    cur['newton'], cur['ks'] = None, ent['ks']
                    n0 = len(flog)
                    try:
                        r = orig_ros_step(A, G, b, bh, *a, **kw)
                    finally:
                        cur['ks'] = None
                    ent['status'] = 'Ok'
                    ent['ntuple'] = len(r)
                    ent['x_new'] = fl(r[0])
                    if len(r) == 3:
                        ent['x_est'] = fl(r[1])
                    ent['last_is_none'] = r[-1] is None
                    ent['F_points'] = [fl(p) for p in flog[n0:]]
                    return r
                solvers.dirk_step, solvers.rosenbrock_step = rec_dirk, rec_ros
                solvers.newton, solvers.make_solver = rec_newton, rec_make_solver
                try:
                    args = [M, F, J, x0, task['tau'], task['t_end']]
                    kw = {'t0': task['t0']}
                    if task['adaptive_api']:
                        args.append(task['tol'])
                        if task.get('step_factor') is not None:
                            kw['step_factor'] = task['step_factor']
                    try:
                        times, sols = meth(*args, **kw)
                        res['times'] = [float(t) for t in times]
                        res['sols'] = [fl(s) for s in sols]
                        res['too_many'] = False
                    except TooMany:
                        res['too_many'] = True
                finally:
                    solvers.dirk_step, solvers.rosenbrock_step = orig_dirk_step, orig_ros_step
                    solvers.newton, solvers.make_solver = orig_newton, orig_make_solver
                res['attempts'] = attempts
            elif kind == 'xtrace':
                # an adaptive shipped method through its REAL driver on a problem whose right-hand side
                # leaves its domain / overflows for a too large trial step (non-finite trial steps):
                #   'sqrt': F(h) = -k sqrt(h)   (NaN for h < 0),   'exp': F(y) = c exp(a y)  (inf by overflow)
                # every call of the step function is recorded (x, tau, outcome) up to an evaluation budget
                name = task['name']
                meth = getattr(solvers, name)
                M = mk_matrix(task['Mkind'], task.get('M'))
                kv = np.array(task['k'], dtype=float)
                av = np.array(task.get('a', [0.0] * len(kv)), dtype=float)
                prob = task['problem']
                sparseJ = task.get('Jkind') == 'sparse'

                def F(y):
                    y = np.asarray(y, dtype=float)
                    if prob == 'sqrt':
                        return -kv * np.sqrt(y)
                    return kv * np.exp(av * y)

                def J(y):
                    y = np.asarray(y, dtype=float)
                    if prob == 'sqrt':
                        D = np.diag(-kv / (2 * np.sqrt(y)))
                    else:
                        D = np.diag(kv * av * np.exp(av * y))
                    return scipy.sparse.csr_matrix(D) if sparseJ else D
                x0 = np.array(task['x'], dtype=float)
                attempts = []
                cap = int(task.get('max_attempts', 400))

                class TooMany(Exception):
                    pass

                def wrap(orig, ix, itau):
                    def rec(*a, **kw):
                        if len(attempts) >= cap:
                            raise TooMany()
                        ent = {'x': fl(a[ix]), 'tau': float(a[itau])}
                        attempts.append(ent)
                        try:
                            r = orig(*a, **kw)
                        except solvers.NoConvergenceError:
                            ent['status'] = 'NoConvergence'
                            raise
                        except Exception as e:  # noqa
                            ent['status'] = errclass(e)
                            raise
                        ent['status'] = 'Ok'
                        ent['ntuple'] = len(r)
                        ent['x_new'] = fl(r[0])
                        ent['x_est'] = fl(r[1]) if len(r) == 3 else None
                        return r
                    return rec
                solvers.dirk_step = wrap(orig_dirk_step, 4, 5)
                solvers.rosenbrock_step = wrap(orig_ros_step, 7, 8)
                try:
                    kw = {'t0': task['t0']}
                    if task.get('step_factor') is not None:
                        kw['step_factor'] = task['step_factor']
                    try:
                        with np.errstate(all='ignore'):
                            times, sols = meth(M, F, J, x0, task['tau'], task['t_end'], task['tol'], **kw)
                        res['times'] = [float(t) for t in times]
                        res['sols'] = [fl(s) for s in sols]
                        res['too_many'] = False
                    except TooMany:
                        res['too_many'] = True
                finally:
                    solvers.dirk_step, solvers.rosenbrock_step = orig_dirk_step, orig_ros_step
                    res['attempts'] = attempts
            else:
                raise RuntimeError('unknown task kind ' + kind)
            res['status'] = 'Ok'
        except Exception as e:  # noqa
            res['status'] = errclass(e)
            res['msg'] = (type(e).__name__ + ': ' + str(e))[:300]
        finally:
            solvers.newton, solvers.make_solver = orig_newton, orig_make_solver
            solvers.dirk_step, solvers.rosenbrock_step = orig_dirk_step, orig_ros_step
        out.append(res)
    print(json.dumps({'results': out}))


if __name__ == '__main__':
    main()
