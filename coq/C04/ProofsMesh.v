(* C04 -- the tensor-product tables of every level of every valid hierarchy are consistent:
   suppfunc (_compute_supported_functions) is dual to meshsupp (mesh_support_idx_all), supports
   are non-empty and lie inside the mesh.  This discharges the hypothesis [hier_ok] of the
   activity characterisation. *)
From Coq Require Import List Arith Bool Lia.
From Verif.lib Require Import FinSet.
From Verif.C04 Require Import Model Proofs ProofsFun.
Import ListNotations.

(* ------------------------------------------------------------------------- *)
(* the knot-to-mesh map                                                        *)

Lemma nth_repeat_lt : forall (i m a d : nat), a < m -> nth a (repeat i m) d = i.
Proof. intros i m; induction m as [|m IH]; intros a d H; [lia|]. destruct a; simpl; auto. apply IH; lia. Qed.

Lemma nth_rep_app_lt : forall i m R a, a < m -> nth a (repeat i m ++ R) 0 = i.
Proof. intros. rewrite app_nth1 by (rewrite repeat_length; auto). apply nth_repeat_lt; auto. Qed.

Lemma nth_rep_app_ge : forall i m R a, m <= a -> nth a (repeat i m ++ R) 0 = nth (a - m) R 0.
Proof. intros. rewrite app_nth2 by (rewrite repeat_length; auto). rewrite repeat_length. reflexivity. Qed.

Lemma k2m_aux_length : forall mults i, length (k2m_aux i mults) = fold_right Nat.add 0 mults.
Proof. induction mults as [|m r IH]; intros i; simpl; auto. rewrite app_length, repeat_length, IH. reflexivity. Qed.

Lemma k2m_lb : forall mults i b, b < length (k2m_aux i mults) -> i <= nth b (k2m_aux i mults) 0.
Proof.
  induction mults as [|m r IH]; intros i b H; simpl in *; [lia|].
  rewrite app_length, repeat_length in H.
  destruct (Nat.lt_ge_cases b m) as [Hb|Hb].
  - rewrite nth_rep_app_lt by auto. lia.
  - rewrite nth_rep_app_ge by auto. specialize (IH (S i) (b - m)). lia.
Qed.

Lemma k2m_ub : forall mults i b, b < length (k2m_aux i mults) -> nth b (k2m_aux i mults) 0 < i + length mults.
Proof.
  induction mults as [|m r IH]; intros i b H; simpl in *; [lia|].
  rewrite app_length, repeat_length in H.
  destruct (Nat.lt_ge_cases b m) as [Hb|Hb].
  - rewrite nth_rep_app_lt by auto. lia.
  - rewrite nth_rep_app_ge by auto. specialize (IH (S i) (b - m)). lia.
Qed.

Lemma k2m_mono : forall mults i a b, a <= b -> b < length (k2m_aux i mults) ->
  nth a (k2m_aux i mults) 0 <= nth b (k2m_aux i mults) 0.
Proof.
  induction mults as [|m r IH]; intros i a b Hab H; simpl in *; [lia|].
  rewrite app_length, repeat_length in H.
  destruct (Nat.lt_ge_cases b m) as [Hb|Hb].
  - rewrite !nth_rep_app_lt by lia. lia.
  - rewrite (nth_rep_app_ge i m _ b) by auto.
    destruct (Nat.lt_ge_cases a m) as [Ha|Ha].
    + rewrite nth_rep_app_lt by auto. pose proof (k2m_lb r (S i) (b - m)). lia.
    + rewrite nth_rep_app_ge by auto. apply IH; lia.
Qed.

Lemma k2m_strict : forall q mults i a, Forall (fun m => m <= q) mults ->
  a + q < length (k2m_aux i mults) ->
  nth a (k2m_aux i mults) 0 < nth (a + q) (k2m_aux i mults) 0.
Proof.
  intros q. induction mults as [|m r IH]; intros i a HF H; simpl in *; [lia|].
  rewrite app_length, repeat_length in H. inversion HF as [|? ? Hm HF']; subst.
  destruct (Nat.lt_ge_cases a m) as [Ha|Ha].
  - rewrite nth_rep_app_lt by auto. rewrite nth_rep_app_ge by lia.
    pose proof (k2m_lb r (S i) (a + q - m)). lia.
  - rewrite !nth_rep_app_ge by lia. replace (a + q - m) with (a - m + q) by lia.
    apply IH; auto. lia.
Qed.

(* ------------------------------------------------------------------------- *)
(* one axis                                                                    *)

Definition axis_ok (a : axis) : Prop :=
  Forall (fun m => m <= ax_p a + 1) (ax_mults a) /\ 1 <= ax_numdofs a.

Definition inr (r : nat * nat) (x : nat) : Prop := fst r <= x < snd r.

Section Axis.
  Variable a : axis.
  Hypothesis OK : axis_ok a.
  Let K := k2m a.
  Let p := ax_p a.
  Let n := ax_numdofs a.
  Let ns := ax_numspans a.
  Let ms := ax_meshsupp a.
  Let sf := supported_functions ns n ms.

  Lemma n_def : n + p + 1 = length K.
  Proof. unfold n, ax_numdofs, ax_numknots. fold K. fold p. destruct OK as [_ H]. unfold ax_numdofs, ax_numknots in H. fold K in H. fold p in H. lia. Qed.

  Lemma ms_length : length ms = n.
  Proof. unfold ms, ax_meshsupp. rewrite map_length, seq_length. reflexivity. Qed.

  Lemma ms_nth : forall j, j < n -> nth j ms (0, 0) = (nth j K 0, nth (j + p + 1) K 0).
  Proof.
    intros j H. unfold ms, ax_meshsupp.
    rewrite (nth_map_seq _ (fun j => (nth j (k2m a) 0, nth (j + ax_p a + 1) (k2m a) 0)) (0,0) (ax_numdofs a) j H).
    reflexivity.
  Qed.

  Lemma K_mono : forall x y, x <= y -> y < length K -> nth x K 0 <= nth y K 0.
  Proof. unfold K, k2m. intros; apply k2m_mono; auto. Qed.
  Lemma K_strict : forall x, x + (p + 1) < length K -> nth x K 0 < nth (x + (p + 1)) K 0.
  Proof. unfold K, k2m, p. intros; apply k2m_strict; auto. exact (proj1 OK). Qed.
  Lemma K_ub : forall y, y < length K -> nth y K 0 < length (ax_mults a).
  Proof. unfold K, k2m. intros y H. pose proof (k2m_ub (ax_mults a) 0 y H). lia. Qed.

  Lemma ms_fst_mono : forall j1 j2, j1 <= j2 -> j2 < n -> fst (nth j1 ms (0,0)) <= fst (nth j2 ms (0,0)).
  Proof.
    intros j1 j2 H1 H2. rewrite !ms_nth by lia. simpl. pose proof n_def. apply K_mono; lia.
  Qed.

  Lemma ms_snd_mono : forall j1 j2, j1 <= j2 -> j2 < n -> snd (nth j1 ms (0,0)) <= snd (nth j2 ms (0,0)).
  Proof.
    intros j1 j2 H1 H2. rewrite !ms_nth by lia. simpl. pose proof n_def. apply K_mono; lia.
  Qed.

  Lemma ms_nonempty : forall j, j < n -> fst (nth j ms (0,0)) < snd (nth j ms (0,0)).
  Proof.
    intros j H. rewrite ms_nth by auto. simpl. pose proof n_def.
    replace (j + p + 1) with (j + (p + 1)) by lia.
    apply K_strict. lia.
  Qed.

  Lemma ms_in_mesh : forall j, j < n -> snd (nth j ms (0,0)) <= ns.
  Proof.
    intros j H. rewrite ms_nth by auto. simpl. pose proof n_def.
    pose proof (K_ub (j + p + 1)) as Hub.
    unfold ns, ax_numspans. lia.
  Qed.

  Lemma fold_min_le : forall d l x, In x l -> fold_right Nat.min d l <= x.
  Proof. induction l as [|y l IH]; intros x H; simpl in *; [tauto|]. destruct H as [->|H]; [lia|]. specialize (IH x H). lia. Qed.

  Lemma fold_max_ge : forall d l x, In x l -> x <= fold_right Nat.max d l.
  Proof. induction l as [|y l IH]; intros x H; simpl in *; [tauto|]. destruct H as [->|H]; [lia|]. specialize (IH x H). lia. Qed.

  Lemma fold_min_in : forall d l, l <> [] -> (forall x, In x l -> x < d) -> In (fold_right Nat.min d l) l.
  Proof.
    induction l as [|y l IH]; intros Hne Hlt; [congruence|]. simpl.
    destruct l as [|z l].
    - simpl. left. specialize (Hlt y (or_introl eq_refl)). lia.
    - assert (Hin : In (fold_right Nat.min d (z :: l)) (z :: l)).
      { apply IH; [discriminate|]. intros x Hx. apply Hlt. right; auto. }
      destruct (Nat.min_dec y (fold_right Nat.min d (z :: l))) as [E|E]; rewrite E; [left; auto | right; auto].
  Qed.

  Lemma fold_max_in : forall l, l <> [] -> In (fold_right Nat.max 0 l) l.
  Proof.
    induction l as [|y l IH]; intros Hne; [congruence|]. simpl.
    destruct l as [|z l].
    - simpl. left. lia.
    - assert (Hin : In (fold_right Nat.max 0 (z :: l)) (z :: l)) by (apply IH; discriminate).
      destruct (Nat.max_dec y (fold_right Nat.max 0 (z :: l))) as [E|E]; rewrite E; [left; auto | right; auto].
  Qed.

  Lemma In_combine_seq : forall (l : list (nat * nat)) a0 j r,
    In (j, r) (combine (seq a0 (length l)) l) <-> a0 <= j < a0 + length l /\ nth (j - a0) l (0,0) = r.
  Proof.
    induction l as [|x l IH]; intros a0 j r; simpl.
    - split; [tauto | lia].
    - rewrite IH. split.
      + intros [E|[H1 H2]].
        * inversion E; subst. rewrite Nat.sub_diag. split; [lia | reflexivity].
        * split; [lia|]. replace (j - a0) with (S (j - S a0)) by lia. exact H2.
      + intros [H1 H2]. destruct (Nat.eq_dec j a0) as [->|Hne].
        * left. rewrite Nat.sub_diag in H2. subst. reflexivity.
        * right. split; [lia|]. replace (j - a0) with (S (j - S a0)) in H2 by lia. exact H2.
  Qed.

  Lemma covers_spec : forall j k, covers ms j k = true <-> inr (nth j ms (0,0)) k.
  Proof.
    intros. unfold covers, inr. rewrite andb_true_iff, Nat.leb_le, Nat.ltb_lt. tauto.
  Qed.

  (* the interval lemma: the functions that do not vanish on cell k are exactly the range sf[k] *)
  Lemma axis_dual : forall k j, inr (nth k sf (0,0)) j <-> (j < n /\ inr (nth j ms (0,0)) k).
  Proof.
    intros k j. destruct (Nat.lt_ge_cases k ns) as [Hk|Hk].
    - unfold sf, supported_functions.
      set (g := fun k0 => let js := map fst (filter (fun jr => covers_r (snd jr) k0) (combine (seq 0 (length ms)) ms)) in
                         (fold_right Nat.min n js, S (fold_right Nat.max 0 js))).
      rewrite (nth_map_seq _ g (0,0) ns k Hk). unfold g.
      set (js := map fst (filter (fun jr => covers_r (snd jr) k) (combine (seq 0 (length ms)) ms))).
      assert (Hjs : forall x, In x js <-> x < n /\ inr (nth x ms (0,0)) k).
      { intros x. unfold js. rewrite in_map_iff. split.
        - intros [[j0 r] [E Hin]]. simpl in E. subst j0. apply filter_In in Hin. destruct Hin as [Hc Hcov].
          apply In_combine_seq in Hc. destruct Hc as [Hr1 Hr2]. rewrite ms_length in Hr1. rewrite Nat.sub_0_r in Hr2.
          split; [lia|]. rewrite Hr2. simpl in Hcov. unfold covers_r in Hcov.
          apply andb_true_iff in Hcov. destruct Hcov as [H1 H2]. apply Nat.leb_le in H1. apply Nat.ltb_lt in H2.
          unfold inr. lia.
        - intros [Hx Hin]. exists (x, nth x ms (0,0)). split; [reflexivity|]. apply filter_In. split.
          + apply In_combine_seq. rewrite ms_length, Nat.sub_0_r. split; [lia | reflexivity].
          + simpl. unfold covers_r, inr in *. apply andb_true_iff. split; [apply Nat.leb_le | apply Nat.ltb_lt]; lia. }
      unfold inr at 1. simpl. split.
      + intros [Hlo Hhi].
        assert (Hne : js <> []).
        { intros E. rewrite E in Hlo, Hhi. simpl in *. destruct OK as [_ Hn]. fold n in Hn. lia. }
        assert (Hlo_in : In (fold_right Nat.min n js) js).
        { apply fold_min_in; auto. intros x Hx. apply Hjs in Hx. tauto. }
        assert (Hmx_in : In (fold_right Nat.max 0 js) js) by (apply fold_max_in; auto).
        apply Hjs in Hlo_in. apply Hjs in Hmx_in.
        destruct Hlo_in as [Hl1 [_ Hl2]]. destruct Hmx_in as [Hm1 [Hm2 _]].
        assert (Hj : j < n) by lia. split; auto. split.
        * pose proof (ms_fst_mono j (fold_right Nat.max 0 js)). lia.
        * pose proof (ms_snd_mono (fold_right Nat.min n js) j). lia.
      + intros [Hj Hin]. assert (In j js) by (apply Hjs; auto).
        pose proof (fold_min_le n js j H). pose proof (fold_max_ge 0 js j H). lia.
    - rewrite nth_overflow by (unfold sf, supported_functions; rewrite map_length, seq_length; auto).
      unfold inr at 1. simpl. split; [lia|].
      intros [Hj [_ Hin]]. pose proof (ms_in_mesh j Hj). lia.
  Qed.
End Axis.

(* refinement keeps an axis valid *)
Lemma refine_mults_Forall : forall q m, 1 <= q -> Forall (fun x => x <= q) m -> Forall (fun x => x <= q) (refine_mults m).
Proof.
  intros q m Hq. induction m as [|x r IH]; intros H; simpl; auto.
  inversion H as [|? ? Hx Hr]; subst. destruct r as [|y r']; [constructor; auto|].
  constructor; [exact Hx|]. constructor; [lia|]. apply IH; exact Hr.
Qed.

Lemma refine_mults_sum : forall m, fold_right Nat.add 0 m <= fold_right Nat.add 0 (refine_mults m).
Proof.
  induction m as [|x r IH]; simpl; auto. destruct r as [|y r']; simpl in *; lia.
Qed.

Lemma axis_ok_refine : forall a, axis_ok a -> axis_ok (ax_refine a).
Proof.
  intros a [H1 H2]. split.
  - simpl. apply refine_mults_Forall; auto. lia.
  - unfold ax_numdofs, ax_numknots, k2m in *. simpl. rewrite k2m_aux_length in *.
    pose proof (refine_mults_sum (ax_mults a)). lia.
Qed.

(* ------------------------------------------------------------------------- *)
(* tensor products                                                             *)

Definition msA (a : axis) := ax_meshsupp a.
Definition sfA (a : axis) := supported_functions (ax_numspans a) (ax_numdofs a) (ax_meshsupp a).

Lemma In_box : forall ns x, In x (of_list (prod_ranges (map (fun n => (0, n)) ns))) <-> Forall2 (fun n xi => xi < n) ns x.
Proof.
  intros ns x. rewrite of_list_In, In_prod_ranges. revert x.
  induction ns as [|n ns IH]; intros x; simpl.
  - split; intros H; inversion H; constructor.
  - split; intros H; inversion H; subst; constructor; simpl in *; try lia; apply IH; auto.
Qed.

Lemma tp_dual : forall axes c f, Forall axis_ok axes -> length c = length axes ->
  (Forall2 inr (lookup_ranges (map sfA axes) c) f <->
   Forall2 (fun n xi => xi < n) (map ax_numdofs axes) f /\ Forall2 inr (lookup_ranges (map msA axes) f) c).
Proof.
  induction axes as [|a axes IH]; intros c f HA Hlen.
  - destruct c; [|discriminate]. simpl. split.
    + intros H; inversion H; subst. split; constructor.
    + intros [H _]; inversion H; subst. constructor.
  - destruct c as [|k c]; [discriminate|]. inversion HA as [|? ? Ha HA']; subst. simpl in Hlen.
    simpl. split.
    + intros H. inversion H as [|r j rs f' Hr Hrest]; subst.
      apply (axis_dual a Ha) in Hr. destruct Hr as [Hj Hin].
      apply IH in Hrest; auto. destruct Hrest as [H1 H2]. simpl. split; constructor; auto.
    + intros [H1 H2]. inversion H1 as [|nn j ns' f' Hj Hrest]; subst. simpl in H2.
      inversion H2 as [|r k' rs c' Hr Hrest2]; subst.
      constructor.
      * apply (axis_dual a Ha). split; auto.
      * apply IH; auto.
Qed.

Lemma tp_nonempty : forall axes f, Forall axis_ok axes -> Forall2 (fun n xi => xi < n) (map ax_numdofs axes) f ->
  exists c, Forall2 inr (lookup_ranges (map msA axes) f) c.
Proof.
  induction axes as [|a axes IH]; intros f HA HF; simpl in *.
  - exists []. inversion HF; subst. constructor.
  - inversion HA as [|? ? Ha HA']; subst. inversion HF as [|nn j ns' f' Hj Hrest]; subst.
    destruct (IH f' HA' Hrest) as [c Hc]. simpl.
    exists (fst (nth j (msA a) (0,0)) :: c). constructor; auto.
    unfold inr. pose proof (ms_nonempty a Ha j Hj). unfold msA. lia.
Qed.

Lemma tp_incells : forall axes f c, Forall axis_ok axes -> Forall2 (fun n xi => xi < n) (map ax_numdofs axes) f ->
  Forall2 inr (lookup_ranges (map msA axes) f) c -> Forall2 (fun n xi => xi < n) (map ax_numspans axes) c.
Proof.
  induction axes as [|a axes IH]; intros f c HA HF HC; simpl in *.
  - inversion HF; subst. simpl in HC. inversion HC; subst. constructor.
  - inversion HA as [|? ? Ha HA']; subst. inversion HF as [|nn j ns' f' Hj Hrest]; subst.
    simpl in HC. inversion HC as [|r k rs c' Hr Hrest2]; subst.
    constructor; [|eapply IH; eauto].
    pose proof (ms_in_mesh a Ha j Hj). unfold inr, msA in Hr. lia.
Qed.

Lemma Forall2_len : forall (A B : Type) (R : A -> B -> Prop) l1 l2, Forall2 R l1 l2 -> length l1 = length l2.
Proof. intros A B R l1 l2 H; induction H; simpl; auto. Qed.

Lemma mesh_ok_tpmesh_of : forall axes, Forall axis_ok axes -> mesh_ok (tpmesh_of axes).
Proof.
  intros axes HA. constructor.
  - intros c f Hlen. unfold dim in Hlen. simpl in Hlen.
    unfold supported_in1, support1, tp_functions. simpl.
    rewrite of_list_In, In_prod_ranges, In_box, of_list_In, In_prod_ranges.
    apply (tp_dual axes c f HA Hlen).
  - intros f HF. unfold tp_functions in HF. simpl in HF. rewrite In_box in HF.
    destruct (tp_nonempty axes f HA HF) as [c Hc]. exists c.
    unfold support1. simpl. rewrite of_list_In, In_prod_ranges. exact Hc.
  - intros f c HF HC. unfold tp_functions in HF. simpl in HF. rewrite In_box in HF.
    unfold support1 in HC. simpl in HC. rewrite of_list_In, In_prod_ranges in HC.
    unfold tp_cells. simpl. rewrite In_box. eapply tp_incells; eauto.
  - intros c HC. unfold tp_cells in HC. simpl in HC. rewrite In_box in HC.
    unfold dim. simpl. apply Forall2_len in HC. rewrite map_length in HC. auto.
Qed.

Lemma iter_refine_tpmesh_of : forall j axes,
  Nat.iter j tp_refine (tpmesh_of axes) = tpmesh_of (Nat.iter j (map ax_refine) axes).
Proof. induction j; intros; simpl; auto. rewrite IHj. reflexivity. Qed.

Lemma axes_ok_iter : forall j axes, Forall axis_ok axes -> Forall axis_ok (Nat.iter j (map ax_refine) axes).
Proof.
  induction j; intros axes H; simpl; auto. apply Forall_map. specialize (IHj axes H).
  eapply Forall_impl; [|exact IHj]. intros a Ha. apply axis_ok_refine; auto.
Qed.

Lemma hier_ok_valid : forall axes, Forall axis_ok axes -> hier_ok (tpmesh_of axes).
Proof.
  intros axes H j. rewrite iter_refine_tpmesh_of. apply mesh_ok_tpmesh_of. apply axes_ok_iter; auto.
Qed.

(* the activity characterisation without hypotheses beyond validity of the initial mesh *)
Lemma activity_characterisation_full : forall axes disp ops,
  Forall axis_ok axes ->
  (forall d, disp = Some d -> 1 <= d) ->
  ops_valid (hs_init axes disp) ops ->
  funcs_inv (run (hs_init axes disp) ops).
Proof. intros. apply activity_characterisation_l; auto. apply hier_ok_valid; auto. Qed.
