(* C16 -- executable model of pyiga's linear-operator building blocks.
   Definitions only (no proofs): the model must still run when a proof breaks.

   Everything is written over an arbitrary carrier R with 0, + and * (Section);
   Proofs.v adds a ring_theory.  The case files instantiate R := Z.

   Reading of numpy that is trusted here and tested by the correspondence run on
   every check: an ndarray is a shape plus an index function; reshape keeps the
   C-order (row-major) flat position; tensordot/rollaxis/moveaxis permute axes
   as documented; an F-contiguous buffer keeps its flat position under
   reshape(order='F') and resize.

   Source lines refer to /repo at the time of writing:
     pyiga/tensor.py    48-64   _modek_tensordot_sparse
     pyiga/tensor.py    97-128  apply_tprod
     pyiga/tensor.py    150-167 modek_tprod
     pyiga/kronecker.py 6-12    apply_kronecker
     pyiga/kronecker.py 15-56   _apply_kronecker_linops
     pyiga/kronecker.py 59-69   _apply_kronecker_dense
     pyiga/operators.py 15-57   NullOperator, IdentityOperator, DiagonalOperator
     pyiga/operators.py 60-86   KroneckerOperator
     pyiga/operators.py 89-178  BaseBlockOperator, _sizes_to_ranges, BlockDiagonalOperator, BlockOperator
     pyiga/operators.py 181-225 SubspaceOperator
     pyiga/utils.py     116-179 CSRRowSlice, CSRRowSubset *)
From Coq Require Import List Arith Bool Lia.
Import ListNotations.

Section Model.
Variable R : Type.
Variable rO : R.
Variable radd rmul : R -> R -> R.

(* sum_{k<n} f k *)
Fixpoint sumn (n : nat) (f : nat -> R) : R :=
  match n with 0 => rO | S k => radd (sumn k f) (f k) end.

(* ------------------------------------------------------------------ *)
(* matrices, vectors *)
Record mat := mkmat { mrows : nat; mcols : nat; ment : nat -> nat -> R }.

Definition mT (A : mat) : mat := mkmat (mcols A) (mrows A) (fun i j => ment A j i).

(* A.dot(x) for a 1-D x *)
Definition mv (A : mat) (x : nat -> R) : nat -> R :=
  fun i => sumn (mcols A) (fun j => rmul (ment A i j) (x j)).

(* A.dot(X) for a 2-D X *)
Definition mmul (A X : mat) : mat :=
  mkmat (mrows A) (mcols X) (fun i c => sumn (mcols A) (fun j => rmul (ment A i j) (ment X j c))).

(* how an operand is stored decides which branch of the code runs:
   isinstance(A, np.ndarray) or not (scipy sparse matrix / LinearOperator) *)
Inductive kind := Dense | Abstract.
Record operand := mkop { okind : kind; omat : mat }.
Definition oT (o : operand) : operand := mkop (okind o) (mT (omat o)).

(* ------------------------------------------------------------------ *)
(* ndarrays: shape + index function *)
Record arr := mkarr { ashape : list nat; aat : list nat -> R }.

Fixpoint prodl (l : list nat) : nat := match l with [] => 1 | x :: l' => x * prodl l' end.

(* np.ravel_multi_index, C order *)
Fixpoint ravel (shp idx : list nat) : nat :=
  match shp, idx with
  | _ :: shp', i :: idx' => i * prodl shp' + ravel shp' idx'
  | _, _ => 0
  end.

(* np.unravel_index, C order *)
Fixpoint unravel (shp : list nat) (f : nat) : list nat :=
  match shp with
  | [] => []
  | _ :: shp' => (f / prodl shp') :: unravel shp' (f mod prodl shp')
  end.

Definition insert_at (k j : nat) (l : list nat) : list nat := firstn k l ++ j :: skipn k l.
Definition remove_at (k : nat) (l : list nat) : list nat := firstn k l ++ skipn (S k) l.

(* A.reshape(newshape), both C-contiguous *)
Definition reshape (newshape : list nat) (A : arr) : arr :=
  mkarr newshape (fun idx => aat A (unravel (ashape A) (ravel newshape idx))).

(* np.rollaxis(A, k, 0): axis k becomes axis 0 *)
Definition rollaxis0 (k : nat) (A : arr) : arr :=
  mkarr (nth k (ashape A) 0 :: remove_at k (ashape A))
        (fun idx => match idx with [] => rO | j :: rest => aat A (insert_at k j rest) end).

(* np.tensordot(B, A, axes=([1],[k])): B's row axis first, then A's other axes *)
Definition tensordot_BA (B : mat) (k : nat) (A : arr) : arr :=
  mkarr (mrows B :: remove_at k (ashape A))
        (fun idx => match idx with [] => rO | a :: rest =>
            sumn (mcols B) (fun j => rmul (ment B a j) (aat A (insert_at k j rest))) end).

(* B.dot(X) for a 2-D ndarray X (sparse matrix or LinearOperator B) *)
Definition dot2 (B : mat) (X : arr) : arr :=
  mkarr [mrows B; nth 1 (ashape X) 0]
        (fun idx => match idx with [a; c] => sumn (mcols B) (fun j => rmul (ment B a j) (aat X [j; c])) | _ => rO end).

(* tensor.py:48-64 *)
Definition modek_tensordot_sparse (B : mat) (k : nat) (X : arr) : arr :=
  let nk := nth k (ashape X) 0 in
  let Xk := rollaxis0 k X in                                  (* l.55 *)
  let shp := ashape Xk in                                     (* l.56 *)
  let Xk2 := reshape [nk; prodl (tl shp)] Xk in               (* l.59: reshape((nk,-1)) *)
  let Yk := dot2 B Xk2 in                                     (* l.60 *)
  let shp' := if Nat.eqb (mrows B) nk then shp else mrows B :: tl shp in  (* l.61-62 *)
  reshape shp' Yk.                                            (* l.64 *)

(* tensor.py:119-127, one pass of the loop; n = len(ops) *)
Definition tprod_step (n : nat) (A : arr) (o : option operand) : arr :=
  match o with
  | Some (mkop Dense B) => tensordot_BA B (n - 1) A           (* l.123 *)
  | Some (mkop Abstract B) => modek_tensordot_sparse B (n - 1) A   (* l.125 *)
  | None => rollaxis0 (n - 1) A                               (* l.127 *)
  end.

(* tensor.py:97-128 (ndarray argument; the nway_prod branch belongs to C18) *)
Definition apply_tprod (ops : list (option operand)) (A : arr) : arr :=
  fold_left (tprod_step (length ops)) (rev ops) A.            (* for i in reversed(range(n)) *)

(* np.tensordot(X, B, axes=(k,1)): X's other axes, then B's row axis last *)
Definition tensordot_XB (B : mat) (k : nat) (X : arr) : arr :=
  mkarr (remove_at k (ashape X) ++ [mrows B])
        (fun idx => let a := last idx 0 in let rest := removelast idx in
            sumn (mcols B) (fun j => rmul (aat X (insert_at k j rest)) (ment B a j))).

(* np.rollaxis(Y, -1, k): the last axis becomes axis k *)
Definition rolllast (k : nat) (Y : arr) : arr :=
  mkarr (insert_at k (last (ashape Y) 0) (removelast (ashape Y)))
        (fun idx => aat Y (remove_at k idx ++ [nth k idx 0])).

(* np.moveaxis(Y, 0, k): the first axis becomes axis k *)
Definition movefirst (k : nat) (Y : arr) : arr :=
  mkarr (insert_at k (hd 0 (ashape Y)) (tl (ashape Y)))
        (fun idx => aat Y (nth k idx 0 :: remove_at k idx)).

(* tensor.py:150-167 *)
Definition modek_tprod (B : operand) (k : nat) (X : arr) : arr :=
  match okind B with
  | Dense => rolllast k (tensordot_XB (omat B) k X)            (* l.163-164 *)
  | Abstract => movefirst k (modek_tensordot_sparse (omat B) k X)  (* l.166-167 *)
  end.

(* ------------------------------------------------------------------ *)
(* kronecker.py:59-69.  x has shape [N] or [N; m]. *)
Definition apply_kronecker_dense (ops : list operand) (x : arr) : arr :=
  let shape_in := map (fun o => mcols (omat o)) ops in                      (* l.60 *)
  let shape_out := prodl (map (fun o => mrows (omat o)) ops) :: tl (ashape x) in  (* l.61 *)
  let shape_in' := match ashape x with
                   | [_; m] => if Nat.ltb 1 m then shape_in ++ [m] else shape_in   (* l.64-66 *)
                   | _ => shape_in end in
  let X := reshape shape_in' x in                                           (* l.67 *)
  let Y := apply_tprod (map Some ops) X in                                  (* l.68 *)
  reshape shape_out Y.                                                      (* l.69 *)

(* kronecker.py:15-56.  The two work arrays are F-contiguous buffers that are only
   ever reshaped with order='F' / resized: the model keeps the flat buffer
   (position -> value); element (a,b) of an F-ordered (p,q) view is buffer[a + p*b]. *)
Definition linops_sweep (B : mat) (sz n : nat) (q0 : nat -> R) : nat -> R :=
  let sz_i := mcols B in                                      (* l.40 *)
  let r_i := sz / sz_i in                                     (* l.41 *)
  (* q1 has shape (r_i, n*sz_i); q1[r, k*sz_i + a'] = (B . q0[:, k*r_i:(k+1)*r_i])[a', r]   l.46-52 *)
  fun g => let r := g mod r_i in let c := g / r_i in
           let k := c / sz_i in let a' := c mod sz_i in
           sumn sz_i (fun a => rmul (ment B a' a) (q0 (a + sz_i * (k * r_i + r)))).

Definition apply_kronecker_linops (ops : list operand) (x : arr) : arr :=
  match ops with
  | [o] =>                                                    (* l.19-20: ops[0].dot(x) *)
      match ashape x with
      | [_] => mkarr [mrows (omat o)] (fun idx => mv (omat o) (fun j => aat x [j]) (hd 0 idx))
      | _ => dot2 (omat o) x
      end
  | _ =>
      let sz := prodl (map (fun o => mrows (omat o)) ops) in  (* l.23 *)
      let n := match ashape x with [_; m] => m | _ => 1 end in   (* l.28-31 *)
      let q0 : nat -> R := fun f => match ashape x with
                                    | [_] => aat x [f mod sz]
                                    | _ => aat x [f mod sz; f / sz] end in   (* l.34-35 *)
      let q := fold_left (fun q o => linops_sweep (omat o) sz n q) (rev ops) q0 in  (* l.38-54 *)
      mkarr (ashape x) (fun idx => match idx with                (* l.56 *)
                                   | [s] => q s
                                   | [s; k] => q (s + sz * k)
                                   | _ => rO end)
  end.

Definition is_dense (o : operand) : bool := match okind o with Dense => true | Abstract => false end.
Definition is_square (o : operand) : bool := Nat.eqb (mrows (omat o)) (mcols (omat o)).

(* operators.py:60-86: dispatch in __init__, _matvec/_matmat *)
Definition kronecker_operator (ops : list operand) (x : arr) : arr :=
  if forallb is_dense ops || negb (forallb is_square ops)     (* l.69-70 *)
  then apply_kronecker_dense ops x
  else apply_kronecker_linops ops x.
(* l.82-83: _transpose builds a KroneckerOperator of the B.T for B in ops *)
Definition kronecker_operator_T (ops : list operand) (x : arr) : arr :=
  kronecker_operator (map oT ops) x.

(* kronecker.py:6-12 *)
Definition apply_kronecker (ops : list operand) (x : arr) : arr :=
  if forallb is_dense ops then apply_kronecker_dense ops x
  else apply_kronecker_linops (map (fun o => mkop Abstract (omat o)) ops) x.

(* ------------------------------------------------------------------ *)
(* operators.py:89-118 BaseBlockOperator.  A placed block: the operator, ran_out = range(ro, ro+mrows),
   ran_in = range(ci, ci+mcols). *)
Record placed := mkplaced { pb : mat; pro : nat; pci : nat }.

(* y[ran_out] += op.dot(x[ran_in])   (l.101 / l.107), one column *)
Definition block_acc (x : nat -> R) (y : nat -> R) (b : placed) : nat -> R :=
  fun r => if (pro b <=? r) && (r <? pro b + mrows (pb b))
           then radd (y r) (mv (pb b) (fun c => x (pci b + c)) (r - pro b))
           else y r.

Definition base_block_matvec (blocks : list placed) (x : nat -> R) : nat -> R :=
  fold_left (block_acc x) blocks (fun _ => rO).                 (* l.97-102 *)

(* l.109-112: _transpose swaps the ranges and transposes every block *)
Definition placed_T (b : placed) : placed := mkplaced (mT (pb b)) (pci b) (pro b).

(* operators.py:121-125 _sizes_to_ranges: the starts of the consecutive ranges *)
Fixpoint starts_from (s : nat) (sizes : list nat) : list nat :=
  match sizes with [] => [] | n :: rest => s :: starts_from (s + n) rest end.
Definition sizes_to_starts (sizes : list nat) : list nat := starts_from 0 sizes.

(* operators.py:128-135 *)
Definition block_diagonal (ops : list mat) : list placed :=
  let ri := sizes_to_starts (map mrows ops) in
  let rj := sizes_to_starts (map mcols ops) in
  map (fun t => mkplaced (fst (fst t)) (snd (fst t)) (snd t)) (combine (combine ops ri) rj).

(* operators.py:138-178 BlockOperator: None = NullOperator placeholder (skipped, l.168-169) *)
Definition block_operator (ops : list (list (option mat))) (heights widths : list nat) : list placed :=
  let ri := sizes_to_starts heights in          (* l.158 (heights = shape[0] of the first block of each row) *)
  let rj := sizes_to_starts widths in           (* l.159 *)
  flat_map (fun rowi =>
    flat_map (fun opj => match fst opj with
                         | Some B => [mkplaced B (snd rowi) (snd opj)]
                         | None => [] end)
             (combine (fst rowi) rj))
    (combine ops ri).

(* operators.py:36-57 DiagonalOperator, 26-34 IdentityOperator, 15-24 NullOperator (one column) *)
Definition diagonal_matvec (d x : nat -> R) : nat -> R := fun i => rmul (d i) (x i).
Definition identity_matvec (x : nat -> R) : nat -> R := x.
Definition null_matvec (x : nat -> R) : nat -> R := fun _ => rO.

(* operators.py:181-225 SubspaceOperator._matvec *)
Definition subspace_matvec (transposed : bool) (PB : list (mat * mat)) (x : nat -> R) : nat -> R :=
  fold_left (fun y pb r =>
     let P := fst pb in let B := if transposed then mT (snd pb) else snd pb in
     radd (y r) (mv P (mv B (mv (mT P) x)) r))                 (* l.212-218 *)
   PB (fun _ => rO).

(* ------------------------------------------------------------------ *)
(* utils.py:116-179.  A CSR matrix: indptr, indices, data. *)
Record csr := mkcsr { c_rows : nat; c_cols : nat; c_indptr : list nat; c_indices : list nat; c_data : list R }.

(* scipy's csr_matvec row kernel: sum_{jj in [p0,p1)} data[jj] * x[indices[jj]] *)
Fixpoint csr_row_sum (cnt p : nat) (A : csr) (x : nat -> R) : R :=
  match cnt with
  | 0 => rO
  | S c => radd (rmul (nth p (c_data A) rO) (x (nth p (c_indices A) 0))) (csr_row_sum c (S p) A x)
  end.
Definition csr_row (A : csr) (r : nat) (x : nat -> R) : R :=
  let p0 := nth r (c_indptr A) 0 in let p1 := nth (S r) (c_indptr A) 0 in
  csr_row_sum (p1 - p0) p0 A x.

(* CSRRowSlice(A, (r0, r1)).dot(x): csr_matvecs over indptr[r0:r1] (l.128, 139-141) *)
Definition csr_rowslice (A : csr) (r0 r1 : nat) (x : nat -> R) : nat -> R :=
  fun i => if i <? r1 - r0 then csr_row A (r0 + i) x else rO.
(* CSRRowSubset(A, rows).dot(x): one csr_matvec per listed row (l.172-175) *)
Definition csr_rowsubset (A : csr) (rows : list nat) (x : nat -> R) : nat -> R :=
  fun i => if i <? length rows then csr_row A (nth i rows 0) x else rO.

(* solvers.py:39-42: (l_op * DiagonalOperator(1.0/diag) * r_op).dot(x) for a vector x, with
   l_op = KroneckerOperator of the U_k, r_op = KroneckerOperator of the U_k.T;
   dinv = 1.0/diag (diag: solvers.py:32-37) is passed in *)
Definition fastdiag_apply (Us : list operand) (dinv : nat -> R) (x : arr) : arr :=
  let r := kronecker_operator (map oT Us) x in
  let N := prodl (map (fun o => mrows (omat o)) Us) in
  let d := mkarr [N] (fun idx => diagonal_matvec dinv (fun j => aat r [j]) (hd 0 idx)) in
  kronecker_operator Us d.

End Model.
