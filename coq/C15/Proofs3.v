(* C15 -- utils.kron_partial against the dense Kronecker product (final round). *)
From Coq Require Import ZArith List Bool Lia Arith.
From Verif.C15 Require Import Model Spec Proofs.
Import ListNotations.
Open Scope Z_scope.

(* ------------------------------------------------------------------------ *)
(* the dense Kronecker product of integer matrices                           *)
(* ------------------------------------------------------------------------ *)
(* (A (x) B)[r, c] = A[r div mB, c div nB] * B[r mod mB, c mod nB], right-nested over the
   list of factors (the same recursion as C16's kron_ent) *)
Fixpoint kron_rec (As : list (list (list Z))) (r c : Z) : Z :=
  match As with
  | [] => 1
  | A :: As' =>
      let M' := prodZ (rowdims (map mat_shape As')) in
      let N' := prodZ (coldims (map mat_shape As')) in
      dense_get A (r / M', c / N') * kron_rec As' (r mod M') (c mod N')
  end.

(* the positionwise form used by kron_partial *)
Definition kron_pos (As : list (list (list Z))) (r c : Z) : Z :=
  let bs := map mat_shape As in
  prod_entries As (from_seq r (rowdims bs)) (from_seq c (coldims bs)).

(* rectangular, non-empty factor matrices *)
Definition rect (A : list (list Z)) : Prop :=
  (0 < length A)%nat /\ (0 < length (nth 0%nat A []))%nat /\
  Forall (fun row => length row = length (nth 0%nat A [])) A.

Lemma divmod_b : forall r d P, 0 < d -> 0 < P -> (r mod (P * d)) / d = (r / d) mod P.
Proof.
  intros. rewrite (Z.mul_comm P d), Z.rem_mul_r by lia.
  rewrite (Z.mul_comm d ((r / d) mod P)), Z.div_add by lia.
  rewrite Z.div_small by (apply Z.mod_pos_bound; lia). lia.
Qed.

Lemma divmod_c : forall r d P, 0 < d -> 0 < P -> (r mod (P * d)) mod d = r mod d.
Proof.
  intros. rewrite (Z.mul_comm P d), Z.rem_mul_r by lia.
  rewrite (Z.mul_comm d ((r / d) mod P)), Z.mod_add by lia. apply Z.mod_mod. lia.
Qed.

Lemma from_seq_cons : forall dims m r, dims_pos dims -> 0 <= r ->
  from_seq r (m :: dims) = from_seq (r / prodZ dims) [m] ++ from_seq (r mod prodZ dims) dims.
Proof.
  intros dims. induction dims as [|d dims IH] using rev_ind; intros m r Hp Hr.
  - change (prodZ []) with 1. rewrite Z.div_1_r. unfold from_seq. simpl. reflexivity.
  - apply dims_pos_app in Hp. destruct Hp as [Hp Hd]. inversion Hd; subst.
    rewrite app_comm_cons, !from_seq_snoc. rewrite IH by (auto; apply Z.div_pos; lia).
    rewrite prodZ_app. change (prodZ [d]) with (d * 1). rewrite Z.mul_1_r.
    pose proof (prodZ_pos dims Hp) as HP.
    rewrite divmod_b, divmod_c by lia.
    rewrite Z.div_div by lia. rewrite (Z.mul_comm d (prodZ dims)).
    rewrite <- app_assoc. reflexivity.
Qed.

Lemma from_seq_single : forall m r, from_seq r [m] = [r mod m].
Proof. reflexivity. Qed.

Lemma shapes_pos : forall As, Forall rect As ->
  dims_pos (rowdims (map mat_shape As)) /\ dims_pos (coldims (map mat_shape As)).
Proof.
  induction 1 as [|A As [H1 [H2 _]] HF [IH1 IH2]]; simpl; split; constructor; auto; simpl; lia.
Qed.

(* the positionwise product is the nested Kronecker product *)
Lemma kron_pos_rec : forall As r c, Forall rect As -> 0 <= r -> 0 <= c ->
  r < prodZ (rowdims (map mat_shape As)) -> c < prodZ (coldims (map mat_shape As)) ->
  kron_pos As r c = kron_rec As r c.
Proof.
  induction As as [|A As IH]; intros r c HR Hr Hc Hr' Hc'.
  - reflexivity.
  - inversion HR as [|? ? HA HR']; subst. destruct (shapes_pos As HR') as [P1 P2].
    pose proof (prodZ_pos _ P1) as Q1. pose proof (prodZ_pos _ P2) as Q2.
    unfold kron_pos. cbn [map rowdims coldims fst snd mat_shape].
    change (map fst (map mat_shape As)) with (rowdims (map mat_shape As)).
    change (map snd (map mat_shape As)) with (coldims (map mat_shape As)).
    rewrite (from_seq_cons (rowdims (map mat_shape As)) _ r) by auto.
    rewrite (from_seq_cons (coldims (map mat_shape As)) _ c) by auto.
    rewrite !from_seq_single. cbn [app prod_entries kron_rec].
    rewrite <- IH; auto; try (apply Z.mod_pos_bound; lia). unfold kron_pos.
    change (prodZ (rowdims (map mat_shape (A :: As))))
      with (Z.of_nat (length A) * prodZ (rowdims (map mat_shape As))) in Hr'.
    change (prodZ (coldims (map mat_shape (A :: As))))
      with (Z.of_nat (length (nth 0%nat A [])) * prodZ (coldims (map mat_shape As))) in Hc'.
    f_equal. f_equal. f_equal.
    + apply Z.mod_small. split. apply Z.div_pos; lia.
      apply Z.div_lt_upper_bound; lia.
    + apply Z.mod_small. split. apply Z.div_pos; lia.
      apply Z.div_lt_upper_bound; lia.
Qed.

(* ------------------------------------------------------------------------ *)
(* pattern_of A: exactly the non-zero positions of A, each once              *)
(* ------------------------------------------------------------------------ *)
Lemma combine_range_gen : forall (l : list Z) a (d : Z),
  combine (map Z.of_nat (seq a (length l))) l
  = map (fun k => (Z.of_nat (a + k), nth k l d)) (seq 0 (length l)).
Proof.
  induction l as [|x l IH]; intros a d; simpl; auto.
  rewrite Nat.add_0_r. f_equal. rewrite (IH (S a) d). rewrite <- seq_shift, map_map.
  apply map_ext. intros k. f_equal. f_equal. lia.
Qed.

Lemma combine_range_gen' : forall {B : Type} (l : list B) a (d : B),
  combine (map Z.of_nat (seq a (length l))) l
  = map (fun k => (Z.of_nat (a + k), nth k l d)) (seq 0 (length l)).
Proof.
  induction l as [|x l IH]; intros a d; simpl; auto.
  rewrite Nat.add_0_r. f_equal. rewrite (IH (S a) d). rewrite <- seq_shift, map_map.
  apply map_ext. intros k. f_equal. f_equal. lia.
Qed.

Lemma combine_range : forall {B : Type} (l : list B) (d : B),
  combine (range (Z.of_nat (length l))) l = map (fun k => (Z.of_nat k, nth k l d)) (seq 0 (length l)).
Proof.
  intros. unfold range. rewrite Nat2Z.id. rewrite (combine_range_gen' l 0 d). reflexivity.
Qed.

Lemma flat_map_map : forall {A B C : Type} (f : B -> list C) (g : A -> B) (l : list A),
  flat_map f (map g l) = flat_map (fun x => f (g x)) l.
Proof. induction l; simpl; auto. rewrite IHl. reflexivity. Qed.

Definition pattern_nat (A : list (list Z)) : pat :=
  flat_map (fun i => flat_map (fun j => if nth j (nth i A []) 0 =? 0 then [] else [(Z.of_nat i, Z.of_nat j)])
                       (seq 0 (length (nth i A []))))
           (seq 0 (length A)).

Lemma pattern_of_nat : forall A, pattern_of A = pattern_nat A.
Proof.
  intros. unfold pattern_of, pattern_nat. rewrite (combine_range A []), flat_map_map.
  apply flat_map_ext'. intros i _. cbn [fst snd].
  rewrite (combine_range (nth i A []) 0), flat_map_map. reflexivity.
Qed.

Lemma pattern_of_In : forall A i j, In (i, j) (pattern_of A) <->
  exists ni nj, i = Z.of_nat ni /\ j = Z.of_nat nj /\ (ni < length A)%nat /\
    (nj < length (nth ni A []))%nat /\ nth nj (nth ni A []) 0 <> 0.
Proof.
  intros. rewrite pattern_of_nat. unfold pattern_nat. rewrite in_flat_map. split.
  - intros (ni & Hni & H). apply in_flat_map in H. destruct H as (nj & Hnj & H).
    apply in_seq in Hni. apply in_seq in Hnj.
    destruct (Z.eqb_spec (nth nj (nth ni A []) 0) 0); [destruct H|].
    destruct H as [H|[]]. inversion H; subst. exists ni, nj. repeat split; auto; lia.
  - intros (ni & nj & -> & -> & Hi & Hj & Hv). exists ni. split; [apply in_seq; lia|].
    apply in_flat_map. exists nj. split; [apply in_seq; lia|].
    destruct (Z.eqb_spec (nth nj (nth ni A []) 0) 0); [contradiction|]. left; reflexivity.
Qed.

Lemma NoDup_app_intro : forall {B : Type} (l1 l2 : list B),
  NoDup l1 -> NoDup l2 -> (forall e, In e l1 -> In e l2 -> False) -> NoDup (l1 ++ l2).
Proof.
  induction l1 as [|a l1 IH]; intros l2 N1 N2 H; simpl; auto.
  inversion N1; subst. constructor.
  - rewrite in_app_iff. intros [Ha|Ha]; [contradiction|]. apply (H a); [left|]; auto.
  - apply IH; auto. intros e He He'. apply (H e); [right|]; auto.
Qed.

Lemma NoDup_flat_map_tag : forall {A B : Type} (f : A -> list B) (l : list A),
  NoDup l -> (forall x, In x l -> NoDup (f x)) ->
  (forall x y e, In x l -> In y l -> In e (f x) -> In e (f y) -> x = y) ->
  NoDup (flat_map f l).
Proof.
  induction l as [|a l IH]; intros ND Hf Ht; simpl; [constructor|].
  inversion ND; subst. apply NoDup_app_intro.
  - apply Hf. left; auto.
  - apply IH; auto. + intros; apply Hf; right; auto. + intros; eapply Ht; eauto; right; auto.
  - intros e He He'. apply in_flat_map in He'. destruct He' as (y & Hy & Hey).
    assert (a = y) by (eapply Ht; eauto; [left; auto|right; auto]). subst. contradiction.
Qed.

Lemma pattern_of_NoDup : forall A, NoDup (pattern_of A).
Proof.
  intros. rewrite pattern_of_nat. unfold pattern_nat. apply NoDup_flat_map_tag.
  - apply seq_NoDup.
  - intros i _. apply NoDup_flat_map_tag.
    + apply seq_NoDup.
    + intros j _. destruct (_ =? 0); repeat constructor. intros [].
    + intros x y e _ _ Hx Hy.
      destruct (nth x (nth i A []) 0 =? 0); [destruct Hx|]. destruct Hx as [<-|[]].
      destruct (nth y (nth i A []) 0 =? 0); [destruct Hy|]. destruct Hy as [Hy|[]].
      inversion Hy. lia.
  - intros x y e _ _ Hx Hy. apply in_flat_map in Hx. apply in_flat_map in Hy.
    destruct Hx as (j & _ & Hx). destruct Hy as (j' & _ & Hy).
    destruct (nth j (nth x A []) 0 =? 0); [destruct Hx|]. destruct Hx as [<-|[]].
    destruct (nth j' (nth y A []) 0 =? 0); [destruct Hy|]. destruct Hy as [Hy|[]].
    inversion Hy. lia.
Qed.

Lemma NoDup_map_inj_on : forall {A B : Type} (f : A -> B) (l : list A),
  (forall x y, In x l -> In y l -> f x = f y -> x = y) -> NoDup l -> NoDup (map f l).
Proof.
  induction l as [|a l IH]; intros Hinj ND; simpl; constructor; inversion ND; subst.
  - intros H. apply in_map_iff in H. destruct H as (y & E & Hy).
    assert (y = a) by (apply Hinj; auto; [right|left]; auto). subst. contradiction.
  - apply IH; auto. intros; apply Hinj; auto; right; auto.
Qed.

Lemma product_NoDup : forall {B : Type} (ls : list (list B)),
  Forall (@NoDup B) ls -> NoDup (product ls).
Proof.
  induction 1 as [|l ls Hl HF IH]; simpl; [repeat constructor; intros []|].
  apply NoDup_flat_map_tag; auto.
  - intros x _. apply NoDup_map_inj_on; auto. intros a b _ _ E. inversion E; auto.
  - intros x y e _ _ Hx Hy. apply in_map_iff in Hx. apply in_map_iff in Hy.
    destruct Hx as (a & <- & _). destruct Hy as (b & E & _). inversion E; auto.
Qed.

(* positions of the Kronecker pattern are pairwise distinct *)
Lemma kron_pattern_NoDup : forall bs bidx, wf_structure bs bidx -> Forall (@NoDup (Z * Z)) bidx ->
  NoDup (kron_pattern bs bidx).
Proof.
  intros bs bidx Hwf HN. unfold kron_pattern. apply NoDup_map_inj_on; [|apply product_NoDup; auto].
  intros s1 s2 H1 H2 E. apply product_In in H1. apply product_In in H2.
  destruct (sel_valid _ _ _ Hwf H1) as [A1 B1]. destruct (sel_valid _ _ _ Hwf H2) as [A2 B2].
  unfold entry_of in E. inversion E as [[E1 E2]].
  assert (F1 : map fst s1 = map fst s2).
  { rewrite <- (from_seq_to_seq_l _ _ A1), <- (from_seq_to_seq_l _ _ A2). congruence. }
  assert (F2 : map snd s1 = map snd s2).
  { rewrite <- (from_seq_to_seq_l _ _ B1), <- (from_seq_to_seq_l _ _ B2). congruence. }
  rewrite <- (combine_fst_snd s1), <- (combine_fst_snd s2). congruence.
Qed.

(* ------------------------------------------------------------------------ *)
(* counting occurrences                                                      *)
(* ------------------------------------------------------------------------ *)
Fixpoint occ (P : list (Z * Z)) (r c : Z) : Z :=
  match P with
  | [] => 0
  | (i, j) :: P' => (if (i =? r) && (j =? c) then 1 else 0) + occ P' r c
  end.
Fixpoint occr (rows : list Z) (r : Z) : Z :=
  match rows with [] => 0 | r' :: rows' => (if r' =? r then 1 else 0) + occr rows' r end.

Lemma occ_app : forall P Q r c, occ (P ++ Q) r c = occ P r c + occ Q r c.
Proof. induction P as [|[i j] P IH]; intros; simpl; auto. rewrite IH. lia. Qed.

Lemma dense_entry_tagged : forall (v : Z * Z -> Z) P r c,
  dense_entry (map (fun e => (e, v e)) P) r c = occ P r c * v (r, c).
Proof.
  induction P as [|[i j] P IH]; intros r c; [simpl; lia|].
  cbn [map dense_entry occ]. rewrite IH.
  destruct (Z.eqb_spec i r), (Z.eqb_spec j c); cbn [andb]; subst; ring.
Qed.

Lemma occ_filter_row : forall KP r' r c,
  occ (filter (fun e => fst e =? r') KP) r c = if r' =? r then occ KP r c else 0.
Proof.
  induction KP as [|[i j] KP IH]; intros r' r c.
  - simpl. destruct (r' =? r); auto.
  - cbn [filter fst]. destruct (Z.eqb_spec i r').
    + cbn [occ]. rewrite IH. subst i. destruct (Z.eqb_spec r' r); cbn [andb]; lia.
    + rewrite IH. cbn [occ]. destruct (Z.eqb_spec r' r); [|lia]. subst.
      destruct (Z.eqb_spec i r); [contradiction|]. cbn [andb]. lia.
Qed.

Lemma occ_rows : forall KP rows r c,
  occ (flat_map (fun r' => filter (fun e => fst e =? r') KP) rows) r c = occr rows r * occ KP r c.
Proof.
  induction rows as [|r' rows IH]; intros r c; simpl; [lia|].
  rewrite occ_app, IH, occ_filter_row. destruct (r' =? r); lia.
Qed.

Lemma occ_notin : forall P r c, ~ In (r, c) P -> occ P r c = 0.
Proof.
  induction P as [|[i j] P IH]; intros r c H; simpl; auto.
  rewrite IH by (intros H'; apply H; right; auto).
  destruct (Z.eqb_spec i r), (Z.eqb_spec j c); simpl; auto. subst. exfalso. apply H. left; auto.
Qed.

Lemma occ_NoDup_in : forall P r c, NoDup P -> In (r, c) P -> occ P r c = 1.
Proof.
  induction P as [|[i j] P IH]; intros r c ND H; simpl; [destruct H|].
  inversion ND; subst. destruct H as [H|H].
  - inversion H; subst. rewrite !Z.eqb_refl. simpl. rewrite occ_notin; auto.
  - rewrite IH by auto. destruct (Z.eqb_spec i r), (Z.eqb_spec j c); simpl; auto. subst. contradiction.
Qed.

Lemma occr_notin : forall rows r, ~ In r rows -> occr rows r = 0.
Proof.
  induction rows as [|r' rows IH]; intros r H; simpl; auto.
  rewrite IH by (intros H'; apply H; right; auto).
  destruct (Z.eqb_spec r' r); auto. subst. exfalso. apply H. left; auto.
Qed.

Lemma occr_NoDup_in : forall rows r, NoDup rows -> In r rows -> occr rows r = 1.
Proof.
  induction rows as [|r' rows IH]; intros r ND H; simpl; [destruct H|].
  inversion ND; subst. destruct H as [H|H].
  - subst. rewrite Z.eqb_refl, occr_notin; auto.
  - rewrite IH by auto. destruct (Z.eqb_spec r' r); auto. subst. contradiction.
Qed.

(* ------------------------------------------------------------------------ *)
(* kron_partial = the selected rows of the dense Kronecker product           *)
(* ------------------------------------------------------------------------ *)
Lemma rect_row_length : forall A ni, rect A -> (ni < length A)%nat ->
  length (nth ni A []) = length (nth 0%nat A []).
Proof.
  intros A ni (_ & _ & HF) Hni. rewrite Forall_forall in HF. apply HF. apply nth_In. auto.
Qed.

Lemma wf_from_matrices : forall As, Forall rect As ->
  wf_structure (map mat_shape As) (map pattern_of As).
Proof.
  unfold wf_structure. induction 1 as [|A As HA HF IH]; simpl; constructor; auto.
  unfold pat_in_block. apply Forall_forall. intros [i j] Hin.
  apply pattern_of_In in Hin. destruct Hin as (ni & nj & -> & -> & Hi & Hj & _).
  rewrite (rect_row_length A ni HA Hi) in Hj. unfold mat_shape. simpl. lia.
Qed.

Lemma prod_entries_nonzero : forall As I J, Forall rect As ->
  valid_mi I (rowdims (map mat_shape As)) -> valid_mi J (coldims (map mat_shape As)) ->
  prod_entries As I J <> 0 ->
  Forall2 (fun ij b => In ij b) (combine I J) (map pattern_of As).
Proof.
  induction As as [|A As IH]; intros I J HR HI HJ Hv.
  - inversion HI; inversion HJ; subst. constructor.
  - inversion HR as [|? ? HA HR']; subst.
    unfold rowdims, coldims in HI, HJ. simpl in HI, HJ.
    inversion HI as [|i m I' d' Hi HI']; subst. inversion HJ as [|j n J' e' Hj HJ']; subst.
    cbn [prod_entries] in Hv.
    assert (dense_get A (i, j) <> 0 /\ prod_entries As I' J' <> 0) as [V1 V2]
      by (split; intros E; rewrite E in Hv; lia).
    cbn [combine map]. constructor; [|apply IH; auto].
    apply pattern_of_In. exists (Z.to_nat i), (Z.to_nat j).
    assert (Hx : (Z.to_nat i < length A)%nat) by lia.
    rewrite (rect_row_length A _ HA Hx).
    repeat split; try lia. exact V1.
Qed.

Lemma existsb_eqb_In : forall rows r, existsb (Z.eqb r) rows = true <-> In r rows.
Proof.
  intros. rewrite existsb_exists. split.
  - intros (x & Hx & E). apply Z.eqb_eq in E. subst; auto.
  - intros H. exists r. split; auto. apply Z.eqb_refl.
Qed.

Lemma kron_partial_spec_l : forall As rows ts, Forall rect As -> NoDup rows ->
  kron_partial As rows false = Some ts ->
  forall r c, 0 <= r < fst (shape (map mat_shape As)) -> 0 <= c < snd (shape (map mat_shape As)) ->
  dense_entry ts r c = if existsb (Z.eqb r) rows then kron_rec As r c else 0.
Proof.
  intros As rows ts HR ND H r c Hr Hc. unfold kron_partial in H.
  destruct (nonzeros_for_rows (map mat_shape As) (map pattern_of As) rows) as [l|] eqn:E; [|discriminate].
  inversion H; subst ts. clear H. rewrite canon_dense.
  pose proof (wf_from_matrices As HR) as Hwf. destruct (shapes_pos As HR) as [P1 P2].
  apply rows_spec_l in E; auto.
  set (v := fun e : Z * Z => kron_pos As (fst e) (snd e)).
  replace (map _ l) with (map (fun e => (e, v e)) (map (fun t : Z * Z * Z => (fst (fst t), snd (fst t))) l)).
  2:{ rewrite map_map. apply map_ext. intros [[r0 c0] k]. reflexivity. }
  rewrite E, dense_entry_tagged, occ_rows. unfold v. simpl fst. simpl snd.
  unfold shape in Hr, Hc. simpl in Hr, Hc.
  rewrite <- (kron_pos_rec As r c) by (auto; lia).
  destruct (existsb (Z.eqb r) rows) eqn:Ex.
  - apply existsb_eqb_In in Ex. rewrite (occr_NoDup_in rows r ND Ex).
    destruct (Z.eq_dec (kron_pos As r c) 0) as [Z0|NZ]; [rewrite Z0; ring|].
    rewrite occ_NoDup_in; [ring| |].
    + apply kron_pattern_NoDup; auto. apply Forall_forall. intros b Hb.
      apply in_map_iff in Hb. destruct Hb as (A & <- & _). apply pattern_of_NoDup.
    + apply kron_pattern_mem_l; auto. unfold kron_nonzero, shape. simpl. repeat split; try lia.
      apply prod_entries_nonzero; auto; apply from_seq_valid_l; auto.
  - rewrite occr_notin; [ring|]. intros Hin. apply existsb_eqb_In in Hin. congruence.
Qed.
