(* C03 -- lemmas, part 3: the COO stage of the sparse-matrix program (insert_block, conversion of the blockwise COO
   data to CSR with summation of duplicates). *)
From Coq Require Import List Arith Bool Lia NArith Ring.
From Verif.C03 Require Import Model Proofs.
Import ListNotations.

Section Coo.
Variable R : Type.
Variables (r0 r1 : R) (radd rmul rsub : R -> R -> R) (ropp : R -> R).
Hypothesis Rth : ring_theory r0 r1 radd rmul rsub ropp eq.
Add Ring Rring3 : Rth.

Notation svec := (svec R).
Notation get := (sv_get R r0).
Notation axpy := (sv_axpy R radd rmul).

(* columns strictly increasing *)
Fixpoint sv_sorted (s : svec) : Prop :=
  match s with
  | [] => True
  | e :: s' => (forall e', In e' s' -> (fst e < fst e')%N) /\ sv_sorted s'
  end.

Lemma axpy_nil_l : forall c y, axpy c [] y = y.
Proof. intros c y. destruct y; reflexivity. Qed.

Lemma get_absent : forall s k, (forall e, In e s -> fst e <> k) -> get s k = r0.
Proof.
  intros s k. unfold sv_get. induction s as [|[k' v] s IH]; intros H; simpl; auto.
  destruct (N.eqb k k') eqn:E.
  - apply N.eqb_eq in E. exfalso. apply (H (k', v)); [left; auto | simpl; auto].
  - apply IH. intros e He. apply H. right; auto.
Qed.

Lemma get_cons : forall k' v s k, get ((k', v) :: s) k = if N.eqb k k' then v else get s k.
Proof. intros. unfold sv_get. simpl. destruct (N.eqb k k'); reflexivity. Qed.

(* adding c*v at column j of a sorted row *)
Lemma axpy_single_get : forall c j v y k, sv_sorted y ->
  get (axpy c [(j, v)] y) k = if N.eqb k j then radd (get y k) (rmul c v) else get y k.
Proof.
  intros c j v y k. induction y as [|[ky vy] y IH]; intros Hs.
  - simpl. rewrite get_cons. unfold sv_get. simpl. destruct (N.eqb k j); ring.
  - simpl in Hs. destruct Hs as [Hlt Hs].
    change (axpy c [(j, v)] ((ky, vy) :: y)) with
      (match N.compare j ky with
       | Lt => (j, rmul c v) :: axpy c [] ((ky, vy) :: y)
       | Eq => (j, radd vy (rmul c v)) :: axpy c [] y
       | Gt => (ky, vy) :: axpy c [(j, v)] y
       end).
    destruct (N.compare_spec j ky) as [E|E|E].
    + subst ky. rewrite axpy_nil_l. rewrite !get_cons. destruct (N.eqb k j); auto.
    + rewrite axpy_nil_l. rewrite get_cons. destruct (N.eqb k j) eqn:Ekj.
      * apply N.eqb_eq in Ekj. subst k. rewrite get_absent; [ring|].
        intros e [<-|He]; simpl; [lia|]. specialize (Hlt e He). simpl in Hlt. lia.
      * reflexivity.
    + rewrite !get_cons. rewrite (IH Hs).
      destruct (N.eqb k ky) eqn:Ek; auto.
      apply N.eqb_eq in Ek. subst k. replace (N.eqb ky j) with false by (symmetry; apply N.eqb_neq; lia). reflexivity.
Qed.

Lemma axpy_single_keys : forall c j v y e, In e (axpy c [(j, v)] y) -> fst e = j \/ In (fst e) (map fst y).
Proof.
  intros c j v y. induction y as [|[ky vy] y IH]; intros e He.
  - simpl in He. destruct He as [<-|[]]. left; auto.
  - change (axpy c [(j, v)] ((ky, vy) :: y)) with
      (match N.compare j ky with
       | Lt => (j, rmul c v) :: axpy c [] ((ky, vy) :: y)
       | Eq => (j, radd vy (rmul c v)) :: axpy c [] y
       | Gt => (ky, vy) :: axpy c [(j, v)] y
       end) in He.
    destruct (N.compare j ky); rewrite ?axpy_nil_l in He; simpl in He.
    + destruct He as [<-|He]; [left; auto|]. right. simpl. right. apply in_map; auto.
    + destruct He as [<-|[<-|He]]; [left; auto | right; simpl; auto |]. right. simpl. right. apply in_map; auto.
    + destruct He as [<-|He]; [right; simpl; auto|]. destruct (IH e He) as [H|H]; auto. right. simpl. auto.
Qed.

Lemma axpy_single_sorted : forall c j v y, sv_sorted y -> sv_sorted (axpy c [(j, v)] y).
Proof.
  intros c j v y. induction y as [|[ky vy] y IH]; intros Hs.
  - simpl. split; auto. intros e [].
  - simpl in Hs. destruct Hs as [Hlt Hs].
    change (axpy c [(j, v)] ((ky, vy) :: y)) with
      (match N.compare j ky with
       | Lt => (j, rmul c v) :: axpy c [] ((ky, vy) :: y)
       | Eq => (j, radd vy (rmul c v)) :: axpy c [] y
       | Gt => (ky, vy) :: axpy c [(j, v)] y
       end).
    destruct (N.compare_spec j ky) as [E|E|E]; rewrite ?axpy_nil_l.
    + subst ky. simpl. split; auto.
    + simpl. split; [|split; auto]. intros e [<-|He]; simpl; auto. specialize (Hlt e He). simpl in Hlt. lia.
    + simpl. split; [|apply IH; auto]. intros e He. simpl.
      destruct (axpy_single_keys _ _ _ _ _ He) as [->|Hin]; auto.
      apply in_map_iff in Hin. destruct Hin as [e' [Hf He']]. rewrite <- Hf. apply (Hlt e' He').
Qed.

(* ---- rows of a matrix --------------------------------------------------------------------- *)
Lemma upd_length : forall (T : Type) (f : T -> T) l n, length (upd n f l) = length l.
Proof. induction l as [|x l IH]; intros n; simpl; auto. destruct n; simpl; auto. destruct n; simpl; auto. Qed.

Lemma upd_nth : forall (T : Type) (f : T -> T) (d : T) l n i,
  nth i (upd n f l) d = if Nat.eqb i n && Nat.ltb n (length l) then f (nth i l d) else nth i l d.
Proof.
  induction l as [|x l IH]; intros n i.
  - destruct n, i; simpl; rewrite ?andb_false_r; reflexivity.
  - destruct n, i; simpl; auto. rewrite IH. reflexivity.
Qed.

Notation step := (fun (M : smat R) (t : N * N * R) => upd (N.to_nat (fst (fst t))) (axpy r1 [(snd (fst t), snd t)]) M).

(* blockwise COO data -> CSR: entry (i, j) of the result is the SUM of the values of all triplets at (i, j)
   (scipy.sparse.csr_matrix((values, (I, J))) sums duplicates), for every i below the number of rows *)
Lemma coo_fold_get : forall (m : coo R) (M : smat R) i j,
  (forall r, In r M -> sv_sorted r) -> (N.to_nat i < length M) ->
  sm_get R r0 (fold_left step m M) i j = radd (sm_get R r0 M i j) (coo_get R r0 radd m i j)
  /\ (forall r, In r (fold_left step m M) -> sv_sorted r) /\ length (fold_left step m M) = length M.
Proof.
  induction m as [|[[ti tj] tv] m IH]; intros M i j Hs Hi.
  - simpl. split; [unfold coo_get; simpl; ring | split; auto].
  - pose (M' := upd (N.to_nat ti) (axpy r1 [(tj, tv)]) M).
    change (fold_left step ((ti, tj, tv) :: m) M) with (fold_left step m M').
    assert (Hs' : forall r, In r M' -> sv_sorted r).
    { intros r Hr. destruct (In_nth _ _ [] Hr) as [q [Hq Hn]]. unfold M' in Hn, Hq. rewrite upd_length in Hq.
      rewrite upd_nth in Hn. destruct (Nat.eqb q (N.to_nat ti) && Nat.ltb (N.to_nat ti) (length M)).
      - rewrite <- Hn. apply axpy_single_sorted. apply Hs. apply nth_In; auto.
      - rewrite <- Hn. apply Hs. apply nth_In; auto. }
    assert (Hl' : length M' = length M) by (unfold M'; apply upd_length).
    assert (Hi' : N.to_nat i < length M') by (rewrite Hl'; exact Hi).
    destruct (IH M' i j Hs' Hi') as [E [S' Len]].
    split; [|split; [exact S' | exact (eq_trans Len Hl')]].
    rewrite E. unfold sm_get, sm_row, M'. rewrite upd_nth.
    unfold coo_get. simpl filter.
    destruct (N.eqb ti i) eqn:Eti.
    + apply N.eqb_eq in Eti. subst ti. rewrite Nat.eqb_refl.
      replace (Nat.ltb (N.to_nat i) (length M)) with true by (symmetry; apply Nat.ltb_lt; auto). simpl andb. cbv iota.
      rewrite axpy_single_get by (apply Hs; apply nth_In; auto).
      destruct (N.eqb tj j) eqn:Etj.
      * apply N.eqb_eq in Etj. subst tj. rewrite N.eqb_refl. simpl. ring.
      * rewrite (N.eqb_sym j tj), Etj. simpl. reflexivity.
    + replace (Nat.eqb (N.to_nat i) (N.to_nat ti)) with false.
      * simpl. reflexivity.
      * symmetry. apply Nat.eqb_neq. intros H. apply Nnat.N2Nat.inj in H. subst. rewrite N.eqb_refl in Eti. discriminate.
Qed.

Lemma coo_merge_l : forall n (m : coo R) i j, N.to_nat i < n ->
  sm_get R r0 (coo_to_rows R r1 radd rmul n m) i j = coo_get R r0 radd m i j.
Proof.
  intros n m i j Hi. unfold coo_to_rows.
  destruct (coo_fold_get m (repeat [] n) i j) as [E _].
  - intros r Hr. apply repeat_spec in Hr. subst. simpl. auto.
  - rewrite repeat_length. auto.
  - etransitivity; [exact E|]. unfold sm_get, sm_row. rewrite nth_repeat. unfold sv_get. simpl. ring.
Qed.

(* insert_block(B, rows, columns): exactly the stored entries of B, sent to (rows[ib], columns[jb]) *)
Lemma insert_block_In : forall (B : smat R) rows cols i j v,
  In (i, j, v) (insert_block R B rows cols) <->
  exists ib e, ib < length B /\ In e (nth ib B []) /\ i = nth ib rows 0%N /\ j = nth (N.to_nat (fst e)) cols 0%N /\ v = snd e.
Proof.
  intros B rows cols i j v. unfold insert_block. rewrite in_flat_map. split.
  - intros [ib [Hib H]]. apply in_seq in Hib. apply in_map_iff in H. destruct H as [e [He Hin]].
    inversion He; subst. exists ib, e. repeat split; auto. lia.
  - intros [ib [e [Hib [Hin [-> [-> ->]]]]]]. exists ib. split; [apply in_seq; lia|].
    apply in_map_iff. exists e. auto.
Qed.

(* ---- fancy indexing ------------------------------------------------------------------------- *)
Lemma pick_keys : forall (row : svec) idx p0 e, In e (sv_pick R row idx p0) -> (p0 <= fst e)%N.
Proof.
  intros row idx. induction idx as [|c idx IH]; intros p0 e He; simpl in He; [destruct He|].
  destruct (sv_find R row c).
  - destruct He as [<-|He]; simpl; [lia|]. specialize (IH _ _ He). lia.
  - specialize (IH _ _ He). lia.
Qed.

(* M[:, idx]: column p of the result is column idx[p] of M (any index list, repetitions allowed) *)
Lemma pick_get : forall (row : svec) idx p0 p, p < length idx ->
  get (sv_pick R row idx p0) (p0 + N.of_nat p)%N = get row (nth p idx 0%N).
Proof.
  intros row idx. induction idx as [|c idx IH]; intros p0 p Hp; simpl in Hp; [lia|].
  simpl sv_pick. destruct p as [|p].
  - simpl nth. replace (p0 + N.of_nat 0)%N with p0 by lia.
    unfold sv_get at 2. destruct (sv_find R row c) eqn:E.
    + rewrite get_cons. rewrite N.eqb_refl. reflexivity.
    + apply get_absent. intros e He. apply pick_keys in He. lia.
  - simpl nth. replace (p0 + N.of_nat (S p))%N with (N.succ p0 + N.of_nat p)%N by lia.
    destruct (sv_find R row c).
    + rewrite get_cons. replace (N.eqb (N.succ p0 + N.of_nat p) p0) with false by (symmetry; apply N.eqb_neq; lia).
      apply IH. lia.
    + apply IH. lia.
Qed.

Lemma sm_cols_get : forall (M : smat R) idx i p, p < length idx ->
  sm_get R r0 (sm_cols R M idx) i (N.of_nat p) = sm_get R r0 M i (nth p idx 0%N).
Proof.
  intros M idx i p Hp. unfold sm_get, sm_row, sm_cols.
  destruct (Nat.lt_ge_cases (N.to_nat i) (length M)) as [Hi|Hi].
  - rewrite (nth_indep _ [] (sv_pick R [] idx 0%N)) by (rewrite map_length; auto).
    rewrite (map_nth (fun row => sv_pick R row idx 0%N)).
    apply (pick_get (nth (N.to_nat i) M []) idx 0%N p Hp).
  - rewrite !nth_overflow by (rewrite ?map_length; auto). reflexivity.
Qed.

(* M[idx]: row p of the result is row idx[p] of M *)
Lemma sm_rows_get : forall (M : smat R) idx p j, p < length idx ->
  sm_get R r0 (sm_rows R M idx) (N.of_nat p) j = sm_get R r0 M (nth p idx 0%N) j.
Proof.
  intros M idx p j Hp. unfold sm_get, sm_rows. unfold sm_row at 1. rewrite Nnat.Nat2N.id.
  rewrite (nth_indep _ [] (sm_row R M 0%N)) by (rewrite map_length; auto).
  rewrite (map_nth (sm_row R M)). reflexivity.
Qed.

End Coo.
