(* C02 -- extraction of the exact model to OCaml (DESIGN 1.5).  The ONLY extraction directives:
     Require Import ExtrOcamlBasic      (bool, option, unit, list, prod, sumbool -> OCaml's own)
     Extraction Language OCaml
     Extraction "extract/c02_model.ml" ex_point open_kv Q2Qc
   nat, positive, Z, Q, Qc stay the extracted inductive types; no Extract Constant/Inductive of ours.
   Compiled from coq/ (the working directory of make and of coq/extract/build.sh). *)
From Coq Require Import ExtrOcamlBasic.
From Coq Require Import QArith Qcanon List.
From Verif.lib Require Import Bsp.
From Verif.C02 Require Import ExtractDefs.
Extraction Language OCaml.
Extraction "extract/c02_model.ml" ex_point open_kv Q2Qc.
