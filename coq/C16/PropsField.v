(* C16 -- property theorems that live over mathcomp's algebraic hierarchy (bridge file
   FieldBridge.v).  Same discipline as Props.v: statement, `exact lemma`, Print Assumptions. *)
From mathcomp Require Import all_ssreflect all_algebra.
From Verif.C16 Require Import Model Model2 Proofs Proofs2 Proofs3 FieldBridge.
Import GRing.Theory.
Local Open Scope ring_scope.

(* Over every commutative ring of mathcomp's hierarchy (comRingType: all fields, int, rat, ...):
   for square U and M,  U^T (M U) = I  implies  (M U) U^T = I   (left inverse = right inverse,
   matrix.mulmx1C), in the entrywise form used by eig_ok. *)
Theorem left_inverse_is_right_inverse : forall (F : comRingType) n (U M : mat F),
  (forall a b, (a < n)%coq_nat -> (b < n)%coq_nat ->
     Model.sumn F 0 +%R n (fun i => ment F U i a * Model.sumn F 0 +%R n (fun j => ment F M i j * ment F U j b)) =
     if Nat.eqb a b then 1 else 0) ->
  forall i l, (i < n)%coq_nat -> (l < n)%coq_nat ->
     Model.sumn F 0 +%R n (fun c => Model.sumn F 0 +%R n (fun j => ment F M i j * ment F U j c) * ment F U l c) =
     if Nat.eqb i l then 1 else 0.
Proof. exact left_inverse_is_right. Qed.
Print Assumptions left_inverse_is_right_inverse.

(* eigh's own contract (K U = M U diag(lam), U^T M U = I) implies the hypothesis of fastdiag_inverts *)
Theorem eigh_contract_suffices : forall (F : comRingType) (f : eigfac F),
  eigh_ok f -> eig_ok F 0 1 +%R *%R f.
Proof. exact eig_ok_of_eigh. Qed.
Print Assumptions eigh_contract_suffices.

(* fastdiag_solver (solvers.py:17-42) applies the inverse of the Kronecker-sum matrix it was built
   from, in any dimension, with the expressions the code builds, from the contract eigh actually
   provides (eigh_ok: K U = M U diag(lam) and U^T M U = I) -- vectors ... *)
Theorem fastdiag_inverts_eigh : forall (F : comRingType) (fs : list (eigfac F)) (Us : list (operand F))
    (dinv : nat -> F) (x : arr F),
  List.Forall (@eigh_ok F) fs -> List.map (omat F) Us = List.map (fU F) fs ->
  (forall c, (c < prodl (sizes F fs))%coq_nat ->
     fastdiag_diag_code F 0 1 +%R *%R (sizes F fs) (List.map (flam F) fs) c * dinv c = 1) ->
  ashape F x = [:: prodl (sizes F fs)] ->
  forall i, (i < prodl (sizes F fs))%coq_nat ->
  Model.sumn F 0 +%R (prodl (sizes F fs))
    (fun j => fastdiag_lap_code F 0 1 +%R *%R (List.map (fK F) fs) (List.map (fM F) fs) i j *
              aat F (fastdiag_apply F 0 +%R *%R Us dinv x) [:: j]) = aat F x [:: i].
Proof. exact fastdiag_inverts_eigh_l. Qed.
Print Assumptions fastdiag_inverts_eigh.

(* ... and several right-hand sides *)
Theorem fastdiag_inverts_eigh_multi : forall (F : comRingType) (fs : list (eigfac F)) (Us : list (operand F))
    (dinv : nat -> F) (x : arr F) m,
  List.Forall (@eigh_ok F) fs -> List.map (omat F) Us = List.map (fU F) fs ->
  (forall c, (c < prodl (sizes F fs))%coq_nat ->
     fastdiag_diag_code F 0 1 +%R *%R (sizes F fs) (List.map (flam F) fs) c * dinv c = 1) ->
  ashape F x = [:: prodl (sizes F fs); m] ->
  forall i k, (i < prodl (sizes F fs))%coq_nat -> (k < m)%coq_nat ->
  Model.sumn F 0 +%R (prodl (sizes F fs))
    (fun j => fastdiag_lap_code F 0 1 +%R *%R (List.map (fK F) fs) (List.map (fM F) fs) i j *
              aat F (fastdiag_apply_mat F 0 +%R *%R Us dinv x) [:: j; k]) = aat F x [:: i; k].
Proof. exact fastdiag_inverts_eigh_mat_l. Qed.
Print Assumptions fastdiag_inverts_eigh_multi.
