(* C11 -- the strategies func_supp and trunc of HSpace.indices_to_smooth on top of C04's model of
   HMesh.function_children / function_grandparents (coq/C04/Children.v, Required, not copied), and
   the canonical-index statement smoothing_sets_spec for all four strategies.
     func_supp_indices  pyiga/hierarchical.py:704-714
     trunc_indices      pyiga/hierarchical.py:682-702 *)
From Coq Require Import List Arith Bool Lia.
From Verif.lib Require Import FinSet.
From Verif.C04 Require Import Model Boundary Children.
From Verif.C11 Require Import SmoothSets.
Import ListNotations.

(* func_supp_indices()[lv][i]  (:710-712):
   sorted((set(function_grandparents(lv, actfun[lv], i)) & actfun[i]) - index_dirichlet[lv][i]) *)
Definition func_supp_indices (st : hspace) (bds : list bdspec) (disp : option nat) (lv i : nat) : list mi :=
  if (i <? lv) && in_window disp lv i then
    diff (inter (of_list (function_grandparents st (lv - i) lv (lv_actfun (lvl st lv)))) (lv_actfun (lvl st i)))
         (index_dirichlet st bds lv i)
  else new_indices st bds lv i.

(* trunc_indices (:685-702).  aux_dict[i][j] for an active function j of level i, after the passes
   lv = i+1, ..., i+n of the outer loop (all inside the disparity window, which is an initial segment
   of these levels): start {j}; each pass takes the children on the next level and, when they meet
   actfun[lv] | deactfun[lv], removes those (and j is selected for that lv). *)
Definition lv_funcs (st : hspace) (lv : nat) : set := union (lv_actfun (lvl st lv)) (lv_deactfun (lvl st lv)).

Fixpoint trunc_desc (st : hspace) (i : nat) (j : mi) (n : nat) : set :=
  match n with
  | 0 => [j]
  | S n' =>
      let D := function_children st (i + n') (trunc_desc st i j n') in            (* :697 *)
      if is_empty (inter D (lv_funcs st (i + n))) then D else diff D (lv_funcs st (i + n))   (* :698-699 *)
  end.

Definition trunc_selected (st : hspace) (i n : nat) (j : mi) : bool :=          (* :698, :700 ; lv = i + S n *)
  negb (is_empty (inter (function_children st (i + n) (trunc_desc st i j n)) (lv_funcs st (i + S n)))).

Definition trunc_indices (st : hspace) (bds : list bdspec) (disp : option nat) (lv i : nat) : list mi :=
  if (i <? lv) && in_window disp lv i then
    diff (filter (trunc_selected st i (lv - i - 1)) (lv_actfun (lvl st i))) (index_dirichlet st bds lv i)   (* :701 *)
  else new_indices st bds lv i.

(* indices_to_smooth('func_supp') / ('trunc') for virtual level lv *)
Definition smooth_func_supp (st : hspace) (bds : list bdspec) (lv : nat) : option (list nat) :=
  virtual_canonical st lv (func_supp_indices st bds (hs_disparity st) lv).
Definition smooth_trunc (st : hspace) (bds : list bdspec) (lv : nat) : option (list nat) :=
  virtual_canonical st lv (trunc_indices st bds (hs_disparity st) lv).

Lemma func_supp_no_dirichlet : forall st bds disp lv i x,
  In x (func_supp_indices st bds disp lv i) -> ~ In x (index_dirichlet st bds lv i).
Proof.
  intros st bds disp lv i x H. unfold func_supp_indices in H.
  destruct ((i <? lv) && in_window disp lv i).
  - apply diff_In in H. tauto.
  - apply new_indices_spec in H. tauto.
Qed.

Lemma func_supp_contains_new : forall st bds disp lv x,
  In x (new_indices st bds lv lv) -> In x (func_supp_indices st bds disp lv lv).
Proof. intros. unfold func_supp_indices. rewrite Nat.ltb_irrefl. simpl. exact H. Qed.

Lemma trunc_no_dirichlet : forall st bds disp lv i x,
  In x (trunc_indices st bds disp lv i) -> ~ In x (index_dirichlet st bds lv i).
Proof.
  intros st bds disp lv i x H. unfold trunc_indices in H.
  destruct ((i <? lv) && in_window disp lv i).
  - apply diff_In in H. tauto.
  - apply new_indices_spec in H. tauto.
Qed.

Lemma trunc_contains_new : forall st bds disp lv x,
  In x (new_indices st bds lv lv) -> In x (trunc_indices st bds disp lv lv).
Proof. intros. unfold trunc_indices. rewrite Nat.ltb_irrefl. simpl. exact H. Qed.

(* what the coarse-level parts consist of: active functions of level i that are (grand)parents of
   active functions of level lv, resp. whose not yet absorbed descendants meet the functions of level lv *)
Lemma func_supp_coarse_spec : forall st bds disp lv i x,
  (i < lv)%nat -> in_window disp lv i = true ->
  (In x (func_supp_indices st bds disp lv i) <->
   In x (function_grandparents st (lv - i) lv (lv_actfun (lvl st lv))) /\ In x (lv_actfun (lvl st i)) /\
   ~ In x (index_dirichlet st bds lv i)).
Proof.
  intros st bds disp lv i x Hi Hw. unfold func_supp_indices.
  apply Nat.ltb_lt in Hi. rewrite Hi, Hw. simpl. rewrite diff_In, inter_In, of_list_In. tauto.
Qed.

Lemma trunc_coarse_spec : forall st bds disp lv i x,
  (i < lv)%nat -> in_window disp lv i = true ->
  (In x (trunc_indices st bds disp lv i) <->
   In x (lv_actfun (lvl st i)) /\ trunc_selected st i (lv - i - 1) x = true /\
   ~ In x (index_dirichlet st bds lv i)).
Proof.
  intros st bds disp lv i x Hi Hw. unfold trunc_indices.
  apply Nat.ltb_lt in Hi. rewrite Hi, Hw. simpl. rewrite diff_In, filter_In. tauto.
Qed.

(* all four strategies *)
Lemma smoothing_sets_spec_all_l : forall st bds lv S,
  (smooth_new st bds lv = Some S \/ smooth_trunc st bds lv = Some S \/
   smooth_func_supp st bds lv = Some S \/ smooth_cell_supp st bds lv = Some S) ->
  (forall p, In p S -> (p < length (vflat st lv))%nat) /\
  (forall D, dirichlet_dofs st bds lv = Some D -> forall p, In p S -> ~ In p D) /\
  ((lv < numlevels st)%nat ->
   forall x, (In x (lv_actfun (lvl st lv)) \/ In x (lv_deactfun (lvl st lv))) ->
             ~ In x (index_dirichlet st bds lv lv) ->
   exists p, In p S /\ nth_error (vflat st lv) p = Some (lv, x)).
Proof.
  intros st bds lv S [H|[H|[H|H]]].
  - apply smoothing_sets_spec_l. left. exact H.
  - unfold smooth_trunc in H. split; [|split].
    + exact (smoothing_valid st lv _ S H).
    + intros D HD.
      exact (smoothing_no_dirichlet st bds lv _ (trunc_no_dirichlet st bds (hs_disparity st) lv) S D H HD).
    + intros Hlv.
      exact (smoothing_contains_new st bds lv _ (trunc_contains_new st bds (hs_disparity st) lv) S H Hlv).
  - unfold smooth_func_supp in H. split; [|split].
    + exact (smoothing_valid st lv _ S H).
    + intros D HD.
      exact (smoothing_no_dirichlet st bds lv _ (func_supp_no_dirichlet st bds (hs_disparity st) lv) S D H HD).
    + intros Hlv.
      exact (smoothing_contains_new st bds lv _ (func_supp_contains_new st bds (hs_disparity st) lv) S H Hlv).
  - apply smoothing_sets_spec_l. right. exact H.
Qed.
