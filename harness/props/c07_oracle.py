"""C07 -- independent exact oracle (fractions.Fraction) for tensor-product spline / NURBS
maps and their derivatives, and a small rigorous interval arithmetic used to derive the
rounding bounds of the float comparison.  Nothing here is shared with the Coq model or
with pyiga: basis functions come from the Cox-de Boor recursion, NURBS derivatives from
the Leibniz rule  V = N W  solved for the derivatives of N."""
import itertools
from fractions import Fraction

EPS = Fraction(1, 2 ** 52)


def fr(h):
    return Fraction(float.fromhex(h))


def falling(p, k):
    r = 1
    for i in range(k):
        r *= (p - i)
    return max(r, 0)


class Basis:
    """Cox-de Boor reference on one open knot vector (half-open spans, the last
    non-empty span closed at the right end)."""

    def __init__(self, kv, p):
        self.kv = list(kv)
        self.p = p
        self.n = len(kv) - p - 1
        self.cache = {}

    def N(self, q, i, u):
        key = (q, i, u)
        if key in self.cache:
            return self.cache[key]
        kv = self.kv
        if q == 0:
            last = kv[-1]
            r = 1 if (kv[i] <= u < kv[i + 1]) or (u == last and kv[i] < kv[i + 1] == last) else 0
            r = Fraction(r)
        else:
            r = Fraction(0)
            d1 = kv[i + q] - kv[i]
            if d1 != 0:
                r += (u - kv[i]) / d1 * self.N(q - 1, i, u)
            d2 = kv[i + q + 1] - kv[i + 1]
            if d2 != 0:
                r += (kv[i + q + 1] - u) / d2 * self.N(q - 1, i + 1, u)
        self.cache[key] = r
        return r

    def dN(self, k, q, i, u):
        if k == 0:
            return self.N(q, i, u)
        if q == 0:
            return Fraction(0)
        kv = self.kv
        r = Fraction(0)
        d1 = kv[i + q] - kv[i]
        if d1 != 0:
            r += self.dN(k - 1, q - 1, i, u) / d1
        d2 = kv[i + q + 1] - kv[i + 1]
        if d2 != 0:
            r -= self.dN(k - 1, q - 1, i + 1, u) / d2
        return q * r

    def row(self, k, u):
        """[(i, d^k N_i(u))] for the functions that do not vanish identically near u"""
        return [(i, self.dN(k, self.p, i, u)) for i in range(self.n)
                if self.kv[i] <= u <= self.kv[i + self.p + 1]]

    def span_width(self, u):
        kv = self.kv
        for i in range(len(kv) - 1):
            if kv[i] < kv[i + 1] and (kv[i] <= u < kv[i + 1] or (u == kv[-1] and kv[i + 1] == kv[-1])):
                return kv[i + 1] - kv[i]
        return Fraction(1)

    def entry_err(self, k, u):
        """absolute rounding bound of one computed (derivative) basis value: the bound of the
        C02 tie, 8(p+1) 2^k eps p!/(p-k)!/h^k"""
        p = self.p
        if k > p:
            return Fraction(0)
        return 8 * (p + 1) * (2 ** k) * EPS * falling(p, k) / (self.span_width(u) ** k)


class Func:
    """kvs in code order (kvs[-1] is the x axis); C: dict multi-index -> list of m Fractions"""

    def __init__(self, kvs, shapeN, m, flat):
        self.bases = [Basis(kv, p) for (kv, p) in kvs]
        self.N = list(shapeN)
        self.m = m
        self.flat = flat
        self.sdim = len(kvs)

    def coef(self, idx, c):
        r = 0
        for n, i in zip(self.N, idx):
            r = r * n + i
        return self.flat[r * self.m + c]

    def deriv(self, xs, alpha, with_err=False):
        """d^alpha f at the point xs (xyz order); alpha = derivative order per xyz direction.
        Returns list of m values (and the forward rounding bound of the float evaluation)."""
        d = self.sdim
        us = list(reversed(xs))
        D = list(reversed(alpha))
        rows = [self.bases[k].row(D[k], us[k]) for k in range(d)]
        errs = [self.bases[k].entry_err(D[k], us[k]) for k in range(d)]
        vals = [Fraction(0)] * self.m
        bnd = [Fraction(0)] * self.m
        nterms = 1
        for r in rows:
            nterms *= max(len(r), 1)
        for combo in itertools.product(*rows):
            idx = [t[0] for t in combo]
            w = Fraction(1)
            wa = Fraction(1)
            for k, t in enumerate(combo):
                w *= t[1]
                wa *= abs(t[1]) + errs[k]
            for c in range(self.m):
                cf = self.coef(idx, c)
                vals[c] += cf * w
                if with_err:
                    # error of the product of computed basis values + one rounding per
                    # multiplication / addition of the contraction (nterms + d of them)
                    bnd[c] += abs(cf) * ((wa - abs(w)) + (nterms + d + 2) * EPS * wa)
        if with_err:
            return vals, [2 * b for b in bnd]       # factor 2: -ffast-math / einsum reassociation
        return vals


def unit(d, *axes):
    a = [0] * d
    for x in axes:
        a[x] += 1
    return tuple(a)


def hess_slots(d):
    """documented linearised order (xx, xy, xz, yy, yz, zz) over xyz directions"""
    return [(a, b) for a in range(d) for b in range(a, d)]


def bsp_jets(f, xs, order=2):
    """exact values/derivatives of a B-spline function with rounding bounds:
    returns (val, jac, hess), each a pair (values, bounds); jac[c][a], hess[c][slot]"""
    d = f.sdim
    v, ve = f.deriv(xs, unit(d), True)
    J = [f.deriv(xs, unit(d, a), True) for a in range(d)]
    jac = ([[J[a][0][c] for a in range(d)] for c in range(f.m)], [[J[a][1][c] for a in range(d)] for c in range(f.m)])
    if order < 2:
        return (v, ve), jac, None
    Hs = [f.deriv(xs, unit(d, a, b), True) for (a, b) in hess_slots(d)]
    hess = ([[h[0][c] for h in Hs] for c in range(f.m)], [[h[1][c] for h in Hs] for c in range(f.m)])
    return (v, ve), jac, hess


def nurbs_jets(f, xs):
    """exact value, Jacobian, Hessian of N = V / W (f has m+1 components, the last is W),
    by the Leibniz rule:  N_a = (V_a - W_a N)/W,  N_ab = (V_ab - W_a N_b - W_b N_a - W_ab N)/W."""
    d = f.sdim
    (v, _), (J, _), (Hh, _) = bsp_jets(f, xs)
    m = f.m - 1
    W = v[m]
    val = [v[c] / W for c in range(m)]
    jac = [[(J[c][a] - J[m][a] * val[c]) / W for a in range(d)] for c in range(m)]
    hess = []
    for c in range(m):
        row = []
        for s, (a, b) in enumerate(hess_slots(d)):
            row.append((Hh[c][s] - J[m][a] * jac[c][b] - J[m][b] * jac[c][a] - Hh[m][s] * val[c]) / W)
        hess.append(row)
    return val, jac, hess


# ---------------------------------------------------------------------------
# rigorous interval arithmetic over Fractions with one relative rounding per operation

class Iv:
    __slots__ = ('lo', 'hi')

    def __init__(self, lo, hi=None):
        self.lo = Fraction(lo)
        self.hi = Fraction(lo if hi is None else hi)

    @staticmethod
    def around(x, e):
        return Iv(x - e, x + e)

    def _rnd(self):
        m = max(abs(self.lo), abs(self.hi)) * EPS
        return Iv(self.lo - m, self.hi + m)

    def __add__(self, o):
        return Iv(self.lo + o.lo, self.hi + o.hi)._rnd()

    def __sub__(self, o):
        return Iv(self.lo - o.hi, self.hi - o.lo)._rnd()

    def __mul__(self, o):
        c = [self.lo * o.lo, self.lo * o.hi, self.hi * o.lo, self.hi * o.hi]
        return Iv(min(c), max(c))._rnd()

    def __truediv__(self, o):
        if o.lo <= 0 <= o.hi:
            raise ZeroDivisionError('interval contains 0')
        c = [self.lo / o.lo, self.lo / o.hi, self.hi / o.lo, self.hi / o.hi]
        return Iv(min(c), max(c))._rnd()

    def radius_about(self, x):
        return max(abs(self.hi - x), abs(x - self.lo))


def nurbs_bounds(f, xs):
    """Rounding bounds for NurbsFunc values / Jacobians / Hessians at xs: the expressions of
    geometry.py (_nurbs_jacobian, grid_hessian) evaluated in interval arithmetic on the
    enclosures of the computed B-spline quantities.  Returns (b0, b1, b2) = largest radius."""
    d = f.sdim
    (v, ve), (J, Je), (Hh, He) = bsp_jets(f, xs)
    m = f.m - 1
    val, jac, hess = nurbs_jets(f, xs)
    Wi = Iv.around(v[m], ve[m])
    Wj = [Iv.around(J[m][a], Je[m][a]) for a in range(d)]
    Wh = [Iv.around(Hh[m][s], He[m][s]) for s in range(len(hess_slots(d)))]
    b0 = b1 = b2 = Fraction(0)
    for c in range(m):
        Vi = Iv.around(v[c], ve[c])
        b0 = max(b0, (Vi / Wi).radius_about(val[c]))
        Vj = [Iv.around(J[c][a], Je[c][a]) for a in range(d)]
        Nj = [(Vj[a] * Wi - Vi * Wj[a]) / (Wi * Wi) for a in range(d)]
        for a in range(d):
            b1 = max(b1, Nj[a].radius_about(jac[c][a]))
        for s, (a, b) in enumerate(hess_slots(d)):
            Vh = Iv.around(Hh[c][s], He[c][s])
            mat = (Nj[b] * Wj[a]) / Wi + (Nj[a] * Wj[b]) / Wi
            Hi = (Vh / Wi - (Vi * Wh[s]) / (Wi * Wi)) - mat
            b2 = max(b2, Hi.radius_about(hess[c][s]))
    return b0, b1, b2


def pow2_ceil(x):
    """smallest power of two >= x (keeps the Coq literals short); 0 stays 0"""
    x = Fraction(x)
    if x <= 0:
        return Fraction(0)
    k = 0
    while Fraction(2) ** k < x:
        k += 1
    while Fraction(2) ** (k - 1) >= x:
        k -= 1
    return Fraction(2) ** k
