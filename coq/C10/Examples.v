(* C10 -- non-vacuity: concrete inputs meet the hypotheses of the theorems of Props.v. *)
From Coq Require Import List Arith Bool ZArith Lia Ring QArith Qcanon Sorted.
From Coq Require Import setoid_ring.InitialRing.
From Verif.lib Require Import Slice Bsp.
From Verif.C14 Require Model.
From Verif.C10 Require Import Model Model_ic Model_bc Proofs Proofs_ic Proofs_ic2 Proofs_ic3 Proofs_mp Proofs_bc Props.
Import ListNotations.

(* the ring hypothesis is inhabited by Z and by the rationals *)
Example ring_Z : ring_theory 0%Z 1%Z Z.add Z.mul Z.sub Z.opp eq.
Proof. exact Zth. Qed.
Example ring_Qc : ring_theory 0%Qc 1%Qc Qcplus Qcmult Qcminus Qcopp eq.
Proof. exact Qcrt. Qed.

Open Scope Z_scope.

(* a 5x5 system, constrained dofs given UNSORTED: dof 3 := 10, dof 0 := 20 *)
Definition exA : list (list Z) :=
  [[ 4; -1;  0;  2;  1];
   [-1;  5;  2;  0; -3];
   [ 0;  2;  6;  1;  0];
   [ 2;  0;  1;  7; -2];
   [ 1; -3;  0; -2;  8]].
Definition ex_idx : list nat := [3%nat; 0%nat].
Definition ex_vals : list Z := [10; 20].
Definition ex_x : list Z := [20; 1; -2; 10; 3].           (* a solution with the prescribed values *)
Definition ex_b : list Z := matvec Z 0 Z.add Z.mul exA ex_x.
Definition ex_s := rls_init Z 0 Z.add Z.mul Z.sub exA 5 (Arr ex_b) ex_idx (Arr ex_vals) None.
Definition ex_u : list Z := [1; -2; 3].

Example ex_hyp_nodup : NoDup ex_idx.
Proof. repeat constructor; simpl; intuition discriminate. Qed.
Example ex_hyp_range : forall x, In x ex_idx -> (x < 5)%nat.
Proof. intros x [<-|[<-|[]]]; lia. Qed.
Example ex_hyp_len : length ex_vals = length ex_idx.
Proof. reflexivity. Qed.
(* u solves the restricted system *)
Example ex_hyp_solves : matvec Z 0 Z.add Z.mul (r_A Z ex_s) ex_u = r_b Z ex_s.
Proof. vm_compute. reflexivity. Qed.
Example ex_restricted_is_3x3 : length (r_A Z ex_s) = 3%nat /\ length ex_u = ntrue (r_mask Z ex_s).
Proof. vm_compute. auto. Qed.
Example ex_complete : rls_complete Z 0 Z.add ex_s ex_u = ex_x.
Proof. vm_compute. reflexivity. Qed.
(* the unrepaired line gives a different (wrong) vector on the same input *)
Example ex_unrepaired_differs :
  rls_complete Z 0 Z.add
    (rls_init_unsorted_bug Z 0 Z.add Z.mul Z.sub exA 5 (Arr ex_b) ex_idx (Arr ex_vals) None) ex_u
  = [10; 1; -2; 20; 3].
Proof. vm_compute. reflexivity. Qed.

(* with elim_rows (Petrov-Galerkin): rows 4 and 1 eliminated instead of rows 0 and 3 *)
Definition ex_s2 := rls_init Z 0 Z.add Z.mul Z.sub exA 5 (Arr ex_b) ex_idx (Arr ex_vals) (Some [4%nat; 1%nat]).
Example ex2_hyp_solves : matvec Z 0 Z.add Z.mul (r_A Z ex_s2) ex_u = r_b Z ex_s2.
Proof. vm_compute. reflexivity. Qed.
Example ex2_not_eliminated : ~ In 0%nat (elim_row_set ex_idx (Some [4%nat; 1%nat])).
Proof. simpl. intuition discriminate. Qed.

(* scalar right-hand side and scalar value *)
Definition ex_s3 := rls_init Z 0 Z.add Z.mul Z.sub exA 5 (Scalar 0) ex_idx (Scalar 2) None.
Example ex3_values : r_values Z ex_s3 = [2; 2] /\ length (bcast Z 5 (Scalar 0)) = 5%nat.
Proof. vm_compute. auto. Qed.

(* argsort *)
Example ex_argsort : argsort [7; 2; 9; 0]%nat = [3; 1; 0; 2]%nat.
Proof. vm_compute. reflexivity. Qed.

(* combine_bcs: dof 5 occurs twice, the first value wins; result sorted *)
Example ex_combine :
  combine_bcs Z 0 [([5; 2]%nat, [50; 20]); ([7; 5]%nat, [70; 55])] = ([2; 5; 7]%nat, [20; 50; 70]).
Proof. vm_compute. reflexivity. Qed.

(* boundary specifications and slices *)
Example ex_parse : parse_bdspec (BName BTop) 2 = Some (0%nat, 1%nat) /\ parse_bdspec (BName BFront) 2 = None
                   /\ parse_bdspec (BPair 1 2) 2 = None /\ parse_bdspec (BPair 2 0) 2 = None.
Proof. vm_compute. auto. Qed.
Example ex_slice : boundary_slice [3; 4]%nat (BName BRight) [] = Some [3; 7; 11]%nat
                   /\ slice_indices_z 0 (-1) [3; 4]%nat [true] = Some [11; 10; 9; 8]%nat.
Proof. vm_compute. auto. Qed.
Example ex_blocked : dirichlet_indices [2; 3]%nat (BPair 0 0) 2 = Some [0; 1; 2; 6; 7; 8]%nat.
Proof. vm_compute. reflexivity. Qed.
Example ex_all : dirichlet_bcs_indices [3; 3]%nat (map (fun b => (b, 0%nat)) (all_faces 2)) = Some [0; 1; 2; 3; 5; 6; 7; 8]%nat.
Proof. vm_compute. reflexivity. Qed.
Example ex_initial : initial_indices [3; 2]%nat (BPair 0 1) = Some [2; 3; 4; 5]%nat.
Proof. vm_compute. reflexivity. Qed.

Close Scope Z_scope.
Open Scope nat_scope.
(* a valid multi-index on the slice; the 2x2 solve with a non-singular matrix *)
Example ex_valid_mi : valid_mi [3; 4] [2; 1] /\ nth 0 [2; 1] 0 = 2 /\ ravel [3; 4] [2; 1] = 9.
Proof. repeat split; repeat constructor. Qed.
Example ex_slice_hyp : 0 < length [3; 4] /\ 2 < nth 0 [3; 4] 0.
Proof. simpl. lia. Qed.

(* ---- initial conditions: a quadratic open knot vector on the time interval [2, 3] ---- *)
Definition qq (n : Z) (dd : positive) : Qc := Q2Qc (n # dd).
Definition ex_tkv : list Qc := [qq 2 1; qq 2 1; qq 2 1; qq 5 2; qq 3 1; qq 3 1; qq 3 1].
Example ex_ic_hyp : open_kv ex_tkv 2 = true /\ 1 <= 2.
Proof. split; [vm_compute; reflexivity|lia]. Qed.
(* c = p/(t_3 - t_0) = 2/(1/2) = 4 on both ends; g0 = 3/2, g1 = 4 *)
Example ex_ic_matrix :
  (let '(a, b, c, dd) := ic_bdcolloc ex_tkv 2 0 in map this [a; b; c; dd]) = [1; 0; -4 # 1; 4 # 1]%Q /\
  (let '(a, b, c, dd) := ic_bdcolloc ex_tkv 2 1 in map this [a; b; c; dd]) = [0; 1; -4 # 1; 4 # 1]%Q.
Proof. vm_compute. split; reflexivity. Qed.
Example ex_ic_coeffs :
  (let '(a, b) := ic_coeffs ex_tkv 2 0 (qq 3 2) (qq 4 1) in map this [a; b]) = [3 # 2; 5 # 2]%Q /\
  (let '(a, b) := ic_coeffs ex_tkv 2 1 (qq 3 2) (qq 4 1) in map this [a; b]) = [1 # 2; 3 # 2]%Q.
Proof. vm_compute. split; reflexivity. Qed.
(* a coefficient vector meeting the hypothesis of initial_condition_01_reproduces (numdofs = 4) *)
Example ex_ic_coef : let coef := [qq 3 2; qq 5 2; qq 7 1; qq (-1) 3] in
  numdofs ex_tkv 2 = 4 /\ nth 0 coef 0%Qc = fst (ic_coeffs ex_tkv 2 0 (qq 3 2) (qq 4 1))
  /\ nth 1 coef 0%Qc = snd (ic_coeffs ex_tkv 2 0 (qq 3 2) (qq 4 1)).
Proof. split; [reflexivity|]. split; apply Qc_is_canon; vm_compute; reflexivity. Qed.

(* ---- multipatch: two 2x2-dof patches glued along one edge; patch 0 re-appears after patch 1 ---- *)
Definition ex_mp_st := C14.Model.run [[2; 2]; [2; 2]] [C14.Model.mk_bjoin 0 1 1 1 1 0 [false]].
Definition ex_mp_Ns := [4; 4].
Definition ex_mp_conds : list (mp_cond Z) :=
  [(0, [1; 3], [10; 30]%Z); (1, [0; 1], [40; 50]%Z); (0, [0; 1], [60; 70]%Z)].
Example ex_mp_valid : Forall (cond_valid Z ex_mp_Ns) ex_mp_conds.
Proof.
  unfold ex_mp_conds.
  repeat (apply Forall_cons; [split; [simpl; intros i Hi; intuition lia|reflexivity]|]). apply Forall_nil.
Qed.
Example ex_mp_result :
  C14.Model.patch_to_global_idx ex_mp_st ex_mp_Ns 0 = [0; 4; 1; 5] /\
  C14.Model.patch_to_global_idx ex_mp_st ex_mp_Ns 1 = [4; 2; 5; 3] /\
  mp_compute_dirichlet_bcs Z 0%Z (C14.Model.patch_to_global_idx ex_mp_st ex_mp_Ns) ex_mp_conds
  = ([0; 2; 4; 5], [60; 50; 10; 30]%Z).
Proof. vm_compute. repeat split; reflexivity. Qed.

(* ---- faces ---- *)
Example ex_face_hyp : parse_bdspec (BName BTop) (length [3; 4]) = Some (0, 1) /\ 0 < nth 0 [3; 4] 0.
Proof. split; [vm_compute; reflexivity|simpl; lia]. Qed.
Example ex_cells : boundary_cells [2; 3] (BName BLeft) = Some [0; 3] /\ boundary_dofs [3; 4] (BName BTop) [true] = Some [11; 10; 9; 8].
Proof. vm_compute. split; reflexivity. Qed.
Example ex_on_face : on_face [3; 4] 0 1 [2; 1].
Proof. split; [repeat constructor|reflexivity]. Qed.
Example ex_all_once : Forall (fun n => 0 < n) [3; 3] /\
  dirichlet_bcs_all_indices [3; 3] 0 = Some [0; 1; 2; 3; 5; 6; 7; 8] /\
  dirichlet_bcs_all_indices [2; 2] 2 = Some [0; 1; 2; 3; 4; 5; 6; 7].
Proof. split; [repeat constructor|]. vm_compute. split; reflexivity. Qed.

(* ---- any list of conditions; values ---- *)
Example ex_conds_ok : Forall (cond_ok [3; 3]) [(BName BTop, 0); (BPair 1 0, 2); (BName BTop, 0)].
Proof. repeat constructor; [exists 0, 1 | exists 1, 0 | exists 0, 1]; split; (vm_compute; reflexivity) || (simpl; lia). Qed.
Example ex_conds_result : dirichlet_bcs_indices [3; 3] [(BName BTop, 0); (BPair 1 0, 2); (BName BTop, 0)]
  = Some [0; 3; 6; 7; 8; 9; 12; 15] /\ dirichlet_bcs_indices [3; 3] [(BName BTop, 0); (BName BFront, 0)] = None.
Proof. vm_compute. split; reflexivity. Qed.
(* vector data on the left face of a 2x3 patch, coefficient (k, j) = 10*k + j, one nan *)
Example ex_vector_values :
  dirichlet_bc_vector Z [2; 3] (BName BLeft) 2 (fun k j => if (k =? 1) && (j =? 0) then None else Some (Z.of_nat (10 * k + j)))
  = Some ([0; 6; 9], [0; 1; 11]%Z).
Proof. vm_compute. reflexivity. Qed.
Example ex_scalar_values :
  dirichlet_bc_scalar Z [2; 3] (BName BRight) (fun k => if k =? 0 then None else Some (Z.of_nat k)) = Some ([5], [1]%Z).
Proof. vm_compute. reflexivity. Qed.

(* hypothesis of initial_condition_spacetime: two spatial dofs on the knot vector ex_tkv ([2,3], p = 2) *)
Example ex_spacetime_hyp :
  let G0 := fun s : nat => qq (Z.of_nat s + 1) 2 in let G1 := fun s : nat => qq 4 1 in
  let c := fun (j s : nat) => match j with 0 => G0 s | 1 => (G0 s + qq 1 1)%Qc | _ => qq 7 3 end in
  forall s, s < 2 -> c 0 s = fst (ic_coeffs ex_tkv 2 0 (G0 s) (G1 s)) /\ c 1 s = snd (ic_coeffs ex_tkv 2 0 (G0 s) (G1 s)).
Proof. intros G0 G1 c s Hs. destruct s as [|[|s]]; [| |lia]; split; apply Qc_is_canon; vm_compute; reflexivity. Qed.

(* initial condition with values on a 3x2 patch, time axis 0, upper end: slices 1 and 2 *)
Example ex_ic_values_hyp : parse_bdspec (BPair 0 1) (length [3; 2]) = Some (0, 1) /\ 2 <= nth 0 [3; 2] 0.
Proof. split; [vm_compute; reflexivity|simpl; lia]. Qed.
Example ex_ic_values : initial_condition Z [3; 2] (BPair 0 1) (fun k s => Z.of_nat (10 * k + s))
  = Some ([2; 3; 4; 5], [0; 1; 10; 11]%Z) /\ put 0 2 [1; 1] = [2; 1].
Proof. vm_compute. split; reflexivity. Qed.
