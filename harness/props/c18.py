"""C18 -- Low-rank tensor formats are faithful to the full tensor they represent."""
import math

import numpy as np

from harness.core import log, parse_coq_list_of_nat
from harness.props import c18_coq as CQ
from harness.props import c18_gen as G
from harness.props import c18_num as NUM

PROPS = 'C18/Props.v'
DRIVER = 'harness/impl/c18_driver.py'


def arr(d):
    return np.array(d['d'], dtype=float).reshape(d['sh'])


def exact_equal(a, b):
    a = np.asarray(a, dtype=float)
    b = np.asarray(b, dtype=float)
    return a.shape == b.shape and bool(np.array_equal(a, b))


# ---------------------------------------------------------------------------
# operation sequences: the property evaluated on the implementation
# ---------------------------------------------------------------------------

def operand_spec(case, steps, i):
    n0 = len(case['init'])
    if i < n0:
        return case['init'][i]
    r = steps[i - n0]
    return r.get('result') if r['status'] == 'Ok' else None


def op_signature(op, case, steps):
    k = op['op']
    fm = []
    for key in ('a', 'b'):
        if key in op:
            s = operand_spec(case, steps, op[key])
            fm.append(s['t'] if s else '?')
    if 'xs' in op:
        fm = [(operand_spec(case, steps, i) or {'t': '?'})['t'] for i in op['xs']]
    return '%s(%s)' % (k, ','.join(fm))


def check_step_property(case, steps, j, exp):
    """None or (slug, text): what the implementation did wrong at step j."""
    op, r = case['ops'][j], steps[j]
    if exp[0] == 'any':
        return None
    if exp[0] == 'err':
        if r['status'] == 'Ok':
            return ('accepts-malformed', 'malformed input (%s expected) was accepted' % exp[1])
        fa = [(operand_spec(case, steps, op[key]) or {'t': '?'})['t'] for key in ('a', 'b') if key in op]
        if r['status'] != exp[1] and not (set(fa) & {'sum', 'prod'} and r['status'] in ('IndexError', 'ValueError')):
            return ('wrong-error', 'raises %s (%s) where %s is documented' % (r['status'], r.get('msg', ''), exp[1]))
        return None
    if exp[0] == 'struct-truncate':
        if r['status'] != 'Ok':
            return ('raises-' + r['status'], 'truncate raised %s: %s' % (r['status'], r.get('msg', '')))
        src = operand_spec(case, steps, exp[1])
        kk = exp[2] if isinstance(exp[2], list) else [exp[2]] * len(src['Us'])
        X = arr(src['X'])[tuple(slice(None, k) for k in kk)]
        ref = {'t': 'tucker', 'Us': [{'r': U['r'], 'c': min(k, U['c']), 'd': [row[:k] for row in U['d']]}
                                     for U, k in zip(src['Us'], kk)],
               'X': {'sh': list(X.shape), 'd': X.ravel().tolist()}}
        if not exact_equal(G.dense_of(ref), arr(r['dense'])):
            return ('value', 'truncate(%s) is not the Tucker tensor of the leading sub-core' % (exp[2],))
        return None
    # exp = ('ok', dense, fmt)
    if r['status'] != 'Ok':
        if op['op'] == 'from_terms' and (operand_spec(case, steps, op['a']) or {}).get('R', 1) == 0:
            return None      # from_terms([]) cannot know the shape: explicit error is fine
        if op['op'] == 'from_terms' and not (operand_spec(case, steps, op['a']) or {'Xs': [{'c': 1}]})['Xs'][0]['c']:
            return None
        return ('raises-' + r['status'], 'valid operation raised %s: %s' % (r['status'], r.get('msg', '')))
    if r.get('index_unchanged') is False:
        return ('mutates-index-argument', 'the index expression object was changed in place')
    if r.get('operands_unchanged') is False:
        return ('mutates-operand', 'the operation changed one of its operands in place')
    if 'dense' not in r:
        return ('asarray-fails', 'result cannot be expanded: %s' % r.get('dense_error'))
    want = exp[1]
    got = arr(r['dense'])
    if isinstance(want, float) or np.ndim(want) == 0:
        if got.size != 1 or float(got.ravel()[0]) != float(want):
            return ('value', 'scalar result %s, full array gives %s' % (got.ravel()[:3], want))
        if r['result']['t'] != 'scal' and exp[2] == 'scal':
            return ('format', 'all-scalar index did not return a scalar but %s' % r['result']['t'])
        return None
    if list(got.shape) != list(want.shape):
        return ('shape', 'result has shape %s, the full array gives %s' % (list(got.shape), list(want.shape)))
    if not np.array_equal(got, want):
        return ('value', 'expansion of the result differs from the operation on the full arrays (max diff %g)'
                % float(np.max(np.abs(got - want))))
    if 'attr_shape' in r and list(r['attr_shape']) != list(want.shape):
        return ('shape-attr', '.shape is %s but the expansion has shape %s' % (r['attr_shape'], list(want.shape)))
    # the structural dump, expanded by the definition of the format, is the same array
    try:
        if not exact_equal(G.dense_of(r['result']), want):
            return ('asarray', 'asarray() of the result differs from the expansion of its factors')
    except ValueError:
        pass
    if exp[2] is not None and r['result']['t'] != exp[2]:
        return ('format', 'result format %s, documented coercion gives %s' % (r['result']['t'], exp[2]))
    return None


def coq_step_case(case, steps, j):
    """Coq literal triple for step j or None if it is outside the modelled formats."""
    op, r = case['ops'][j], steps[j]
    if op['op'] in ('tsum', 'tprod', 'norm'):
        return None
    args = []
    for key in ('a', 'b'):
        if key in op:
            s = operand_spec(case, steps, op[key])
            if s is None:
                return None
            args.append(CQ.c_lit(s))
    o = dict(op)
    if op['op'] == 'truncate':
        s = operand_spec(case, steps, op['a'])
        o['_ndim'] = len(s['Us'])
        kk = op['k'] if isinstance(op['k'], list) else [op['k']]
        if any(k < 0 for k in kk):
            return None
    if op['op'] == 'from_terms' and r['status'] != 'Ok':
        return None
    if op['op'] == 'nway' and operand_spec(case, steps, op['a'])['t'] == 'full' and r['status'] == 'Ok':
        pass
    if r['status'] == 'Ok':
        e = CQ.c_lit(r['result'])
    else:
        e = '(Er %s)' % CQ.c_err(r['status'])
    return (CQ.c_op(o), args, e)


def run_coq_files(ctx, files, chunks, what, disagreements):
    for (name, ok, out), chunk in zip(ctx.coq_eval_many(files), chunks):
        ctx.obligations += 1
        badidx = parse_coq_list_of_nat(out) if ok else None
        if not ok or badidx is None:
            ctx.broken.append('case file %s did not evaluate: %s' % (name, out[-600:]))
            continue
        ctx.discharged += 1
        for b in badidx:
            disagreements.append((what, chunk[b]))


def chunked(xs, n):
    return [xs[i:i + n] for i in range(0, len(xs), n)]


def run_sequences(ctx, nseq):
    rng = ctx.rng
    cases, exps = [], []
    dist = {}
    for i in range(nseq):
        if i % 25 == 7:
            c, e = G.gen_directed_sum_index(rng)
        else:
            c, e = G.gen_sequence(rng, maxlen=8, malformed=(i % 5 == 4))
        if c['ops']:
            cases.append(c)
            exps.append(e)
    results = yield ('seqs', cases)
    if results is None:
        return
    coq_cases = []     # (text triple, replay)
    nfail = 0
    skipped_inexact = 0
    for c, e, steps in zip(cases, exps, results):
        prefix_ok = True
        for j, (op, ex) in enumerate(zip(c['ops'], e)):
            sig = op_signature(op, c, steps)
            dist[sig.split('(')[0]] = dist.get(sig.split('(')[0], 0) + 1
            ctx.count(('seq', sig, repr(op), repr(steps[j].get('dense'))), nontrivial=True)
            if not prefix_ok:
                break      # later steps would work on slots the failed step did not produce
            bad = check_step_property(c, steps, j, ex)
            if bad:
                prefix_ok = False
            replay = {'init': c['init'], 'ops': c['ops'][:j + 1], 'failing_step': j, 'impl': steps[j],
                      'how': 'harness/impl/c18_driver.py mode seqs: slots = init tensors, each op appends its result'}
            if bad:
                nfail += 1
                s0 = operand_spec(c, steps, op['a']) if 'a' in op else None
                nd = len(op['shape']) if 'shape' in op else len((s0 or {}).get('shape') or (s0 or {}).get('Xs') or
                                                                 (s0 or {}).get('Us') or (s0 or {}).get('sh') or [])
                ctx.report('impl:%s:%s:order%d' % (bad[0], sig, nd), '%s: %s' % (sig, bad[1]), replay)
            try:
                cc = coq_step_case(c, steps, j)
            except CQ.NotExact:
                cc = None
                skipped_inexact += 1
            if cc:
                coq_cases.append((cc, replay, sig, bad))
    ctx.cov['traces_validated_against_impl'] += len(cases)
    ctx.cov['property_failures_on_impl'] = ctx.cov.get('property_failures_on_impl', 0) + nfail
    ctx.cov['input_distribution']['sequence_ops'] = dist
    ctx.cov['input_distribution']['sequences'] = len(cases)
    ctx.cov['input_distribution']['steps_compared_with_model'] = len(coq_cases)
    ctx.cov['input_distribution']['steps_not_exactly_representable'] = skipped_inexact
    chunks = chunked(coq_cases, 150)
    files = [('C18_steps_%03d' % n, CQ.step_file([x[0] for x in ch])) for n, ch in enumerate(chunks)]
    # self-test of the differ: cases whose expected result is deliberately wrong must all be flagged
    st = [x for x in coq_cases if x[0][2].startswith('(Ca') or x[0][2].startswith('(Tu')][:8]
    if st:
        wrong = [((o, a, '(Ca [M 1 1 [[7%Z]]])' if k % 2 else '(Er TypeError)'),) for k, ((o, a, e), _, _, _) in enumerate(st)]

        def st_handler(dis, nwrong=len(wrong)):
            ctx.cov['disagreements_checked'] -= len(dis)
            if len(dis) != nwrong:
                ctx.broken.append('self-test of the step differ failed: %d of %d perturbed cases flagged' % (len(dis), nwrong))
        NUM.defer(ctx, [('C18_selftest', CQ.step_file([w[0] for w in wrong]))], [wrong], st_handler)

    def handler(dis):
        for (cc, replay, sig, bad) in dis:
            if bad:
                continue     # already reported above with this input as a failure of the property itself
            if sum(1 for b_ in ctx.broken if b_.startswith('correspondence')) >= 6:
                break
            ctx.broken.append('correspondence C18 model<->impl differs on step %s' % sig)
            ctx.report('tie:step:%s' % sig,
                       'model and implementation disagree on %s (the expansion still commutes on this input: '
                       'representation or error class changed)' % sig,
                       dict(replay, coq_case=list(cc)), found_input=False)
    NUM.defer(ctx, files, chunks, handler)
    if cases:
        ctx.sample({'init': cases[0]['init'], 'ops': cases[0]['ops'], 'impl_last': results[0][-1]})


def run(ctx):
    thorough = ctx.tier == 'thorough'
    ctx.obligations_stage(PROPS, extra_targets=['C18/Examples.vo', 'C18/Examples2.vo', 'C18/ZInst.vo'])
    ctx.obligations_stage('C18/Props3.v', extra_targets=['C18/Examples3.vo'])
    ctx.cov['input_distribution'] = {}
    ctx.assumptions += [
        'model: hand transcription of pyiga.tensor (_normalize_indices, CanonicalTensor, TuckerTensor, join_tucker_bases, '
        'apply_tprod, pad, CanonicalOperator), lowrank.TensorGenerator, lowrank_cy.rank_1_update/aca3d_update into Gallina '
        '(coq/C18/Model.v) over an arbitrary commutative ring; numpy primitives (hstack, pad, take, dot, tensordot) by '
        'their entry-wise meaning',
        'tie: every single operation step of random sequences is replayed by the model at R=Z on the operand structures the '
        'implementation produced and the result structures (factor matrices, cores, error classes) are compared exactly',
        'float part (norm, orthogonalize, hosvd, compress, aca*, als*, grou, gta): python oracle with the bounds stated in '
        'harness/props/c18_num.py; SVD/QR are LAPACK (contract checked, not modelled)',
    ]
    import time
    t0 = time.time()
    sections = [('sequences', run_sequences(ctx, 2500 if thorough else 450)),
                ('index expressions', NUM.run_index_cases(ctx, 4000 if thorough else 600)),
                ('generator', NUM.run_generator_cases(ctx, 1500 if thorough else 300)),
                ('generator histories', NUM.run_genhist_cases(ctx, 300 if thorough else 60)),
                ('free functions', NUM.run_modek_cases(ctx, 480 if thorough else 120)),
                ('operators', NUM.run_canop_cases(ctx, 600 if thorough else 120)),
                ('cython updates', NUM.run_update_cases(ctx, 400 if thorough else 80)),
                ('numeric', NUM.run_numeric(ctx, thorough))]
    # every section generates its cases, then ONE driver process runs all of them
    wanted = [(name, g) + tuple(next(g)) for name, g in sections]
    payload = {key: cases for (_, _, key, cases) in wanted}
    log('[C18] generated %s in %.1fs' % ({k: len(v) for k, v in payload.items()}, time.time() - t0))
    t0 = time.time()
    try:
        out = ctx.impl.run(DRIVER, payload, timeout=2400)
    except Exception as e:  # noqa  -- the interpreter died: find the family and the input
        log('[C18] combined driver run failed (%s); running the families separately' % str(e)[-200:].replace('\n', ' '))
        out = {key: NUM.safe_run(ctx, key, cases) for (_, _, key, cases) in wanted}
    log('[C18] implementation run: %.1fs' % (time.time() - t0))
    t0 = time.time()
    for name, g, key, cases in wanted:
        try:
            g.send(out.get(key))
        except StopIteration:
            pass
    log('[C18] property evaluated on the implementation: %.1fs (evaluations %d)' % (time.time() - t0, ctx.cov['evaluations']))
    t0 = time.time()
    NUM.flush_coq(ctx)
    log('[C18] model evaluated on the same cases (vm_compute): %.1fs' % (time.time() - t0))
    ctx.cov['rule'] = ('one evaluation = one operation step / index expression / generator access / operator identity / '
                       'approximation run on the implementation; non-trivial = all; distinct by (operation, operands, result)')
    ctx.cov['exhaustive'] = False
    return ctx.finish()


def replay(ctx, data):
    """Re-run the recorded input on the current implementation; the violation is reported again
    iff the implementation still behaves as recorded."""
    rp = data['replay']
    if 'ops' in rp:
        steps = ctx.impl.run(DRIVER, {'seqs': [{'init': rp['init'], 'ops': rp['ops']}]})['seqs'][0]
        now = steps[rp.get('failing_step', len(steps) - 1)]
    elif 'mode' in rp:
        now = ctx.impl.run(DRIVER, {rp['mode']: [rp['case']]})[rp['mode']][0]
    elif 'I' in rp and 'shape' in rp:
        now = ctx.impl.run(DRIVER, {'idx': [{'shape': rp['shape'], 'I': rp['I']}]})['idx'][0]
    elif 'o' in rp and 'X' in rp:
        now = ctx.impl.run(DRIVER, {'gen': [{'X': rp['X'], 'o': rp['o'], 'multi': rp.get('multientryfunc', False)}]})['gen'][0]
    elif 'case' in rp:
        c = rp['case']
        mode = 'num' if c.get('k') in ('norm', 'orth', 'hosvd', 'compress', 'trunc_rank', 'aca', 'aca_lr', 'aca3d', 'als1',
                                       'als', 'grou', 'gta') else ('upd' if c.get('k') in ('r1', 'r3') else 'cop')
        now = ctx.impl.run(DRIVER, {mode: [c]})[mode][0]
    else:
        log('[C18] replay file has no recognised input')
        return ctx.finish()
    old = rp.get('impl') or {}
    keys = [k for k in ('status', 'dense', 'result', 'value', 'X', 'terms', 'ranges', 'singleton', 'errors', 'shape', 'norm')
            if k in old]
    same = bool(keys) and all(old.get(k) == now.get(k) for k in keys)
    log('[C18] replay: recorded %s ; now %s' % ({k: old.get(k) for k in ('status', 'msg')}, {k: now.get(k) for k in ('status', 'msg')}))
    ctx.count(('replay', repr(rp)[:200]))
    if same:
        ctx.report(data['signature'], 'reproduced: ' + data['what'], dict(rp, impl_now=now))
    return ctx.finish()


META = {
    'technique': 'Rocq proofs over an arbitrary commutative ring that the format operations commute with expansion '
                 '(entry-wise homomorphism theorems, index-normalisation theorems, cross-step exactness) + exact step-wise '
                 'correspondence of the implementation\'s structures with the model at R=Z + dense-array oracle on the '
                 'implementation + bounded float checks of the approximation algorithms',
    'level_text': 'Theorems (Coq, unbounded, any commutative ring with Leibniz equality): asarray commutes with +, unary -, '
                  'row selection and n-way mode products of canonical tensors (canon_add, canon_neg, canon_getitem_rows, '
                  'canon_nway), with -, +, binary -, mode products of Tucker tensors and with join_tucker_bases '
                  '(tucker_neg, tucker_nway, join_bases_spec_first/second, tucker_add, tucker_sub), canonical->Tucker '
                  'conversion is exact (canon_to_tucker); CanonicalOperator transpose/add/neg/composition/Kronecker '
                  'extension/application agree entry-wise with the expanded matrix (canop_*); _normalize_indices selects '
                  'only existing positions for every int/slice/list expression, pads missing axes, rejects too many '
                  '(int_index_*, slice_*, normalize_indices_*); rank_1_update and one aca cross step annihilate the '
                  'residual on the pivot row and column (aca_step_exact_on_cross_*); exact rank 1 is reproduced by one '
                  'cross (aca_rank_reduction_partial); round 2: CanonicalTensor.__getitem__ in full for every accepted index '
                  'expression (canon_getitem), squeeze of canonical and Tucker tensors, Tucker->canonical (tucker_to_canon), '
                  'the rotate-and-contract loop of apply_tprod equals the multi-way product (apply_tprod_loop), modek_tprod, '
                  'pad (pad_spec*), operator slice (canop_slice), and find_truncation_rank never discards more than tol^2: '
                  'discarded squared norm = accumulated error and tol^2 < error is false (truncation_error_bound). Final '
                  'round: TensorGenerator.__getitem__ and TuckerTensor.__getitem__ for every accepted index expression '
                  '(generator_getitem_spec, tucker_getitem); Wedderburn rank reduction over a field with explicit new factors '
                  'and, by induction, lowrank.aca in exact arithmetic reproduces a sum of r outer products after r accepted '
                  'crosses with non-zero pivots (wedderburn_rank_reduction_step, aca_rank_reduction*); the energy identity '
                  'of orthogonal projections behind the gta error history (error_history_energy_*). Not proved, tie only: '
                  'grou monotonicity, identification of the Tucker projection with the product-basis projection, isometry '
                  'of orthonormal factors, the aca pivot search. Tie: each step of ~450 (thorough 2500) random operation sequences (length <= 8, orders 1-4, '
                  'singleton axes, rank 0, mixed formats, malformed stream) is replayed by the model at R=Z on the '
                  'structures the implementation produced: factor matrices, cores, scalars and error classes compared '
                  'exactly; likewise _normalize_indices, TensorGenerator accesses, CanonicalOperator algebra and the '
                  'Cython updates; every result is also compared with a dense numpy oracle. Float part: norm, '
                  'orthogonalize, hosvd, compress/find_truncation_rank over 11 decades of tol and rtol, aca/aca_lr/aca_3d '
                  'on exact rank-r integer arrays, als1, grou, gta histories, with stated derived bounds.',
    'level_note': 'Trusted: Coq kernel + vm_compute; the hand transcription of tensor.py/lowrank.py/lowrank_cy.pyx into '
                  'Gallina with numpy primitives (hstack, pad, take, dot, tensordot, fill of the diagonal) modelled by their '
                  'entry-wise meaning, validated by the exact correspondence run; harness generators and the dense oracle; '
                  'real arithmetic for binary64 (entries are small integers in the exact tie; float results bounded). '
                  'Not modelled: SVD/QR (LAPACK; orthonormality and reconstruction checked), als1/als iterations, '
                  'scipy.sparse. The reference semantics of an index expression is per-axis (orthogonal) selection, as implemented by '
                  '_normalize_indices; it differs from numpy fancy indexing when several lists/ints are mixed.',
}
