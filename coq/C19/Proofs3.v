(* C19 -- Spline.derivative: the derivative as a spline equals the pointwise derivative. *)
From Coq Require Import QArith Qcanon ZArith List Arith Bool Lia Lqa.
From Verif.lib Require Import Bsp NpCore NpQ.
From Verif.C02 Require Import Proofs.
From Verif.C19 Require Import Model Proofs Proofs2.
Import ListNotations.
Open Scope Qc_scope.

(* ---- element-wise helpers ---- *)
Lemma zip_with_length f x y : length (zip_with f x y) = Nat.min (length x) (length y).
Proof.
  revert y. induction x as [|a x IH]; intros [|b y]; cbn; try reflexivity. rewrite IH. reflexivity.
Qed.

Lemma nth_zip_with f x y i : (i < length x)%nat -> (i < length y)%nat ->
  nth i (zip_with f x y) 0 = f (nth i x 0) (nth i y 0).
Proof.
  revert y i. induction x as [|a x IH]; intros [|b y] i Hx Hy; cbn in *; try lia.
  destruct i; [reflexivity|]. apply IH; lia.
Qed.

Lemma np_diff_length c : length (np_diff c) = (length c - 1)%nat.
Proof. unfold np_diff. rewrite zip_with_length, length_tl, length_removelast. lia. Qed.

Lemma nth_np_diff c j : (S j < length c)%nat -> nth j (np_diff c) 0 = nth (S j) c 0 - nth j c 0.
Proof.
  intros H. unfold np_diff.
  rewrite nth_zip_with by (rewrite ?length_tl, ?length_removelast; lia).
  rewrite nth_tl, nth_removelast by lia. reflexivity.
Qed.

Lemma derivative_coeffs_length kv p c : length c = numdofs kv p -> (p + 2 <= length kv)%nat ->
  length (derivative_coeffs kv p c) = (length c - 1)%nat.
Proof.
  intros Hc Hl. unfold numdofs in Hc. unfold derivative_coeffs.
  rewrite zip_with_length, map_length, zip_with_length, !sl_range_length, np_diff_length. lia.
Qed.

Lemma nth_derivative_coeffs kv p c j : length c = numdofs kv p -> (S j < length c)%nat ->
  nth j (derivative_coeffs kv p c) 0 =
  natq p / (kn kv (p + 1 + j) - kn kv (1 + j)) * (nth (S j) c 0 - nth j c 0).
Proof.
  intros Hc Hj. unfold numdofs in Hc. unfold derivative_coeffs.
  assert (L1 : length (sl_range (p + 1) 1 kv) = (length kv - p - 2)%nat) by (rewrite sl_range_length; lia).
  assert (L2 : length (sl_range 1 (p + 1) kv) = (length kv - p - 2)%nat) by (rewrite sl_range_length; lia).
  rewrite nth_zip_with by (rewrite ?map_length, ?zip_with_length, ?np_diff_length, ?L1, ?L2; lia).
  rewrite nth_np_diff by exact Hj. f_equal.
  set (f := fun d => natq p / d).
  rewrite (nth_indep _ 0 (f 0)) by (rewrite map_length, zip_with_length, L1, L2; lia).
  rewrite (map_nth f). unfold f. f_equal.
  rewrite nth_zip_with by (rewrite ?L1, ?L2; lia).
  rewrite !nth_sl_range by lia. reflexivity.
Qed.

(* ---- sums ---- *)
Definition gsum (f : nat -> Qc) (n : nat) : Qc := qsum (map f (seq 0 n)).

Lemma qsum_cons a l : qsum (a :: l) = a + qsum l.
Proof. reflexivity. Qed.
Lemma qsum_nil : qsum [] = 0.
Proof. reflexivity. Qed.

Lemma qsum_app l r : qsum (l ++ r) = qsum l + qsum r.
Proof.
  induction l as [|a l IH]; [rewrite qsum_nil; cbn [app]; ring|].
  cbn [app]. rewrite !qsum_cons, IH. ring.
Qed.

Lemma gsum_0 f : gsum f 0 = 0.
Proof. reflexivity. Qed.

Lemma gsum_S f n : gsum f (S n) = gsum f n + f n.
Proof.
  unfold gsum. rewrite seq_S, map_app, qsum_app. cbn [map plus]. rewrite qsum_cons, qsum_nil. ring.
Qed.

Lemma gsum_ext f g n : (forall i, (i < n)%nat -> f i = g i) -> gsum f n = gsum g n.
Proof.
  intros H. unfold gsum. f_equal. apply map_ext_in. intros i Hi. apply in_seq in Hi. apply H. lia.
Qed.

(* summation by parts *)
Lemma sum_by_parts (c A : nat -> Qc) n :
  gsum (fun i => c i * (A i - A (S i))) (S n) =
  c 0%nat * A 0%nat + gsum (fun j => (c (S j) - c j) * A (S j)) n - c n * A (S n).
Proof.
  induction n as [|n IH].
  - rewrite gsum_S, !gsum_0. ring.
  - rewrite gsum_S, IH, gsum_S. ring.
Qed.

(* ---- the B-splines of kv[1:-1] are those of kv shifted by one ---- *)
Lemma kn_inner kv j : (j + 2 < length kv)%nat -> kn (sl_1_m1 kv) j = kn kv (S j).
Proof. intros H. unfold kn. apply nth_sl_1_m1. exact H. Qed.

Lemma Nref_shift kv u : (3 <= length kv)%nat -> kn kv (length kv - 2) = kn kv (length kv - 1) ->
  forall q i, (i + q + 3 < length kv)%nat -> Nref (sl_1_m1 kv) q i u = Nref kv q (S i) u.
Proof.
  intros Hl Hlast. induction q as [|q IH]; intros i Hi.
  - cbn [Nref]. unfold in_span. rewrite sl_1_m1_length.
    rewrite !kn_inner by lia. replace (S (length kv - 2 - 1)) with (length kv - 2)%nat by lia.
    rewrite Hlast. reflexivity.
  - cbn [Nref]. rewrite !kn_inner by lia. rewrite !IH by lia.
    replace (S (i + S q)) with (S i + S q)%nat by lia.
    replace (S (i + S q + 1)) with (S i + S q + 1)%nat by lia.
    replace (S (i + 1)) with (S i + 1)%nat by lia. reflexivity.
Qed.

Lemma div_zero (x y : Qc) : y = 0 -> x / y = 0.
Proof. intros ->. unfold Qcdiv. replace (/ 0) with 0 by reflexivity. ring. Qed.

Lemma alg1 (x P a b : Qc) : x * (P * (a - b)) = P * (x * (a - b)).
Proof. ring. Qed.
Lemma alg2 (P D d N : Qc) : P * / D * d * N = P * (d * (N * / D)).
Proof. ring. Qed.
Lemma gsum_scal P f n : gsum (fun i => P * f i) n = P * gsum f n.
Proof. induction n as [|m IHm]; [rewrite !gsum_0; ring|]. rewrite !gsum_S, IHm. ring. Qed.

(* Spline.derivative(): the spline with knots kv[1:-1], degree p-1 and coefficients
   p (c[i+1]-c[i]) / (t[i+p+1]-t[i+1]) is the pointwise derivative (C02's dNref recursion) *)
Lemma derivative_spline_l kv q c u : let p := S q in
  kv_ok kv p -> length c = numdofs kv p ->
  spline_ev (derivative_kv kv) q (derivative_coeffs kv p c) u = spline_dev kv p c u.
Proof.
  intros p [Hlen Hs Hf Hl Hls] Hc. unfold numdofs in Hc.
  set (n := length c) in *.
  assert (Hn : n = S (n - 1)) by lia.
  assert (Hlast : kn kv (length kv - 2) = kn kv (length kv - 1)).
  { apply Qcle_antisym; [apply Hs; lia|]. rewrite <- Hl. apply Hs; lia. }
  set (A := fun j => Nref kv q j u / (kn kv (j + p) - kn kv j)).
  set (P := natq p).
  (* right-hand side *)
  assert (R : spline_dev kv p c u = P * gsum (fun i => nth i c 0 * (A i - A (S i))) n).
  { unfold spline_dev. fold n. fold (gsum (fun i => nth i c 0 * dNref kv 1 p i u) n).
    assert (E : forall i, nth i c 0 * dNref kv 1 p i u = P * (nth i c 0 * (A i - A (S i)))).
    { intros i. unfold p at 1. cbn [dNref]. fold p. unfold A, P, natq.
      replace (S i + p)%nat with (i + p + 1)%nat by lia. replace (S i) with (i + 1)%nat by lia. apply alg1. }
    rewrite (gsum_ext _ (fun i => P * (nth i c 0 * (A i - A (S i)))) n) by (intros; apply E).
    apply gsum_scal. }
  rewrite R. rewrite Hn at 1. rewrite sum_by_parts.
  assert (A0 : A 0%nat = 0).
  { unfold A. apply div_zero. cbn [plus]. rewrite Hf. ring. }
  assert (An : A (S (n - 1)) = 0).
  { unfold A. apply div_zero. replace (S (n - 1) + p)%nat with (length kv - 1)%nat by lia.
    replace (S (n - 1)) with (length kv - p - 1)%nat by lia. rewrite Hl. ring. }
  rewrite A0, An.
  (* left-hand side *)
  unfold spline_ev. rewrite derivative_coeffs_length by (unfold numdofs; lia). fold n.
  fold (gsum (fun i => nth i (derivative_coeffs kv p c) 0 * Nref (derivative_kv kv) q i u) (n - 1)).
  rewrite (gsum_ext _ (fun j => P * ((nth (S j) c 0 - nth j c 0) * A (S j))) (n - 1)).
  - rewrite gsum_scal. generalize (gsum (fun j => (nth (S j) c 0 - nth j c 0) * A (S j)) (n - 1)).
    generalize (nth 0 c 0). generalize (nth (n - 1) c 0). generalize P. clear. intros. ring.
  - intros j Hj. rewrite nth_derivative_coeffs by (unfold numdofs; lia).
    assert (Hp : p = S q) by reflexivity.
    unfold derivative_kv. rewrite (Nref_shift kv u ltac:(lia) Hlast) by lia. unfold A, P.
    replace (S j + p)%nat with (p + 1 + j)%nat by lia. replace (1 + j)%nat with (S j) by lia.
    unfold Qcdiv. apply alg2.
Qed.
