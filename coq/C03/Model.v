(* C03 -- hierarchical assembly (pyiga/_hdiscr.py, pyiga/hierarchical.py) over the C04 state.

   Definitions only (no proofs).  Three layers, all generic in the scalar type R
   (Section Num: r0 r1 radd rmul ropp; the theorems of Proofs.v assume the ring laws, the
   correspondence run instantiates R with exact dyadic numbers, Tie.v):

   1. index bookkeeping on the sets of coq/C04/Model.v: cell_supp_indices(remove_dirichlet=False),
      neighbours, interlevel_ix, to_assemble, bounding boxes, raveled and canonical indices;
   2. a literal transcription of the sparse-matrix program: partial rows of the level matrices,
      represent_fine(lv, rows, restrict), the three block products, insert_block, the COO
      merge, truncate_one_level / thb_to_hb, the THB congruence, assemble_functional;
   3. the same blocks in entry form (blk_entry), the object the theorems speak about.

   The level-k tensor-product matrices (alev), load vectors (blev) and the 1-D prolongation
   matrices (pmat) are Section variables: arbitrary data.  File:line citations refer to /repo. *)
From Coq Require Import List Arith Bool Lia NArith.
From Verif.lib Require Import FinSet.
From Verif.C04 Require Import Model.
Import ListNotations.

(* ------------------------------------------------------------------------- *)
(* index helpers                                                               *)

(* np.ravel_multi_index(.., order='C')   hierarchical.py:508-513 *)
Fixpoint ravel_acc (shape : list nat) (idx : mi) (acc : N) : N :=
  match shape, idx with
  | n :: s, i :: t => ravel_acc s t (acc * N.of_nat n + N.of_nat i)%N
  | _, _ => acc
  end.
Definition ravel (shape : list nat) (idx : mi) : N := ravel_acc shape idx 0%N.

Definition nprod (l : list nat) : nat := fold_right Nat.mul 1 l.
Definition Nseq (n : nat) : list N := map N.of_nat (seq 0 n).
Definition memN (x : N) (l : list N) : bool := existsb (N.eqb x) l.

(* list.index: position of x in l *)
Fixpoint pos_in (x : mi) (l : list mi) (acc : N) : option N :=
  match l with
  | [] => None
  | y :: r => if mi_eqb x y then Some acc else pos_in x r (N.succ acc)
  end.

(* itertools.product of explicit lists *)
Fixpoint prod_lists (ls : list (list nat)) : list mi :=
  match ls with
  | [] => [[]]
  | l :: r => flat_map (fun i => map (cons i) (prod_lists r)) l
  end.

Definition in_window (disp : option nat) (k i : nat) : bool :=      (* lv - disparity <= i < lv *)
  (i <? k) && match disp with None => true | Some d => k <=? i + d end.

(* ------------------------------------------------------------------------- *)
(* Dirichlet specification: hierarchical.py:380-382, 581-611.
   bdspecs = None | Some (list of (axis, side)).  index_dirichlet iterates over self.bdspecs.
   REPAIRED behaviour (fixes/C03-default-bdspecs.patch): None is treated as the empty list.
   The unpatched source raises TypeError ('NoneType' object is not iterable): dirichlet_old. *)
Definition bdspecs := option (list (nat * nat)).
Definition bd_list (b : bdspecs) : list (nat * nat) := match b with None => [] | Some l => l end.
Definition dirichlet_old (b : bdspecs) : outcome (list (nat * nat)) :=
  match b with None => TypeError | Some l => Ok l end.
Definition dirichlet_new (b : bdspecs) : outcome (list (nat * nat)) := Ok (bd_list b).

(* boundary_dofs(kvs, (ax, side), ravel=False): the functions whose index on axis ax is 0 / n-1 *)
Definition on_boundary (numdofs : list nat) (bd : nat * nat) (f : mi) : bool :=
  let (ax, side) := bd in
  Nat.eqb (nth ax f 0) (if Nat.eqb side 0 then 0 else nth ax numdofs 0 - 1).

Section Asm.
Variable st : hspace.
Variable bds : bdspecs.

Definition AFm (k : nat) : set := lv_actfun (lvl st k).
Definition DFm (k : nat) : set := lv_deactfun (lvl st k).
Definition shape (k : nat) : list nat := tp_numdofs (msh st k).
Definition numbf (k : nat) : nat := nprod (shape k).                      (* TPMesh.numbf :105 *)
Definition L : nat := numlevels st.

(* index_dirichlet[lv][i] for i <= lv (:593-611) -- only its use in new_indices matters here *)
Definition dir_set (lv i : nat) : set :=
  let tpb f := existsb (fun bd => on_boundary (shape i) bd f) (bd_list bds) in
  if i <? lv then filter tpb (AFm i)
  else if i =? lv then union (filter tpb (AFm i)) (filter tpb (DFm i)) else [].

(* cell_supp_indices(remove_dirichlet=False, disparity)   hierarchical.py:716-732
   starts from new_indices() (:655-664): entry [lv][lv] = sorted(actfun - dirichlet) + sorted(deactfun - dirichlet).
   The window argument `disparity` (default: the disparity of the space) is the REPAIRED signature
   (fixes/C03-assembly-disparity-window.patch). *)
Definition cell_supp_d (disp : option nat) (lv i : nat) : list mi :=
  if in_window disp lv i then
    inter (supported_in (msh st i) (cell_grandparent (lv - i) (support (msh st lv) (AFm lv)))) (AFm i)
  else if i =? lv then diff (AFm i) (dir_set lv i) ++ diff (DFm i) (dir_set lv i)
  else [].

Definition cell_supp (lv i : nat) : list mi := cell_supp_d (hs_disparity st) lv i.

(* _hdiscr.py:79-82: neighbors = cell_supp_indices(remove_dirichlet=False, disparity=inf); neighbors[k][k] = [].
   REPAIRED behaviour: every coarser level is searched.  The unpatched source used the window of the space,
   which loses interactions on meshes that are not HB-admissible for that disparity (neighbors_old). *)
Definition neighbors (k i : nat) : list mi := if i =? k then [] else cell_supp_d None k i.
Definition neighbors_old (k i : nat) : list mi := if i =? k then [] else cell_supp k i.

End Asm.

(* ------------------------------------------------------------------------- *)
Section Num.
Variable R : Type.
Variables (r0 r1 : R) (radd rmul : R -> R -> R) (ropp : R -> R).

Definition sumf {A : Type} (f : A -> R) (l : list A) : R := fold_right (fun x s => radd (f x) s) r0 l.

(* ---- sparse vectors / matrices (scipy CSR as a value: rows of (column, value), columns
        increasing, duplicates summed) ------------------------------------------------ *)
Definition svec := list (N * R).
Definition smat := list svec.

(* y + c * x *)
Fixpoint sv_axpy (c : R) (x : svec) : svec -> svec :=
  fix aux (y : svec) : svec :=
    match x with
    | [] => y
    | (kx, vx) :: x' =>
        match y with
        | [] => (kx, rmul c vx) :: sv_axpy c x' []
        | (ky, vy) :: y' =>
            match N.compare kx ky with
            | Lt => (kx, rmul c vx) :: sv_axpy c x' y
            | Eq => (kx, radd vy (rmul c vx)) :: sv_axpy c x' y'
            | Gt => (ky, vy) :: aux y'
            end
        end
    end.

Fixpoint sv_find (s : svec) (k : N) : option R :=
  match s with
  | [] => None
  | (k', v) :: s' => if N.eqb k k' then Some v else sv_find s' k
  end.
Definition sv_get (s : svec) (k : N) : R := match sv_find s k with Some v => v | None => r0 end.

Definition sm_row (M : smat) (i : N) : svec := nth (N.to_nat i) M [].
Definition sm_get (M : smat) (i j : N) : R := sv_get (sm_row M i) j.

(* M[idx]  (row fancy-indexing) and M[:, idx] (column fancy-indexing, columns renumbered by position) *)
Definition sm_rows (M : smat) (idx : list N) : smat := map (sm_row M) idx.
Fixpoint sv_pick (row : svec) (idx : list N) (p : N) : svec :=
  match idx with
  | [] => []
  | c :: t => match sv_find row c with
              | Some v => (p, v) :: sv_pick row t (N.succ p)
              | None => sv_pick row t (N.succ p)
              end
  end.
Definition sm_cols (M : smat) (idx : list N) : smat := map (fun row => sv_pick row idx 0%N) M.

Fixpoint upd {A : Type} (n : nat) (f : A -> A) (l : list A) : list A :=
  match l, n with
  | [], _ => []
  | x :: r, 0 => f x :: r
  | x :: r, S n' => x :: upd n' f r
  end.

(* M.T for a matrix with ncols columns *)
Definition sm_transpose (ncols : nat) (M : smat) : smat :=
  snd (fold_left (fun iT row =>
         (N.succ (fst iT),
          fold_left (fun T e => upd (N.to_nat (fst e)) (fun r => r ++ [(fst iT, snd e)]) T) row (snd iT)))
       M (0%N, repeat [] ncols)).

(* A @ B *)
Definition sm_mul (A B : smat) : smat :=
  map (fun ra => fold_left (fun acc e => sv_axpy (snd e) (sm_row B (fst e)) acc) ra []) A.

(* scipy.sparse.kron(A, B) where B has mB columns *)
Definition kron2 (A B : smat) (mB : N) : smat :=
  flat_map (fun ra => map (fun rb =>
     flat_map (fun ea => map (fun eb => ((fst ea * mB + fst eb)%N, rmul (snd ea) (snd eb))) rb) ra) B) A.

(* COO triplets and their conversion to CSR with summation of duplicates (_hdiscr.py:154-159) *)
Definition coo := list (N * N * R).
Definition coo_to_rows (n : nat) (m : coo) : smat :=
  fold_left (fun M t => upd (N.to_nat (fst (fst t))) (sv_axpy r1 [(snd (fst t), snd t)]) M) m (repeat [] n).
(* the value a COO list denotes at (i, j) *)
Definition coo_get (m : coo) (i j : N) : R :=
  sumf (fun t => snd t) (filter (fun t => N.eqb (fst (fst t)) i && N.eqb (snd (fst t)) j) m).

Section Data.
Variable st : hspace.
Variable pmat : nat -> nat -> smat.       (* hmesh.P[lv][axis] as rows, (numdofs_{lv+1}[axis] x numdofs_lv[axis]) *)
Variable alev : nat -> smat.              (* the full tensor-product matrix of level k (rows raveled) *)
Variable blev : nat -> list R.            (* the full tensor-product load vector of level k *)

Let AFk := AFm st.
Let DFk := DFm st.
Let shp := shape st.

(* ---- function children through the CSC pattern of the prolongators ------------------ *)
(* _function_children_1d :276-281  P.indices[P.indptr[j]:P.indptr[j+1]] : the rows stored in column j *)
Definition children_1d (lv d j : nat) : list nat :=
  filter (fun r => match sv_find (nth r (pmat lv d) []) (N.of_nat j) with Some _ => true | None => false end)
         (seq 0 (length (pmat lv d))).
Fixpoint axes_children (lv d : nat) (f : mi) : list (list nat) :=
  match f with [] => [] | j :: t => children_1d lv d j :: axes_children lv (S d) t end.
(* function_children(lv, indices) :287-292 *)
Definition fchildren (lv : nat) (fs : list mi) : set :=
  of_list (flat_map (fun f => prod_lists (axes_children lv 0 f)) fs).
(* function_grandchildren(lv, indices, targetlv) :294-301, n = targetlv - lv >= 1 *)
Fixpoint fgrand (n lv : nat) (fs : list mi) : list mi :=
  match n with 0 => fs | S n' => fgrand n' (S lv) (fchildren lv fs) end.

(* ---- _hdiscr.py:84-102 ---------------------------------------------------------------- *)
Definition nbr (k i : nat) : list mi := neighbors st None k i.

(* for lv in range(k): indices |= function_grandchildren(lv, neighbors[k][lv], k)
   (REPAIRED: the unpatched loop started at max(0, k - disparity)) *)
Definition interlevel (k : nat) : set :=
  fold_left (fun acc lv => union acc (of_list (fgrand (k - lv) lv (nbr k lv)))) (seq 0 k) [].
Definition to_assemble (k : nat) : set := union (interlevel k) (AFk k).

(* _bbox_for_functions :225-233 *)
Definition bbox (k : nat) (funcs : list mi) : list (nat * nat) :=
  let cells := support (msh st k) funcs in
  let d := length (shp k) in
  match cells with
  | [] => repeat (0, 0) d
  | c0 :: _ => map (fun j => (fold_right Nat.min (nth j c0 0) (map (fun c => nth j c 0) cells),
                              S (fold_right Nat.max 0 (map (fun c => nth j c 0) cells)))) (seq 0 d)
  end.

Definition rav (k : nat) (fs : list mi) : list N := map (ravel (shp k)) fs.       (* ravel_indices :496-513 *)
Definition to_assemble_r (k : nat) : list N := rav k (to_assemble k).
Definition interlevel_r (k : nat) : list N := rav k (interlevel k).
Definition new_loc (k : nat) : list N := rav k (AFk k).                            (* active_indices() *)

(* canonical (matrix) indices: na, new  :109-112 *)
Definition offset (k : nat) : N := N.of_nat (fold_right Nat.add 0 (map (fun l => length (AFk l)) (seq 0 k))).
Definition new_c (k : nat) : list N := map (fun i => (offset k + N.of_nat i)%N) (seq 0 (length (AFk k))).
Definition numdofs : nat := fold_right Nat.add 0 (map (fun l => length (AFk l)) (seq 0 (L st))).
(* raveled_to_virtual_canonical_indices(k, ravel(neighbors[k])) :755-767: level by level, position in
   the sorted active functions of that level (list.index) plus the running offset *)
Definition canon (l : nat) (f : mi) : option N :=
  match pos_in f (AFk l) 0%N with Some p => Some (offset l + p)%N | None => None end.
Definition neighbors_c (k : nat) : list N :=
  flat_map (fun l => flat_map (fun f => match canon l f with Some c => [c] | None => [] end) (nbr k l)) (seq 0 (L st)).

(* ---- represent_fine(lv=k, truncate=False, rows, restrict)  hierarchical.py:1059-1146 ---- *)
(* multi_kron_sparse(self.hmesh.P[j])  utils.py:69-74 *)
Fixpoint multi_kron (j d : nat) (dims : list nat) : smat :=
  match dims with
  | [] => [[(0%N, r1)]]
  | [_] => pmat j d
  | _ :: rest => kron2 (pmat j d) (multi_kron j (S d) rest) (N.of_nat (nprod rest))
  end.
Definition kronP (j : nat) : smat := multi_kron j 0 (shp j).       (* N_{j+1} x N_j *)

(* act_indices: raveled active functions per level; on the top level followed by the deactivated ones *)
Definition act_indices (k j : nat) : list N :=
  if j =? k then rav j (AFk j) ++ rav j (DFk j) else rav j (AFk j).

(* the loop `for k in reversed(range(lv+1))`: P is the current matrix (columns = level j);
   result: the blocks of levels 0..j in increasing order.  kron_partial(needed_rows) fills only the rows
   that P can reach: the product P.dot(Pj) is that of the full Kronecker matrix (pure optimisation). *)
Fixpoint rf_loop (top j : nat) (P : smat) : list (smat * nat) :=
  match j with
  | 0 => [(sm_cols P (act_indices top 0), length (act_indices top 0))]
  | S j' => rf_loop top j' (sm_mul P (kronP j')) ++ [(sm_cols P (act_indices top (S j')), length (act_indices top (S j')))]
  end.
(* scipy.sparse.bmat([blocks]) : horizontal stacking *)
Definition hstack (nrows : nat) (blocks : list (smat * nat)) : smat :=
  map (fun i => snd (fold_left (fun ofs_row b =>
         ((fst ofs_row + N.of_nat (snd b))%N,
          snd ofs_row ++ map (fun e => ((fst ofs_row + fst e)%N, snd e)) (nth i (fst b) [])))
       blocks (0%N, []))) (seq 0 nrows).

Definition represent_fine (k : nat) (rows : list N) (restrict : bool) : smat :=
  let P0 := if restrict then map (fun r => [(r, r1)]) rows
            else map (fun r => if memN r rows then [(r, r1)] else []) (Nseq (numbf st k)) in
  hstack (length P0) (rf_loop k k P0).

(* ---- _assemble_partial_rows :5-11 : only the given rows of the level matrix are filled ---- *)
Definition partial_rows (k : nat) (rows : list N) : smat :=
  map (fun ir => if memN (fst ir) rows then snd ir else []) (combine (Nseq (numbf st k)) (alev k)).

(* insert_block(B, rows, columns) :117-123 *)
Definition insert_block (B : smat) (rows cols : list N) : coo :=
  flat_map (fun ib => map (fun e => (nth ib rows 0%N, nth (N.to_nat (fst e)) cols 0%N, snd e)) (nth ib B []))
           (seq 0 (length B)).

(* ---- assemble_matrix, HB branch  _hdiscr.py:76-159 ------------------------------------- *)
Definition level_blocks (symm : bool) (k : nat) : coo :=
  let rows := to_assemble_r k in
  let Ak := partial_rows k rows in                              (* :127 *)
  let Ik := represent_fine k rows false in                      (* :130 *)
  let nl := new_loc k in
  let nw := new_c k in
  let il := interlevel_r k in
  let nb := neighbors_c k in
  let Adiag := sm_cols (sm_rows Ak nl) nl in                    (* :133 *)
  let F1 := sm_cols (sm_rows Ik il) nb in                       (* I_hb_k[interlevel_ix[k]][:, neighbors[k]] *)
  let F3 := sm_cols (sm_rows Ik nl) nw in                       (* I_hb_k[new_loc[k]][:, new[k]] *)
  let Aint := sm_mul (sm_mul (sm_transpose (length nb) F1) (sm_cols (sm_rows Ak il) nl)) F3 in   (* :139-141 *)
  let Aint2 := if symm then sm_transpose (length nw) Aint                                      (* :143-144 *)
               else sm_mul (sm_mul (sm_transpose (length nw) F3) (sm_cols (sm_rows Ak nl) il)) F1 in  (* :146-148 *)
  insert_block Adiag nw nw ++ insert_block Aint nb nw ++ insert_block Aint2 nw nb.               (* :136, :151-152 *)

Definition assemble_hb_coo (symm : bool) : coo := flat_map (level_blocks symm) (seq 0 (L st)).
Definition assemble_hb (symm : bool) : smat := coo_to_rows numdofs (assemble_hb_coo symm).

(* ---- truncate_one_level(k) / thb_to_hb  hierarchical.py:1148-1199 ------------------------ *)
Definition nt (k : nat) : nat := fold_right Nat.add 0 (map (fun l => length (AFk l)) (seq 0 (S k))).
Definition truncate_one_level (k : nat) : smat :=
  let A := represent_fine (S k) (new_loc (S k)) true in           (* rep act(0..k+1) as act(k+1) *)
  let A1 := map (filter (fun e : N * R => (fst e <? N.of_nat (nt k))%N)) A in   (* A.resize(nA, nt[k]) *)
  let A2 := repeat [] (nt k) ++ A1 in                               (* vstack below nt[k] zero rows *)
  let A3 := firstn numdofs (A2 ++ repeat [] numdofs) in             (* A.resize(num_rows, num_rows) *)
  map (fun ir => sv_axpy (ropp r1) (snd ir) [(fst ir, r1)]) (combine (Nseq numdofs) A3).   (* I - A *)

Definition eye (n : nat) : smat := map (fun i => [(i, r1)]) (Nseq n).
Definition thb_to_hb : smat :=
  if L st =? 1 then eye numdofs
  else fold_left (fun T k => sm_mul (truncate_one_level k) T) (seq 1 (L st - 2)) (truncate_one_level 0).

(* assemble_matrix :66-75 *)
Definition assemble_matrix (truncate symm : bool) : smat :=
  if truncate then
    let T := thb_to_hb in sm_mul (sm_mul (sm_transpose numdofs T) (assemble_hb symm)) T
  else assemble_hb symm.

(* ---- assemble_functional :182-223 -------------------------------------------------------- *)
Definition rhs_hb : list R :=
  flat_map (fun k => map (fun i => nth (N.to_nat i) (blev k) r0) (new_loc k)) (seq 0 (L st)).
Definition sm_tmulvec (n : nat) (M : smat) (x : list R) : list R :=      (* M.T @ x *)
  map (fun row => sumf (fun e => rmul (snd e) (nth (N.to_nat (fst e)) x r0)) row) (sm_transpose n M).
Definition assemble_functional (truncate : bool) : list R :=
  if truncate then sm_tmulvec numdofs thb_to_hb rhs_hb else rhs_hb.

End Data.

(* ------------------------------------------------------------------------- *)
(* 3. the blocks in entry form.  a k r c : entry (row r, column c) of the level-k matrix by
   multi-index; rep l k f r : coefficient of the level-k function r in the level-l function f
   (l <= k; rep k k f r = [r = f]); nb / il / ta : the sets neighbors[k][l], interlevel_ix[k],
   to_assemble[k].  Rows outside to_assemble[k] are not assembled (read as 0). *)
Section Entry.
Variable a : nat -> mi -> mi -> R.
Variable rep : nat -> nat -> mi -> mi -> R.
Variable nb : nat -> nat -> list mi.
Variable il : nat -> list mi.
Variable ta : nat -> list mi.

Definition am (k : nat) (r c : mi) : R := if mem r (ta k) then a k r c else r0.            (* A_k *)
Definition im (k l : nat) (f r : mi) : R := if mem r (ta k) then rep l k f r else r0.       (* I_hb_k *)

(* entry (row (li, fi), column (lj, fj)) of the HB matrix, fi / fj active on their levels *)
Definition blk_entry (symm : bool) (li : nat) (fi : mi) (lj : nat) (fj : mi) : R :=
  if li =? lj then am li fi fj                                                             (* diagonal block *)
  else if li <? lj then                                                                    (* A_hb_interlevel of level lj *)
    if mem fi (nb lj li) then sumf (fun r => rmul (im lj li fi r) (am lj r fj)) (il lj) else r0
  else                                                                                     (* A_hb_interlevel2 of level li *)
    if mem fj (nb li lj) then
      (if symm then sumf (fun r => rmul (im li lj fj r) (am li r fi)) (il li)
       else sumf (fun c => rmul (am li fi c) (im li lj fj c)) (il li))
    else r0.
End Entry.

End Num.
