(* C10 -- property theorems only.  Each is closed by [exact] of a lemma of Proofs.v and
   followed by Print Assumptions.  The linear-algebra theorems hold for EVERY commutative
   ring R with Leibniz equality (Z, the rationals Qc, polynomial rings, ...), every matrix
   size, every matrix A, right-hand side b and every duplicate-free list of constrained
   dofs in ANY order. *)
From Coq Require Import List Arith Bool ZArith Ring Sorted QArith.
From Verif.lib Require Import Slice.
From Verif.C10 Require Import Model Proofs.
Import ListNotations.
Local Open Scope nat_scope.

(* complete(u) takes the prescribed value at each constrained dof: values[k] at dof
   indices[k], whatever the order of the indices (sorted or not); with or without elim_rows;
   scalar or array right-hand side. *)
Theorem complete_prescribed :
  forall (R : Type) (rO rI : R) radd rmul rsub ropp, ring_theory rO rI radd rmul rsub ropp eq ->
  forall A ncols b idx values elim_rows u k,
  NoDup idx -> (forall x, In x idx -> x < ncols) -> length values = length idx -> k < length idx ->
  nth (nth k idx 0)
      (rls_complete R rO radd (rls_init R rO radd rmul rsub A ncols b idx (Arr values) elim_rows) u) rO
  = nth k values rO.
Proof. exact rls_complete_prescribed. Qed.
Print Assumptions complete_prescribed.

(* the same for a scalar value (np.isscalar(values)) *)
Theorem complete_prescribed_scalar :
  forall (R : Type) (rO rI : R) radd rmul rsub ropp, ring_theory rO rI radd rmul rsub ropp eq ->
  forall A ncols b idx c elim_rows u j,
  NoDup idx -> (forall x, In x idx -> x < ncols) -> In j idx ->
  nth j (rls_complete R rO radd (rls_init R rO radd rmul rsub A ncols b idx (Scalar c) elim_rows) u) rO = c.
Proof. exact rls_complete_prescribed_scalar. Qed.
Print Assumptions complete_prescribed_scalar.

(* The code before the repair fixes/C10-unsorted-indices.patch (values kept in the caller's
   order while the rows of R_elim are in increasing dof order) violates complete_prescribed:
   indices [3;0], values [10;20] put 10 at dof 0. *)
Theorem complete_prescribed_unrepaired_refuted :
  let idx := [3; 0] in
  let values := [10; 20]%Z in
  let s := rls_init_unsorted_bug Z 0%Z Z.add Z.mul Z.sub [] 5 (Scalar 0%Z) idx (Arr values) None in
  nth (nth 0 idx 0) (rls_complete Z 0%Z Z.add s [0; 0; 0]%Z) 0%Z <> nth 0 values 0%Z.
Proof. exact unsorted_bug_witness. Qed.
Print Assumptions complete_prescribed_unrepaired_refuted.

(* If u solves the restricted system (self.A u = self.b) then complete(u) satisfies every
   non-eliminated equation of the original system A x = b.  The eliminated rows are
   elim_rows if given, the constrained dofs otherwise. *)
Theorem complete_solves :
  forall (R : Type) (rO rI : R) radd rmul rsub ropp, ring_theory rO rI radd rmul rsub ropp eq ->
  forall A ncols b idx values elim_rows u i,
  let s := rls_init R rO radd rmul rsub A ncols b idx values elim_rows in
  let bv := bcast R (length A) b in
  length bv = length A ->
  (elim_rows = None -> length A = ncols) ->
  matvec R rO radd rmul (r_A R s) u = r_b R s ->
  i < length A -> ~ In i (elim_row_set idx elim_rows) ->
  dot R rO radd rmul (nth i A []) (rls_complete R rO radd s u) = nth i bv rO.
Proof. exact rls_complete_solves. Qed.
Print Assumptions complete_solves.

(* restrict, extend, complete, restrict_matrix, restrict_rhs are mutually consistent *)
Theorem restrict_extend :
  forall (R : Type) (rO : R) radd rmul rsub A ncols b idx values elim_rows u,
  let s := rls_init R rO radd rmul rsub A ncols b idx values elim_rows in
  length u = ntrue (r_mask R s) -> rls_restrict R s (rls_extend R rO s u) = u.
Proof. exact rls_restrict_extend. Qed.
Print Assumptions restrict_extend.

Theorem restrict_complete :
  forall (R : Type) (rO rI : R) radd rmul rsub ropp, ring_theory rO rI radd rmul rsub ropp eq ->
  forall A ncols b idx values elim_rows u,
  let s := rls_init R rO radd rmul rsub A ncols b idx values elim_rows in
  length u = ntrue (r_mask R s) -> rls_restrict R s (rls_complete R rO radd s u) = u.
Proof. exact rls_restrict_complete. Qed.
Print Assumptions restrict_complete.

Theorem restrict_matrix_consistent :
  forall (R : Type) (rO rI : R) radd rmul rsub ropp, ring_theory rO rI radd rmul rsub ropp eq ->
  forall A ncols b idx values elim_rows B u,
  let s := rls_init R rO radd rmul rsub A ncols b idx values elim_rows in
  matvec R rO radd rmul (rls_restrict_matrix R s B) u
  = rls_restrict_rhs R s (matvec R rO radd rmul B (rls_extend R rO s u)).
Proof. exact rls_restrict_matrix_consistent. Qed.
Print Assumptions restrict_matrix_consistent.

(* R_free^T R_free + R_elim^T R_elim = I *)
Theorem selection_split_identity :
  forall (R : Type) (rO rI : R) radd rmul rsub ropp, ring_theory rO rI radd rmul rsub ropp eq ->
  forall mask x, length x = length mask ->
  vadd R radd (expand R rO mask (compress mask x)) (expand R rO (nmask mask) (compress (nmask mask) x)) = x.
Proof. exact split_identity_l. Qed.
Print Assumptions selection_split_identity.

(* the restricted system has ncols - #indices unknowns *)
Theorem num_free_dofs :
  forall (R : Type) (rO : R) radd rmul rsub A ncols b idx values elim_rows,
  NoDup idx -> (forall x, In x idx -> x < ncols) ->
  ntrue (r_mask R (rls_init R rO radd rmul rsub A ncols b idx values elim_rows)) = ncols - length idx.
Proof. exact rls_num_free. Qed.
Print Assumptions num_free_dofs.

(* np.argsort of duplicate-free indices lists them in the order of the rows of I[~mask] *)
Theorem argsort_orders_rows : forall n idx,
  NoDup idx -> (forall x, In x idx -> x < n) ->
  map (fun p => nth p idx 0) (argsort idx) = elim_dofs n idx.
Proof. exact argsort_spec. Qed.
Print Assumptions argsort_orders_rows.

(* combine_bcs keeps one value per dof: strictly increasing indices, the same set of dofs
   as the input, and each dof takes the value of its FIRST occurrence *)
Theorem combine_one_value_per_dof : forall (X : Type) (d : X) indices (values : list X),
  let r := combine_flat X d indices values in
  StronglySorted lt (fst r) /\ NoDup (fst r) /\
  (forall j, In j (fst r) <-> In j indices) /\
  length (snd r) = length (fst r) /\
  (forall t, t < length (fst r) ->
     let j := nth t (fst r) 0 in
     let k := first_pos j indices in
     k < length indices /\ nth k indices 0 = j /\ (forall k', k' < k -> nth k' indices 0 <> j) /\
     nth t (snd r) d = nth k values d).
Proof. exact combine_flat_spec. Qed.
Print Assumptions combine_one_value_per_dof.

(* blocked numbering of vector fields: component j of face dof i is i + j*NN and no two
   (dof, component) pairs collide *)
Theorem blocked_numbering : forall NN bd j1 j2 i1 i2,
  (forall i, In i bd -> i < NN) -> In i1 bd -> In i2 bd ->
  i1 + j1 * NN = i2 + j2 * NN -> i1 = i2 /\ j1 = j2.
Proof. exact blocked_disjoint. Qed.
Print Assumptions blocked_numbering.

(* _parse_bdspec accepts exactly the valid (axis, side) pairs; names are the documented pairs *)
Theorem parse_bdspec_total : forall a s dim ax side,
  parse_bdspec (BPair a s) dim = Some (ax, side) <->
  (a = Z.of_nat ax /\ s = Z.of_nat side /\ ax < dim /\ (side = 0 \/ side = 1)).
Proof. exact parse_bdspec_pair_l. Qed.
Print Assumptions parse_bdspec_total.

Theorem parse_bdspec_names : forall s dim,
  parse_bdspec (BName s) dim = parse_bdspec (BPair (fst (bdname_pair s dim)) (snd (bdname_pair s dim))) dim.
Proof. exact parse_bdspec_name_l. Qed.
Print Assumptions parse_bdspec_names.

(* the 'all' shorthand: all 2*dim faces, each valid *)
Theorem all_faces_complete : forall dim ax side,
  ax < dim -> side < 2 -> In (BPair (Z.of_nat ax) (Z.of_nat side)) (all_faces dim).
Proof. exact all_faces_spec. Qed.
Print Assumptions all_faces_complete.

Theorem all_faces_count : forall dim, length (all_faces dim) = 2 * dim.
Proof. exact all_faces_length. Qed.
Print Assumptions all_faces_count.

Theorem all_faces_are_valid : forall dim b, In b (all_faces dim) ->
  exists ax side, b = BPair (Z.of_nat ax) (Z.of_nat side) /\ ax < dim /\ side < 2 /\
                  parse_bdspec b dim = Some (ax, side).
Proof. exact all_faces_valid. Qed.
Print Assumptions all_faces_are_valid.

(* slice_indices (hence boundary_dofs, boundary_cells, the index arrays of the boundary
   conditions) lists every dof whose multi-index has coordinate idx on axis ax exactly once,
   for every shape (any dimension), axis, index and flip pattern *)
Theorem slice_indices_face : forall ax idx shape flip,
  ax < length shape -> idx < nth ax shape 0 ->
  NoDup (slice_indices ax idx shape flip) /\
  (forall r, In r (slice_indices ax idx shape flip) <->
             exists mi, valid_mi shape mi /\ nth ax mi 0 = idx /\ r = ravel shape mi).
Proof. exact slice_indices_face_l. Qed.
Print Assumptions slice_indices_face.

(* the same with Python's negative indices (idx = -1 is the last slice) *)
Theorem slice_indices_wrap_face : forall ax (idx : Z) shape flip,
  ax < length shape -> (- Z.of_nat (nth ax shape 0%nat) <= idx < Z.of_nat (nth ax shape 0%nat))%Z ->
  exists l, slice_indices_z ax idx shape flip = Some l /\ NoDup l /\
    (forall r, In r l <->
       exists mi, valid_mi shape mi /\
                  Z.of_nat (nth ax mi 0%nat) = (idx mod Z.of_nat (nth ax shape 0%nat))%Z /\ r = ravel shape mi).
Proof. exact slice_indices_z_face_l. Qed.
Print Assumptions slice_indices_wrap_face.

(* np.ravel_multi_index is injective on the valid multi-indices of a shape *)
Theorem ravel_injective : forall shape mi mi', valid_mi shape mi -> valid_mi shape mi' ->
  ravel shape mi = ravel shape mi' -> mi = mi'.
Proof. exact ravel_inj. Qed.
Print Assumptions ravel_injective.

(* compute_initial_condition_01: the two coefficients per spatial dof solve the 2x2 collocation
   system, i.e. value and first time derivative at the initial face are the interpolated g0, g1;
   at the end point of an open knot vector (matrix [[1,0],[-c,c]]) the first coefficient is the
   value itself.
   NOT PROVED (initial_condition_01_reproduces in full): that active_deriv returns that matrix and
   that only two basis functions contribute at the end point (B-spline facts of C02); evaluated on
   the implementation by the harness oracle instead. *)
Theorem initial_condition_solve_partial : forall c00 c01 c10 c11 g0 g1 : Q,
  (~ c00 * c11 - c01 * c10 == 0)%Q ->
  let a := solve2 c00 c01 c10 c11 g0 g1 in
  (c00 * fst a + c01 * snd a == g0 /\ c10 * fst a + c11 * snd a == g1)%Q.
Proof. exact solve2_correct. Qed.
Print Assumptions initial_condition_solve_partial.

Theorem initial_condition_endpoint_partial : forall c g0 g1 : Q, (~ c == 0)%Q ->
  let a := solve2 1 0 (- c) c g0 g1 in (fst a == g0 /\ snd a == g0 + g1 / c)%Q.
Proof. exact solve2_endpoint. Qed.
Print Assumptions initial_condition_endpoint_partial.
