(* C10 -- executable model of the Dirichlet-elimination code of pyiga/assemble.py:
     RestrictedLinearSystem                      (assemble.py:571-652)
     slice_indices / boundary_dofs / boundary_cells (assemble.py:346-385, via lib/Slice.v)
     bspline._parse_bdspec                       (bspline.py:13-33)
     _drop_nans, compute_dirichlet_bc (index part, blocked numbering), compute_dirichlet_bcs
       ('all' shorthand), combine_bcs            (assemble.py:387-490, 554-568)
     compute_initial_condition_01 (index part + the 2x2 collocation solve) (assemble.py:492-551)
     Multipatch.compute_dirichlet_bcs (renumbering) (assemble.py:1385-1405)
   Definitions only; proofs are in Proofs.v.

   The linear algebra is written over an arbitrary carrier R with operations given as
   section variables, so that the theorems of Proofs.v hold for every commutative ring
   (Z, the rationals Qc, ...) and the correspondence run evaluates the very same
   definitions over Z.

   RestrictedLinearSystem.__init__ is modelled WITH the repair of
   /verif/fixes/C10-unsorted-indices.patch (values brought into increasing dof order by
   argsort); the behaviour of the unrepaired line is kept as [rls_init_unsorted_bug] for the
   refuted theorem. *)
From Coq Require Import List Arith Bool ZArith.
From Verif.lib Require Import Slice.
Import ListNotations.
Local Open Scope nat_scope.

(* ------------------------------------------------------------------------- *)
(* selection by a boolean mask: I[mask] (assemble.py:600-607)                  *)
(* ------------------------------------------------------------------------- *)

(* I[mask].dot(u): the entries of u whose mask bit is set, in increasing order;
   also used to select rows of a matrix (X = list R) *)
Fixpoint compress {X : Type} (mask : list bool) (u : list X) : list X :=
  match mask, u with
  | b :: mask', x :: u' => if b then x :: compress mask' u' else compress mask' u'
  | _, _ => []
  end.

Definition memb (j : nat) (l : list nat) : bool := existsb (Nat.eqb j) l.

(* mask = np.ones(n, bool); mask[list(indices)] = False   (assemble.py:602-603) *)
Definition free_mask (n : nat) (indices : list nat) : list bool :=
  map (fun j => negb (memb j indices)) (seq 0 n).

Definition nmask (mask : list bool) : list bool := map negb mask.   (* np.logical_not(mask) *)

Definition ntrue (mask : list bool) : nat := length (filter (fun b => b) mask).

(* number of set bits before position j *)
Definition rank (mask : list bool) (j : nat) : nat := ntrue (firstn j mask).

(* the dofs selected by I[~mask], i.e. the rows of R_elim, in increasing order *)
Definition elim_dofs (n : nat) (indices : list nat) : list nat :=
  compress (nmask (free_mask n indices)) (seq 0 n).

(* np.argsort(indices): insertion sort of (key, position) pairs, stable *)
Fixpoint ins (kp : nat * nat) (l : list (nat * nat)) : list (nat * nat) :=
  match l with
  | [] => [kp]
  | x :: l' => if fst kp <=? fst x then kp :: l else x :: ins kp l'
  end.

Definition sort_pairs (idx : list nat) : list (nat * nat) :=
  fold_right ins [] (combine idx (seq 0 (length idx))).

Definition argsort (idx : list nat) : list nat := map snd (sort_pairs idx).

Section Lin.
Variable R : Type.
Variable rO : R.
Variables radd rmul rsub : R -> R -> R.

(* I[mask].T.dot(v): v's entries placed at the set bits, zero elsewhere *)
Fixpoint expand (mask : list bool) (v : list R) : list R :=
  match mask with
  | [] => []
  | true :: mask' => hd rO v :: expand mask' (tl v)
  | false :: mask' => rO :: expand mask' v
  end.

Fixpoint dot (a b : list R) : R :=
  match a, b with
  | x :: a', y :: b' => radd (rmul x y) (dot a' b')
  | _, _ => rO
  end.

Definition matvec (A : list (list R)) (x : list R) : list R := map (fun row => dot row x) A.

Fixpoint vzip (f : R -> R -> R) (a b : list R) : list R :=
  match a, b with
  | x :: a', y :: b' => f x y :: vzip f a' b'
  | _, _ => []
  end.
Definition vadd := vzip radd.
Definition vsub := vzip rsub.

(* values[perm] *)
Definition take (perm : list nat) (v : list R) : list R := map (fun k => nth k v rO) perm.

(* np.isscalar(x): a scalar is broadcast (assemble.py:594-597) *)
Inductive sv := Scalar (x : R) | Arr (v : list R).
Definition bcast (n : nat) (s : sv) : list R :=
  match s with Scalar x => repeat x n | Arr v => v end.

Record rls := mk_rls {
  r_mask : list bool;      (* R_free = I[mask],  R_elim = I[~mask]       *)
  r_maskv : list bool;     (* R_free_v, R_elim_v                          *)
  r_values : list R;       (* self.values, aligned with the rows of R_elim *)
  r_A : list (list R);     (* self.A                                      *)
  r_b : list R             (* self.b                                      *)
}.

(* the methods (assemble.py:625-652) *)
Definition restrict (mask : list bool) (u : list R) : list R := compress mask u.
Definition restrict_rhs (maskv : list bool) (f : list R) : list R := compress maskv f.
Definition restrict_matrix (mask maskv : list bool) (B : list (list R)) : list (list R) :=
  compress maskv (map (compress mask) B).
Definition extend (mask : list bool) (u : list R) : list R := expand mask u.
Definition lift (mask : list bool) (values : list R) : list R := expand (nmask mask) values.  (* R_elim.T.dot(values) *)
Definition complete (mask : list bool) (values u : list R) : list R :=
  vadd (extend mask u) (lift mask values).

(* right-hand side of the restricted system (assemble.py:623) *)
Definition restricted_rhs (mask maskv : list bool) (A : list (list R)) (b values : list R) : list R :=
  restrict_rhs maskv (vsub b (matvec A (lift mask values))).

(* __init__ (assemble.py:592-623); ncols = A.shape[1]; [ordered] says how self.values is
   obtained from the caller's values *)
Definition rls_init_gen (ordered : list nat -> list R -> list R)
    (A : list (list R)) (ncols : nat) (b : sv) (indices : list nat) (values : sv)
    (elim_rows : option (list nat)) : rls :=
  let bv := bcast (length A) b in
  let vals := match values with
              | Scalar x => repeat x (length indices)
              | Arr v => ordered indices v
              end in
  let mask := free_mask ncols indices in
  let maskv := match elim_rows with
               | None => mask
               | Some er => free_mask (length A) er
               end in
  mk_rls mask maskv vals (restrict_matrix mask maskv A) (restricted_rhs mask maskv A bv vals).

(* repaired: values = np.asarray(values)[np.argsort(indices)] *)
Definition rls_init := rls_init_gen (fun indices v => take (argsort indices) v).
(* the line as it was before the repair: values kept in the caller's order *)
Definition rls_init_unsorted_bug := rls_init_gen (fun _ v => v).

Definition rls_complete (s : rls) (u : list R) : list R := complete (r_mask s) (r_values s) u.
Definition rls_restrict (s : rls) (x : list R) : list R := restrict (r_mask s) x.
Definition rls_extend (s : rls) (u : list R) : list R := extend (r_mask s) u.
Definition rls_restrict_rhs (s : rls) (f : list R) : list R := restrict_rhs (r_maskv s) f.
Definition rls_restrict_matrix (s : rls) (B : list (list R)) : list (list R) :=
  restrict_matrix (r_mask s) (r_maskv s) B.

End Lin.

Arguments Scalar {R} x.
Arguments Arr {R} v.

(* ------------------------------------------------------------------------- *)
(* boundary specifications (bspline.py:13-33)                                 *)
(* ------------------------------------------------------------------------- *)

Inductive bdname := BLeft | BRight | BBottom | BTop | BFront | BBack.
Inductive bdspec := BName (s : bdname) | BPair (ax side : Z).

Definition bdname_pair (s : bdname) (dim : nat) : Z * Z :=
  let d := Z.of_nat dim in
  match s with
  | BLeft => (d - 1, 0) | BRight => (d - 1, 1)
  | BBottom => (d - 2, 0) | BTop => (d - 2, 1)
  | BFront => (d - 3, 0) | BBack => (d - 3, 1)
  end%Z.

(* None = ValueError *)
Definition parse_bdspec (b : bdspec) (dim : nat) : option (nat * nat) :=
  let '(ax, side) := match b with BName s => bdname_pair s dim | BPair a s => (a, s) end in
  if ((side =? 0) || (side =? 1))%Z && (0 <=? ax)%Z && (ax <? Z.of_nat dim)%Z
  then Some (Z.to_nat ax, Z.to_nat side) else None.

(* ------------------------------------------------------------------------- *)
(* slices of a tensor-product index set (assemble.py:346-385)                  *)
(* ------------------------------------------------------------------------- *)

(* if idx < 0: idx += shape[ax] *)
Definition wrap (idx : Z) (n : nat) : Z := if (idx <? 0)%Z then (idx + Z.of_nat n)%Z else idx.

(* slice_indices(ax, idx, shape, ravel=True, flip); None = the call raises
   (IndexError for a bad axis, ValueError from ravel_multi_index for a bad index) *)
Definition slice_indices_z (ax : nat) (idx : Z) (shape : list nat) (flip : list bool) : option (list nat) :=
  let n := nth ax shape 0 in
  let i := wrap idx n in
  if (ax <? length shape) && (0 <=? i)%Z && (i <? Z.of_nat n)%Z
  then Some (slice_indices ax (Z.to_nat i) shape flip) else None.

(* multi-indices (ravel=False) *)
Definition slice_multi_z (ax : nat) (idx : Z) (shape : list nat) (flip : list bool) : option (list (list nat)) :=
  let n := nth ax shape 0 in
  let i := wrap idx n in
  if (ax <? length shape) && (0 <=? i)%Z && (i <? Z.of_nat n)%Z
  then Some (slice_multi ax (Z.to_nat i) shape flip) else None.

(* boundary_dofs(kvs, bdspec, ravel=True, flip) / boundary_cells: shape = numdofs resp. numspans per axis *)
Definition boundary_slice (shape : list nat) (b : bdspec) (flip : list bool) : option (list nat) :=
  match parse_bdspec b (length shape) with
  | Some (ax, side) => slice_indices_z ax (if Nat.eqb side 0 then 0 else -1)%Z shape flip
  | None => None
  end.

(* ------------------------------------------------------------------------- *)
(* combine_bcs (assemble.py:554-568), _drop_nans (387-393)                     *)
(* ------------------------------------------------------------------------- *)

(* position of the first occurrence of j in l (length l if absent) *)
Fixpoint first_pos (j : nat) (l : list nat) : nat :=
  match l with
  | [] => 0
  | x :: l' => if Nat.eqb j x then 0 else S (first_pos j l')
  end.

(* np.unique(indices): sorted, duplicate-free *)
Definition unique_sorted (l : list nat) : list nat :=
  filter (fun j => memb j l) (seq 0 (S (list_max l))).

Section Combine.
Variable X : Type.
Variable d : X.

(* uidx, lookup = np.unique(indices, return_index=True); return uidx, values[lookup] *)
Definition combine_flat (indices : list nat) (values : list X) : list nat * list X :=
  let u := unique_sorted indices in
  (u, map (fun j => nth (first_pos j indices) values d) u).

Definition combine_bcs (bcs : list (list nat * list X)) : list nat * list X :=
  combine_flat (concat (map fst bcs)) (concat (map snd bcs)).

(* values are option: None stands for nan *)
Fixpoint drop_nans (indices : list nat) (values : list (option X)) : list nat * list X :=
  match indices, values with
  | i :: indices', Some v :: values' =>
      let '(is, vs) := drop_nans indices' values' in (i :: is, v :: vs)
  | _ :: indices', None :: values' => drop_nans indices' values'
  | _, _ => ([], [])
  end.

End Combine.

Definition prod_list (l : list nat) : nat := fold_left Nat.mul l 1.

(* index part of compute_dirichlet_bc (assemble.py:446-460): ncomp = 0 for scalar data,
   k >= 1 for data with k components (blocked numbering: component j lives at idx + j*NN).
   The result goes through combine_bcs for vector data (sorted), not for scalar data. *)
Definition dirichlet_indices (shape : list nat) (b : bdspec) (ncomp : nat) : option (list nat) :=
  match boundary_slice shape b [] with
  | None => None
  | Some bd =>
      if Nat.eqb ncomp 0 then Some bd
      else let NN := prod_list shape in
           Some (unique_sorted (concat (map (fun j => map (fun i => i + j * NN) bd) (seq 0 ncomp))))
  end.

(* the ("all", g) shorthand of compute_dirichlet_bcs (assemble.py:482-486) *)
Definition all_faces (dim : nat) : list bdspec :=
  flat_map (fun ax => [BPair (Z.of_nat ax) 0; BPair (Z.of_nat ax) 1]) (seq 0 dim).

(* indices of compute_dirichlet_bcs (assemble.py:487-490) for a list of (face, number of
   components of the data) pairs: combine_bcs of the single conditions *)
Definition dirichlet_bcs_indices (shape : list nat) (conds : list (bdspec * nat)) : option (list nat) :=
  let parts := map (fun c => dirichlet_indices shape (fst c) (snd c)) conds in
  if forallb (fun o => match o with Some _ => true | None => false end) parts
  then Some (unique_sorted (concat (map (fun o => match o with Some l => l | None => [] end) parts)))
  else None.

(* Multipatch.compute_dirichlet_bcs (assemble.py:1396-1405): idx[bc[0]] *)
Definition renumber (p2g : list nat) (local : list nat) : list nat := map (fun i => nth i p2g 0) local.

(* index part of compute_initial_condition_01 (assemble.py:543-549) *)
Definition initial_indices (shape : list nat) (b : bdspec) : option (list nat) :=
  match parse_bdspec b (length shape) with
  | Some (ax, side) =>
      let first := (if Nat.eqb side 0 then 0 else -2)%Z in
      match slice_indices_z ax first shape [], slice_indices_z ax (first + 1) shape [] with
      | Some a, Some c => Some (a ++ c)
      | _, _ => None
      end
  | None => None
  end.

(* ------------------------------------------------------------------------- *)
(* boundary_dofs / boundary_cells / the 'all' shorthand, by name               *)
(* ------------------------------------------------------------------------- *)

(* boundary_dofs(kvs, bdspec, ravel=True, flip): shape = numdofs per axis (assemble.py:369-376) *)
Definition boundary_dofs (numdofs : list nat) (b : bdspec) (flip : list bool) : option (list nat) :=
  boundary_slice numdofs b flip.
(* boundary_cells(kvs, bdspec, ravel=True): shape = numspans per axis, no flip (assemble.py:378-385) *)
Definition boundary_cells (numspans : list nat) (b : bdspec) : option (list nat) :=
  boundary_slice numspans b [].
(* compute_dirichlet_bcs(kvs, geo, ('all', g)) (assemble.py:482-490): index part; nc = number of
   components of g (0 = scalar) *)
Definition dirichlet_bcs_all_indices (shape : list nat) (nc : nat) : option (list nat) :=
  dirichlet_bcs_indices shape (map (fun b => (b, nc)) (all_faces (length shape))).


(* ------------------------------------------------------------------------- *)
(* Multipatch.compute_dirichlet_bcs: the loop with its per-patch cache          *)
(* ------------------------------------------------------------------------- *)

(* Multipatch.compute_dirichlet_bcs (assemble.py:1396-1405), the loop made explicit.
   A condition is (patch, local indices, values) -- the result of compute_dirichlet_bc on that
   patch; p2g_of p is self.patch_to_global_idx(p); the dict p2g caches it per patch. *)
Section MPLoop.
Variable X : Type.
Variable d : X.
Variable p2g_of : nat -> list nat.

Definition mp_cond := (nat * list nat * list X)%type.

Fixpoint cache_get (cache : list (nat * list nat)) (p : nat) : option (list nat) :=
  match cache with
  | [] => None
  | (q, l) :: c => if Nat.eqb p q then Some l else cache_get c p
  end.

(* one iteration: (bcs, p2g) -> (bcs', p2g') *)
Definition mp_step (st : list (list nat * list X) * list (nat * list nat)) (c : mp_cond)
  : list (list nat * list X) * list (nat * list nat) :=
  let '(bcs, cache) := st in
  let '(p, loc, vals) := c in
  let cache' := match cache_get cache p with            (* if p not in p2g: p2g[p] = ... *)
                | Some _ => cache
                | None => (p, p2g_of p) :: cache
                end in
  let idx := match cache_get cache' p with Some l => l | None => [] end in   (* idx = p2g[p] *)
  (bcs ++ [(renumber idx loc, vals)], cache').                              (* idx[bc[0]], bc[1] *)

Definition mp_loop (conds : list mp_cond) : list (list nat * list X) :=
  fst (fold_left mp_step conds ([], [])).

Definition mp_compute_dirichlet_bcs (conds : list mp_cond) : list nat * list X :=
  combine_bcs X d (mp_loop conds).

End MPLoop.


(* The 2x2 collocation solve of compute_initial_condition_01 is modelled in Model_ic.v (it needs
   the B-spline kernels of lib/Bsp.v). *)
