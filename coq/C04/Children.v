(* C04 -- executable model of HMesh.function_children / function_parents / function_grandchildren /
   function_grandparents (pyiga/hierarchical.py :273-314) on the integer abstraction of a knot vector.

   The implementation reads the sparsity pattern of the prolongation matrix bspline.prolongation(kv, kv.refine())
   (a floating-point sparse solve, entries below 1e-15 pruned).  For the dyadic refinement (one new knot in the
   middle of every mesh span) that pattern is: coarse function j has the children
        phi(j) <= i <= phi(j+p+1) - (p+1),      phi(a) = a + (mesh index of knot a)
   where phi(a) is the position of the a-th coarse knot in the refined knot vector (one knot has been inserted
   in every span before it).  This reading of the pattern is tied exactly to the implementation on every run. *)
From Coq Require Import List Arith Bool.
From Verif.lib Require Import FinSet.
From Verif.C04 Require Import Model.
Import ListNotations.

(* position of the a-th knot of the axis in the knot vector of the refined axis *)
Definition phi (a : axis) (x : nat) : nat := x + nth x (k2m a) 0.

(* children of the 1-D function j: the half-open index range [lo, hi) on the refined axis *)
Definition children_1d (a : axis) (j : nat) : nat * nat :=
  (phi a j, phi a (j + ax_p a + 1) - ax_p a).

Definition is_child_1d (a : axis) (j i : nat) : bool :=
  (fst (children_1d a j) <=? i) && (i <? snd (children_1d a j)).

(* _function_parents_1d: the coarse functions that have the fine function i among their children *)
Definition parents_1d (a : axis) (i : nat) : list nat :=
  filter (fun j => is_child_1d a j i) (seq 0 (ax_numdofs a)).

Fixpoint lookup_children (axes : list axis) (f : mi) : list (nat * nat) :=
  match axes, f with
  | a :: axes', j :: f' => children_1d a j :: lookup_children axes' f'
  | _, _ => []
  end.

Fixpoint prod_lists (ls : list (list nat)) : list mi :=
  match ls with
  | [] => [[]]
  | l :: rest => flat_map (fun x => map (cons x) (prod_lists rest)) l
  end.

Fixpoint lookup_parents (axes : list axis) (f : mi) : list (list nat) :=
  match axes, f with
  | a :: axes', i :: f' => parents_1d a i :: lookup_parents axes' f'
  | _, _ => []
  end.

(* children of one function of the mesh m (on the refined mesh); parents of one function of the refined mesh *)
Definition children1 (m : tpmesh) (f : mi) : set := of_list (prod_ranges (lookup_children (tp_axes m) f)).
Definition parents1 (m : tpmesh) (f : mi) : set := of_list (prod_lists (lookup_parents (tp_axes m) f)).

(* function_children(lv, indices) :284-289 ; function_parents(lv, indices) :300-305 (parents live on lv-1) *)
Definition function_children (st : hspace) (lv : nat) (fs : list mi) : set :=
  fold_left (fun acc f => union acc (children1 (msh st lv) f)) fs [].
Definition function_parents (st : hspace) (lv : nat) (fs : list mi) : set :=
  fold_left (fun acc f => union acc (parents1 (msh st (lv - 1)) f)) fs [].

(* function_grandchildren(lv, indices, targetlv) :291-298: n = targetlv - lv >= 1 steps *)
Fixpoint function_grandchildren (st : hspace) (n lv : nat) (fs : list mi) : list mi :=
  match n with
  | 0 => fs
  | S n' => function_grandchildren st n' (S lv) (function_children st lv fs)
  end.

(* function_grandparents(lv, indices, targetlv) :307-314: n = lv - targetlv >= 1 steps *)
Fixpoint function_grandparents (st : hspace) (n lv : nat) (fs : list mi) : list mi :=
  match n with
  | 0 => fs
  | S n' => function_grandparents st n' (lv - 1) (function_parents st lv fs)
  end.
