"""Implementation driver for C16: builds pyiga's linear-operator building blocks from
integer-valued operands and applies them; results go back as exact integers.
Runs INSIDE the implementation interpreter (stdin JSON -> last stdout line JSON)."""
import json
import os
import sys

import numpy as np
import scipy.sparse
import scipy.sparse.linalg


def errclass(e):
    for c in (TypeError, ValueError, AssertionError, IndexError, KeyError, NotImplementedError, AttributeError):
        if isinstance(e, c):
            return c.__name__
    return 'Other:' + type(e).__name__


class PlainOp(scipy.sparse.linalg.LinearOperator):
    """An abstract operator (no array interface) acting like the given dense matrix."""
    def __init__(self, M):
        self.M = M
        super().__init__(dtype=M.dtype, shape=M.shape)

    def _matvec(self, x):
        return self.M.dot(x)

    def _matmat(self, x):
        return self.M.dot(x)

    def _transpose(self):
        return PlainOp(np.ascontiguousarray(self.M.T))

    def _adjoint(self):
        return PlainOp(np.ascontiguousarray(self.M.conj().T))


# Every array handed to the implementation is registered with a bitwise snapshot; no
# operation (construction or application) may alter its operands.
REG = []


def _bits(obj):
    if scipy.sparse.issparse(obj):
        return (obj.data.tobytes(), obj.indices.tobytes(), obj.indptr.tobytes(), obj.shape, str(obj.dtype))
    return (obj.tobytes(), obj.shape, str(obj.dtype))


def register(label, obj):
    REG.append((label, obj, _bits(obj)))
    return obj


def mutated():
    """labels of the registered operands whose bits differ from their snapshot"""
    return [label for (label, obj, snap) in REG if _bits(obj) != snap]


def mk(spec, label='op'):
    """operand from {'kind','r','c','data','dtype'}"""
    if spec is None:
        return None
    # entries are data/den with den a power of two: exactly representable in f8 and f4
    M = (np.array(spec['data'], dtype='f8') / spec.get('den', 1)).astype(spec.get('dtype', 'f8')).reshape(spec['r'], spec['c'])
    k = spec['kind']
    if k == 'dense':
        return register(label, M)
    if k == 'denseF':
        return register(label, np.asfortranarray(M))
    if k == 'denseT':       # an F-contiguous transposed view of a C-ordered array (M.T idiom)
        return register(label, np.array(M.T, order='C').T)
    if k == 'csr':
        return register(label, scipy.sparse.csr_matrix(M))
    if k == 'csc':
        return register(label, scipy.sparse.csc_matrix(M))
    if k == 'aslinop':
        return scipy.sparse.linalg.aslinearoperator(register(label, M))
    if k == 'linop':
        return PlainOp(register(label, M))
    raise ValueError(k)


def mkx(spec):
    X = np.array(spec['data'], dtype={'?': 'bool'}.get(spec.get('dtype', 'f8'), spec.get('dtype', 'f8'))).reshape(spec['shape'])
    if spec.get('order') == 'F':
        X = np.asfortranarray(X)
    return register('x', X)


def _out_arr(Y, outscale=1):
    Y = np.asarray(Y)
    dt = str(Y.dtype)
    # the operands were divided by powers of two; scaling back by outscale (a power of two, exact)
    # must give integers
    Y = Y.astype('f8') * outscale
    if not np.all(np.isfinite(Y)) or not np.all(Y == np.round(Y)):
        return {'status': 'NonIntegral', 'shape': list(Y.shape), 'repr': [float(v) for v in Y.ravel()[:50]]}
    return {'status': 'Ok', 'shape': [int(s) for s in Y.shape], 'data': [int(v) for v in Y.ravel()],
            'dtype': dt}


def variant(op, v):
    for ch in v:
        if ch == 'T':
            op = op.T
        elif ch == 'H':
            op = op.H
        elif ch != 'N':
            raise ValueError(v)
    return op


def apply(op, x, how):
    if how == 'matmul':
        return op @ x
    if how == 'mul':
        return op * x
    return op.dot(x)


def run_case(c, O, K, T, U, S):
    fam = c['fam']
    out_arr = lambda Y: _out_arr(Y, c.get('outscale', 1))
    if fam == 'tprod':
        return out_arr(T.apply_tprod(tuple(mk(o) for o in c['ops']), mkx(c['x'])))
    if fam == 'modek':
        return out_arr(T.modek_tprod(mk(c['B']), c['k'], mkx(c['x'])))
    if fam == 'kronop':
        op = variant(O.KroneckerOperator(*[mk(o) for o in c['ops']]), c['variant'])
        return out_arr(apply(op, mkx(c['x']), c.get('how')))
    if fam == 'applykron':
        return out_arr(K.apply_kronecker(tuple(mk(o) for o in c['ops']), mkx(c['x'])))
    if fam == 'block':
        grid = []
        for i, row in enumerate(c['grid']):
            grid.append([mk(o) if o is not None else O.NullOperator((c['heights'][i], c['widths'][j]))
                         for j, o in enumerate(row)])
        op = variant(O.BlockOperator(grid), c['variant'])
        return out_arr(apply(op, mkx(c['x']), c.get('how')))
    if fam == 'blockdiag':
        op = variant(O.BlockDiagonalOperator(*[mk(o) for o in c['ops']]), c['variant'])
        return out_arr(apply(op, mkx(c['x']), c.get('how')))
    if fam == 'diag':
        d = (np.array(c['d'], dtype='f8') / c.get('den', 1)).astype(c.get('dtype', 'f8'))
        if c.get('dshape'):
            d = d.reshape(c['dshape'])
        register('d', d)
        op = variant(O.DiagonalOperator(d), c['variant'])
        return out_arr(apply(op, mkx(c['x']), c.get('how')))
    if fam == 'identity':
        op = variant(O.IdentityOperator(c['n']), c['variant'])
        return out_arr(apply(op, mkx(c['x']), c.get('how')))
    if fam == 'null':
        op = variant(O.NullOperator((c['r'], c['c'])), c['variant'])
        return out_arr(apply(op, mkx(c['x']), c.get('how')))
    if fam == 'subspace':
        op = variant(O.SubspaceOperator([mk(p) for p in c['P']], [mk(b) for b in c['B']]), c['variant'])
        return out_arr(apply(op, mkx(c['x']), c.get('how')))
    if fam in ('rowslice', 'rowsubset'):
        a = c['A']
        A = scipy.sparse.csr_matrix((np.array(a['data'], dtype='f8') / a.get('den', 1), np.array(a['indices'], dtype=np.int32),
                                     np.array(a['indptr'], dtype=np.int32)), shape=(a['r'], a['c']))
        register('A', A)
        if fam == 'rowslice':
            op = U.CSRRowSlice(A, (c['r0'], c['r1']))
        else:
            op = U.CSRRowSubset(A, c['rows'] if c.get('rows_list') else np.array(c['rows'], dtype=int))
        x = mkx(c['x'])
        how = c.get('how')
        Y = op * x if how == 'mul' else op.dot(x)
        return out_arr(Y)
    # ---- solver factories: floating point, the harness checks residuals exactly.
    # 'mats' are the distinct matrix OBJECTS; the factories refer to them by index, so the same
    # array may be handed over several times.  Operands are checked bitwise after construction
    # and after every application ('mutated').
    if fam in ('solver', 'kronsolver', 'fastdiag'):
        mats = [mk(m, 'mat%d' % i) for i, m in enumerate(c['mats'])]
        x = mkx(c['x'])
        outs, mut = [], []

        def app(op, stage):
            Y = np.asarray(apply(op, x, c.get('how')))
            outs.append({'stage': stage, 'dtype': str(Y.dtype), 'shape': [int(s) for s in Y.shape], 'hex': [float(v).hex() for v in Y.ravel()],
                         'opshape': [int(s) for s in op.shape]})
            mut.extend('%s after %s' % (m, stage) for m in mutated())

        if fam == 'solver':
            ops = []
            for k, flags in enumerate(c['builds']):
                ops.append(O.make_solver(mats[c['B']], **flags))
                mut.extend('%s after construction %d' % (m, k) for m in mutated())
                if k == 0:
                    app(ops[0], 'solver 0 applied before the other constructions')
            for k, op in enumerate(ops):
                app(op, 'solver %d applied after all constructions' % k)
        else:
            if fam == 'kronsolver':
                op = O.make_kronecker_solver(*[mats[i] for i in c['idx']])
            else:
                op = S.fastdiag_solver([(mats[k], mats[m]) for (k, m) in c['KM']])
            mut.extend('%s after construction' % m for m in mutated())
            app(op, 'first application')
            app(op, 'second application')
        return {'status': 'Ok', 'outs': outs, 'mutated': sorted(set(mut))}
    raise ValueError('unknown family ' + fam)


def main():
    import pyiga
    assert os.path.realpath(pyiga.__file__).startswith(os.path.realpath(os.environ['VERIF_IMPL_DIR'])), pyiga.__file__
    from pyiga import operators as O, kronecker as K, tensor as T, utils as U, solvers as S
    import warnings
    warnings.simplefilter('ignore')
    payload = json.load(sys.stdin)
    out = []
    for c in payload['cases']:
        del REG[:]
        try:
            res = run_case(c, O, K, T, U, S)
            if 'mutated' not in res:
                res['mutated'] = mutated()
        except Exception as e:  # noqa
            res = {'status': errclass(e), 'msg': str(e)[:200]}
        out.append(res)
    print(json.dumps({'results': out}))


if __name__ == '__main__':
    main()
