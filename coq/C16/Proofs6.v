(* C16 -- lemmas, sixth part: fastdiag_solver's operator (solvers.py:39-42) is the explicit matrix
   kron(U) diag(dinv) kron(U)^T, for vectors and (N,m) arguments (no hypothesis on U, dinv);
   the identity placeholders (None) of apply_tprod act as identity matrices of the axis size. *)
From Coq Require Import List Arith Bool Lia Ring.
From Verif.C16 Require Import Model Model2 Model3 Proofs Proofs2.
Import ListNotations.

Section Proofs6.
Variable R : Type.
Variables (rO rI : R) (radd rmul rsub : R -> R -> R) (ropp : R -> R).
Variable Rth : ring_theory rO rI radd rmul rsub ropp eq.
Add Ring Rring6 : Rth.

Notation sumn := (Model.sumn R rO radd).
Local Notation kron_ent := (Proofs2.kron_ent R rI rmul).
Local Notation sumn_ext := (Proofs.sumn_ext R rO radd).
Local Notation sumn_delta := (Proofs.sumn_delta R rO rI radd rmul rsub ropp Rth).
Local Notation tprod_spec := (Proofs.tprod_spec R rO radd rmul).
Local Notation kron_operator_vec_l := (Proofs2.kron_operator_vec_l R rO rI radd rmul rsub ropp Rth).
Local Notation kron_operator_mat_l := (Proofs2.kron_operator_mat_l R rO rI radd rmul rsub ropp Rth).
Notation omats ops := (map (omat R) ops).
Notation orows ops := (map (fun o => mrows R (omat R o)) ops).
Notation ocols ops := (map (fun o => mcols R (omat R o)) ops).

Lemma omats_oT' : forall ops : list (operand R), omats (map (oT R) ops) = map (mT R) (omats ops).
Proof. intros. rewrite !map_map. reflexivity. Qed.
Lemma orows_oT' : forall ops : list (operand R), orows (map (oT R) ops) = ocols ops.
Proof. intros. rewrite map_map. reflexivity. Qed.
Lemma ocols_oT' : forall ops : list (operand R), ocols (map (oT R) ops) = orows ops.
Proof. intros. rewrite map_map. reflexivity. Qed.

Lemma fastdiag_apply_dense_l : forall (Us : list (operand R)) (dinv : nat -> R) (x : arr R),
  ocols Us = orows Us -> ashape R x = [prodl (orows Us)] ->
  forall i, (i < prodl (orows Us))%nat ->
  aat R (fastdiag_apply R rO radd rmul Us dinv x) [i] =
  sumn (prodl (orows Us)) (fun c => rmul (kron_ent (omats Us) i c)
     (rmul (dinv c) (sumn (prodl (orows Us)) (fun l => rmul (kron_ent (omats Us) l c) (aat R x [l]))))).
Proof.
  intros Us dinv x Hsq Hx i Hi. unfold fastdiag_apply.
  rewrite kron_operator_vec_l; [| simpl; rewrite Hsq; reflexivity | assumption].
  rewrite Hsq. apply sumn_ext. intros c Hc. f_equal. simpl. unfold diagonal_matvec. f_equal.
  rewrite kron_operator_vec_l by (rewrite ?ocols_oT', ?orows_oT', ?Hsq; assumption).
  rewrite ocols_oT', omats_oT'. apply sumn_ext. intros l _.
  rewrite (Proofs2.kron_ent_T R rI rmul). reflexivity.
Qed.

Lemma fastdiag_apply_mat_dense_l : forall (Us : list (operand R)) (dinv : nat -> R) (x : arr R) m,
  ocols Us = orows Us -> ashape R x = [prodl (orows Us); m] ->
  forall i k, (i < prodl (orows Us))%nat -> (k < m)%nat ->
  aat R (fastdiag_apply_mat R rO radd rmul Us dinv x) [i; k] =
  sumn (prodl (orows Us)) (fun c => rmul (kron_ent (omats Us) i c)
     (rmul (dinv c) (sumn (prodl (orows Us)) (fun l => rmul (kron_ent (omats Us) l c) (aat R x [l; k]))))).
Proof.
  intros Us dinv x m Hsq Hx i k Hi Hk. unfold fastdiag_apply_mat. rewrite Hx. simpl nth.
  rewrite (kron_operator_mat_l Us _ m); [| simpl; rewrite Hsq; reflexivity | assumption | assumption].
  rewrite Hsq. apply sumn_ext. intros c Hc. f_equal. simpl. f_equal.
  rewrite (kron_operator_mat_l _ x m) by (rewrite ?ocols_oT', ?orows_oT', ?Hsq; assumption).
  rewrite ocols_oT', omats_oT'. apply sumn_ext. intros l _.
  rewrite (Proofs2.kron_ent_T R rI rmul). reflexivity.
Qed.

(* ---------------- identity placeholders ---------------- *)
Notation fill_eye := (Model3.fill_eye R rO rI).
Notation conf := (Proofs.conf R).
Notation out_shape := (Proofs.out_shape R).
Notation inr := Proofs.inr.

Lemma conf_fill : forall ops sS, conf ops sS -> conf (fill_eye ops sS) sS.
Proof.
  induction ops; destruct sS; simpl; intros; try contradiction; auto.
  destruct H as [H1 H2]. split. destruct a; simpl; auto. apply IHops. assumption.
Qed.

Lemma out_shape_fill : forall ops sS, conf ops sS -> out_shape (fill_eye ops sS) sS = out_shape ops sS.
Proof.
  induction ops; destruct sS; simpl; intros; try contradiction; auto.
  destruct H as [H1 H2]. f_equal. destruct a; simpl; auto. apply IHops. assumption.
Qed.

Lemma tprod_spec_fill : forall ops sS X a t, conf ops sS -> inr a (out_shape ops sS) ->
  tprod_spec ops X (a ++ t) = tprod_spec (fill_eye ops sS) X (a ++ t).
Proof.
  induction ops; destruct sS; simpl; intros X b t Hc Hb; try contradiction; auto.
  destruct Hc as [H1 H2]. inversion Hb as [| a0 s0 b' l' Hlt Hrest]; subst. simpl.
  destruct a as [op|]; simpl.
  - apply sumn_ext. intros j _. f_equal. apply IHops; assumption.
  - rewrite (sumn_ext n _ (fun j => if Nat.eqb j a0 then
        tprod_spec (fill_eye ops sS) (fun r => X (j :: r)) (b' ++ t) else rO)).
    + rewrite sumn_delta by assumption. apply IHops; assumption.
    + intros j _. destruct (Nat.eqb j a0); ring.
Qed.

Lemma apply_tprod_placeholders_l : forall ops (X : arr R) sS sT,
  ashape R X = sS ++ sT -> conf ops sS ->
  forall a t, inr a (out_shape ops sS) -> inr t sT ->
  aat R (apply_tprod R rO radd rmul ops X) (a ++ t) =
  aat R (apply_tprod R rO radd rmul (fill_eye ops sS) X) (a ++ t).
Proof.
  intros ops X sS sT HX Hc a t Ha Ht.
  destruct (Proofs.apply_tprod_spec_l R rO radd rmul ops X sS sT HX Hc) as [_ H1].
  destruct (Proofs.apply_tprod_spec_l R rO radd rmul (fill_eye ops sS) X sS sT HX (conf_fill ops sS Hc)) as [_ H2].
  rewrite H1 by assumption. rewrite H2 by (rewrite ?out_shape_fill; assumption).
  apply tprod_spec_fill; assumption.
Qed.

End Proofs6.
