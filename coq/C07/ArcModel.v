(* C07 -- circular_arc_3pt as the model's NURBS function: the B-splines of the knot vector
   [0,0,0,1,1,1] (make_knots(2, 0, 1, 1)) are the Bernstein polynomials on [0,1], so the Bezier-segment
   identity of Algebra.v holds for the values the evaluation routes of Model.v compute. *)
From Coq Require Import QArith Qcanon ZArith List Arith Bool Lia Lqa Field.
From Verif.lib Require Import Bsp.
From Verif.C02 Require Import Proofs Proofs_ref.
From Verif.C07 Require Import Model Proofs Discharge Algebra.
Import ListNotations.
Open Scope Qc_scope.

Definition bez_kv : KV := ([0; 0; 0; 1; 1; 1], 2%nat).

Lemma in_span_empty : forall kv i u, kn kv i = kn kv (S i) -> in_span kv i u = false.
Proof.
  intros kv i u E. unfold in_span. rewrite <- E.
  assert (A : qleb (kn kv i) u && qltb u (kn kv i) = false).
  { destruct (qleb (kn kv i) u) eqn:L; [|reflexivity]. apply qleb_iff in L. simpl.
    apply qltb_false_iff. exact L. }
  assert (B : qltb (kn kv i) (kn kv i) = false) by (apply qltb_false_iff; apply Qcle_refl).
  rewrite A, B. rewrite andb_false_r. reflexivity.
Qed.

Lemma bez_N0 : forall t, 0 <= t -> t <= 1 ->
  Nref (fst bez_kv) 0 0 t = 0 /\ Nref (fst bez_kv) 0 1 t = 0 /\ Nref (fst bez_kv) 0 2 t = 1
  /\ Nref (fst bez_kv) 0 3 t = 0 /\ Nref (fst bez_kv) 0 4 t = 0.
Proof.
  intros t H0 H1. cbn [Nref bez_kv fst].
  rewrite (in_span_empty _ 0), (in_span_empty _ 1), (in_span_empty _ 3), (in_span_empty _ 4) by reflexivity.
  repeat split; try reflexivity.
  rewrite in_span_intro; [reflexivity|]. unfold lastk. cbn [kn nth length Nat.sub].
  destruct (Qc_eq_dec t 1) as [->|Hne].
  - right. repeat split; try reflexivity; try (qc2q; lra).
  - left. split; [exact H0|]. qc2q. lra.
Qed.

(* the quadratic B-splines of the Bezier knot vector are the Bernstein polynomials *)
Lemma bez_N2 : forall t, 0 <= t -> t <= 1 ->
  Nref (fst bez_kv) 2 0 t = (1 - t) * (1 - t) /\ Nref (fst bez_kv) 2 1 t = (1 + 1) * t * (1 - t)
  /\ Nref (fst bez_kv) 2 2 t = t * t.
Proof.
  intros t H0 H1. destruct (bez_N0 t H0 H1) as [E0 [E1 [E2 [E3 E4]]]].
  rewrite !Nref_S. cbn [Nat.add].
  change (Nref [0; 0; 0; 1; 1; 1]) with (Nref (fst bez_kv)).
  rewrite E0, E1, E2, E3. cbn [bez_kv fst kn nth].
  replace (0 - 0) with 0 by ring. replace (1 - 1) with 0 by ring. rewrite !Qcdiv_0_r.
  repeat split; field; qc2q; lra.
Qed.

(* circular_arc_3pt(alpha, r) (geometry.py:630-642) with (c, s) = (cos, sin)(alpha/2): rows (x, y, w) *)
Definition arc3_fn (c s r : Qc) : bsp :=
  mk_bsp [bez_kv]
         (arr [3]%nat 3 [r * 1; r * 0; 1;   r * c; r * s; c;   r * (c * c - s * s); r * ((1 + 1) * s * c); 1]) 3.

Lemma bez_in_dom : forall t, 0 <= t -> t <= 1 -> in_dom bez_kv t.
Proof.
  intros t H0 H1. split; [apply open_kv_ok_l; vm_compute; reflexivity|]. split; [exact H0|exact H1].
Qed.

Lemma arc3_values : forall c s r t k, 0 <= t -> t <= 1 -> (k < 3)%nat ->
  g_val (arc3_fn c s r) [t] k
  = (1 - t) * (1 - t) * co (arc3_fn c s r) [0%nat] k + (1 + 1) * t * (1 - t) * co (arc3_fn c s r) [1%nat] k
    + t * t * co (arc3_fn c s r) [2%nat] k.
Proof.
  intros c s r t k H0 H1 Hk.
  rewrite value_is_reference_l by (constructor; [apply bez_in_dom; assumption|constructor]).
  destruct (bez_N2 t H0 H1) as [E0 [E1 E2]].
  unfold ref_rows, sdim, zerov, kv_n, numdofs.
  cbn [arc3_fn kvs length repeat zip3 map bez_kv fst snd seq Nat.sub tp_eval rdot dNref].
  change (Nref [0; 0; 0; 1; 1; 1]) with (Nref (fst bez_kv)). rewrite E0, E1, E2.
  cbn [co arc3_fn]. ring.
Qed.

(* every point the model's routes compute for the 3-point arc lies on the circle of radius r:
   numerator (X, Y) and weight W satisfy X^2 + Y^2 = (r W)^2, hence (X/W)^2 + (Y/W)^2 = r^2 *)
Lemma arc3_model_on_circle_l : forall c s r t, c * c + s * s = 1 -> 0 <= t -> t <= 1 ->
  let X := g_val (arc3_fn c s r) [t] 0 in let Y := g_val (arc3_fn c s r) [t] 1 in
  let W := g_val (arc3_fn c s r) [t] 2 in
  X * X + Y * Y = (r * W) * (r * W)
  /\ (W <> 0 -> n_val (arc3_fn c s r) [t] 0 * n_val (arc3_fn c s r) [t] 0
               + n_val (arc3_fn c s r) [t] 1 * n_val (arc3_fn c s r) [t] 1 = r * r).
Proof.
  intros c s r t H H0 H1. cbv zeta.
  assert (E : g_val (arc3_fn c s r) [t] 0 * g_val (arc3_fn c s r) [t] 0
              + g_val (arc3_fn c s r) [t] 1 * g_val (arc3_fn c s r) [t] 1
              = (r * g_val (arc3_fn c s r) [t] 2) * (r * g_val (arc3_fn c s r) [t] 2)).
  { rewrite !arc3_values by (assumption || lia).
    pose proof (arc3_norm Qc 0 1 Qcplus Qcmult Qcminus Qcopp Qcdiv Qcinv Qcft c s r t H) as A.
    unfold seg_x, seg_y, seg_w, B0, B1, B2, two in A.
    cbv [co arc3_fn arr ravel app nth Nat.mul Nat.add].
    etransitivity; [|etransitivity; [exact A|]]; ring. }
  split; [exact E|]. intros HW. unfold n_val, wcomp. cbn [nc arc3_fn Nat.sub].
  set (X := g_val (arc3_fn c s r) [t] 0) in *. set (Y := g_val (arc3_fn c s r) [t] 1) in *.
  set (W := g_val (arc3_fn c s r) [t] 2) in *.
  transitivity ((X * X + Y * Y) / (W * W)); [field; exact HW|]. rewrite E. field. exact HW.
Qed.

(* ---- circular_arc_5pt (semicircle): two Bezier segments on the knot vector [0,0,0,1/2,1/2,1,1,1] ---- *)

Definition hf : Qc := Q2Qc (1 # 2).
Definition arc5_kv : KV := ([0; 0; 0; hf; hf; 1; 1; 1], 2%nat).

Lemma in_span_false : forall kv i u,
  (u < kn kv i \/ (kn kv (S i) <= u /\ kn kv (S i) <> lastk kv)) -> in_span kv i u = false.
Proof.
  intros kv i u H. unfold in_span. fold (lastk kv). destruct H as [H|[H Hne]].
  - assert (A : qleb (kn kv i) u = false) by (apply qleb_false_iff; exact H). rewrite A. cbn [andb orb].
    destruct (qeqb u (lastk kv)) eqn:E1; [|reflexivity]. cbn [andb].
    destruct (qltb (kn kv i) (kn kv (S i))) eqn:E2; [|reflexivity]. cbn [andb].
    destruct (qeqb (kn kv (S i)) (lastk kv)) eqn:E3; [|reflexivity].
    apply qeqb_iff in E1. apply qeqb_iff in E3. apply qltb_iff in E2. exfalso.
    rewrite E3, <- E1 in E2. qc2q. lra.
  - assert (A : qltb u (kn kv (S i)) = false) by (apply qltb_false_iff; exact H). rewrite A, andb_false_r. cbn [orb].
    assert (B : qeqb (kn kv (S i)) (lastk kv) = false).
    { destruct (qeqb (kn kv (S i)) (lastk kv)) eqn:E; [|reflexivity]. apply qeqb_iff in E. contradiction. }
    rewrite B, andb_false_r. reflexivity.
Qed.

Lemma hf_facts : 0 < hf /\ hf < 1 /\ hf + hf = 1.
Proof. repeat split; unfold hf; qc2q; try lra. Qed.

Lemma arc5_N0 : forall t, 0 <= t -> t <= 1 ->
  let k := fst arc5_kv in
  Nref k 0 0 t = 0 /\ Nref k 0 1 t = 0 /\ Nref k 0 3 t = 0 /\ Nref k 0 5 t = 0 /\ Nref k 0 6 t = 0
  /\ ((t < hf -> Nref k 0 2 t = 1 /\ Nref k 0 4 t = 0) /\ (hf <= t -> Nref k 0 2 t = 0 /\ Nref k 0 4 t = 1)).
Proof.
  intros t H0 H1. destruct hf_facts as [Ha [Hb _]]. cbn [Nref arc5_kv fst].
  rewrite (in_span_empty _ 0), (in_span_empty _ 1), (in_span_empty _ 3), (in_span_empty _ 5), (in_span_empty _ 6) by reflexivity.
  repeat split; try reflexivity.
  - rewrite in_span_intro; [reflexivity|]. left. cbn [kn nth]. split; assumption.
  - rewrite in_span_false; [reflexivity|]. left. cbn [kn nth]. assumption.
  - rewrite in_span_false; [reflexivity|]. right. unfold lastk. cbn [kn nth length Nat.sub].
    split; [assumption|]. intro E. rewrite E in Hb. qc2q. lra.
  - rewrite in_span_intro; [reflexivity|]. unfold lastk. cbn [kn nth length Nat.sub].
    destruct (Qc_eq_dec t 1) as [->|Hne].
    + right. repeat split; try reflexivity; try exact Hb.
    + left. split; [assumption|]. qc2q. lra.
Qed.

(* on [0, 1/2) the first three functions are the Bernstein polynomials in u = 2t, on [1/2, 1] the last three
   in u = 2t - 1; the others vanish *)
Lemma arc5_N2 : forall t, 0 <= t -> t <= 1 ->
  let k := fst arc5_kv in let two := 1 + 1 in
  (t < hf -> let u := two * t in
     Nref k 2 0 t = (1 - u) * (1 - u) /\ Nref k 2 1 t = two * u * (1 - u) /\ Nref k 2 2 t = u * u
     /\ Nref k 2 3 t = 0 /\ Nref k 2 4 t = 0)
  /\ (hf <= t -> let u := two * t - 1 in
     Nref k 2 0 t = 0 /\ Nref k 2 1 t = 0 /\ Nref k 2 2 t = (1 - u) * (1 - u)
     /\ Nref k 2 3 t = two * u * (1 - u) /\ Nref k 2 4 t = u * u).
Proof.
  intros t H0 H1. cbv zeta. destruct hf_facts as [Ha [Hb Hc]].
  destruct (arc5_N0 t H0 H1) as [E0 [E1 [E3 [E5 [E6 [EL ER]]]]]]. cbv zeta in *.
  assert (Hh : hf = 1 / (1 + 1)) by (unfold hf; apply Qc_is_canon; reflexivity).
  split; intros Ht; [destruct (EL Ht) as [E2 E4]|destruct (ER Ht) as [E2 E4]];
    rewrite !Nref_S; cbn [Nat.add]; change (Nref [0; 0; 0; hf; hf; 1; 1; 1]) with (Nref (fst arc5_kv));
    rewrite E0, E1, E2, E3, E4, E5, E6; cbn [arc5_kv fst kn nth];
    replace (0 - 0) with 0 by ring; replace (hf - hf) with 0 by ring; replace (1 - 1) with 0 by ring;
    rewrite !Qcdiv_0_r; rewrite Hh; repeat split; field; repeat split; intro E; discriminate E.
Qed.

(* circular_arc_5pt(alpha, r) (geometry.py:644-650) with (c, s) = (cos, sin)(alpha/4): control directions
   d_k at the angles k alpha/4 by the addition formulas, weights (1, c, 1, c, 1), rows (x, y, w) *)
Definition arc5_fn (c s r : Qc) : bsp :=
  let C2 := c * c - s * s in let S2 := (1 + 1) * s * c in
  mk_bsp [arc5_kv]
         (arr [5]%nat 3 [r * 1; r * 0; 1;
                         r * c; r * s; c;
                         r * C2; r * S2; 1;
                         r * (C2 * c - S2 * s); r * (S2 * c + C2 * s); c;
                         r * (C2 * (c * c - s * s) - S2 * ((1 + 1) * s * c)); r * (S2 * (c * c - s * s) + C2 * ((1 + 1) * s * c)); 1]) 3.

Lemma arc5_in_dom : forall t, 0 <= t -> t <= 1 -> in_dom arc5_kv t.
Proof.
  intros t H0 H1. split; [apply open_kv_ok_l; vm_compute; reflexivity|]. split; [exact H0|exact H1].
Qed.

Lemma arc5_values : forall c s r t k, 0 <= t -> t <= 1 ->
  g_val (arc5_fn c s r) [t] k
  = Nref (fst arc5_kv) 2 0 t * co (arc5_fn c s r) [0%nat] k + Nref (fst arc5_kv) 2 1 t * co (arc5_fn c s r) [1%nat] k
    + Nref (fst arc5_kv) 2 2 t * co (arc5_fn c s r) [2%nat] k + Nref (fst arc5_kv) 2 3 t * co (arc5_fn c s r) [3%nat] k
    + Nref (fst arc5_kv) 2 4 t * co (arc5_fn c s r) [4%nat] k.
Proof.
  intros c s r t k H0 H1.
  rewrite value_is_reference_l by (constructor; [apply arc5_in_dom; assumption|constructor]).
  unfold ref_rows, sdim, zerov, kv_n, numdofs.
  cbn [arc5_fn kvs length repeat zip3 map arc5_kv fst snd seq Nat.sub tp_eval rdot dNref].
  cbn [co]. ring.
Qed.

Lemma arc5_model_on_circle_l : forall c s r t, c * c + s * s = 1 -> 0 <= t -> t <= 1 ->
  let X := g_val (arc5_fn c s r) [t] 0 in let Y := g_val (arc5_fn c s r) [t] 1 in
  let W := g_val (arc5_fn c s r) [t] 2 in
  X * X + Y * Y = (r * W) * (r * W).
Proof.
  intros c s r t H H0 H1. cbv zeta. rewrite !arc5_values by assumption.
  destruct (arc5_N2 t H0 H1) as [EL ER]. cbv zeta in EL, ER.
  destruct (Qclt_le_dec t hf) as [Ht|Ht].
  - destruct (EL Ht) as [E0 [E1 [E2 [E3 E4]]]]. rewrite E0, E1, E2, E3, E4.
    pose proof (arc3_norm Qc 0 1 Qcplus Qcmult Qcminus Qcopp Qcdiv Qcinv Qcft c s r ((1 + 1) * t) H) as A.
    unfold seg_x, seg_y, seg_w, B0, B1, B2, two in A.
    cbv [co arc5_fn arr ravel app nth Nat.mul Nat.add].
    etransitivity; [|etransitivity; [exact A|]]; ring.
  - destruct (ER Ht) as [E0 [E1 [E2 [E3 E4]]]]. rewrite E0, E1, E2, E3, E4.
    assert (U : (c * c - s * s) * (c * c - s * s) + (1 + 1) * s * c * ((1 + 1) * s * c) = 1).
    { transitivity ((c * c + s * s) * (c * c + s * s)); [ring|]. rewrite H. ring. }
    pose proof (segment_norm Qc 0 1 Qcplus Qcmult Qcminus Qcopp Qcdiv Qcinv Qcft
                  (c * c - s * s) ((1 + 1) * s * c) c s r ((1 + 1) * t - 1) U H) as A.
    unfold seg_x, seg_y, seg_w, B0, B1, B2, two in A.
    cbv [co arc5_fn arr ravel app nth Nat.mul Nat.add].
    etransitivity; [|etransitivity; [exact A|]]; ring.
Qed.

(* the arc starts at (r, 0) with weight 1 and ends at r (cos alpha, sin alpha) = r d_4 with weight 1 *)
Lemma arc5_model_endpoints_l : forall c s r,
  g_val (arc5_fn c s r) [0] 0 = r /\ g_val (arc5_fn c s r) [0] 1 = 0 /\ g_val (arc5_fn c s r) [0] 2 = 1
  /\ g_val (arc5_fn c s r) [1] 0 = co (arc5_fn c s r) [4%nat] 0
  /\ g_val (arc5_fn c s r) [1] 1 = co (arc5_fn c s r) [4%nat] 1 /\ g_val (arc5_fn c s r) [1] 2 = 1.
Proof.
  intros c s r. destruct hf_facts as [Ha [Hb Hc]].
  assert (Z0 : (0:Qc) <= 0) by apply Qcle_refl. assert (Z1 : (0:Qc) <= 1) by (qc2q; lra).
  assert (O1 : (1:Qc) <= 1) by apply Qcle_refl.
  destruct (arc5_N2 0 Z0 Z1) as [EL _]. destruct (EL Ha) as [E0 [E1 [E2 [E3 E4]]]].
  destruct (arc5_N2 1 Z1 O1) as [_ ER]. destruct (ER (Qclt_le_weak _ _ Hb)) as [F0 [F1 [F2 [F3 F4]]]].
  rewrite !arc5_values by assumption. rewrite E0, E1, E2, E3, E4, F0, F1, F2, F3, F4.
  cbv [co arc5_fn arr ravel app nth Nat.mul Nat.add]. repeat split; ring.
Qed.

(* ---- circular_arc_7pt (circle): three Bezier segments on [0,0,0,1/3,1/3,2/3,2/3,1,1,1] ------------- *)

Definition t1 : Qc := Q2Qc (1 # 3).
Definition t2 : Qc := Q2Qc (2 # 3).
Definition arc7_kv : KV := ([0; 0; 0; t1; t1; t2; t2; 1; 1; 1], 2%nat).

Lemma t_facts : 0 < t1 /\ t1 < t2 /\ t2 < 1.
Proof. repeat split; unfold t1, t2; qc2q; lra. Qed.

Lemma arc7_N0 : forall t, 0 <= t -> t <= 1 ->
  let k := fst arc7_kv in
  Nref k 0 0 t = 0 /\ Nref k 0 1 t = 0 /\ Nref k 0 3 t = 0 /\ Nref k 0 5 t = 0 /\ Nref k 0 7 t = 0 /\ Nref k 0 8 t = 0
  /\ (t < t1 -> Nref k 0 2 t = 1 /\ Nref k 0 4 t = 0 /\ Nref k 0 6 t = 0)
  /\ (t1 <= t -> t < t2 -> Nref k 0 2 t = 0 /\ Nref k 0 4 t = 1 /\ Nref k 0 6 t = 0)
  /\ (t2 <= t -> Nref k 0 2 t = 0 /\ Nref k 0 4 t = 0 /\ Nref k 0 6 t = 1).
Proof.
  intros t H0 H1. destruct t_facts as [Ha [Hb Hc]]. cbn [Nref arc7_kv fst].
  rewrite (in_span_empty _ 0), (in_span_empty _ 1), (in_span_empty _ 3), (in_span_empty _ 5),
          (in_span_empty _ 7), (in_span_empty _ 8) by reflexivity.
  assert (N1 : t1 <> lastk [0; 0; 0; t1; t1; t2; t2; 1; 1; 1]).
  { unfold lastk. cbn [kn nth length Nat.sub]. intro E. rewrite E in Hb. qc2q. lra. }
  assert (N2 : t2 <> lastk [0; 0; 0; t1; t1; t2; t2; 1; 1; 1]).
  { unfold lastk. cbn [kn nth length Nat.sub]. intro E. rewrite E in Hc. qc2q. lra. }
  repeat split; try reflexivity.
  - rewrite in_span_intro; [reflexivity|]. left. cbn [kn nth]. split; assumption.
  - rewrite in_span_false; [reflexivity|]. left. cbn [kn nth]. assumption.
  - rewrite in_span_false; [reflexivity|]. left. cbn [kn nth]. qc2q. lra.
  - rewrite in_span_false; [reflexivity|]. right. cbn [kn nth]. split; assumption.
  - rewrite in_span_intro; [reflexivity|]. left. cbn [kn nth]. split; assumption.
  - rewrite in_span_false; [reflexivity|]. left. cbn [kn nth]. assumption.
  - rewrite in_span_false; [reflexivity|]. right. cbn [kn nth]. split; [qc2q; lra|assumption].
  - rewrite in_span_false; [reflexivity|]. right. cbn [kn nth]. split; assumption.
  - rewrite in_span_intro; [reflexivity|]. unfold lastk. cbn [kn nth length Nat.sub].
    destruct (Qc_eq_dec t 1) as [->|Hne].
    + right. repeat split; try reflexivity; try exact Hc.
    + left. split; [assumption|]. qc2q. lra.
Qed.

Lemma arc7_N2 : forall t, 0 <= t -> t <= 1 ->
  let k := fst arc7_kv in let two := 1 + 1 in let three := 1 + 1 + 1 in
  (t < t1 -> let u := three * t in
     Nref k 2 0 t = (1 - u) * (1 - u) /\ Nref k 2 1 t = two * u * (1 - u) /\ Nref k 2 2 t = u * u
     /\ Nref k 2 3 t = 0 /\ Nref k 2 4 t = 0 /\ Nref k 2 5 t = 0 /\ Nref k 2 6 t = 0)
  /\ (t1 <= t -> t < t2 -> let u := three * t - 1 in
     Nref k 2 0 t = 0 /\ Nref k 2 1 t = 0 /\ Nref k 2 2 t = (1 - u) * (1 - u)
     /\ Nref k 2 3 t = two * u * (1 - u) /\ Nref k 2 4 t = u * u /\ Nref k 2 5 t = 0 /\ Nref k 2 6 t = 0)
  /\ (t2 <= t -> let u := three * t - (1 + 1) in
     Nref k 2 0 t = 0 /\ Nref k 2 1 t = 0 /\ Nref k 2 2 t = 0 /\ Nref k 2 3 t = 0
     /\ Nref k 2 4 t = (1 - u) * (1 - u) /\ Nref k 2 5 t = two * u * (1 - u) /\ Nref k 2 6 t = u * u).
Proof.
  intros t H0 H1. cbv zeta.
  destruct (arc7_N0 t H0 H1) as [E0 [E1 [E3 [E5 [E7 [E8 [EA [EB EC]]]]]]]]. cbv zeta in *.
  assert (Ht1 : t1 = 1 / (1 + 1 + 1)) by (unfold t1; apply Qc_is_canon; reflexivity).
  assert (Ht2 : t2 = (1 + 1) / (1 + 1 + 1)) by (unfold t2; apply Qc_is_canon; reflexivity).
  split; [|split]; intros; [destruct (EA H) as [E2 [E4 E6]]|destruct (EB H H2) as [E2 [E4 E6]]|destruct (EC H) as [E2 [E4 E6]]];
    rewrite !Nref_S; cbn [Nat.add]; change (Nref [0; 0; 0; t1; t1; t2; t2; 1; 1; 1]) with (Nref (fst arc7_kv));
    rewrite E0, E1, E2, E3, E4, E5, E6, E7, E8; cbn [arc7_kv fst kn nth];
    replace (0 - 0) with 0 by ring; replace (t1 - t1) with 0 by ring; replace (t2 - t2) with 0 by ring;
    replace (1 - 1) with 0 by ring;
    rewrite !Qcdiv_0_r; rewrite Ht1, Ht2; repeat split; field; repeat split; intro E; discriminate E.
Qed.

(* circular_arc_7pt(alpha, r) / circle(r) (geometry.py:652-666) with (c, s) = (cos, sin)(alpha/6):
   d_0 = (1, 0), d_{k+1} = d_k turned by alpha/6; rows r d_k with weights (1, c, 1, c, 1, c, 1) *)
Definition turn (c s : Qc) (d : Qc * Qc) : Qc * Qc := (fst d * c - snd d * s, snd d * c + fst d * s).
Definition arc7_fn (c s r : Qc) : bsp :=
  let d0 := (1, 0) in let d1 := turn c s d0 in let d2 := turn c s d1 in let d3 := turn c s d2 in
  let d4 := turn c s d3 in let d5 := turn c s d4 in let d6 := turn c s d5 in
  mk_bsp [arc7_kv]
         (arr [7]%nat 3 [r * fst d0; r * snd d0; 1;  r * fst d1; r * snd d1; c;  r * fst d2; r * snd d2; 1;
                         r * fst d3; r * snd d3; c;  r * fst d4; r * snd d4; 1;  r * fst d5; r * snd d5; c;
                         r * fst d6; r * snd d6; 1]) 3.

Lemma arc7_in_dom : forall t, 0 <= t -> t <= 1 -> in_dom arc7_kv t.
Proof.
  intros t H0 H1. split; [apply open_kv_ok_l; vm_compute; reflexivity|]. split; [exact H0|exact H1].
Qed.

Lemma arc7_values : forall c s r t k, 0 <= t -> t <= 1 ->
  g_val (arc7_fn c s r) [t] k
  = Nref (fst arc7_kv) 2 0 t * co (arc7_fn c s r) [0%nat] k + Nref (fst arc7_kv) 2 1 t * co (arc7_fn c s r) [1%nat] k
    + Nref (fst arc7_kv) 2 2 t * co (arc7_fn c s r) [2%nat] k + Nref (fst arc7_kv) 2 3 t * co (arc7_fn c s r) [3%nat] k
    + Nref (fst arc7_kv) 2 4 t * co (arc7_fn c s r) [4%nat] k + Nref (fst arc7_kv) 2 5 t * co (arc7_fn c s r) [5%nat] k
    + Nref (fst arc7_kv) 2 6 t * co (arc7_fn c s r) [6%nat] k.
Proof.
  intros c s r t k H0 H1.
  rewrite value_is_reference_l by (constructor; [apply arc7_in_dom; assumption|constructor]).
  unfold ref_rows, sdim, zerov, kv_n, numdofs.
  cbn [arc7_fn kvs length repeat zip3 map arc7_kv fst snd seq Nat.sub tp_eval rdot dNref].
  cbn [co]. ring.
Qed.

Lemma turn_unit : forall c s d, c * c + s * s = 1 -> fst d * fst d + snd d * snd d = 1 ->
  fst (turn c s d) * fst (turn c s d) + snd (turn c s d) * snd (turn c s d) = 1.
Proof.
  intros c s [x y] H Hd. cbn [turn fst snd] in *.
  transitivity ((c * c + s * s) * (x * x + y * y)); [ring|]. rewrite H, Hd. ring.
Qed.

Lemma arc7_model_on_circle_l : forall c s r t, c * c + s * s = 1 -> 0 <= t -> t <= 1 ->
  let X := g_val (arc7_fn c s r) [t] 0 in let Y := g_val (arc7_fn c s r) [t] 1 in
  let W := g_val (arc7_fn c s r) [t] 2 in
  X * X + Y * Y = (r * W) * (r * W).
Proof.
  intros c s r t H H0 H1. cbv zeta. rewrite !arc7_values by assumption.
  destruct (arc7_N2 t H0 H1) as [EA [EB EC]]. cbv zeta in EA, EB, EC.
  set (d2 := turn c s (turn c s (1, 0))). set (d4 := turn c s (turn c s d2)).
  assert (U0 : fst (1, 0) * fst (1, 0) + snd (1, 0) * snd (1, 0) = (1:Qc)) by (cbn [fst snd]; ring).
  assert (U2 : fst d2 * fst d2 + snd d2 * snd d2 = 1) by (unfold d2; repeat apply turn_unit; assumption).
  assert (U4 : fst d4 * fst d4 + snd d4 * snd d4 = 1) by (unfold d4; repeat apply turn_unit; assumption).
  destruct (Qclt_le_dec t t1) as [Ht|Ht]; [|destruct (Qclt_le_dec t t2) as [Ht'|Ht']].
  - destruct (EA Ht) as [E0 [E1 [E2 [E3 [E4 [E5 E6]]]]]]. rewrite E0, E1, E2, E3, E4, E5, E6.
    pose proof (segment_norm Qc 0 1 Qcplus Qcmult Qcminus Qcopp Qcdiv Qcinv Qcft 1 0 c s r ((1 + 1 + 1) * t) U0 H) as A.
    unfold seg_x, seg_y, seg_w, B0, B1, B2, two in A.
    cbv [co arc7_fn arr ravel app nth Nat.mul Nat.add turn fst snd].
    etransitivity; [|etransitivity; [exact A|]]; ring.
  - destruct (EB Ht Ht') as [E0 [E1 [E2 [E3 [E4 [E5 E6]]]]]]. rewrite E0, E1, E2, E3, E4, E5, E6.
    pose proof (segment_norm Qc 0 1 Qcplus Qcmult Qcminus Qcopp Qcdiv Qcinv Qcft (fst d2) (snd d2) c s r
                  ((1 + 1 + 1) * t - 1) U2 H) as A.
    unfold seg_x, seg_y, seg_w, B0, B1, B2, two in A. unfold d2 in A.
    cbv [co arc7_fn arr ravel app nth Nat.mul Nat.add turn fst snd]. cbv [turn fst snd] in A.
    etransitivity; [|etransitivity; [exact A|]]; ring.
  - destruct (EC Ht') as [E0 [E1 [E2 [E3 [E4 [E5 E6]]]]]]. rewrite E0, E1, E2, E3, E4, E5, E6.
    pose proof (segment_norm Qc 0 1 Qcplus Qcmult Qcminus Qcopp Qcdiv Qcinv Qcft (fst d4) (snd d4) c s r
                  ((1 + 1 + 1) * t - (1 + 1)) U4 H) as A.
    unfold seg_x, seg_y, seg_w, B0, B1, B2, two in A. unfold d4, d2 in A.
    cbv [co arc7_fn arr ravel app nth Nat.mul Nat.add turn fst snd]. cbv [turn fst snd] in A.
    etransitivity; [|etransitivity; [exact A|]]; ring.
Qed.
