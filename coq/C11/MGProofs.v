(* C11 -- the exact discrete solution is a fixed point of the local multigrid cycle. *)
From Coq Require Import QArith Qcanon List Arith Bool ZArith Lia.
From Verif.C11 Require Import Spec Algebra Model Proofs.
Import ListNotations.
Open Scope Qc_scope.

Lemma vget_repeat0 : forall k i, vget (repeat 0 k) i = 0.
Proof. unfold vget. induction k; intros [|i]; simpl; auto. Qed.

Lemma vget_vsub : forall a b i, length a = length b -> vget (vsub a b) i = vget a i - vget b i.
Proof.
  unfold vget, vsub. induction a; intros [|y b] i H; simpl in H; try discriminate.
  - destruct i; simpl; ring.
  - destruct i; simpl; [reflexivity|]. apply IHa. lia.
Qed.

Lemma vget_dmv : forall A x i, vget (dmv A x) i = ldot (drow A i) x.
Proof.
  intros. unfold vget, dmv, drow.
  change 0 with ((fun r => ldot r x) []) at 1. apply map_nth.
Qed.

Lemma ldot_zeros : forall r k, ldot r (repeat 0 k) = 0.
Proof. induction r; intros [|k]; simpl; auto. rewrite IHr. ring. Qed.

Lemma dmv_zeros : forall A k, dmv A (repeat 0 k) = repeat 0 (length A).
Proof. induction A; intros; simpl; [reflexivity|]. rewrite ldot_zeros, IHA. reflexivity. Qed.

Lemma dmv_length : forall A x, length (dmv A x) = length A.
Proof. intros. unfold dmv. apply map_length. Qed.

Lemma vadd_zeros : forall x, vadd x (repeat 0 (length x)) = x.
Proof. unfold vadd. induction x; simpl; [reflexivity|]. rewrite IHx. f_equal. ring. Qed.

Lemma vsub_zeros : forall f, vsub f (repeat 0 (length f)) = f.
Proof. unfold vsub. induction f; simpl; [reflexivity|]. rewrite IHf. f_equal. ring. Qed.

Lemma gather_vanish : forall idx r, (forall i, In i idx -> vget r i = 0) -> gather idx r = repeat 0 (length idx).
Proof.
  unfold gather. induction idx; intros r H; simpl; [reflexivity|].
  rewrite H by (left; reflexivity). f_equal. apply IHidx. intros. apply H. right. assumption.
Qed.

Lemma scatter_add_zeros : forall idx x k, scatter_add idx (repeat 0 k) x = x.
Proof.
  induction idx; intros x [|k]; simpl; try reflexivity.
  replace (vget x a + 0) with (vget x a) by ring. rewrite upd_same. apply IHidx.
Qed.

Lemma scatter_set_zeros : forall idx k m, scatter_set idx (repeat 0 k) (repeat 0 m) = repeat 0 m.
Proof.
  induction idx; intros [|k] m; simpl; try reflexivity.
  assert (E : upd a 0 (repeat 0 m) = repeat 0 m).
  { pattern 0 at 1. rewrite <- (vget_repeat0 m a). apply upd_same. }
  rewrite E. apply IHidx.
Qed.

Definition vanishes (D : nat -> Prop) (v : vec) : Prop := forall i, D i -> vget v i = 0.

(* a smoothing step leaves x unchanged when the residual vanishes on the smoothing set *)
Lemma smooth_fixed : forall sm steps L x f n,
  length (lvA L) = n -> (forall i, In i (lvInd L) -> length (drow (lvA L) i) = n) ->
  length x = n -> length f = n ->
  (forall i, In i (lvInd L) -> (i < n)%nat /\ dentry (lvA L) i i <> 0) ->
  lvB L (repeat 0 (length (lvInd L))) = repeat 0 (length (lvInd L)) ->
  (forall i, In i (lvInd L) -> vget (vsub f (dmv (lvA L) x)) i = 0) ->
  pre_smooth sm steps L x f = x /\ post_smooth sm steps L x f = x.
Proof.
  intros sm steps L x f n HA Hrow Hx Hf Hind HB Hres.
  assert (GS : forall sw, gauss_seidel (Dense (lvA L)) x f steps (Some (lvInd L)) sw = x).
  { intros sw. apply gs_fixed_point_dense_l; [congruence|].
    simpl. intros i Hi. destruct (Hind i Hi) as [H1 H2]. rewrite HA.
    repeat split; auto.
    specialize (Hres i Hi). rewrite vget_vsub in Hres by (rewrite dmv_length; congruence).
    rewrite vget_dmv in Hres. rewrite ldot_sumn in Hres by (rewrite Hrow; auto).
    unfold mv. rewrite <- Hx.
    replace (vget f i) with (vget f i - sumn (length x) (fun j => nth j (drow (lvA L) i) 0 * vget x j)
                             + sumn (length x) (fun j => nth j (drow (lvA L) i) 0 * vget x j)) by ring.
    rewrite Hres. unfold dentry. ring. }
  assert (EX : scatter_add (lvInd L) (lvB L (gather (lvInd L) (vsub f (dmv (lvA L) x)))) x = x).
  { rewrite gather_vanish by exact Hres. rewrite HB. apply scatter_add_zeros. }
  unfold pre_smooth, post_smooth. destruct sm; auto.
Qed.

Section MGFixed.
  Variable sm : smoother.
  Variable steps : nat.
  Variable ind0 : list nat.
  Variable B0 : vec -> vec.

  (* what the cycle needs from the hierarchy below a level with n dofs whose residuals
     vanish on D: dimensions fit, smoothing sets lie in D and have nonzero diagonal, the
     sub-solvers map 0 to 0 (any linear solver does), and restriction P^T maps vectors
     vanishing on D to vectors vanishing on the coarser level's set Dc. *)
  Fixpoint good (n : nat) (D : nat -> Prop) (levels : list level) : Prop :=
    match levels with
    | [] => (forall i, In i ind0 -> D i) /\ B0 (repeat 0 (length ind0)) = repeat 0 (length ind0)
    | L :: rest =>
        length (lvA L) = n /\ (forall i, In i (lvInd L) -> length (drow (lvA L) i) = n) /\
        length (lvP L) = n /\
        (forall i, In i (lvInd L) -> (i < n)%nat /\ D i /\ dentry (lvA L) i i <> 0) /\
        lvB L (repeat 0 (length (lvInd L))) = repeat 0 (length (lvInd L)) /\
        exists nc Dc, ncols (lvP L) = nc /\
          (forall v, length v = n -> vanishes D v -> vanishes Dc (dmv (dtrans (lvP L)) v)) /\
          good nc Dc rest
    end.

  Lemma dtrans_length : forall P, length (dtrans P) = ncols P.
  Proof. intros. unfold dtrans. rewrite map_length, seq_length. reflexivity. Qed.

  (* started from zero with a right-hand side vanishing on D, the cycle returns zero *)
  Lemma mg_zero : forall levels n D f,
    good n D levels -> length f = n -> vanishes D f ->
    mg_step sm steps ind0 B0 levels (zeros n) f = zeros n.
  Proof.
    induction levels as [|L rest IH]; intros n D f G Hf Hv.
    - simpl in *. destruct G as [G1 G2]. unfold zeros.
      rewrite gather_vanish by (intros; apply Hv; auto). rewrite G2. apply scatter_set_zeros.
    - simpl in G. destruct G as (HA & Hrow & HP & Hind & HB & nc & Dc & Hnc & Hrestr & Grest).
      cbn [mg_step].
      assert (Hz : length (zeros n) = n) by (unfold zeros; apply repeat_length).
      assert (R0 : vsub f (dmv (lvA L) (zeros n)) = f).
      { unfold zeros. rewrite dmv_zeros, HA, <- Hf. apply vsub_zeros. }
      destruct (smooth_fixed sm steps L (zeros n) f n HA Hrow Hz Hf
                  (fun i Hi => let '(conj a (conj _ c)) := Hind i Hi in conj a c) HB) as [Hpre Hpost].
      { intros i Hi. rewrite R0. apply Hv. apply (Hind i Hi). }
      rewrite Hpre, R0.
      assert (Hrc : length (dmv (dtrans (lvP L)) f) = nc) by (rewrite dmv_length, dtrans_length; exact Hnc).
      rewrite Hrc. rewrite (IH nc Dc _ Grest Hrc (Hrestr f Hf Hv)).
      unfold zeros at 2. rewrite dmv_zeros, HP.
      replace (vadd (zeros n) (repeat 0 n)) with (zeros n)
        by (unfold zeros; rewrite <- (repeat_length 0 n) at 3; symmetry; apply vadd_zeros).
      exact Hpost.
  Qed.

  (* the fixed point: x with residual f - A x vanishing on D (e.g. the exact discrete solution,
     D = the non-Dirichlet dofs) is returned unchanged by one cycle, for every number of levels >= 2 *)
  Lemma mg_fixed_point_l : forall L rest n D x f,
    good n D (L :: rest) -> length x = n -> length f = n ->
    vanishes D (vsub f (dmv (lvA L) x)) ->
    mg_step sm steps ind0 B0 (L :: rest) x f = x.
  Proof.
    intros L rest n D x f G Hx Hf Hv.
    simpl in G. destruct G as (HA & Hrow & HP & Hind & HB & nc & Dc & Hnc & Hrestr & Grest).
    cbn [mg_step].
    destruct (smooth_fixed sm steps L x f n HA Hrow Hx Hf
                (fun i Hi => let '(conj a (conj _ c)) := Hind i Hi in conj a c) HB) as [Hpre Hpost].
    { intros i Hi. apply Hv. apply (Hind i Hi). }
    rewrite Hpre.
    set (r := vsub f (dmv (lvA L) x)) in *.
    assert (Hr : length r = n).
    { unfold r, vsub. rewrite map_length, combine_length, dmv_length. lia. }
    assert (Hrc : length (dmv (dtrans (lvP L)) r) = nc) by (rewrite dmv_length, dtrans_length; exact Hnc).
    rewrite Hrc. rewrite (mg_zero rest nc Dc _ Grest Hrc (Hrestr r Hr Hv)).
    unfold zeros. rewrite dmv_zeros, HP, <- Hx, vadd_zeros. exact Hpost.
  Qed.

  (* one level (numlevels = 1): the cycle is a direct solve on ind0; it returns x when x already
     carries the solve's result on ind0 -- the hypothesis the code needs *)
  Lemma mg_one_level_l : forall x f,
    gather ind0 x = B0 (gather ind0 f) -> mg_step sm steps ind0 B0 [] x f = x.
  Proof.
    intros x f H. simpl. rewrite <- H. clear H. unfold gather.
    generalize dependent x. induction ind0 as [|i idx IH]; intros x; simpl; [reflexivity|].
    rewrite upd_same. apply IH.
  Qed.
End MGFixed.
