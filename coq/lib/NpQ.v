(* Exact (Qc) reading of the numpy vocabulary used by pyiga/bspline.py:62-213 and
   pyiga/spline.py:21-26 -- np.linspace, np.arange, np.sort, np.unique(return_inverse),
   np.convolve (mode 'full'), np.clip, np.diff -- with the lemmas the C19 proofs need.
   (The binary64 reading of arange/linspace is lib/NpF.v.) *)
From Coq Require Import QArith Qcanon Qround ZArith List Arith Bool Lia Lqa Permutation.
From Verif.lib Require Import Bsp NpCore.
Import ListNotations.
Open Scope Qc_scope.

(* ------------------------------------------------------------------ *)
(* Qc <-> Q bridge so that lra/nra can be used *)

Lemma this_plus (x y : Qc) : (this (x + y) == this x + this y)%Q.
Proof. unfold Qcplus, Q2Qc; cbn [this]. apply Qred_correct. Qed.
Lemma this_mult (x y : Qc) : (this (x * y) == this x * this y)%Q.
Proof. unfold Qcmult, Q2Qc; cbn [this]. apply Qred_correct. Qed.
Lemma this_opp (x : Qc) : (this (- x) == - this x)%Q.
Proof. unfold Qcopp, Q2Qc; cbn [this]. apply Qred_correct. Qed.
Lemma this_minus (x y : Qc) : (this (x - y) == this x - this y)%Q.
Proof. unfold Qcminus. rewrite this_plus, this_opp. reflexivity. Qed.
Lemma this_Q2Qc q : (this (Q2Qc q) == q)%Q.
Proof. unfold Q2Qc; cbn [this]. apply Qred_correct. Qed.
Lemma Qc_eq_iff (x y : Qc) : x = y <-> (this x == this y)%Q.
Proof. split; [intros ->; reflexivity|apply Qc_is_canon]. Qed.

Ltac qcq :=
  repeat match goal with
  | H : @eq Qc _ _ |- _ => apply Qc_eq_iff in H
  | H : ~ @eq Qc _ _ |- _ => rewrite Qc_eq_iff in H
  end;
  try apply Qc_eq_iff;
  unfold Qcle, Qclt in *;
  repeat (rewrite ?this_plus, ?this_minus, ?this_mult, ?this_opp, ?this_Q2Qc in * ).

(* ------------------------------------------------------------------ *)
(* integers as rationals *)

Definition natq (n : nat) : Qc := Zq (Z.of_nat n).

Lemma this_natq n : (this (natq n) == inject_Z (Z.of_nat n))%Q.
Proof. unfold natq, Zq. apply this_Q2Qc. Qed.

Lemma natq_S n : natq (S n) = natq n + 1.
Proof.
  qcq. rewrite !this_natq. rewrite Nat2Z.inj_succ. unfold Z.succ. rewrite inject_Z_plus.
  reflexivity.
Qed.

Lemma natq_0 : natq 0 = 0.
Proof. apply Qc_is_canon. reflexivity. Qed.

Lemma natq_le i j : (i <= j)%nat -> natq i <= natq j.
Proof.
  intros H. unfold Qcle. rewrite !this_natq. rewrite <- Zle_Qle. lia.
Qed.

Lemma natq_lt i j : (i < j)%nat -> natq i < natq j.
Proof.
  intros H. unfold Qclt. rewrite !this_natq. rewrite <- Zlt_Qlt. lia.
Qed.

Lemma natq_pos n : (0 < n)%nat -> 0 < natq n.
Proof. intros H. rewrite <- natq_0. apply natq_lt. exact H. Qed.

Lemma natq_neq0 n : (0 < n)%nat -> natq n <> 0.
Proof. intros H E. apply natq_pos in H. rewrite E in H. revert H. apply Qcle_not_lt, Qcle_refl. Qed.

(* ------------------------------------------------------------------ *)
(* np.linspace(a, b, num)  [numpy/_core/function_base.py: step = (b-a)/(num-1);
   y = arange(0,num)*step + a; y[-1] = b when num > 1] *)

Definition linspace_q (a b : Qc) (num : nat) : list Qc :=
  let step := (b - a) / natq (num - 1) in
  let y := map (fun i => natq i * step + a) (seq 0 num) in
  if (1 <? num)%nat then removelast y ++ [b] else y.

(* np.arange(a, b, s): ceil((b-a)/s) elements a + i*s  [multiarray/ctors.c PyArray_Arange;
   the fill uses delta = (a+s)-a, which is s in exact arithmetic] *)
Definition arange_q (a b s : Qc) : list Qc :=
  let len := Z.to_nat (Qceiling ((b - a) / s)) in
  map (fun i => a + natq i * s) (seq 0 len).

Lemma linspace_length a b num : length (linspace_q a b num) = num.
Proof.
  unfold linspace_q. destruct (Nat.ltb_spec 1 num) as [L|L].
  - rewrite app_length, length_removelast, map_length, seq_length. cbn. lia.
  - rewrite map_length, seq_length. reflexivity.
Qed.

Lemma nth_linspace a b num i : (1 < num)%nat -> (i < num)%nat ->
  nth i (linspace_q a b num) 0 = a + natq i * ((b - a) / natq (num - 1)).
Proof.
  intros Hn Hi. unfold linspace_q. destruct (Nat.ltb_spec 1 num) as [L|L]; [|lia].
  set (step := (b - a) / natq (num - 1)).
  set (y := map (fun i => natq i * step + a) (seq 0 num)).
  assert (Hy : length y = num) by (unfold y; rewrite map_length, seq_length; reflexivity).
  destruct (Nat.eq_dec i (num - 1)) as [E|E].
  - rewrite app_nth2 by (rewrite length_removelast, Hy; lia).
    rewrite length_removelast, Hy. replace (i - (num - 1))%nat with 0%nat by lia. cbn [nth].
    subst i. unfold step. field. apply natq_neq0. lia.
  - rewrite app_nth1 by (rewrite length_removelast, Hy; lia).
    rewrite nth_removelast by (rewrite Hy; lia).
    unfold y. rewrite nth_map_seq by exact Hi. cbn [plus]. ring.
Qed.

Lemma linspace_first a b num : (1 < num)%nat -> nth 0 (linspace_q a b num) 0 = a.
Proof. intros H. rewrite nth_linspace by lia. rewrite natq_0. ring. Qed.

Lemma linspace_last a b num : (1 < num)%nat -> nth (num - 1) (linspace_q a b num) 0 = b.
Proof. intros H. rewrite nth_linspace by lia. field. apply natq_neq0. lia. Qed.

Lemma step_pos a b n : a < b -> (0 < n)%nat -> 0 < (b - a) / natq n.
Proof.
  intros Hab Hn. apply natq_pos in Hn.
  assert (E : (b - a) / natq n * natq n = b - a) by (field; intros E; rewrite E in Hn; revert Hn; apply Qcle_not_lt, Qcle_refl).
  destruct (Qclt_le_dec 0 ((b - a) / natq n)) as [L|L]; [exact L|exfalso].
  set (h := (b - a) / natq n) in *. clearbody h.
  qcq. nra.
Qed.

Lemma linspace_lt a b num i j : a < b -> (i < j)%nat -> (j < num)%nat ->
  nth i (linspace_q a b num) 0 < nth j (linspace_q a b num) 0.
Proof.
  intros Hab Hij Hj. rewrite !nth_linspace by lia.
  pose proof (step_pos a b (num - 1) Hab ltac:(lia)) as Hh.
  set (h := (b - a) / natq (num - 1)) in *. clearbody h.
  pose proof (natq_lt i j Hij) as Hq.
  qcq. nra.
Qed.

(* ------------------------------------------------------------------ *)
(* sortedness: Bsp.sortedb (boolean, adjacent) vs index form *)

Lemma qleb_iff a b : qleb a b = true <-> a <= b.
Proof. unfold qleb. rewrite Qle_bool_iff. reflexivity. Qed.
Lemma qltb_iff a b : qltb a b = true <-> a < b.
Proof.
  unfold qltb. rewrite negb_true_iff. split.
  - intros H. apply Qcnot_le_lt. intros L. apply qleb_iff in L. unfold qleb in L. congruence.
  - intros H. destruct (Qle_bool b a) eqn:E; [|reflexivity].
    apply Qle_bool_iff in E. exfalso. apply (Qclt_not_le _ _ H). exact E.
Qed.
Lemma qeqb_iff a b : qeqb a b = true <-> a = b.
Proof.
  unfold qeqb. rewrite Qeq_bool_iff. split; [apply Qc_is_canon|intros ->; reflexivity].
Qed.
Lemma qeqb_refl a : qeqb a a = true.
Proof. apply qeqb_iff. reflexivity. Qed.
Lemma qeqb_false_iff a b : qeqb a b = false <-> a <> b.
Proof. rewrite <- qeqb_iff. destruct (qeqb a b); split; congruence. Qed.
Lemma qleb_total a b : qleb a b = false -> qleb b a = true.
Proof.
  intros H. apply qleb_iff. destruct (Qclt_le_dec a b) as [L|L]; [|exact L].
  apply Qclt_le_weak in L. apply qleb_iff in L. congruence.
Qed.

Definition sorted_idx (kv : list Qc) : Prop :=
  forall i j, (i <= j)%nat -> (j < length kv)%nat -> kn kv i <= kn kv j.

Lemma sortedb_cons a l : sortedb (a :: l) = match l with [] => true | b :: _ => qleb a b && sortedb l end.
Proof. destruct l; reflexivity. Qed.

Lemma sortedb_tail a l : sortedb (a :: l) = true -> sortedb l = true.
Proof. rewrite sortedb_cons. destruct l; [reflexivity|]. intros H. apply andb_true_iff in H. tauto. Qed.

Lemma sortedb_head_le a l : sortedb (a :: l) = true -> forall x, In x l -> a <= x.
Proof.
  revert a. induction l as [|b t IH]; intros a H x Hx; [destruct Hx|].
  rewrite sortedb_cons in H. apply andb_true_iff in H. destruct H as [Hab Ht].
  apply qleb_iff in Hab. destruct Hx as [<-|Hx]; [exact Hab|].
  eapply Qcle_trans; [exact Hab|]. apply IH; assumption.
Qed.

Lemma sortedb_idx l : sortedb l = true -> sorted_idx l.
Proof.
  induction l as [|a t IH]; intros H i j Hij Hj; [cbn in Hj; lia|].
  unfold kn in *. destruct i, j; cbn [nth]; try lia.
  - apply Qcle_refl.
  - apply (sortedb_head_le a t H). apply nth_In. cbn in Hj. lia.
  - apply IH; [eapply sortedb_tail; exact H|lia|cbn in Hj; lia].
Qed.

Lemma idx_sortedb l : sorted_idx l -> sortedb l = true.
Proof.
  induction l as [|a t IH]; intros H; [reflexivity|].
  rewrite sortedb_cons. destruct t as [|b t']; [reflexivity|].
  apply andb_true_iff. split.
  - apply qleb_iff. apply (H 0%nat 1%nat); cbn; lia.
  - apply IH. intros i j Hij Hj. apply (H (S i) (S j)); cbn in *; lia.
Qed.

(* ------------------------------------------------------------------ *)
(* np.sort (any stable or unstable sort: the result is determined by the multiset) *)

Fixpoint insert_q (x : Qc) (l : list Qc) : list Qc :=
  match l with
  | [] => [x]
  | y :: t => if qleb x y then x :: l else y :: insert_q x t
  end.
Definition np_sort (l : list Qc) : list Qc := fold_right insert_q [] l.

Lemma insert_perm x l : Permutation (insert_q x l) (x :: l).
Proof.
  induction l as [|y t IH]; cbn; [reflexivity|].
  destruct (qleb x y); [reflexivity|].
  rewrite IH. apply perm_swap.
Qed.

Lemma sort_perm l : Permutation (np_sort l) l.
Proof.
  induction l as [|x t IH]; cbn; [reflexivity|].
  rewrite insert_perm. constructor. exact IH.
Qed.

Lemma insert_sorted x l : sortedb l = true -> sortedb (insert_q x l) = true.
Proof.
  induction l as [|y t IH]; intros H; [reflexivity|].
  cbn [insert_q]. destruct (qleb x y) eqn:E.
  - rewrite sortedb_cons. rewrite E, H. reflexivity.
  - apply qleb_total in E. specialize (IH (sortedb_tail _ _ H)).
    rewrite sortedb_cons. destruct (insert_q x t) as [|z r] eqn:Ez; [reflexivity|].
    rewrite IH, andb_true_r.
    destruct t as [|w t']; cbn [insert_q] in Ez.
    + injection Ez as <- <-. exact E.
    + destruct (qleb x w); injection Ez as <- <-; [exact E|].
      rewrite sortedb_cons in H. apply andb_true_iff in H. tauto.
Qed.

Lemma sort_sorted l : sortedb (np_sort l) = true.
Proof. induction l as [|x t IH]; [reflexivity|]. cbn. apply insert_sorted. exact IH. Qed.

Lemma sort_id l : sortedb l = true -> np_sort l = l.
Proof.
  induction l as [|x t IH]; intros H; [reflexivity|].
  change (np_sort (x :: t)) with (insert_q x (np_sort t)).
  rewrite IH by (eapply sortedb_tail; exact H).
  destruct t as [|y t']; [reflexivity|].
  rewrite sortedb_cons in H. apply andb_true_iff in H. destruct H as [H _].
  cbn [insert_q]. rewrite H. reflexivity.
Qed.

(* ------------------------------------------------------------------ *)
(* np.unique(x, return_inverse=True): sorted distinct values, and for every
   entry of x its index in them *)

Definition np_unique (l : list Qc) : list Qc := dedup_adj qeqb (np_sort l).
Definition np_unique_inverse (l : list Qc) : list nat :=
  let m := np_unique l in map (fun x => index_of qeqb x m) l.

Lemma dedup_In x l : In x (dedup_adj qeqb l) <-> In x l.
Proof.
  induction l as [|a t IH]; [reflexivity|].
  destruct t as [|b t']; [reflexivity|].
  destruct (qeqb a b) eqn:E.
  - rewrite dedup_cons_eq by exact E. apply qeqb_iff in E. subst b. rewrite IH. cbn. tauto.
  - rewrite dedup_cons_neq by exact E. cbn [In]. rewrite IH. reflexivity.
Qed.

Lemma unique_In x l : In x (np_unique l) <-> In x l.
Proof.
  unfold np_unique. rewrite dedup_In. split; apply Permutation_in;
    [apply sort_perm|symmetry; apply sort_perm].
Qed.

Lemma dedup_hd a t : exists r, dedup_adj qeqb (a :: t) = a :: r.
Proof.
  revert a. induction t as [|b t' IH]; intros a; [eexists; reflexivity|].
  destruct (qeqb a b) eqn:E; [|rewrite dedup_cons_neq by exact E; eexists; reflexivity].
  rewrite dedup_cons_eq by exact E. apply qeqb_iff in E. subst b. apply IH.
Qed.

Lemma dedup_strict l : sortedb l = true -> adjb qltb (dedup_adj qeqb l) = true.
Proof.
  induction l as [|a t IH]; intros H; [reflexivity|].
  destruct t as [|b t']; [reflexivity|].
  pose proof (sortedb_tail _ _ H) as Ht. specialize (IH Ht).
  rewrite sortedb_cons in H. apply andb_true_iff in H. destruct H as [Hab _].
  destruct (qeqb a b) eqn:E; [rewrite dedup_cons_eq by exact E; exact IH|].
  rewrite dedup_cons_neq by exact E.
  destruct (dedup_hd b t') as [r Hr]. rewrite Hr in *.
  change (adjb qltb (a :: b :: r)) with (qltb a b && adjb qltb (b :: r)).
  rewrite IH, andb_true_r. apply qltb_iff.
  apply qleb_iff in Hab. apply qeqb_false_iff in E.
  destruct (Qcle_lt_or_eq _ _ Hab); [assumption|contradiction].
Qed.

Lemma unique_strict l : adjb qltb (np_unique l) = true.
Proof. apply dedup_strict, sort_sorted. Qed.

Lemma index_of_nth x l : In x l -> (index_of qeqb x l < length l)%nat /\ nth (index_of qeqb x l) l 0 = x.
Proof.
  induction l as [|y t IH]; intros H; [destruct H|].
  cbn [index_of]. destruct (qeqb x y) eqn:E.
  - apply qeqb_iff in E. subst y. cbn. split; [lia|reflexivity].
  - destruct H as [->|H]; [rewrite qeqb_refl in E; discriminate|].
    destruct (IH H) as [A B]. cbn. split; [lia|exact B].
Qed.

(* number of places where adjacent entries differ *)
Fixpoint njumps (l : list Qc) : nat :=
  match l with
  | a :: ((b :: _) as t) => (if qeqb a b then 0 else 1) + njumps t
  | _ => 0
  end.

Lemma dedup_length l : l <> [] -> length (dedup_adj qeqb l) = S (njumps l).
Proof.
  induction l as [|a t IH]; intros H; [congruence|].
  destruct t as [|b t']; [reflexivity|].
  change (njumps (a :: b :: t')) with ((if qeqb a b then 0 else 1) + njumps (b :: t'))%nat.
  destruct (qeqb a b) eqn:E.
  - rewrite dedup_cons_eq by exact E. rewrite IH by discriminate. reflexivity.
  - rewrite dedup_cons_neq by exact E. cbn [length]. rewrite IH by discriminate. reflexivity.
Qed.

Lemma filter_seq_S (f : nat -> bool) s n :
  filter f (seq (S s) n) = map S (filter (fun i => f (S i)) (seq s n)).
Proof.
  revert s. induction n as [|n IH]; intros s; [reflexivity|].
  cbn [seq filter]. rewrite IH. destruct (f (S s)); reflexivity.
Qed.

Lemma njumps_filter l :
  length (filter (fun i => negb (qeqb (kn l i) (kn l (S i)))) (seq 0 (length l - 1))) = njumps l.
Proof.
  induction l as [|a t IH]; [reflexivity|].
  destruct t as [|b t']; [reflexivity|].
  replace (length (a :: b :: t') - 1)%nat with (S (length (b :: t') - 1)) by (cbn; lia).
  cbn [seq filter]. rewrite filter_seq_S.
  change (njumps (a :: b :: t')) with ((if qeqb a b then 0 else 1) + njumps (b :: t'))%nat.
  rewrite <- IH.
  change (kn (a :: b :: t') 0) with a. change (kn (a :: b :: t') 1) with b.
  destruct (qeqb a b); cbn [negb length]; rewrite ?map_length; reflexivity.
Qed.

(* ------------------------------------------------------------------ *)
(* np.convolve(a, w) (mode 'full'), np.clip, np.diff, element-wise helpers *)

Definition qsum (l : list Qc) : Qc := fold_right Qcplus 0 l.

Definition conv_at (a w : list Qc) (k : nat) : Qc :=
  qsum (map (fun m => if (m <=? k)%nat then nth m w 0 * nth (k - m) a 0 else 0) (seq 0 (length w))).
Definition np_convolve (a w : list Qc) : list Qc :=
  map (conv_at a w) (seq 0 (length a + length w - 1)).

Definition qmax (x y : Qc) : Qc := if qleb x y then y else x.
Definition qmin (x y : Qc) : Qc := if qleb x y then x else y.
(* np.clip(x, lo, hi) = minimum(maximum(x, lo), hi) *)
Definition np_clip (lo hi x : Qc) : Qc := qmin (qmax x lo) hi.

Fixpoint zip_with (f : Qc -> Qc -> Qc) (x y : list Qc) : list Qc :=
  match x, y with
  | a :: x', b :: y' => f a b :: zip_with f x' y'
  | _, _ => []
  end.
(* np.diff(c) = c[1:] - c[:-1] *)
Definition np_diff (c : list Qc) : list Qc := zip_with Qcminus (tl c) (removelast c).
(* arr[i:-j] *)
Definition sl_range (i j : nat) (l : list Qc) : list Qc := firstn (length l - j - i) (skipn i l).

Definition qabs (x : Qc) : Qc := if qleb 0 x then x else - x.

(* ---- integer arrays (indices) ---- *)
(* np.arange(lo, hi) for Python ints *)
Definition np_arange_nat (lo hi : nat) : list nat := seq lo (hi - lo).
(* np.stack((x, y), axis=1): rows (x[i], y[i]) *)
Definition np_stack2 (x y : list nat) : list (nat * nat) := combine x y.
(* arr[idx] for an N x 2 integer index array *)
Definition np_take2 (arr : list nat) (idx : list (nat * nat)) : list (nat * nat) :=
  map (fun se => (nth (fst se) arr 0%nat, nth (snd se) arr 0%nat)) idx.
(* np.where(x != y)[0] for equally long 1-D integer arrays *)
Definition np_where_ne (x y : list nat) : list nat :=
  filter (fun i => negb (Nat.eqb (nth i x 0%nat) (nth i y 0%nat))) (seq 0 (Nat.min (length x) (length y))).
