(* C08 -- helpers for the generated correspondence files: comparison of two lists of
   (coordinate, value-id) triples as finite maps, in O(n log n) by sorting. *)
From Coq Require Import ZArith List Bool Orders Mergesort Lia.
From Verif.C08 Require Import Model.
Import ListNotations.
Local Open Scope Z_scope.

Module TripOrder <: TotalLeBool.
  Definition t : Type := ((Z * Z) * Z)%type.
  Definition leb (a b : t) : bool :=
    (fst (fst a) <? fst (fst b)) || ((fst (fst a) =? fst (fst b)) && (snd (fst a) <=? snd (fst b))).
  Theorem leb_total : forall a b, leb a b = true \/ leb b a = true.
  Proof.
    intros [[i j] v] [[k l] w]. unfold leb. simpl.
    destruct (Z.ltb_spec i k); [left; reflexivity|].
    destruct (Z.ltb_spec k i); [right; reflexivity|].
    assert (i = k) by lia. subst. rewrite Z.eqb_refl. simpl.
    destruct (Z.leb_spec j l); [left; reflexivity | right; apply Z.leb_le; lia].
  Qed.
End TripOrder.
Module TripSort := Sort TripOrder.

Definition trip_eqb (a b : (Z * Z) * Z) : bool := pair_eqb (fst a) (fst b) && (snd a =? snd b).
Fixpoint tl_eqb (a b : list ((Z * Z) * Z)) : bool :=
  match a, b with
  | [], [] => true
  | x :: a', y :: b' => trip_eqb x y && tl_eqb a' b'
  | _, _ => false
  end.
Definition nonzeros (t : list ((Z * Z) * Z)) : list ((Z * Z) * Z) := filter (fun x => negb (snd x =? 0)) t.
(* equal as sorted lists of their non-zero triples (sufficient for equality as finite maps) *)
Definition same_sorted (a b : list ((Z * Z) * Z)) : bool :=
  tl_eqb (TripSort.sort (nonzeros a)) (TripSort.sort (nonzeros b)).

(* soundness of the fast path: lists with equal sorted non-zero parts have the same non-zero triples *)
Lemma tl_eqb_eq : forall a b, tl_eqb a b = true -> a = b.
Proof.
  induction a as [|x a IH]; intros [|y b] H; simpl in H; try discriminate; [reflexivity|].
  apply andb_true_iff in H. destruct H as [H1 H2]. unfold trip_eqb in H1.
  apply andb_true_iff in H1. destruct H1 as [Hk Hv].
  destruct x as [[i j] v], y as [[k l] w]. unfold pair_eqb in Hk. simpl in *.
  apply andb_true_iff in Hk. destruct Hk as [Hi Hj].
  apply Z.eqb_eq in Hi, Hj, Hv. subst. f_equal. apply IH, H2.
Qed.

Lemma same_sorted_sound : forall a b, same_sorted a b = true ->
  forall x, In x (nonzeros a) <-> In x (nonzeros b).
Proof.
  intros a b H x. unfold same_sorted in H. apply tl_eqb_eq in H.
  pose proof (TripSort.Permuted_sort (nonzeros a)) as Pa.
  pose proof (TripSort.Permuted_sort (nonzeros b)) as Pb.
  split; intro Hx.
  - apply (Permutation.Permutation_in x (Permutation.Permutation_sym Pb)). rewrite <- H.
    apply (Permutation.Permutation_in x Pa). exact Hx.
  - apply (Permutation.Permutation_in x (Permutation.Permutation_sym Pa)). rewrite H.
    apply (Permutation.Permutation_in x Pb). exact Hx.
Qed.
