(* C05 -- a concrete three-level hierarchy (1-D, p = 2, four cells, the corner refined twice):
   the witness for vh_prolongators_thb_old_refuted, and non-vacuity of the multilevel theorems. *)
From Coq Require Import QArith Qcanon ZArith List Bool Arith Lia.
From Verif.lib Require Import Bsp.
From Verif.C02 Require Import Proofs.
From Verif.C05 Require Import Model Proofs Hier.
Import ListNotations.
Open Scope Qc_scope.

Definition q (n : Z) (d : positive) : Qc := Q2Qc (n # d).
Definition exkv0 := map (fun z => q z 1) [0;0;0;1;2;3;4;4;4]%Z.
Definition exmid0 := map (fun z => q z 2) [1;3;5;7]%Z.
Definition exkv1 := refine_kv exkv0 2 exmid0.
Definition exmid1 := map (fun z => q z 4) [1;3;5;7;9;11;13;15]%Z.
Definition exkv2 := refine_kv exkv1 2 exmid1.
Definition exK (k : nat) : list Qc := nth k [exkv0; exkv1; exkv2] [].
Definition exn (k : nat) : nat := numdofs (exK k) 2.
Definition exB (k i : nat) (x : Qc) : Qc := Nref (exK k) 2 i x.
Definition exPm0s := prolongation_spec exkv0 2 exmid0.
Definition exPm1s := prolongation_spec exkv1 2 exmid1.
Definition exPm0 := Eval vm_compute in exPm0s.        (* evaluated once, for the computations below *)
Definition exPm1 := Eval vm_compute in exPm1s.
Lemma exPm0_eq : exPm0 = exPm0s. Proof. vm_compute. reflexivity. Qed.
Lemma exPm1_eq : exPm1 = exPm1s. Proof. vm_compute. reflexivity. Qed.
Definition exP (k j i : nat) : Qc := get2 (nth k [exPm0; exPm1] []) j i.
(* HSpace(make_knots(2, 0, 4, 4)); refine({0: cells 0,1}); refine({1: cells 0,1}) *)
Definition exact (k : nat) : list nat := nth k [[2;3;4;5]; [2;3]; [0;1;2;3]]%nat [].
Definition exdeact (k : nat) : list nat := nth k [[0;1]; [0;1]; []]%nat [].

Example ex_sizes : (exn 0, exn 1, exn 2) = (6, 10, 18)%nat.
Proof. vm_compute. reflexivity. Qed.

Definition ex_c : dof := (0, 2)%nat.          (* level-0 function 2, first dof of virtual level 1 *)
Definition ex_x : Qc := q 1 8.
Definition ex_lhs := fnTHB Qc exn exB exP exact exdeact 1 ex_c ex_x.
Definition ex_rhs := lsum (dofsV exact exdeact 2)
                          (fun r => Pthb_old exn exP exact exdeact 1 r ex_c * fnTHB Qc exn exB exP exact exdeact 2 r ex_x).

(* the code as it is: the THB prolongator from virtual level 1 to 2 does not reproduce the
   (truncated) level-0 function 2: at x = 1/8 that function vanishes, the combination of the
   level-2 THB functions with the entries of its column gives 1/128 *)
Lemma thb_old_refuted_l :
  exists c x, In c (dofsV exact exdeact 1) /\
    fnTHB Qc exn exB exP exact exdeact 1 c x
    <> lsum (dofsV exact exdeact 2)
            (fun r => Pthb_old exn exP exact exdeact 1 r c * fnTHB Qc exn exB exP exact exdeact 2 r x).
Proof.
  exists ex_c, ex_x. split; [vm_compute; auto|].
  intro E. apply (f_equal this) in E. vm_compute in E. discriminate.
Qed.

(* the same hierarchy meets the hypotheses of the multilevel theorems *)
Lemma exkv0_ok : kv_ok exkv0 2.
Proof. apply open_kv_ok. vm_compute. reflexivity. Qed.
Lemma exkv1_ok : kv_ok exkv1 2.
Proof. apply open_kv_ok. vm_compute. reflexivity. Qed.

Lemma two_scale_of_prol kv p us Pm :
  kv_ok kv p -> Forall (in_dom kv) us -> Pm = prolongation_spec kv p us ->
  forall i x, (i < numdofs kv p)%nat ->
    Nref kv p i x = bigsum (numdofs (refine_kv kv p us) p) (fun j => get2 Pm j i * Nref (refine_kv kv p us) p j x).
Proof. intros Hok Hd -> i x Hi. apply prolongation_preserves_l; assumption. Qed.

Lemma exmid0_dom : Forall (in_dom exkv0) exmid0.
Proof. repeat constructor; vm_compute; discriminate || reflexivity. Qed.
Lemma exmid1_dom : Forall (in_dom exkv1) exmid1.
Proof. repeat constructor; vm_compute; discriminate || reflexivity. Qed.

Lemma ex_two_scale : forall k i x, (k < 2)%nat -> (i < exn k)%nat ->
  exB k i x = bigsum (exn (S k)) (fun j => exP k j i * exB (S k) j x).
Proof.
  intros k i x Hk Hi. destruct k as [|[|k]]; [| |lia].
  - unfold exB, exn, exP, exK in *. cbn [nth] in *. unfold exkv1.
    exact (two_scale_of_prol exkv0 2 exmid0 exPm0 exkv0_ok exmid0_dom exPm0_eq i x Hi).
  - unfold exB, exn, exP, exK in *. cbn [nth] in *. unfold exkv2.
    exact (two_scale_of_prol exkv1 2 exmid1 exPm1 exkv1_ok exmid1_dom exPm1_eq i x Hi).
Qed.

Example ex_idx_ok :
  forallb (fun k => forallb (fun j => (j <? exn k)%nat) (exact k ++ exdeact k)) (seq 0 4) = true.
Proof. vm_compute. reflexivity. Qed.

(* children of deactivated functions lie in the refined region (decidable form of children_closed) *)
Example ex_children_closed :
  forallb (fun k => forallb (fun i => forallb (fun j =>
     qeqb (exP k j i) 0 || memb j (exact (S k) ++ exdeact (S k))) (seq 0 (exn (S k)))) (exdeact k)) (seq 0 3) = true.
Proof. vm_compute. reflexivity. Qed.

(* conclusions evaluated on the example (tests): HB prolongators reproduce every function of every
   virtual level at sample points; level-wise evaluation = finest-level representation *)
Example ex_vh_hb_eval :
  forallb (fun k => forallb (fun c => forallb (fun x =>
     qeqb (fnHB Qc exB c x) (lsum (dofsV exact exdeact (S k)) (fun r => Phb exP exact exdeact k r c * fnHB Qc exB r x)))
     [q 1 8; q 3 4; q 5 2; q 4 1]) (dofsV exact exdeact k)) [0; 1]%nat = true.
Proof. vm_compute. reflexivity. Qed.
