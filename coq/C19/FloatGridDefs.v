(* C19 -- the intervals of the bounded binary64 theorem, as rationals (the end points used are
   the nearest doubles, NpF.f_of_q = what the decimal / rational literal denotes in Python).
   16 intervals in 4 chunks (FloatGrid1..4.v).  The number is bounded by the thorough tier's
   coqchk, which re-evaluates the vm_compute proofs WITHOUT the VM (measured 37 s per interval
   against 2 s for coqc; a 266-interval version of this file built in 45 s on 16 cores but
   could not be re-checked within coqchk's 1500 s). *)
From Coq Require Import QArith List Arith.
From Verif.lib Require Import NpF.
Import ListNotations.

Definition grid_all : list (Q * Q) :=
  [(0, 1); (-1, 1); (9 # 10, 1); (1 # 10, 7 # 10); (1 # 3, 2 # 3); (0, 3 # 10); (2, 3); (-1 # 2, 1 # 4);
   (0, 10); (1 # 1000, 1000); (100, 1001 # 10); (-37 # 10, 129 # 10); (1 # 1000000, 1 # 100000);
   (1234567 # 10, 6543219 # 10); (0, 1 # 1000000); (-1000000, 1000000)]%Q.

Definition chunk_size : nat := 4.
Definition chunk (k : nat) : list (Q * Q) := firstn chunk_size (skipn (chunk_size * k) grid_all).

Lemma grid_all_length : length grid_all = 16%nat.
Proof. vm_compute. reflexivity. Qed.

Lemma grid_all_chunks :
  grid_all = chunk 0 ++ chunk 1 ++ chunk 2 ++ chunk 3.
Proof. vm_compute. reflexivity. Qed.
