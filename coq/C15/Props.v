(* C15 -- property theorems only.  Each is closed by [exact] of a lemma of
   Proofs.v and followed by Print Assumptions. *)
From Coq Require Import ZArith List Bool.
From Verif.C15 Require Import Model Spec Proofs.
Import ListNotations.
Open Scope Z_scope.

(* ---- index maps: sequential <-> multi-index are mutually inverse bijections ---- *)
Theorem seq_bijection_to_from : forall dims i, dims_pos dims -> 0 <= i < prodZ dims ->
  to_seq (from_seq i dims) dims = i.
Proof. exact to_seq_from_seq_l. Qed.
Print Assumptions seq_bijection_to_from.

Theorem seq_bijection_from_to : forall dims I, valid_mi I dims -> from_seq (to_seq I dims) dims = I.
Proof. exact from_seq_to_seq_l. Qed.
Print Assumptions seq_bijection_from_to.

Theorem seq_bijection_ranges : forall dims,
  (forall I, valid_mi I dims -> 0 <= to_seq I dims < prodZ dims) /\
  (forall i, dims_pos dims -> 0 <= i < prodZ dims -> valid_mi (from_seq i dims) dims).
Proof. exact (fun dims => conj (fun I => to_seq_range_l I dims) (from_seq_valid_l dims)). Qed.
Print Assumptions seq_bijection_ranges.

(* ---- nonzero(): the Kronecker pattern in data-layout order; lower_tri = the J<=I sub-list ---- *)
Theorem nonzero_2d_spec : forall b1 b2 m1 n1 m2 n2 lt,
  ml_nonzero_2d b1 b2 [(m1, n1); (m2, n2)] lt
  = filter (keep lt) (kron_pattern [(m1, n1); (m2, n2)] [b1; b2]).
Proof. exact nonzero_2d_l. Qed.
Print Assumptions nonzero_2d_spec.

Theorem nonzero_3d_spec : forall b1 b2 b3 m1 n1 m2 n2 m3 n3 lt,
  ml_nonzero_3d b1 b2 b3 [(m1, n1); (m2, n2); (m3, n3)] lt
  = filter (keep lt) (kron_pattern [(m1, n1); (m2, n2); (m3, n3)] [b1; b2; b3]).
Proof. exact nonzero_3d_l. Qed.
Print Assumptions nonzero_3d_spec.
