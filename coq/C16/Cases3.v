(* C16 -- correspondence case files, second family (coq/gen/C16_cases3_NNN.v):
   (a) complex operands: the model instantiated at the Gaussian integers Z[i] (pairs), adjoint = conjugate
       transpose;  (b) fastdiag_solver: the model instantiated at Qc (canonical rationals, a ring for Leibniz
       equality: Qcrt) and fed the implementation's own U_k, eigenvalues and 1/diag as exact rationals.
   Executable definitions only. *)
From Coq Require Import List Arith Bool ZArith QArith Qcanon Qabs.
From Verif.C16 Require Import Model Model2 Model3 Cases.
Import ListNotations.

(* ---------------- Gaussian integers ---------------- *)
Definition G := (Z * Z)%type.
Definition gO : G := (0, 0)%Z.
Definition gadd (a b : G) : G := (fst a + fst b, snd a + snd b)%Z.
Definition gmul (a b : G) : G := (fst a * fst b - snd a * snd b, fst a * snd b + snd a * fst b)%Z.
Definition gconj (a : G) : G := (fst a, - snd a)%Z.
Definition geqb (a b : G) : bool := Z.eqb (fst a) (fst b) && Z.eqb (snd a) (snd b).

Definition gmat (r c : nat) (d : list G) : mat G := mkmat G r c (fun i j => nth (i * c + j) d gO).
Definition garr (shp : list nat) (d : list G) : arr G := mkarr G shp (fun idx => nth (ravel shp idx) d gO).
Definition GD (r c : nat) (d : list G) : operand G := mkop G Dense (gmat r c d).
Definition GA (r c : nat) (d : list G) : operand G := mkop G Abstract (gmat r c d).
Definition g_to_list (A : arr G) : list G := map (aat G A) (all_idx (ashape G A)).
Definition garr_is (A : arr G) (shp : list nat) (d : list G) : bool :=
  leqb Nat.eqb (ashape G A) shp && leqb geqb (g_to_list A) d.
Definition gcols_apply (F : (nat -> G) -> nat -> G) (m ncol : nat) (xd : list G) : list G :=
  flat_map (fun r => map (fun c => F (fun j => nth (j * ncol + c) xd gO) r) (seq O ncol)) (seq O m).

(* ---------------- rationals ---------------- *)
(* a binary64 number m * 2^-e *)
Definition q (m : Z) (e : N) : Qc := Q2Qc (m # Pos.shiftl 1 e).
Definition qO : Qc := Q2Qc 0.
Definition qI : Qc := Q2Qc 1.
Definition qmat (r c : nat) (d : list Qc) : mat Qc := mkmat Qc r c (fun i j => nth (i * c + j) d qO).
Definition qarr (shp : list nat) (d : list Qc) : arr Qc := mkarr Qc shp (fun idx => nth (ravel shp idx) d qO).
Definition qvec (d : list Qc) : nat -> Qc := fun i => nth i d qO.
Definition QD (r c : nat) (d : list Qc) : operand Qc := mkop Qc Dense (qmat r c d).
Definition q_to_list (A : arr Qc) : list Qc := map (aat Qc A) (all_idx (ashape Qc A)).
(* |a - b| <= bd *)
Definition close (a b bd : Qc) : bool := Qle_bool (Qabs (this (a - b)%Qc)) (this bd).
Fixpoint all3 (f : Qc -> Qc -> Qc -> bool) (a b c : list Qc) : bool :=
  match a, b, c with
  | [], [], [] => true
  | x :: a', y :: b', z :: c' => f x y z && all3 f a' b' c'
  | _, _, _ => false
  end.

(* |dinv_c * code c - 1| <= eps_c for c = k, k+1, ... *)
Fixpoint fdiag_ok (code : nat -> Qc) (k : nat) (dinv eps : list Qc) : bool :=
  match dinv, eps with
  | [], [] => true
  | dc :: dinv', e :: eps' => close (dc * code k)%Qc qI e && fdiag_ok code (S k) dinv' eps'
  | _, _ => false
  end.

Inductive case3 :=
(* KroneckerOperator with complex operands; v = 0: op, 1: op.T, 2: op.H *)
| GKron (v : nat) (ops : list (operand G)) (xs : list nat) (xd : list G) (ys : list nat) (yd : list G)
(* DiagonalOperator with a complex diagonal *)
| GDiag (v : nat) (d : list G) (ncol : nat) (xd yd : list G)
(* fastdiag_solver(KM).dot(x): the implementation's U_k, 1/diag, x, its result y and a bound per entry *)
| FD (Us : list (operand Qc)) (dinv : list Qc) (xs : list nat) (xd yd bd : list Qc)
(* solvers.py:32-42: the implementation's eigenvalues and 1/diag: |dinv_c * diag_code(lams)_c - 1| <= eps_c *)
| FDiag (ns : list nat) (lams : list (list Qc)) (dinv eps : list Qc).

Definition agrees3 (c : case3) : bool :=
  match c with
  | GKron v ops xs xd ys yd =>
      let f := match v with
               | O => kronecker_operator G gO gadd gmul
               | S O => kronecker_operator_T G gO gadd gmul
               | _ => kronecker_operator_H G gO gadd gmul gconj end in
      garr_is (f ops (garr xs xd)) ys yd
  | GDiag v d ncol xd yd =>
      let dv := fun i => nth i d gO in
      let f := match v with
               | S (S O) => diagonal_H_matvec G gmul gconj dv
               | _ => diagonal_matvec G gmul dv end in
      leqb geqb (gcols_apply f (length d) ncol xd) yd
  | FD Us dinv xs xd yd bd =>
      let f := match xs with
               | [_] => fastdiag_apply Qc qO Qcplus Qcmult
               | _ => fastdiag_apply_mat Qc qO Qcplus Qcmult end in
      let Y := f Us (qvec dinv) (qarr xs xd) in
      leqb Nat.eqb (ashape Qc Y) xs && all3 close (q_to_list Y) yd bd
  | FDiag ns lams dinv eps =>
      let code := fastdiag_diag_code Qc qO qI Qcplus Qcmult ns (map qvec lams) in
      fdiag_ok code O dinv eps
  end.

Fixpoint bad3 (k : nat) (cs : list case3) : list nat :=
  match cs with [] => [] | c :: cs' => if agrees3 c then bad3 (S k) cs' else k :: bad3 (S k) cs' end.
