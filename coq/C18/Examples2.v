(* C18 -- non-vacuity, final round (separate file: Qcanon changes the numeral scopes). *)
From Coq Require Import List Arith ZArith Bool Ring Lia.
From Verif.C18 Require Import Model Proofs Proofs2 ZInst Examples.
Import ListNotations.
Open Scope Z_scope.
From Verif.C18 Require Import Proofs3 Proofs4 Proofs5.

(* generator with an int index: X[1, ::-1] of a 2x3 array; the unit axis is dropped *)
Example ex_gen_int :
  normalize_indices [IInt 1; ISlice None None (Some (-1)%Z)] [2%nat; 3%nat]
    = Ok [([1%nat], true); ([2%nat; 1%nat; 0%nat], false)]
  /\ gen_getitem Z [2%nat; 3%nat] (fe Z (full_of Z 0 ([2%nat; 3%nat], [1; 2; 3; 4; 5; 6])))
       [IInt 1; ISlice None None (Some (-1)%Z)] = Ok ([3%nat], [6; 5; 4])
  /\ keepb (sel_shape [([1%nat], true); ([2%nat; 1%nat; 0%nat], false)]) [true; false] = [3%nat].
Proof. vm_compute. repeat split; reflexivity. Qed.

(* Tucker __getitem__: hypotheses of tucker_getitem on the tensor (tU, tX) of shape 2x3 *)
Example ex_tucker_getitem :
  normalize_indices [ISlice None None None; IInt (-1)%Z] (tshape Z tU) = Ok [([0%nat; 1%nat], false); ([2%nat], true)]
  /\ tab Z (getitem Z 0 1 Z.add Z.mul (TTucker Z tU tX) [ISlice None None None; IInt (-1)%Z])
     = Tu [M 2 2 [[1; 2]; [0; 1]]] [2%nat] [3; -3].
Proof. vm_compute. split; reflexivity. Qed.

(* the coordinate vectors are an orthonormal family: hypothesis of the energy identity (R := Z, n = 2) *)
Example ex_orthonormal :
  orthonormal Z 0 1 Z.add Z.mul 2 (fun k i => if Nat.eqb k i then 1 else 0) 2.
Proof.
  intros k l Hk Hl. destruct k as [|[|k]], l as [|[|l]]; try lia; vm_compute; reflexivity.
Qed.
Example ex_energy_value :
  dot Z 0 Z.add Z.mul 2 (resid Z 0 Z.add Z.mul Z.sub 2 (fun k i => if Nat.eqb k i then 1 else 0) 1 (fun i => Z.of_nat i + 3))
                        (resid Z 0 Z.add Z.mul Z.sub 2 (fun k i => if Nat.eqb k i then 1 else 0) 1 (fun i => Z.of_nat i + 3)) = 16.
Proof. vm_compute. reflexivity. Qed.

From Coq Require Import QArith Qcanon Field.
(* the rationals in canonical form are a field with Leibniz equality and decidable equality:
   hypotheses of the Wedderburn theorems *)
Example ex_field : field_theory 0%Qc 1%Qc Qcplus Qcmult Qcminus Qcopp Qcdiv Qcinv (@eq Qc).
Proof. exact Qcft. Qed.
Example ex_field_eq_dec : forall x y : Qc, {x = y} + {x <> y}.
Proof. exact Qc_eq_dec. Qed.
Example ex_has_rank_1 :
  has_rank Qc 0%Qc Qcplus Qcmult 1 (fun _ _ => (1 + 0)%Qc).
Proof. exists (fun _ _ => 1%Qc), (fun _ _ => 1%Qc). intros a b. unfold sumn, rsum. simpl. ring. Qed.
Example ex_pivot_nonzero : ((1 + 0)%Qc <> 0%Qc).
Proof. intro H. apply (f_equal this) in H. vm_compute in H. discriminate H. Qed.

