(* C03 -- machinery of the correspondence run (compiled once; the generated case files only
   contain data and one Eval).

   Scalars.  Every float of the implementation is a dyadic rational m * 2^e; dy = (m, e) with
   exact addition/multiplication (no rounding, no normalisation).  The model is run over the
   semiring  bv = dy * dy  of pairs (value, bound): (v1,b1)+(v2,b2) = (v1+v2, b1+b2),
   (v1,b1)*(v2,b2) = (v1*v2, b1*b2), inputs x are injected as (x, |x|).  The first component is the
   model's exact result, the second is the sum of the absolute values of all terms that were added
   to obtain it: the quantity a forward rounding-error bound for a sum of products is relative to.
   A float result x of the implementation is accepted iff |x - v| <= gamma * b  (check `close`). *)
From Coq Require Import List Arith Bool ZArith NArith Lia PrimFloat FloatOps SpecFloat.
From Verif.lib Require Import FinSet.
From Verif.C04 Require Import Model.
From Verif.C03 Require Import Model.
Import ListNotations.

Definition dy := (Z * Z)%type.
Definition dalign (a b : dy) : Z * Z :=
  let e := Z.min (snd a) (snd b) in (Z.shiftl (fst a) (snd a - e), Z.shiftl (fst b) (snd b - e)).
Definition dadd (a b : dy) : dy := let xy := dalign a b in ((fst xy + snd xy)%Z, Z.min (snd a) (snd b)).
Definition dmul (a b : dy) : dy := ((fst a * fst b)%Z, (snd a + snd b)%Z).
Definition dopp (a : dy) : dy := ((- fst a)%Z, snd a).
Definition dabs (a : dy) : dy := (Z.abs (fst a), snd a).
Definition dleb (a b : dy) : bool := let xy := dalign a b in (fst xy <=? snd xy)%Z.
Definition deqb (a b : dy) : bool := let xy := dalign a b in (fst xy =? snd xy)%Z.
Definition d0 : dy := (0%Z, 0%Z).
Definition d1 : dy := (1%Z, 0%Z).

(* a binary64 literal of a case file as the dyadic number it denotes (exact; inf/nan never occur:
   the harness rejects non-finite results before writing a case file) *)
Definition f2d (x : float) : dy :=
  match Prim2SF x with
  | S754_finite s m e => ((if s then Zneg m else Zpos m), e)
  | _ => d0
  end.

(* constructors used by the case files (their argument types select the notation scopes) *)
Definition E (j : N) (x : float) : N * float := (j, x).
Definition F (x : float) : float := x.

Definition bv := (dy * dy)%type.
Definition b0 : bv := (d0, d0).
Definition b1 : bv := (d1, d1).
Definition badd (a b : bv) : bv := (dadd (fst a) (fst b), dadd (snd a) (snd b)).
Definition bmul (a b : bv) : bv := (dmul (fst a) (fst b), dmul (snd a) (snd b)).
Definition bopp (a : bv) : bv := (dopp (fst a), snd a).
Definition inj (x : dy) : bv := (x, dabs x).

(* |x - v| <= gamma * b *)
Definition close (gamma : dy) (x : dy) (r : bv) : bool :=
  dleb (dabs (dadd x (dopp (fst r)))) (dmul gamma (snd r)).

(* rows: model (column, (value, bound)) against implementation (column, float); a position missing on
   one side reads as 0 there *)
Fixpoint row_close (g : dy) (m : list (N * bv)) : list (N * dy) -> bool :=
  fix aux (x : list (N * dy)) : bool :=
    match m with
    | [] => forallb (fun e => close g (snd e) b0) x
    | (km, vm) :: m' =>
        match x with
        | [] => close g d0 vm && row_close g m' []
        | (kx, vx) :: x' =>
            match N.compare km kx with
            | Lt => close g d0 vm && row_close g m' x
            | Eq => close g vx vm && row_close g m' x'
            | Gt => close g vx b0 && aux x'
            end
        end
    end.
Fixpoint mat_close (g : dy) (m : list (list (N * bv))) (x : list (list (N * dy))) : bool :=
  match m, x with
  | [], [] => true
  | rm :: m', rx :: x' => row_close g rm rx && mat_close g m' x'
  | _, _ => false
  end.
Fixpoint vec_close (g : dy) (m : list bv) (x : list dy) : bool :=
  match m, x with
  | [], [] => true
  | vm :: m', vx :: x' => close g vx vm && vec_close g m' x'
  | _, _ => false
  end.

Definition injrows (M : list (list (N * float))) : list (list (N * bv)) :=
  map (map (fun e => (fst e, inj (f2d (snd e))))) M.
Definition drows (M : list (list (N * float))) : list (list (N * dy)) :=
  map (map (fun e => (fst e, f2d (snd e)))) M.

Fixpoint leqN (a b : list N) : bool :=
  match a, b with [], [] => true | x :: a', y :: b' => N.eqb x y && leqN a' b' | _, _ => false end.
Fixpoint leqP (a b : list (nat * nat)) : bool :=
  match a, b with
  | [], [] => true
  | (x1, x2) :: a', (y1, y2) :: b' => Nat.eqb x1 y1 && Nat.eqb x2 y2 && leqP a' b'
  | _, _ => false
  end.
Fixpoint lall {A B : Type} (f : A -> B -> bool) (a : list A) (b : list B) : bool :=
  match a, b with [], [] => true | x :: a', y :: b' => f x y && lall f a' b' | _, _ => false end.

(* ------------------------------------------------------------------------- *)
(* one form of a case: level data + what the implementation returned *)
Record formdata := mk_form {
  fd_arity : nat;
  fd_lev : list (list (list (N * float)));      (* arity 2: full level matrices (rows) *)
  fd_blev : list (list float);                  (* arity 1: full level vectors *)
  fd_hb : option (list (list (N * float)));     (* assemble(.., symmetric=False), truncate=False *)
  fd_hb_sym : option (list (list (N * float)));
  fd_thb : option (list (list (N * float)));
  fd_thb_sym : option (list (list (N * float)));
  fd_vec_hb : option (list float);
  fd_vec_thb : option (list float);
  fd_calls : list (nat * list N * list (nat * nat)) }.   (* (k, rows, bbox) of every _assemble_level call, HB general run *)

Record ccase := mk_case {
  cc_axes : list axis;
  cc_disp : option nat;
  cc_ops : list op;
  cc_bds : bdspecs;
  cc_P : list (list (list (list (N * float))));  (* level -> axis -> rows *)
  cc_levels : list (list (list mi));          (* per level: active cells, deactivated cells, actfun, deactfun *)
  cc_cell_supp : list (list (list N));        (* cell_supp_indices(remove_dirichlet=False)[lv][i], raveled *)
  cc_T : option (list (list (N * float)));       (* thb_to_hb() *)
  cc_forms : list formdata;
  cc_entry_samples : list (nat * nat) }.      (* positions (i, j) of the flat function list at which the
                                                 sparse program is compared with the entry form blk_entry *)

Section Case.
Variable gamma : dy.
Variable c : ccase.

Definition st : hspace := run (hs_init (cc_axes c) (cc_disp c)) (cc_ops c).
Definition pm (lv d : nat) : list (list (N * bv)) := injrows (nth d (nth lv (cc_P c) []) []).

Definition state_ok : bool :=
  Nat.eqb (numlevels st) (length (cc_levels c)) &&
  forallb (fun k => let l := lvl st k in let e := nth k (cc_levels c) [] in
             set_eqb (lv_active l) (nth 0 e []) && set_eqb (lv_deact l) (nth 1 e []) &&
             set_eqb (lv_actfun l) (nth 2 e []) && set_eqb (lv_deactfun l) (nth 3 e []))
          (seq 0 (numlevels st)).

Definition cell_supp_ok : bool :=
  lall (fun lv row => lall (fun i e => leqN (map (ravel (shape st i)) (cell_supp st (cc_bds c) lv i)) e)
                           (seq 0 (numlevels st)) row)
       (seq 0 (numlevels st)) (cc_cell_supp c).

Definition T_model : list (list (N * bv)) := thb_to_hb bv b1 badd bmul bopp st pm.
Definition T_ok : bool :=
  match cc_T c with None => true | Some T => mat_close gamma T_model (drows T) end.

Section Form.
Variable f : formdata.
Definition al (k : nat) : list (list (N * bv)) := injrows (nth k (fd_lev f) []).
Definition bl (k : nat) : list bv := map (fun x => inj (f2d x)) (nth k (fd_blev f) []).

(* the rows / bounding boxes HDiscretization asked for, exactly *)
Definition calls_ok : bool :=
  lall (fun k call => let '(k', rows, bb) := call in
          Nat.eqb k k' && leqN (to_assemble_r bv st pm k) rows
          && leqP (bbox st k (to_assemble bv st pm k)) bb)
       (seq 0 (length (fd_calls f))) (fd_calls f).

Definition opt_mat_ok (truncate symm : bool) (o : option (list (list (N * float)))) : bool :=
  match o with
  | None => true
  | Some M => mat_close gamma (assemble_matrix bv b1 badd bmul bopp st pm al truncate symm) (drows M)
  end.
Definition opt_vec_ok (truncate : bool) (o : option (list float)) : bool :=
  match o with
  | None => true
  | Some x => vec_close gamma (assemble_functional bv b0 b1 badd bmul bopp st pm bl truncate) (map f2d x)
  end.

(* link between the sparse program and the entry form of the blocks (a test on sampled positions):
   rep l k f r is read off represent_fine with all rows, a k r c off the level matrix *)
Definition flat : list (nat * mi) := active_functions_flat st.
Definition a_fun (k : nat) (r cidx : mi) : bv :=
  sm_get bv b0 (al k) (ravel (shape st k) r) (ravel (shape st k) cidx).
Definition entries_ok (samples : list (nat * nat)) : bool :=
  let reps := map (fun k => represent_fine bv b1 badd bmul st pm k (Nseq (numbf st k)) false) (seq 0 (numlevels st)) in
  let M := assemble_hb bv b1 badd bmul st pm al false in
  let rep_fun (l k : nat) (fn r : mi) : bv :=
    match canon st l fn with
    | Some col => sm_get bv b0 (nth k reps []) (ravel (shape st k) r) col
    | None => b0
    end in
  let ils := map (interlevel bv st pm) (seq 0 (numlevels st)) in
  let tas := map (to_assemble bv st pm) (seq 0 (numlevels st)) in
  forallb (fun ij : nat * nat =>
    let fi := nth (fst ij) flat (0, []) in
    let fj := nth (snd ij) flat (0, []) in
    let e := blk_entry bv b0 badd bmul a_fun rep_fun (fun k i => nbr st k i) (fun k => nth k ils []) (fun k => nth k tas [])
                       false (fst fi) (snd fi) (fst fj) (snd fj) in
    deqb (fst e) (fst (sm_get bv b0 M (N.of_nat (fst ij)) (N.of_nat (snd ij))))) samples.

Definition form_code : nat :=
  (if Nat.eqb (fd_arity f) 2 then
     (if calls_ok then 0 else 4)
     + (if opt_mat_ok false false (fd_hb f) then 0 else 8)
     + (if opt_mat_ok false true (fd_hb_sym f) then 0 else 16)
     + (if opt_mat_ok true false (fd_thb f) then 0 else 32)
     + (if opt_mat_ok true true (fd_thb_sym f) then 0 else 64)
   else
     (if opt_vec_ok false (fd_vec_hb f) then 0 else 128)
     + (if opt_vec_ok true (fd_vec_thb f) then 0 else 256)).
End Form.

(* 0 = agreement; otherwise the sum of the codes of the components that disagree *)
Definition shared_code : nat :=
  if negb state_ok then 1
  else (if cell_supp_ok then 0 else 2)
       + (if T_ok then 0 else 512)
       + (match cc_forms c with
          | f :: _ => if entries_ok f (cc_entry_samples c) then 0 else 1024
          | [] => 0
          end).
Definition case_codes : list nat :=
  shared_code :: (if state_ok then map form_code (cc_forms c) else map (fun _ => 0) (cc_forms c)).
End Case.

(* one number for the shared part of each case followed by one number per form *)
Definition codes (gamma : dy) (cs : list ccase) : list nat := flat_map (case_codes gamma) cs.
