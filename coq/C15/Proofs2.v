(* C15 -- further lemmas (final round): supports of a knot vector are monotone;
   get_transpose_idx_for_bidx is the mirror involution. *)
From Coq Require Import ZArith List Bool Lia Arith Sorted.
From Verif.C15 Require Import Model Spec Proofs.
Import ListNotations.
Open Scope Z_scope.

(* ------------------------------------------------------------------------ *)
(* supports kv p of a non-decreasing knot vector                             *)
(* ------------------------------------------------------------------------ *)
Lemma sorted_map_seq : forall (f : nat -> Z) n a,
  (forall i j, (a <= i)%nat -> (i <= j)%nat -> (j < a + n)%nat -> f i <= f j) ->
  StronglySorted Z.le (map f (seq a n)).
Proof.
  induction n as [|n IH]; intros a H; simpl; constructor.
  - apply IH. intros i j Hi Hij Hj. apply H; lia.
  - apply Forall_forall. intros x Hx. apply in_map_iff in Hx. destruct Hx as (j & <- & Hj).
    apply in_seq in Hj. apply H; lia.
Qed.

Lemma sorted_nth_mono : forall (kv : list Z) i j, StronglySorted Z.le kv ->
  (i <= j)%nat -> (j < length kv)%nat -> nth i kv 0 <= nth j kv 0.
Proof.
  intros kv i j HS Hij Hj.
  assert (Hi : (i < length kv)%nat) by lia.
  apply (ss_mono kv i j); auto; apply nth_error_nth'; auto.
Qed.

(* a knot vector: non-decreasing, no knot repeated more than p+1 times *)
Definition knot_vector (kv : list Z) (p : nat) : Prop :=
  StronglySorted Z.le kv /\
  forall i, (i + p + 1 < length kv)%nat -> nth i kv 0 < nth (i + p + 1) kv 0.

Lemma supports_monotone_l : forall kv p, knot_vector kv p ->
  StronglySorted Z.le (map fst (supports kv p)) /\
  StronglySorted Z.le (map snd (supports kv p)) /\
  Forall nonempty_supp (supports kv p).
Proof.
  intros kv p [HS Hm]. unfold supports. rewrite !map_map. simpl. repeat split.
  - apply sorted_map_seq. intros i j _ Hij Hj. apply sorted_nth_mono; auto. lia.
  - apply sorted_map_seq. intros i j _ Hij Hj. apply sorted_nth_mono; auto; lia.
  - apply Forall_forall. intros s Hs. apply in_map_iff in Hs. destruct Hs as (i & <- & Hi).
    apply in_seq in Hi. unfold nonempty_supp. simpl. apply Hm. lia.
Qed.

(* the pattern of two spline spaces, stated on the knot vectors themselves *)
Lemma sparsity_knot_vectors_l : forall kv1 p1 kv2 p2,
  knot_vector kv1 p1 -> knot_vector kv2 p2 ->
  forall a b, In (a, b) (compute_sparsity_ij (supports kv1 p1) (supports kv2 p2)) <->
    (0 <= a /\ 0 <= b /\ exists s2 s1,
      nth_error (supports kv2 p2) (Z.to_nat a) = Some s2 /\
      nth_error (supports kv1 p1) (Z.to_nat b) = Some s1 /\ overlap s2 s1).
Proof.
  intros kv1 p1 kv2 p2 H1 H2.
  destruct (supports_monotone_l kv1 p1 H1) as (A1 & A2 & A3).
  destruct (supports_monotone_l kv2 p2 H2) as (_ & _ & B3).
  apply sparsity_spec_l; auto.
Qed.

(* ------------------------------------------------------------------------ *)
(* get_transpose_idx_for_bidx                                                *)
(* ------------------------------------------------------------------------ *)
(* position of the last entry of l whose mirror image is e *)
Fixpoint find_last (e : Z * Z) (l : pat) : option nat :=
  match l with
  | [] => None
  | e' :: l' =>
      match find_last e l' with
      | Some i => Some (S i)
      | None => if key_eqb (swap e') e then Some O else None
      end
  end.

Lemma last_index_of_find_last : forall e l k found,
  last_index_of e l k found =
  match find_last e l with Some i => Some (k + Z.of_nat i) | None => found end.
Proof.
  induction l as [|e' l IH]; intros k found; simpl; auto.
  rewrite IH. destruct (find_last e l) as [i|].
  - f_equal. lia.
  - destruct (key_eqb (swap e') e); auto. f_equal. lia.
Qed.

Lemma find_last_sound : forall e l i, find_last e l = Some i ->
  (i < length l)%nat /\ swap (nth i l (0, 0)) = e.
Proof.
  induction l as [|e' l IH]; intros i H; simpl in H; [discriminate|].
  destruct (find_last e l) as [i'|] eqn:E.
  - inversion H; subst. destruct (IH i' eq_refl). simpl. split; auto. lia.
  - destruct (key_eqb (swap e') e) eqn:K; [|discriminate]. inversion H; subst.
    apply key_eqb_eq in K. simpl. split; auto. lia.
Qed.

Lemma find_last_complete : forall e l j, (j < length l)%nat -> swap (nth j l (0, 0)) = e ->
  exists i, find_last e l = Some i.
Proof.
  induction l as [|e' l IH]; intros j Hj He; simpl in Hj; [lia|].
  simpl. destruct j as [|j].
  - simpl in He. destruct (find_last e l); eauto.
    replace (key_eqb (swap e') e) with true; eauto. symmetry. apply key_eqb_eq. auto.
  - simpl in He. destruct (IH j ltac:(lia) He) as (i & ->). eauto.
Qed.

Lemma swap_swap : forall e, swap (swap e) = e.
Proof. intros [a b]. reflexivity. Qed.

Lemma all_some_nth : forall {A : Type} (l : list (option A)) (t : list A) (d : A),
  all_some l = Some t ->
  length t = length l /\ forall k, (k < length l)%nat -> nth k l None = Some (nth k t d).
Proof.
  induction l as [|[a|] l IH]; intros t d H; simpl in H.
  - inversion H; subst. split; auto. intros; simpl in *; lia.
  - destruct (all_some l) as [r|] eqn:E; [|discriminate]. inversion H; subst.
    destruct (IH r d eq_refl) as [L N]. split; [simpl; lia|].
    intros [|k] Hk; simpl; auto. apply N. simpl in Hk. lia.
  - discriminate.
Qed.

(* On a duplicate-free level pattern, whenever get_transpose_idx_for_bidx answers (no
   KeyError) t[k] is the position of the mirrored entry, and t is an involution. *)
Lemma transpose_idx_involution_l : forall b t, NoDup b -> transpose_idx b = Some t ->
  length t = length b /\
  forall k, (k < length b)%nat ->
    let k' := Z.to_nat (nth k t 0) in
    0 <= nth k t 0 /\ (k' < length b)%nat /\
    nth k' b (0, 0) = swap (nth k b (0, 0)) /\
    nth k' t 0 = Z.of_nat k.
Proof.
  intros b t ND H. unfold transpose_idx in H.
  destruct (all_some_nth _ t 0 H) as [L N]. rewrite map_length in L, N. split; auto.
  assert (V : forall k, (k < length b)%nat ->
    exists i, find_last (nth k b (0, 0)) b = Some i /\ nth k t 0 = Z.of_nat i).
  { intros k Hk. specialize (N k Hk).
    rewrite (nth_indep _ None (last_index_of (0, 0) b 0 None)) in N by (rewrite map_length; auto).
    rewrite (map_nth (fun e => last_index_of e b 0 None) b (0, 0) k) in N.
    rewrite last_index_of_find_last in N.
    destruct (find_last (nth k b (0, 0)) b) as [i|]; [|discriminate].
    exists i. split; auto. inversion N. lia. }
  intros k Hk. cbv zeta.
  destruct (V k Hk) as (i & Fi & Ti). rewrite Ti. rewrite Nat2Z.id.
  destruct (find_last_sound _ _ _ Fi) as [Hi Si].
  assert (Bi : nth i b (0, 0) = swap (nth k b (0, 0))) by (rewrite <- Si; symmetry; apply swap_swap).
  split; [lia|]. split; auto. split; auto.
  destruct (V i Hi) as (i2 & Fi2 & Ti2). rewrite Ti2. f_equal.
  destruct (find_last_sound _ _ _ Fi2) as [Hi2 Si2].
  rewrite Bi, <- (swap_swap (nth k b (0, 0))) in Si2 at 1.
  assert (E : nth i2 b (0, 0) = nth k b (0, 0)).
  { rewrite <- (swap_swap (nth i2 b (0, 0))), Si2. rewrite !swap_swap. reflexivity. }
  apply (proj1 (NoDup_nth b (0, 0)) ND i2 k Hi2 Hk E).
Qed.

(* ... and it answers exactly on structurally symmetric patterns *)
Lemma transpose_idx_defined_l : forall b,
  (exists t, transpose_idx b = Some t) <-> (forall e, In e b -> In (swap e) b).
Proof.
  intros b. unfold transpose_idx. split.
  - intros [t H] e He. destruct (In_nth b e (0, 0) He) as (k & Hk & <-).
    destruct (all_some_nth _ t 0 H) as [L N]. rewrite map_length in N. specialize (N k Hk).
    rewrite (nth_indep _ None (last_index_of (0, 0) b 0 None)) in N by (rewrite map_length; auto).
    rewrite (map_nth (fun e => last_index_of e b 0 None) b (0, 0) k) in N.
    rewrite last_index_of_find_last in N.
    destruct (find_last (nth k b (0, 0)) b) as [i|] eqn:F; [|discriminate].
    destruct (find_last_sound _ _ _ F) as [Hi Si].
    rewrite <- Si, swap_swap. apply nth_In; auto.
  - intros Hs.
    assert (G : forall l, (forall e, In e l -> In (swap e) b) ->
              exists t, all_some (map (fun e => last_index_of e b 0 None) l) = Some t).
    { induction l as [|e l IH]; intros Hl; simpl; eauto.
      destruct IH as [t Ht]; [intros; apply Hl; right; auto|]. rewrite Ht.
      destruct (In_nth b (swap e) (0, 0) (Hl e (or_introl eq_refl))) as (j & Hj & Ej).
      destruct (find_last_complete e b j Hj) as (i & Fi); [rewrite Ej; apply swap_swap|].
      rewrite last_index_of_find_last, Fi. eauto. }
    apply G. auto.
Qed.
