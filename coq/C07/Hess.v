(* C07 -- NurbsFunc.grid_hessian, slot by slot: slot k of the result belongs to the pair
   (a, b) = triu_indices(sdim)[k] of xyz directions, it is built from slot k of the B-spline
   Hessians (which is the (a, b) second derivative, hessian_order) and from columns a, b of the
   Jacobians (which are the a / b first derivatives, jacobian_slot_order), and it satisfies the
   second-order Leibniz rule of  V = N W  in exactly these directions. *)
From Coq Require Import QArith Qcanon ZArith List Arith Bool Lia.
From Verif.lib Require Import Bsp.
From Verif.C07 Require Import Model Proofs.
Import ListNotations.
Open Scope Qc_scope.

Lemma nth_map_d {A B} (F : A -> B) l k d d' : (k < length l)%nat -> nth k (map F l) d = F (nth k l d').
Proof.
  intros H. rewrite (nth_indep _ d (F d')) by (rewrite map_length; exact H). apply map_nth.
Qed.

Lemma g_jac_length : forall f us c, length (g_jac f us c) = sdim f.
Proof. intros. unfold g_jac. rewrite map_length, rev_length, seq_length. reflexivity. Qed.

Lemma g_hess_length : forall f us c, length (g_hess f us c) = length (hess_pairs (sdim f)).
Proof. intros. unfold g_hess. apply map_length. Qed.

Lemma triu_length : forall d, length (triu d) = length (hess_pairs d).
Proof. intros. rewrite <- hess_order_l, map_length. reflexivity. Qed.

Lemma nth_nurbs_jac : forall V W Vj Wj a, (a < length Vj)%nat -> length Vj = length Wj ->
  nth a (nurbs_jac V W Vj Wj) 0 = nurbs_jac_entry V W (nth a Vj 0) (nth a Wj 0).
Proof.
  intros V W Vj Wj a Ha Hl. unfold nurbs_jac.
  rewrite (nth_map_d _ _ _ 0 (0, 0)) by (rewrite combine_length; lia).
  rewrite combine_nth by exact Hl. reflexivity.
Qed.

Lemma in_hess_pairs : forall d i j, In (i, j) (hess_pairs d) -> (i < d)%nat /\ (j <= i)%nat.
Proof.
  intros d i j H. unfold hess_pairs in H. apply in_flat_map in H. destruct H as [i' [Hi H]].
  apply in_map_iff in H. destruct H as [j' [E Hj]]. inversion E; subst.
  apply in_rev in Hi. apply in_rev in Hj. apply in_seq in Hi. apply in_seq in Hj. lia.
Qed.

Lemma in_triu : forall d a b, In (a, b) (triu d) -> (a <= b)%nat /\ (b < d)%nat.
Proof.
  intros d a b H. unfold triu in H. apply in_flat_map in H. destruct H as [a' [Ha H]].
  apply in_map_iff in H. destruct H as [b' [E Hb]]. inversion E; subst.
  apply in_seq in Ha. apply in_seq in Hb. lia.
Qed.

(* slot k: pair (a, b) of triu in xyz directions = pair (d-1-a, d-1-b) of knot-vector axes in hess_pairs *)
Lemma slot_pairs : forall d k a b, (k < length (triu d))%nat -> nth k (triu d) (0, 0)%nat = (a, b) ->
  (a <= b)%nat /\ (b < d)%nat /\ nth k (hess_pairs d) (0, 0)%nat = ((d - 1 - a)%nat, (d - 1 - b)%nat).
Proof.
  intros d k a b Hk E.
  assert (Hin : In (a, b) (triu d)) by (rewrite <- E; apply nth_In; exact Hk).
  destruct (in_triu _ _ _ Hin) as [Hab Hb]. split; [exact Hab|]. split; [exact Hb|].
  rewrite triu_length in Hk.
  pose proof (hess_order_l d) as O.
  assert (E2 : nth k (map (fun ij => (d - 1 - fst ij, d - 1 - snd ij)%nat) (hess_pairs d)) (0, 0)%nat = (a, b))
    by (rewrite O; exact E).
  rewrite (nth_map_d _ _ _ _ (0, 0)%nat) in E2 by exact Hk.
  destruct (nth k (hess_pairs d) (0, 0)%nat) as [i j] eqn:Eij.
  assert (Hin2 : In (i, j) (hess_pairs d)) by (rewrite <- Eij; apply nth_In; exact Hk).
  destruct (in_hess_pairs _ _ _ Hin2) as [Hi Hj]. cbn [fst snd] in E2. inversion E2; subst.
  f_equal; lia.
Qed.

Lemma nth_n_hess : forall f us c k, (k < length (triu (sdim f)))%nat ->
  nth k (n_hess f us c) 0 =
  let ab := nth k (triu (sdim f)) (0, 0)%nat in
  let V := g_val f us c in let W := g_val f us (wcomp f) in
  let Wj := g_jac f us (wcomp f) in let Nj := nurbs_jac V W (g_jac f us c) Wj in
  nurbs_hess_entry V W (nth k (g_hess f us c) 0) (nth k (g_hess f us (wcomp f)) 0)
                   (nth (fst ab) Nj 0) (nth (snd ab) Nj 0) (nth (fst ab) Wj 0) (nth (snd ab) Wj 0).
Proof.
  intros f us c k Hk. unfold n_hess. cbv zeta.
  set (G := fun t : nat * (nat * nat) => let '(k0, (a, b)) := t in _).
  rewrite (nth_map_d G _ _ 0 (0, (0, 0))%nat) by (rewrite combine_length, seq_length; lia).
  rewrite combine_nth by (rewrite seq_length; reflexivity).
  rewrite seq_nth by exact Hk. cbn [Nat.add]. unfold G.
  destruct (nth k (triu (sdim f)) (0, 0)%nat) as [a b]. reflexivity.
Qed.

Lemma nth_g_hess : forall f us c k, (k < length (hess_pairs (sdim f)))%nat ->
  nth k (g_hess f us c) 0 =
  let ij := nth k (hess_pairs (sdim f)) (0, 0)%nat in
  g_dir f 2 us (bump (bump (zerov (sdim f)) (fst ij)) (snd ij)) c.
Proof.
  intros f us c k Hk. unfold g_hess. cbv zeta.
  rewrite (nth_map_d _ _ _ 0 (0, 0)%nat) by exact Hk. reflexivity.
Qed.

(* the statement of the target: every slot of the NURBS Hessian is the (a, b) second derivative of
   N = V / W in the xyz directions (a, b) = triu_indices(sdim)[k] -- characterised, without division,
   by the Leibniz equations in which every B-spline quantity is the directional derivative g_dir along
   the knot vectors of these directions *)
Lemma nurbs_hessian_is_derivative_l : forall f us c k a b,
  (k < length (triu (sdim f)))%nat -> nth k (triu (sdim f)) (0, 0)%nat = (a, b) ->
  g_val f us (wcomp f) <> 0 ->
  let d := sdim f in let w := wcomp f in
  let D1 x := unitv d (d - 1 - x) in
  let D2 := bump (bump (zerov d) (d - 1 - a)) (d - 1 - b) in
  let W := g_val f us w in let N := n_val f us c in
  let Na := nth a (n_jac f us c) 0 in let Nb := nth b (n_jac f us c) 0 in
  let Nab := nth k (n_hess f us c) 0 in
  (a <= b)%nat /\ (b < d)%nat
  /\ Na * W + N * g_dir f 1 us (D1 a) w = g_dir f 1 us (D1 a) c
  /\ Nb * W + N * g_dir f 1 us (D1 b) w = g_dir f 1 us (D1 b) c
  /\ Nab * W + Na * g_dir f 1 us (D1 b) w + Nb * g_dir f 1 us (D1 a) w + N * g_dir f 2 us D2 w
     = g_dir f 2 us D2 c.
Proof.
  intros f us c k a b Hk E HW. cbv zeta.
  destruct (slot_pairs _ _ _ _ Hk E) as [Hab [Hb Ehp]].
  assert (Ha : (a < sdim f)%nat) by lia.
  split; [exact Hab|]. split; [exact Hb|].
  unfold n_jac. rewrite !nth_nurbs_jac by (rewrite !g_jac_length; lia).
  rewrite (nth_n_hess f us c k Hk). cbv zeta. rewrite E. cbn [fst snd].
  rewrite !nth_nurbs_jac by (rewrite !g_jac_length; lia).
  rewrite !(nth_g_hess f us _ k) by (rewrite <- triu_length; exact Hk). cbv zeta. rewrite Ehp. cbn [fst snd].
  rewrite !(jacobian_slot_order_l f us _ a Ha), !(jacobian_slot_order_l f us _ b Hb).
  unfold n_val, nurbs_hess_entry, nurbs_jac_entry.
  repeat split; field; exact HW.
Qed.
