(* C04 -- property theorems only.  Each is closed by [exact] of a lemma of Proofs.v and
   followed by Print Assumptions.

   Vocabulary (coq/C04/Model.v, Proofs.v):
     hs_init axes disp         HSpace(kvs, disparity=disp)
     run st ops                the state after a list of refine / refine_region calls
     ops_valid st ops          every refine call marks currently active cells (any levels, any
                               container, order, repetitions); refine_region calls are arbitrary
     A/D/AF/DF st k            active / deactivated cells, active / deactivated functions of level k
     parent1 c, anc n c        parent cell, n-fold ancestor of a cell multi-index *)
From Coq Require Import List Arith Sorted.
From Verif.lib Require Import FinSet.
From Verif.C04 Require Import Model Proofs ProofsFun.
Import ListNotations.

(* Invariant of every reachable state, for every dimension, degree, knot multiplicities,
   disparity (>= 1 or infinite) and every history of valid calls:
   active and deactivated cells of a level are disjoint, together they form Omega_k with
   Omega_0 = all cells and Omega_{k+1} = the children of the deactivated cells of level k,
   and the last level has no deactivated cells. *)
Theorem reachable_cells_inv : forall axes disp ops,
  (forall d, disp = Some d -> 1 <= d) ->
  ops_valid (hs_init axes disp) ops ->
  cells_inv (run (hs_init axes disp) ops).
Proof. exact reachable_cells_inv_l. Qed.
Print Assumptions reachable_cells_inv.

(* Active cells tile the parameter domain exactly once: every cell c of the finest level
   (given by its multi-index; its level-0 ancestor is a cell of the coarse mesh) has exactly
   one active ancestor-or-self. *)
Theorem active_cells_tile : forall axes disp ops n c,
  (forall d, disp = Some d -> 1 <= d) ->
  ops_valid (hs_init axes disp) ops ->
  let st := run (hs_init axes disp) ops in
  S n = numlevels st ->
  In (anc n c) (tp_cells (msh st 0)) ->
  exists k, k <= n /\ In (anc (n - k) c) (A st k) /\
    forall k', k' <= n -> In (anc (n - k') c) (A st k') -> k' = k.
Proof. exact active_cells_tile_l. Qed.
Print Assumptions active_cells_tile.

(* Canonical order: active_cells(flat=True) and active_functions(flat=True) are strictly
   increasing in (level, lexicographic multi-index) -- in particular without repetition --
   after every history (valid or not) ... *)
Theorem canonical_order : forall axes disp ops,
  let st := run (hs_init axes disp) ops in
  StronglySorted flat_lt (active_cells_flat st) /\ StronglySorted flat_lt (active_functions_flat st).
Proof. exact canonical_order_l. Qed.
Print Assumptions canonical_order.

(* ... and enumerate exactly the active cells / functions of the levels. *)
Theorem flat_lists_complete : forall st k x,
  (In (k, x) (active_cells_flat st) <-> k < numlevels st /\ In x (A st k)) /\
  (In (k, x) (active_functions_flat st) <-> k < numlevels st /\ In x (AF st k)).
Proof. exact flat_lists_complete_l. Qed.
Print Assumptions flat_lists_complete.

(* Activity characterisation, for every history of valid calls: a basis function f of level k
   is active iff its support lies in Omega_k (active + deactivated cells of level k) but not
   entirely in Omega_{k+1} (= the deactivated cells of level k), and deactivated iff it lies
   entirely in the deactivated cells.
   PARTIAL: under the hypothesis hier_ok that on every level of the dyadic hierarchy the table
   suppfunc (_compute_supported_functions) is dual to meshsupp (mesh_support_idx_all), supports
   are non-empty and inside the mesh. *)
Theorem activity_characterisation_partial : forall axes disp ops,
  (forall d, disp = Some d -> 1 <= d) ->
  hier_ok (tpmesh_of axes) ->
  ops_valid (hs_init axes disp) ops ->
  funcs_inv (run (hs_init axes disp) ops).
Proof. exact activity_characterisation_l. Qed.
Print Assumptions activity_characterisation_partial.
(* NOT PROVED: activity_characterisation = the same statement with hier_ok replaced by
     Forall (fun a => 1 <= ax_p a /\ every multiplicity of a <= ax_p a + 1 /\ 2 <= length (ax_mults a)) axes.
   Missing: forall such axes and all j, mesh_ok (Nat.iter j tp_refine (tpmesh_of axes)) -- monotonicity of
   the knot-to-mesh map, the interval form of {j : cell k in supp j}, its lifting to tensor products.
   The tables of every level are compared with the implementation's in the correspondence run, and
   Examples.ex_tables_consistent_test evaluates the hypothesis on levels 0..2 of an example (a test). *)

(* One refinement step preserves the characterisation (the induction step, no hierarchy-wide
   hypothesis: only the meshes present in the state are assumed consistent). *)
Theorem activity_characterisation_step : forall st m,
  cells_inv st -> marks_valid st m -> meshes_fine st -> cells_len st -> cells_len (refined st m) ->
  funcs_inv st -> funcs_inv (refined st m).
Proof. exact funcs_inv_refined. Qed.
Print Assumptions activity_characterisation_step.

(* The result of HSpace.refine does not depend on the container type, the order or the
   repetitions in which the marked cells of each level are given (behaviour after
   fixes/C04-marks-container.patch; the unpatched source raises TypeError for list/tuple
   marks with finite disparity). *)
Theorem marks_any_container : forall st r1 r2 trunc,
  raw_equiv r1 r2 -> hs_refine st r1 trunc = hs_refine st r2 trunc.
Proof. exact marks_any_container_l. Qed.
Print Assumptions marks_any_container.

(* Disparity-preserving marking, the part that is proved: the closure terminates (fuel
   bounded by the level), contains the caller's marks, and consists of currently active
   cells with none on the last level -- so the refinement it triggers is again a valid one. *)
Theorem disparity_admissible_partial : forall st raw trunc st' m,
  good st -> raw_valid st raw -> hs_refine st raw trunc = Ok (st', m) ->
  exists mx, max_marked_level raw = Some mx /\
    let st1 := ensure_levels st (mx + 2) in
    st' = refined st1 m /\ marks_valid st1 m /\
    (forall k c, In c (marks_get raw k) -> In c (mk m k)).
Proof. exact hs_refine_spec. Qed.
Print Assumptions disparity_admissible_partial.
(* NOT PROVED: disparity_admissible
     forall axes d ops, 1 <= d -> ops_valid (hs_init axes (Some d)) ops -> (all calls with trunc = false) ->
     admissible_b (run (hs_init axes (Some d)) ops) d = true
   i.e. no active function of level k is non-zero on an active cell of level > k + d.
   Missing: the inductive argument of Bracco-Giannelli-Vazquez that the neighbourhood
   closure keeps the mesh admissible.  Covered by exploration only: admissible_b is
   evaluated on the implementation's state (geometric oracle) after every call of every
   history of the correspondence run. *)

(* NOT PROVED (rational-matrix conjuncts, tie only): thb_partition_of_unity, thb_nonneg,
   hb_thb_inverse, hb_thb_same_space, hb_independent.  The model has no rational part;
   the harness checks them on the implementation within MAT_TOL (harness/props/c04.py). *)
