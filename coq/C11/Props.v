(* C11 -- property theorems only.  Each is closed by [exact] of a lemma of
   Proofs.v / MGProofs.v and followed by Print Assumptions.  Arithmetic is exact
   (Qc, the ordered field of canonical rationals; every binary64 input is such a number). *)
From Coq Require Import QArith Qcanon List Arith Bool ZArith.
From Verif.C11 Require Import Spec Algebra Model Proofs MGProofs MGEnergy SmoothSets SmoothSets2 SmoothSets3.
From Verif.C04 Require Model Boundary Proofs ProofsMesh.
Import ListNotations.
Open Scope Qc_scope.

(* solvers.gauss_seidel -- for a dense matrix or a CSR triple, any number of
   iterations, with or without an index list, forward/backward/symmetric -- performs
   exactly the row updates of [gs_order] (base order, reversed, or base followed by
   reversed, repeated `iterations` times), in that order, and nothing else. *)
Theorem gs_update_order : forall A x b iterations indices sw,
  gauss_seidel A x b iterations indices sw =
  fold_left (row_update A b) (gs_order (mat_rows A) iterations indices sw) x.
Proof. exact gauss_seidel_order. Qed.
Print Assumptions gs_update_order.

(* Sparse: every such row update is the textbook update
     x_i := (b_i - sum_{j<>i} a_ij x_j) / a_ii
   of the matrix the CSR triple denotes, for every CSR whose relaxed rows have column
   indices in range, at most ONE stored diagonal entry and a nonzero diagonal value.
   Explicit zeros, unsorted column indices and repeated off-diagonal coordinates are allowed. *)
Theorem gs_textbook : forall M N x b iterations indices sw,
  (forall i, In i (base_order N indices) -> wf_row N i (row_entries M i) /\ entry M i i <> 0) ->
  gauss_seidel (Sparse M N) x b iterations indices sw =
  fold_left (tb_row N (entry M) b) (gs_order N iterations indices sw) x.
Proof. exact gs_textbook_sparse_l. Qed.
Print Assumptions gs_textbook.

(* Dense: the same for the dense branch (square matrix, matching lengths). *)
Theorem gs_textbook_dense : forall D x b iterations indices sw,
  length x = length D ->
  (forall i, In i (base_order (length D) indices) -> (i < length D)%nat /\ length (drow D i) = length D) ->
  gauss_seidel (Dense D) x b iterations indices sw =
  fold_left (tb_row (length D) (dentry D) b) (gs_order (length D) iterations indices sw) x.
Proof. exact gs_textbook_dense_l. Qed.
Print Assumptions gs_textbook_dense.

(* Dense and sparse routines agree whenever they denote the same relaxed rows. *)
Theorem gs_dense_sparse_agree : forall M D x b iterations indices sw,
  length x = length D ->
  (forall i, In i (base_order (length D) indices) ->
      (i < length D)%nat /\ length (drow D i) = length D /\
      wf_row (length D) i (row_entries M i) /\ entry M i i <> 0 /\
      (forall j, (j < length D)%nat -> dentry D i j = entry M i j)) ->
  gauss_seidel (Dense D) x b iterations indices sw =
  gauss_seidel (Sparse M (length D)) x b iterations indices sw.
Proof. exact gs_dense_sparse_agree_l. Qed.
Print Assumptions gs_dense_sparse_agree.

(* A row whose single stored diagonal entry is zero, or which stores no diagonal
   entry, is skipped by the sparse routine. *)
Theorem gs_zero_diagonal_skipped : forall M n b x i,
  wf_row n i (row_entries M i) -> entry M i i = 0 -> gs_row M b x i = x.
Proof. exact gs_row_skip. Qed.
Print Assumptions gs_zero_diagonal_skipped.

(* Non-canonical CSR (outside the property's quantifier, stated to make the boundary of
   gs_textbook explicit).  For ANY row with column indices in range the routine computes
   x_i := (b_i - sum_{j<>i} a_ij x_j) / d with a_ij the DENOTED off-diagonal entries (repeated
   coordinates summed) and d the LAST stored diagonal entry (rows with d = 0 are skipped) ... *)
Theorem gs_row_noncanonical : forall M n b x i,
  (forall c a, In (c, a) (row_entries M i) -> (c < n)%nat) ->
  gs_row M b x i =
    let d := last_diag i (row_entries M i) 0 in
    if Qc_eq_dec d 0 then x
    else upd i ((vget b i - sum_skip n i (fun j => entry M i j * vget x j)) / d) x.
Proof. exact gs_row_general_l. Qed.
Print Assumptions gs_row_noncanonical.

(* ... where the last stored diagonal entry is the a of the decomposition
   row = pre ++ (i,a) :: post with no diagonal entry in post, whatever pre contains ... *)
Theorem gs_duplicate_diagonal_uses_last : forall M n b x i pre a post,
  row_entries M i = pre ++ (i, a) :: post -> diag_count i post = O -> a <> 0 ->
  (forall c v, In (c, v) (row_entries M i) -> (c < n)%nat) ->
  gs_row M b x i = upd i ((vget b i - sum_skip n i (fun j => entry M i j * vget x j)) / a) x.
Proof. exact gs_row_last_diagonal_l. Qed.
Print Assumptions gs_duplicate_diagonal_uses_last.

(* ... while the denoted diagonal value is a plus the diagonal entries stored before it: the
   update is the textbook one exactly when those earlier entries sum to zero ... *)
Theorem gs_duplicate_diagonal_denoted_value : forall M i pre a post,
  row_entries M i = pre ++ (i, a) :: post -> diag_count i post = O ->
  entry M i i = ent_sum pre i + a.
Proof. exact gs_row_last_diagonal_textbook_iff_l. Qed.
Print Assumptions gs_duplicate_diagonal_denoted_value.

(* ... and it does differ: a CSR with two stored diagonal entries on which the routine is
   not the textbook update of the denoted matrix (gs_textbook's hypothesis cannot be dropped). *)
Theorem gs_duplicate_diagonal_refuted :
  exists M n b x i,
    (forall c a, In (c, a) (row_entries M i) -> (c < n)%nat) /\ entry M i i <> 0 /\
    gs_row M b x i <> tb_row n (entry M) b x i.
Proof. exact gs_duplicate_diagonal_refuted_l. Qed.
Print Assumptions gs_duplicate_diagonal_refuted.

(* An exact solution (of the relaxed rows) is left unchanged: sparse and dense. *)
Theorem gs_fixed_point : forall M N xs b iterations indices sw,
  (forall i, In i (base_order N indices) ->
      (i < N)%nat /\ wf_row N i (row_entries M i) /\ entry M i i <> 0 /\
      mv N (entry M) (vget xs) i = vget b i) ->
  gauss_seidel (Sparse M N) xs b iterations indices sw = xs.
Proof. exact gs_fixed_point_sparse_l. Qed.
Print Assumptions gs_fixed_point.

Theorem gs_fixed_point_dense : forall D xs b iterations indices sw,
  length xs = length D ->
  (forall i, In i (base_order (length D) indices) ->
      (i < length D)%nat /\ length (drow D i) = length D /\ dentry D i i <> 0 /\
      mv (length D) (dentry D) (vget xs) i = vget b i) ->
  gauss_seidel (Dense D) xs b iterations indices sw = xs.
Proof. exact gs_fixed_point_dense_l. Qed.
Print Assumptions gs_fixed_point_dense.

(* Restricted to an index list (or not), only the listed unknowns change -- for
   every matrix whatsoever. *)
Theorem gs_indexed_only_touches : forall A x b iterations indices sw k,
  ~ In k (base_order (mat_rows A) indices) ->
  vget (gauss_seidel A x b iterations indices sw) k = vget x k.
Proof. exact gs_only_touches_l. Qed.
Print Assumptions gs_indexed_only_touches.

(* Energy: for a symmetric matrix with positive diagonal on the relaxed rows and
   any xs solving those rows, no sweep of any kind increases
   E(x) = (x-xs)^T A (x-xs).  (SPD matrices are a special case; semi-definite ones
   with positive diagonal are covered as well: E is then a semi-norm.) *)
Theorem gs_energy_monotone : forall M N x xs b iterations indices sw,
  symmetric N (entry M) -> length x = N ->
  (forall i, In i (base_order N indices) ->
      (i < N)%nat /\ wf_row N i (row_entries M i) /\ 0 < entry M i i /\
      mv N (entry M) (vget xs) i = vget b i) ->
  energy N (entry M) (vget xs) (vget (gauss_seidel (Sparse M N) x b iterations indices sw))
  <= energy N (entry M) (vget xs) (vget x).
Proof. exact gs_energy_sparse_l. Qed.
Print Assumptions gs_energy_monotone.

Theorem gs_energy_monotone_dense : forall D x xs b iterations indices sw,
  symmetric (length D) (dentry D) -> length x = length D ->
  (forall i, In i (base_order (length D) indices) ->
      (i < length D)%nat /\ length (drow D i) = length D /\ 0 < dentry D i i /\
      mv (length D) (dentry D) (vget xs) i = vget b i) ->
  energy (length D) (dentry D) (vget xs) (vget (gauss_seidel (Dense D) x b iterations indices sw))
  <= energy (length D) (dentry D) (vget xs) (vget x).
Proof. exact gs_energy_dense_l. Qed.
Print Assumptions gs_energy_monotone_dense.

(* The energy identity behind it, for ANY subspace correction d (one coordinate for
   Gauss-Seidel, an index set for the exact smoother and the coarsest-level solve):
   if on the support of d the corrected equations hold, E(x+d) = E(x) - d^T A d. *)
Theorem subspace_correction_energy_identity : forall n A b xs x d,
  symmetric n A ->
  (forall k, (k < n)%nat -> d k = 0 \/ (mv n A d k = b k - mv n A x k /\ mv n A xs k = b k)) ->
  energy n A xs (fun k => x k + d k) = energy n A xs x - dotn n d (mv n A d).
Proof. exact subspace_correction_energy. Qed.
Print Assumptions subspace_correction_energy_identity.

(* Local multigrid cycle (solvers.local_mg_step), any number of levels >= 2, any of the five
   smoothers, any number of smoothing steps, any prolongators and smoothing sets satisfying
   [good] (dimensions fit; smoothing sets lie in D and have nonzero diagonal; the exact
   sub-solvers map 0 to 0, as every linear solver does; restriction P^T maps vectors vanishing
   on D to vectors vanishing on the coarser level's set): a vector whose residual f - A x
   vanishes on D -- the exact discrete solution, D = the non-Dirichlet dofs -- is returned
   unchanged by one cycle. *)
Theorem mg_fixed_point : forall sm steps ind0 B0 L rest n D x f,
  good ind0 B0 n D (L :: rest) -> length x = n -> length f = n ->
  vanishes D (vsub f (dmv (lvA L) x)) ->
  mg_step sm steps ind0 B0 (L :: rest) x f = x.
Proof. exact mg_fixed_point_l. Qed.
Print Assumptions mg_fixed_point.

(* One level (numlevels = 1): the cycle is the direct solve on lv_inds[0]; x is returned
   unchanged exactly under the hypothesis the code needs: x already carries the solve's
   result there (true for the exact solution with homogeneous Dirichlet values). *)
Theorem mg_fixed_point_one_level : forall sm steps ind0 B0 x f,
  gather ind0 x = B0 (gather ind0 f) -> mg_step sm steps ind0 B0 [] x f = x.
Proof. exact mg_one_level_l. Qed.
Print Assumptions mg_fixed_point_one_level.

(* The cycle with exact subspace solves (smoother = exact) never increases the energy, for
   every number of levels >= 2, every number of smoothing steps, every prolongators.
   Hypotheses [goodE]: the operators of the coarser levels are the Galerkin products
   (P^T A) P as local_mg_step computes them, dimensions fit, the smoothing sets are
   repetition-free index lists in range, and each sub-solver B satisfies make_solver's contract
   A[idx][:,idx] (B r) = r.  A is symmetric positive semi-definite (dsym, dpsd).
   J form (no exact solution needed): J(x) = x^T A x - 2 x^T f. *)
Theorem mg_exact_J_monotone : forall steps ind0 B0 L rest n A x f,
  goodE ind0 B0 n A (L :: rest) -> dsym n A -> dpsd n A -> length x = n -> length f = n ->
  Jl A f (mg_step SmExact steps ind0 B0 (L :: rest) x f) <= Jl A f x.
Proof. exact mg_exact_J_monotone_l. Qed.
Print Assumptions mg_exact_J_monotone.

(* energy-norm error form, xs an exact solution of the whole system *)
Theorem mg_exact_energy_monotone : forall steps ind0 B0 L rest n A x f xs,
  goodE ind0 B0 n A (L :: rest) -> dsym n A -> dpsd n A ->
  length x = n -> length f = n -> length xs = n -> dmv A xs = f ->
  energy n (dentry A) (vget xs) (vget (mg_step SmExact steps ind0 B0 (L :: rest) x f))
  <= energy n (dentry A) (vget xs) (vget x).
Proof. exact mg_exact_energy_monotone_l. Qed.
Print Assumptions mg_exact_energy_monotone.

(* the same when xs solves only the unconstrained rows (Dirichlet dofs kept in the matrix, as
   solve_hmultigrid does) and the iterate vanishes on the other rows before and after the cycle *)
Theorem mg_exact_energy_monotone_dirichlet : forall steps ind0 B0 L rest n A x f xs,
  goodE ind0 B0 n A (L :: rest) -> dsym n A -> dpsd n A ->
  length x = n -> length f = n ->
  let y := mg_step SmExact steps ind0 B0 (L :: rest) x f in
  (forall k, (k < n)%nat -> vget x k = 0 \/ mv n (dentry A) (vget xs) k = vget f k) ->
  (forall k, (k < n)%nat -> vget y k = 0 \/ mv n (dentry A) (vget xs) k = vget f k) ->
  energy n (dentry A) (vget xs) (vget y) <= energy n (dentry A) (vget xs) (vget x).
Proof. exact mg_exact_energy_monotone_dirichlet_l. Qed.
Print Assumptions mg_exact_energy_monotone_dirichlet.

(* the list-matrix algebra behind it: the operator local_mg_step forms, dmm (dmm (dtrans P) A) P,
   has the entries of P^T A P, is symmetric / positive semi-definite with A, and the coarse-grid
   correction splits J: J(x + P y) = J(x) + J_c(y) with the restricted residual as right-hand side *)
Theorem galerkin_product_entries : forall P A n nc a b,
  wfmat P n nc -> wfmat A n n -> (a < nc)%nat -> (b < nc)%nat ->
  dentry (galerkin P A) a b = fgal n (dentry P) (dentry A) a b.
Proof. exact dentry_galerkin. Qed.
Print Assumptions galerkin_product_entries.

Theorem coarse_correction_splits_J : forall A P n nc x f y,
  wfmat A n n -> wfmat P n nc -> dsym n A -> length x = n -> length f = n -> length y = nc ->
  Jl A f (vadd x (dmv P y)) =
  Jl A f x + Jl (galerkin P A) (dmv (dtrans P) (vsub f (dmv A x))) y.
Proof. exact coarse_correction_J. Qed.
Print Assumptions coarse_correction_splits_J.

(* a single exact subspace solve, in energy form (function level) *)
Theorem exact_subspace_solve_energy : forall n A b xs x d,
  symmetric n A -> psd n A ->
  (forall k, (k < n)%nat -> d k = 0 \/ (mv n A d k = b k - mv n A x k /\ mv n A xs k = b k)) ->
  energy n A xs (fun k => x k + d k) <= energy n A xs x.
Proof. exact exact_correction_energy. Qed.
Print Assumptions exact_subspace_solve_energy.


(* iterative_solve (and with it solve_hmultigrid, which calls it with the local
   multigrid cycle as `step`) returns (x, k) only when x is the k-th iterate, the
   residual reduction res(x)/res(x0) < tol holds and did not hold for any earlier
   iterate; it returns (x, inf) only when x is the iterate number max(1,maxiter)
   and the reduction was never met.  For every step function and residual norm. *)
Theorem iterative_solve_stops : forall (X : Type) (step : X -> X) (res : X -> Qc) x0 tol maxiter x r,
  iterative_solve step res x0 tol maxiter = (x, r) ->
  let conv := fun y => res y / res x0 < tol in
  match r with
  | Finite k => (1 <= k <= Nat.max 1 maxiter)%nat /\ x = iter k step x0 /\ conv x /\
                (forall j, (1 <= j < k)%nat -> ~ conv (iter j step x0))
  | Inf => x = iter (Nat.max 1 maxiter) step x0 /\
           (forall j, (1 <= j <= Nat.max 1 maxiter)%nat -> ~ conv (iter j step x0))
  end.
Proof. exact @iterative_solve_stops_l. Qed.
Print Assumptions iterative_solve_stops.

(* twogrid (with the repaired `u0 is not None` test) starts from the vector it is
   given -- any vector -- and leaves its loop after k <= maxiter+1 cycles for exactly
   one of the three stated reasons, judged on the residual after the smoothing steps. *)
Theorem twogrid_accepts_u0_and_stops : forall (X : Type) (smooth : X -> X) (res : X -> Qc) (correct : X -> X)
    zeros u0 tol maxiter ur k e,
  twogrid_loop smooth res correct zeros u0 tol maxiter = (ur, k, e) ->
  let start := match u0 with Some v => v | None => zeros end in
  exists m, (1 <= m <= S maxiter)%nat /\ k = m /\ ur = iter m (cycle smooth correct) start /\
    let r := res (smooth (iter (m - 1) (cycle smooth correct) start)) in
    match e with
    | Converged => r < tol * res start
    | Diverged => tol * res start <= r /\ Q2Qc 20 * res start < r
    | TooMany => tol * res start <= r /\ r <= Q2Qc 20 * res start /\ (maxiter < k)%nat
    end.
Proof. exact @twogrid_stops_l. Qed.
Print Assumptions twogrid_accepts_u0_and_stops.

(* Smoothing sets on the C04 model of HSpace (coq/C04/Model.v, Boundary.v: new_indices,
   cell_supp_indices, _dirichlet_indices, global_indices, raveled_to_virtual_canonical_indices
   with _position_index).  For EVERY hspace state st (no invariant needed), boundary
   specification, virtual level lv and both modelled strategies: whenever indices_to_smooth
   returns (Some S; None models the ValueError of list.index), every index of S is a valid
   position of the level's dof list vflat, none of them is a Dirichlet dof, and every function
   new on the level (active or deactivated on level lv) that is not on the Dirichlet boundary
   occupies a position that is in S. *)
Theorem smoothing_sets_spec : forall st bds lv S,
  (Boundary.smooth_new st bds lv = Some S \/ Boundary.smooth_cell_supp st bds lv = Some S) ->
  (forall p, In p S -> (p < length (vflat st lv))%nat) /\
  (forall D, Boundary.dirichlet_dofs st bds lv = Some D -> forall p, In p S -> ~ In p D) /\
  ((lv < Model.numlevels st)%nat ->
   forall x, (In x (Model.lv_actfun (Model.lvl st lv)) \/ In x (Model.lv_deactfun (Model.lvl st lv))) ->
             ~ In x (Boundary.index_dirichlet st bds lv lv) ->
   exists p, In p S /\ nth_error (vflat st lv) p = Some (lv, x)).
Proof. exact smoothing_sets_spec_l. Qed.
Print Assumptions smoothing_sets_spec.

(* The same for ALL FOUR strategies.  func_supp and trunc are modelled in coq/C11/SmoothSets2.v
   on top of C04's model of HMesh.function_children / function_grandparents (coq/C04/Children.v)
   and are compared exactly with indices_to_smooth('func_supp'/'trunc') on every run. *)
Theorem smoothing_sets_spec_all : forall st bds lv S,
  (Boundary.smooth_new st bds lv = Some S \/ smooth_trunc st bds lv = Some S \/
   smooth_func_supp st bds lv = Some S \/ Boundary.smooth_cell_supp st bds lv = Some S) ->
  (forall p, In p S -> (p < length (vflat st lv))%nat) /\
  (forall D, Boundary.dirichlet_dofs st bds lv = Some D -> forall p, In p S -> ~ In p D) /\
  ((lv < Model.numlevels st)%nat ->
   forall x, (In x (Model.lv_actfun (Model.lvl st lv)) \/ In x (Model.lv_deactfun (Model.lvl st lv))) ->
             ~ In x (Boundary.index_dirichlet st bds lv lv) ->
   exists p, In p S /\ nth_error (vflat st lv) p = Some (lv, x)).
Proof. exact smoothing_sets_spec_all_l. Qed.
Print Assumptions smoothing_sets_spec_all.

(* what func_supp / trunc add on a coarser level i < lv inside the disparity window: exactly the
   non-Dirichlet active functions of level i that are (grand)parents of active functions of level
   lv, resp. whose not yet absorbed descendants meet the functions of level lv *)
Theorem func_supp_coarse_part : forall st bds disp lv i x,
  (i < lv)%nat -> Boundary.in_window disp lv i = true ->
  (In x (func_supp_indices st bds disp lv i) <->
   In x (Children.function_grandparents st (lv - i) lv (Model.lv_actfun (Model.lvl st lv))) /\
   In x (Model.lv_actfun (Model.lvl st i)) /\ ~ In x (Boundary.index_dirichlet st bds lv i)).
Proof. exact func_supp_coarse_spec. Qed.
Print Assumptions func_supp_coarse_part.

Theorem trunc_coarse_part : forall st bds disp lv i x,
  (i < lv)%nat -> Boundary.in_window disp lv i = true ->
  (In x (trunc_indices st bds disp lv i) <->
   In x (Model.lv_actfun (Model.lvl st i)) /\ trunc_selected st i (lv - i - 1) x = true /\
   ~ In x (Boundary.index_dirichlet st bds lv i)).
Proof. exact trunc_coarse_spec. Qed.
Print Assumptions trunc_coarse_part.

(* dirichlet_dofs(lv) are positions holding functions of the Dirichlet index sets *)
Theorem dirichlet_dofs_spec : forall st bds lv D, Boundary.dirichlet_dofs st bds lv = Some D ->
  forall p, In p D -> exists l x, nth_error (vflat st lv) p = Some (l, x) /\
                                   In x (Boundary.index_dirichlet st bds lv l).
Proof. exact dirichlet_dofs_spec_l. Qed.
Print Assumptions dirichlet_dofs_spec.

(* The position search of raveled_to_virtual_canonical_indices (_position_index: list.index
   from the last hit) SUCCEEDS -- for the four strategies and for dirichlet_dofs, on every virtual
   level -- whenever the level sets of the state are sorted (C04.all_sorted) ... *)
Theorem position_search_succeeds : forall st bds lv, Proofs.all_sorted st ->
  (exists S, Boundary.smooth_new st bds lv = Some S) /\ (exists S, smooth_trunc st bds lv = Some S) /\
  (exists S, smooth_func_supp st bds lv = Some S) /\ (exists S, Boundary.smooth_cell_supp st bds lv = Some S) /\
  (exists D, Boundary.dirichlet_dofs st bds lv = Some D).
Proof. exact position_search_succeeds_l. Qed.
Print Assumptions position_search_succeeds.

(* ... and every dof of the virtual level has exactly ONE position when, in addition, the active
   and deactivated functions of level lv are disjoint ... *)
Theorem dof_position_unique : forall st lv, Proofs.all_sorted st ->
  (forall x, In x (Model.lv_actfun (Model.lvl st lv)) -> ~ In x (Model.lv_deactfun (Model.lvl st lv))) ->
  forall p q d, nth_error (vflat st lv) p = Some d -> nth_error (vflat st lv) q = Some d -> p = q.
Proof. exact position_unique_l. Qed.
Print Assumptions dof_position_unique.

(* ... both of which hold on every state reachable from a valid tensor-product mesh by valid
   refinement calls (C04: all_sorted_run, activity_characterisation).  Together with
   smoothing_sets_spec_all: on reachable states indices_to_smooth(strategy)[lv] is defined for all
   four strategies, consists of valid indices, contains THE index of every new non-Dirichlet dof
   and the index of no Dirichlet dof. *)
Theorem reachable_positions : forall axes disp ops bds lv,
  Forall ProofsMesh.axis_ok axes -> (forall d, disp = Some d -> 1 <= d)%nat ->
  Proofs.ops_valid (Model.hs_init axes disp) ops ->
  let st := Model.run (Model.hs_init axes disp) ops in
  ((exists S, Boundary.smooth_new st bds lv = Some S) /\ (exists S, smooth_trunc st bds lv = Some S) /\
   (exists S, smooth_func_supp st bds lv = Some S) /\ (exists S, Boundary.smooth_cell_supp st bds lv = Some S) /\
   (exists D, Boundary.dirichlet_dofs st bds lv = Some D)) /\
  NoDup (vflat st lv) /\
  (forall p q d, nth_error (vflat st lv) p = Some d -> nth_error (vflat st lv) q = Some d -> p = q).
Proof. exact reachable_positions_l. Qed.
Print Assumptions reachable_positions.

(* For any further strategy, the set-level statement: for every disparity, sets act/deact of the
   level, candidate set F (whatever the strategy computes) and Dirichlet set: no Dirichlet function
   is smoothed, every non-Dirichlet function new on the level is, and nothing else than new
   functions and candidates is.  (Historic name; nothing about the smoothing sets is left
   unproved: see smoothing_sets_spec_all, position_search_succeeds, dof_position_unique,
   reachable_positions.)
   STILL NOT PROVED for C11 as a whole: convergence of twogrid / the multigrid drivers for SPD
   problems (an analytic fact; evaluated on the implementation on every run) and convergence rates. *)
Theorem smoothing_sets_spec_partial : forall st disp act deact F dir lv,
  (forall i k, In k (smoothing_set st disp act deact F dir lv i) -> ~ In k dir) /\
  (forall k, In k act \/ In k deact -> ~ In k dir -> In k (smoothing_set st disp act deact F dir lv lv)) /\
  (forall i k, In k (smoothing_set st disp act deact F dir lv i) ->
      (i = lv /\ (In k act \/ In k deact)) \/ (i < lv /\ In k F)%nat).
Proof. exact smoothing_sets_partial_l. Qed.
Print Assumptions smoothing_sets_spec_partial.
