import json,sys
pid=sys.argv[1]
props={json.loads(l)['id']:json.loads(l) for l in open('/verif/properties.jsonl')}
p=props[pid]
wt='/tmp/mut-%s' % pid
print(f"""You are helping to evaluate a verification effort by seeding realistic defects into a Python/Cython library. The library is c-f-h/pyiga (isogeometric analysis toolbox: B-splines, THB-splines, a variational-form compiler generating Cython assemblers, multigrid, Runge-Kutta). You get one semantic property that the library is supposed to satisfy, and your job is to write TWO DIFFERENT small source changes, each of which BREAKS that property while the code still builds and the library's existing test-suite still passes.

THE PROPERTY ({pid} — {p['title']}):
{p['statement']}
It is meant to hold for: {p['quantifier']['text']}
Code it is anchored in: {', '.join(p['anchors']['files'])}

RULES
* Work ONLY in your own scratch git worktree: `git -C /repo worktree add --detach {wt} HEAD` (then `cd {wt}`). Never edit /repo itself. Do NOT read or use anything under /verif (the verification machinery must stay unknown to you, so that your changes are independent of what it can already detect).
* Build the extensions in the worktree once: `cd {wt} && /venv/bin/python setup.py build_ext --inplace -j4` (about 1 minute; rebuild only if you change a .pyx/.pxi/.pxd/.cc file). Run things against the worktree with `cd {wt} && PYTHONPATH={wt} XDG_CACHE_HOME=/tmp/mut-{pid}-cache PYTHONHASHSEED=0 /venv/bin/python ...` and verify `pyiga.__file__` points into {wt}. No network; nothing can be installed.
* Existing test-suite: `cd {wt} && PYTHONPATH={wt} XDG_CACHE_HOME=/tmp/mut-{pid}-cache /venv/bin/python -m pytest -q -p no:cacheprovider --timeout=900 test` (191 tests, 1-5 min). It must pass completely WITH each of your changes applied (each change separately).
* Each change should be a realistic bug a maintainer could introduce (an off-by-one in an index computation, a wrong branch for a corner case, a dropped term, a swapped axis, a stale cache key, a missing merge, a non-atomic write, a wrong coefficient ...), small (a few lines), in the library code (not in tests), and it should need something SPECIFIC to manifest — an unusual input, a multi-step sequence of operations, a particular interleaving or crash point, two cooperating sites that each look fine alone — not something ordinary use or the existing tests would expose at once. The two changes must be in different functions/mechanisms.
* For each change write a demonstration: a small standalone Python program `demo.py` that exits non-zero (with a message explaining what property conjunct is violated, on which input) when run against the changed code and exits 0 when run against the unchanged code. Verify both directions yourself (apply the patch / `git stash` or `git checkout -- .` to undo).

DELIVER, for change k = 1, 2, a directory /tmp/mut-out/{pid}-k/ containing:
  patch.diff   (`git diff` output against HEAD, applies with `git apply` at the repository root),
  demo.py      (as above; run as `PYTHONPATH=<tree> /venv/bin/python demo.py`),
  meta.json    {{"property": "{pid}", "summary": "...what was changed...", "needs": "...what it needs in order to manifest...", "conjunct": "...which part of the property breaks...", "tests_passed": true, "commands": ["...what you ran..."]}}
When done, remove your worktree and cache: `git -C /repo worktree remove --force {wt}; rm -rf /tmp/mut-{pid}-cache`. Final message: a short description of both changes and confirmation of what you verified.""")
