(* C19 -- proofs about the model of coq/C19/Model.v. *)
From Coq Require Import QArith Qcanon ZArith List Arith Bool Lia Lqa Permutation ZifyNat.
From Verif.lib Require Import Bsp NpCore NpQ.
From Verif.C02 Require Import Proofs.
From Verif.C19 Require Import Model.
Import ListNotations.
Ltac Zify.zify_post_hook ::= Z.to_euclidean_division_equations.
Open Scope Qc_scope.

(* ------------------------------------------------------------------ *)
(* make_knots *)

Definition bpidx (p n mult i : nat) : nat :=
  if (i <? p + 1)%nat then 0%nat
  else if (i <? p + 1 + mult * (n - 1))%nat then S ((i - (p + 1)) / mult)
  else n.

Lemma make_knots_layout p a b n mult :
  make_knots p a b n mult = layout a b (sl_1_m1 (linspace_q a b (n + 1))) (p + 1) mult.
Proof. reflexivity. Qed.

Lemma inner_length a b n : length (sl_1_m1 (linspace_q a b (n + 1))) = (n - 1)%nat.
Proof. rewrite sl_1_m1_length, linspace_length. lia. Qed.

Lemma make_knots_length_l p a b n mult :
  length (make_knots p a b n mult) = (2 * (p + 1) + mult * (n - 1))%nat.
Proof. rewrite make_knots_layout, layout_length, inner_length, (Nat.mul_comm mult). lia. Qed.

Lemma make_knots_numdofs_l p a b n mult :
  numdofs (make_knots p a b n mult) p = (p + 1 + mult * (n - 1))%nat.
Proof. unfold numdofs. rewrite make_knots_length_l. set (k := (mult * (n - 1))%nat). lia. Qed.

Lemma kn_make_knots p a b n mult i : (1 <= n)%nat -> (1 <= mult)%nat ->
  (i < 2 * (p + 1) + mult * (n - 1))%nat ->
  kn (make_knots p a b n mult) i = a + natq (bpidx p n mult i) * ((b - a) / natq n).
Proof.
  intros Hn Hm Hi. unfold kn. rewrite make_knots_layout.
  rewrite nth_layout by (rewrite ?inner_length, ?(Nat.mul_comm (n - 1) mult); lia).
  rewrite inner_length, (Nat.mul_comm (n - 1) mult). unfold bpidx.
  destruct (Nat.ltb_spec i (p + 1)) as [L|L].
  - rewrite natq_0. ring.
  - destruct (Nat.ltb_spec i (p + 1 + mult * (n - 1))) as [L2|L2].
    + assert (Hd : ((i - (p + 1)) / mult < n - 1)%nat) by (apply Nat.div_lt_upper_bound; lia).
      rewrite nth_sl_1_m1 by (rewrite linspace_length; lia).
      rewrite nth_linspace by lia. replace (n + 1 - 1)%nat with n by lia. reflexivity.
    + field. apply natq_neq0. lia.
Qed.

Lemma bpidx_mono p n mult i j : (1 <= n)%nat -> (1 <= mult)%nat -> (i <= j)%nat ->
  (bpidx p n mult i <= bpidx p n mult j)%nat.
Proof.
  intros Hn Hm Hij. unfold bpidx.
  destruct (Nat.ltb_spec i (p + 1)); [lia|].
  destruct (Nat.ltb_spec j (p + 1)); [lia|].
  destruct (Nat.ltb_spec i (p + 1 + mult * (n - 1)));
  destruct (Nat.ltb_spec j (p + 1 + mult * (n - 1))); try lia.
  - apply le_n_S. apply Nat.div_le_mono; lia.
  - assert (((i - (p + 1)) / mult < n - 1)%nat) by (apply Nat.div_lt_upper_bound; lia). lia.
Qed.

Lemma bp_le a b n i j : a < b -> (1 <= n)%nat -> (i <= j)%nat ->
  a + natq i * ((b - a) / natq n) <= a + natq j * ((b - a) / natq n).
Proof.
  intros Hab Hn Hij. pose proof (step_pos a b n Hab ltac:(lia)) as Hh.
  set (h := (b - a) / natq n) in *. clearbody h.
  pose proof (natq_le i j Hij). qcq. nra.
Qed.

Lemma bp_lt a b n i j : a < b -> (1 <= n)%nat -> (i < j)%nat ->
  a + natq i * ((b - a) / natq n) < a + natq j * ((b - a) / natq n).
Proof.
  intros Hab Hn Hij. pose proof (step_pos a b n Hab ltac:(lia)) as Hh.
  set (h := (b - a) / natq n) in *. clearbody h.
  pose proof (natq_lt i j Hij). qcq. nra.
Qed.

Lemma make_knots_sorted_l p a b n mult : a < b -> (1 <= n)%nat -> (1 <= mult)%nat ->
  sorted (make_knots p a b n mult).
Proof.
  intros Hab Hn Hm i j Hij Hj. rewrite make_knots_length_l in Hj.
  rewrite !kn_make_knots by lia. apply bp_le; try assumption. apply bpidx_mono; assumption.
Qed.

Lemma make_knots_kv_ok_l p a b n mult : a < b -> (1 <= n)%nat -> (1 <= mult)%nat ->
  kv_ok (make_knots p a b n mult) p.
Proof.
  intros Hab Hn Hm.
  assert (Hlen := make_knots_length_l p a b n mult).
  constructor.
  - rewrite Hlen. nia.
  - apply make_knots_sorted_l; assumption.
  - rewrite !kn_make_knots by nia. unfold bpidx.
    destruct (Nat.ltb_spec p (p + 1)); [|nia]. destruct (Nat.ltb_spec 0 (p + 1)); [|nia]. reflexivity.
  - rewrite Hlen. rewrite !kn_make_knots by nia. unfold bpidx.
    destruct (Nat.ltb_spec (2 * (p + 1) + mult * (n - 1) - p - 1) (p + 1)); [nia|].
    destruct (Nat.ltb_spec (2 * (p + 1) + mult * (n - 1) - p - 1) (p + 1 + mult * (n - 1))); [nia|].
    destruct (Nat.ltb_spec (2 * (p + 1) + mult * (n - 1) - 1) (p + 1)); [nia|].
    destruct (Nat.ltb_spec (2 * (p + 1) + mult * (n - 1) - 1) (p + 1 + mult * (n - 1))); [nia|].
    reflexivity.
  - rewrite Hlen. rewrite !kn_make_knots by nia. apply bp_lt; try assumption.
    unfold bpidx.
    destruct (Nat.ltb_spec (2 * (p + 1) + mult * (n - 1) - p - 1) (p + 1)); [nia|].
    destruct (Nat.ltb_spec (2 * (p + 1) + mult * (n - 1) - p - 1) (p + 1 + mult * (n - 1))); [nia|].
    destruct (Nat.ltb_spec (2 * (p + 1) + mult * (n - 1) - p - 2) (p + 1)); [nia|].
    destruct (Nat.ltb_spec (2 * (p + 1) + mult * (n - 1) - p - 2) (p + 1 + mult * (n - 1))); [|nia].
    assert (((2 * (p + 1) + mult * (n - 1) - p - 2 - (p + 1)) / mult < n - 1)%nat)
      by (apply Nat.div_lt_upper_bound; nia).
    nia.
Qed.

(* the mesh of make_knots is the list of break points *)
Lemma runs_values {A} (a b : A) inner (q m : nat) :
  map fst ((a, q) :: map (fun x => (x, m)) inner ++ [(b, q)]) = a :: inner ++ [b].
Proof.
  cbn [map fst]. f_equal. rewrite map_app, map_map. cbn [map fst]. rewrite map_id. reflexivity.
Qed.

Lemma linspace_decompose a b n : (1 <= n)%nat ->
  linspace_q a b (n + 1) = a :: sl_1_m1 (linspace_q a b (n + 1)) ++ [b].
Proof.
  intros Hn. rewrite (ends_decompose (linspace_q a b (n + 1)) 0) at 1 by (rewrite linspace_length; lia).
  rewrite linspace_length. rewrite linspace_first by lia. rewrite linspace_last by lia. reflexivity.
Qed.

Lemma make_knots_mesh_l p a b n mult : a < b -> (1 <= n)%nat -> (1 <= mult)%nat ->
  mesh (make_knots p a b n mult) = linspace_q a b (n + 1).
Proof.
  intros Hab Hn Hm. unfold mesh, np_unique.
  rewrite sort_id by (apply idx_sortedb; apply make_knots_sorted_l; assumption).
  rewrite make_knots_layout, layout_expand.
  assert (Hv : map fst ((a, (p + 1)%nat) :: map (fun x => (x, mult)) (sl_1_m1 (linspace_q a b (n + 1))) ++ [(b, (p + 1)%nat)])
               = linspace_q a b (n + 1)).
  { rewrite runs_values. symmetry. apply linspace_decompose. exact Hn. }
  rewrite dedup_expand.
  - exact Hv.
  - apply forallb_forall. intros [x k] Hx. cbn [fst snd]. rewrite qeqb_refl. cbn [andb].
    apply Nat.ltb_lt. destruct Hx as [Hx|Hx]; [injection Hx as <- <-; lia|].
    apply in_app_or in Hx. destruct Hx as [Hx|Hx].
    + apply in_map_iff in Hx. destruct Hx as [y [Hy _]]. injection Hy as <- <-. lia.
    + destruct Hx as [Hx|[]]. injection Hx as <- <-. lia.
  - rewrite Hv. apply (adjb_of_nth _ _ 0). intros i Hi. rewrite linspace_length in Hi.
    apply negb_true_iff. apply qeqb_false_iff. apply Qclt_not_eq.
    apply linspace_lt; [exact Hab|lia|lia].
Qed.

Lemma make_knots_numspans_l p a b n mult : a < b -> (1 <= n)%nat -> (1 <= mult)%nat ->
  numspans (make_knots p a b n mult) = n.
Proof.
  intros. unfold numspans. rewrite make_knots_mesh_l by assumption. rewrite linspace_length. lia.
Qed.

Lemma make_knots_equispaced_l p a b n mult i : a < b -> (1 <= n)%nat -> (1 <= mult)%nat -> (i <= n)%nat ->
  nth i (mesh (make_knots p a b n mult)) 0 = a + natq i * ((b - a) / natq n) /\
  nth n (mesh (make_knots p a b n mult)) 0 = b.
Proof.
  intros Hab Hn Hm Hi. rewrite make_knots_mesh_l by assumption. split.
  - rewrite nth_linspace by lia. replace (n + 1 - 1)%nat with n by lia. reflexivity.
  - replace n with (n + 1 - 1)%nat at 1 by lia. apply linspace_last. lia.
Qed.

(* findspan on the constructed knot vector (C02's theorem instantiated) *)
Lemma make_knots_findspan_l p a b n mult u : a < b -> (1 <= n)%nat -> (1 <= mult)%nat ->
  a <= u -> u <= b ->
  let kv := make_knots p a b n mult in
  let s := findspan kv p u in
  (p <= s)%nat /\ (s < length kv - p - 1)%nat /\ kn kv s < kn kv (S s) /\
  kn kv s <= u /\ (u < kn kv (S s) \/ (u = b /\ kn kv (S s) = b)).
Proof.
  intros Hab Hn Hm Hu0 Hu1 kv s.
  pose proof (make_knots_kv_ok_l p a b n mult Hab Hn Hm) as Hok.
  assert (Hlen := make_knots_length_l p a b n mult).
  assert (H0 : kn kv 0 = a).
  { unfold kv. rewrite kn_make_knots by nia. unfold bpidx.
    destruct (Nat.ltb_spec 0 (p + 1)); [|lia]. rewrite natq_0. ring. }
  assert (H1 : kn kv (length kv - 1) = b).
  { unfold kv. rewrite Hlen. rewrite kn_make_knots by nia. unfold bpidx.
    destruct (Nat.ltb_spec (2 * (p + 1) + mult * (n - 1) - 1) (p + 1)); [nia|].
    destruct (Nat.ltb_spec (2 * (p + 1) + mult * (n - 1) - 1) (p + 1 + mult * (n - 1))); [nia|].
    field. apply natq_neq0. lia. }
  pose proof (findspan_spec_l kv p u Hok) as F. rewrite H0, H1 in F.
  exact (F Hu0 Hu1).
Qed.

(* ------------------------------------------------------------------ *)
(* mesh, knots_to_mesh and the queries built on them (any knot vector) *)

Lemma mesh_strict_l kv : adjb qltb (mesh kv) = true.
Proof. apply unique_strict. Qed.

Lemma mesh_In kv x : In x (mesh kv) <-> In x kv.
Proof. apply unique_In. Qed.

Lemma k2m_length kv : length (knots_to_mesh kv) = length kv.
Proof. unfold knots_to_mesh, np_unique_inverse. apply map_length. Qed.

Lemma k2m_nth kv i : (i < length kv)%nat ->
  nth i (knots_to_mesh kv) 0%nat = index_of qeqb (kn kv i) (mesh kv).
Proof.
  intros Hi. unfold knots_to_mesh, np_unique_inverse, mesh, kn.
  rewrite (nth_indep _ 0%nat (index_of qeqb 0 (np_unique kv))) by (rewrite map_length; exact Hi).
  rewrite (map_nth (fun x => index_of qeqb x (np_unique kv))). reflexivity.
Qed.

Lemma k2m_mesh_l kv i : (i < length kv)%nat ->
  (nth i (knots_to_mesh kv) 0 < length (mesh kv))%nat /\
  nth (nth i (knots_to_mesh kv) 0%nat) (mesh kv) 0 = kn kv i.
Proof.
  intros Hi. rewrite k2m_nth by exact Hi. apply index_of_nth.
  apply mesh_In. unfold kn. apply nth_In. exact Hi.
Qed.

Lemma k2m_eq_iff kv i j : (i < length kv)%nat -> (j < length kv)%nat ->
  (nth i (knots_to_mesh kv) 0%nat = nth j (knots_to_mesh kv) 0%nat <-> kn kv i = kn kv j).
Proof.
  intros Hi Hj. split.
  - intros E. destruct (k2m_mesh_l kv i Hi) as [_ A]. destruct (k2m_mesh_l kv j Hj) as [_ B].
    rewrite <- A, <- B, E. reflexivity.
  - intros E. rewrite !k2m_nth by assumption. rewrite E. reflexivity.
Qed.

Lemma support_mesh_support_l kv p j : (j + p + 1 < length kv)%nat ->
  let '(lo, hi) := mesh_support_idx kv p j in
  (nth lo (mesh kv) 0, nth hi (mesh kv) 0) = support kv p j.
Proof.
  intros H. unfold mesh_support_idx, support_idx, support. cbn [fst snd].
  destruct (k2m_mesh_l kv j ltac:(lia)) as [_ A]. destruct (k2m_mesh_l kv (j + p + 1) H) as [_ B].
  rewrite A, B. reflexivity.
Qed.

(* the literal numpy forms of the source, brought to index form *)
Lemma mesh_support_idx_all_unfold kv p :
  mesh_support_idx_all kv p =
  map (fun se => (nth (fst se) (knots_to_mesh kv) 0%nat, nth (snd se) (knots_to_mesh kv) 0%nat))
      (combine (seq 0 (numdofs kv p)) (seq (p + 1) (numdofs kv p))).
Proof.
  unfold mesh_support_idx_all, np_take2, np_stack2, np_arange_nat.
  replace (numdofs kv p - 0)%nat with (numdofs kv p) by lia.
  replace (numdofs kv p + p + 1 - (p + 1))%nat with (numdofs kv p) by lia. reflexivity.
Qed.

Lemma mesh_span_indices_unfold kv :
  mesh_span_indices kv =
  filter (fun i => negb (Nat.eqb (nth (S i) (knots_to_mesh kv) 0%nat) (nth i (knots_to_mesh kv) 0%nat)))
         (seq 0 (length (knots_to_mesh kv) - 1)).
Proof.
  unfold mesh_span_indices, np_where_ne, sl_from1, sl_to_m1.
  rewrite length_tl, length_removelast, Nat.min_id.
  apply filter_ext_in. intros i Hi. apply in_seq in Hi.
  rewrite nth_tl, nth_removelast by lia. reflexivity.
Qed.

Lemma mesh_support_idx_all_l kv p j : (j < numdofs kv p)%nat ->
  nth j (mesh_support_idx_all kv p) (0%nat, 0%nat) = mesh_support_idx kv p j /\
  length (mesh_support_idx_all kv p) = numdofs kv p.
Proof.
  intros Hj. rewrite mesh_support_idx_all_unfold. unfold mesh_support_idx, support_idx. cbn [fst snd].
  set (k2m := knots_to_mesh kv). set (n := numdofs kv p) in *.
  split.
  - set (f := fun se : nat * nat => (nth (fst se) k2m 0%nat, nth (snd se) k2m 0%nat)).
    rewrite (nth_indep _ (0%nat, 0%nat) (f (0%nat, 0%nat)))
      by (rewrite map_length, combine_length, !seq_length; lia).
    rewrite (map_nth f). rewrite combine_nth by (rewrite !seq_length; reflexivity).
    rewrite !seq_nth by exact Hj. unfold f. cbn [fst snd plus].
    replace (p + 1 + j)%nat with (j + p + 1)%nat by lia. reflexivity.
  - rewrite map_length, combine_length, !seq_length. lia.
Qed.

Lemma span_indices_In kv i :
  In i (mesh_span_indices kv) <-> ((S i < length kv)%nat /\ kn kv i <> kn kv (S i)).
Proof.
  rewrite mesh_span_indices_unfold. rewrite filter_In, in_seq, k2m_length. split.
  - intros [Hi H]. assert (Hl : (S i < length kv)%nat) by lia. split; [exact Hl|].
    apply negb_true_iff in H. apply Nat.eqb_neq in H. intros E. apply H.
    apply k2m_eq_iff; [exact Hl|lia|]. symmetry. exact E.
  - intros [Hl H]. split; [lia|]. apply negb_true_iff. apply Nat.eqb_neq. intros E. apply H.
    symmetry. apply (k2m_eq_iff kv (S i) i); [exact Hl|lia|exact E].
Qed.

Lemma span_indices_sorted_In kv i : kv_valid kv = true ->
  (In i (mesh_span_indices kv) <-> ((S i < length kv)%nat /\ kn kv i < kn kv (S i))).
Proof.
  intros Hv. rewrite span_indices_In. apply sortedb_idx in Hv.
  split; intros [Hl H]; (split; [exact Hl|]).
  - destruct (Qcle_lt_or_eq _ _ (Hv i (S i) ltac:(lia) Hl)); [assumption|contradiction].
  - apply Qclt_not_eq. exact H.
Qed.

Lemma span_indices_length_l kv : kv_valid kv = true -> kv <> [] ->
  length (mesh_span_indices kv) = numspans kv.
Proof.
  intros Hv Hne. unfold numspans, mesh, np_unique. rewrite sort_id by exact Hv.
  rewrite dedup_length by exact Hne. rewrite <- njumps_filter.
  rewrite mesh_span_indices_unfold. rewrite k2m_length.
  replace (S (length (filter (fun i => negb (qeqb (kn kv i) (kn kv (S i)))) (seq 0 (length kv - 1)))) - 1)%nat
    with (length (filter (fun i => negb (qeqb (kn kv i) (kn kv (S i)))) (seq 0 (length kv - 1)))) by lia.
  f_equal. apply filter_ext_in. intros i Hi. apply in_seq in Hi. f_equal.
  destruct (qeqb (kn kv i) (kn kv (S i))) eqn:E.
  - apply qeqb_iff in E. apply Nat.eqb_eq. symmetry. apply k2m_eq_iff; [lia|lia|exact E].
  - apply qeqb_false_iff in E. apply Nat.eqb_neq. intros E2. apply E.
    symmetry. apply (k2m_eq_iff kv (S i) i); [lia|lia|exact E2].
Qed.

Lemma findspan_listed_l kv p u : kv_valid kv = true -> kv_ok kv p ->
  kn kv 0 <= u -> u <= kn kv (length kv - 1) -> In (findspan kv p u) (mesh_span_indices kv).
Proof.
  intros Hv Hok H0 H1. destruct (findspan_spec_l kv p u Hok H0 H1) as [A [B [C _]]].
  apply span_indices_sorted_In; [exact Hv|]. split; [lia|exact C].
Qed.

(* ------------------------------------------------------------------ *)
(* refine *)

Lemma refine_sorted_union_l kv new_knots :
  Permutation (refine kv new_knots) (kv ++ new_knots) /\ kv_valid (refine kv new_knots) = true.
Proof. unfold refine, kv_valid. split; [apply sort_perm|apply sort_sorted]. Qed.

Lemma refine_length_l kv new_knots : length (refine kv new_knots) = (length kv + length new_knots)%nat.
Proof.
  rewrite (Permutation_length (proj1 (refine_sorted_union_l kv new_knots))). apply app_length.
Qed.

(* ------------------------------------------------------------------ *)
(* __eq__ *)

Lemma qleb_false_lt a b : qleb a b = false -> b < a.
Proof.
  intros H. apply Qcnot_le_lt. intros L. apply NpQ.qleb_iff in L. congruence.
Qed.

Lemma qabs_sub_sym x y : qabs (x - y) = qabs (y - x).
Proof.
  unfold qabs. destruct (qleb 0 (x - y)) eqn:E1; destruct (qleb 0 (y - x)) eqn:E2;
    try apply NpQ.qleb_iff in E1; try apply NpQ.qleb_iff in E2;
    try apply qleb_false_lt in E1; try apply qleb_false_lt in E2; qcq; lra.
Qed.

Lemma qabs_nonneg x : 0 <= qabs x.
Proof.
  unfold qabs. destruct (qleb 0 x) eqn:E; [apply NpQ.qleb_iff in E; exact E|].
  apply qleb_false_lt in E. qcq. lra.
Qed.

Lemma qmax_comm x y : qmax x y = qmax y x.
Proof.
  unfold qmax. destruct (qleb x y) eqn:E1; destruct (qleb y x) eqn:E2; try reflexivity.
  - apply NpQ.qleb_iff in E1, E2. apply Qcle_antisym; assumption.
  - apply qleb_false_lt in E1, E2. exfalso. revert E1. apply Qcle_not_lt. apply Qclt_le_weak. exact E2.
Qed.

Lemma qmax_ge_l x y : x <= qmax x y.
Proof.
  unfold qmax. destruct (qleb x y) eqn:E; [apply NpQ.qleb_iff in E; exact E|apply Qcle_refl].
Qed.

Lemma tol_pos : 0 < tol.
Proof. reflexivity. Qed.

Lemma isclose_sym_comm x y : isclose_sym tol tol x y = isclose_sym tol tol y x.
Proof. unfold isclose_sym. rewrite qabs_sub_sym, qmax_comm. reflexivity. Qed.

Lemma isclose_sym_refl x : isclose_sym tol tol x x = true.
Proof.
  unfold isclose_sym. apply NpQ.qleb_iff.
  replace (x - x) with 0 by ring.
  assert (H0 : qabs 0 = 0) by reflexivity. rewrite H0.
  pose proof (qabs_nonneg x) as Hx. pose proof (qmax_ge_l (qabs x) (qabs x)) as Hm.
  pose proof tol_pos as Ht. set (m := qmax (qabs x) (qabs x)) in *. clearbody m.
  set (t := tol) in *. clearbody t. set (ax := qabs x) in *. clearbody ax.
  qcq. nra.
Qed.

Lemma all2_refl r l : (forall x, r x x = true) -> all2 r l l = true.
Proof. intros H. induction l; cbn; [reflexivity|]. rewrite H, IHl. reflexivity. Qed.

Lemma all2_sym r x y : (forall a b, r a b = r b a) -> all2 r x y = all2 r y x.
Proof.
  intros H. revert y. induction x as [|a x IH]; intros [|b y]; cbn; try reflexivity.
  rewrite H, IH. reflexivity.
Qed.

Lemma eq_refl_l kv p : kv_eq kv p kv p = true.
Proof.
  unfold kv_eq, kv_eq_with. rewrite !Nat.eqb_refl. cbn [andb].
  apply all2_refl. apply isclose_sym_refl.
Qed.

Lemma eq_sym_l kv1 p1 kv2 p2 : kv_eq kv1 p1 kv2 p2 = kv_eq kv2 p2 kv1 p1.
Proof.
  unfold kv_eq, kv_eq_with. rewrite (Nat.eqb_sym p1 p2), (Nat.eqb_sym (length kv1) (length kv2)).
  f_equal. apply all2_sym. apply isclose_sym_comm.
Qed.

(* the np.allclose form of the unrepaired source is not symmetric *)
Definition w_kv1 : list Qc := map Q2Qc [0; 0; 1; 2; 2]%Q.
Definition w_kv2 : list Qc := map Q2Qc [0; 0; 1 + (20000000100000000 # 1000000000000000000000000); 2; 2]%Q.
Lemma eq_sym_old_refuted_l :
  exists kv1 kv2 p, kv_eq_old kv1 p kv2 p = true /\ kv_eq_old kv2 p kv1 p = false.
Proof. exists w_kv1, w_kv2, 1%nat. split; vm_compute; reflexivity. Qed.
