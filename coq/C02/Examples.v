(* C02 -- non-vacuity: the hypotheses of every theorem of Props.v are met by a concrete,
   non-trivial input (a degree-2 open knot vector with a double interior knot and unequal spans),
   and the objects the theorems talk about take non-trivial values there. *)
From Coq Require Import QArith Qcanon ZArith List Arith Lia.
From Verif.lib Require Import Bsp.
From Verif.C02 Require Import Proofs Proofs_ref Proofs_ndu Proofs_single Proofs_deriv Proofs_tp.
Import ListNotations.
Open Scope Qc_scope.

Definition q (n : Z) (d : positive) : Qc := Q2Qc (n # d).
Definition ex_kv := map (fun z => q z 4) [0;0;0;1;2;2;4;4;4]%Z.

Example ex_open : open_kv ex_kv 2 = true.
Proof. vm_compute. reflexivity. Qed.

Example ex_findspan_knot : findspan ex_kv 2 (q 2 4) = 5%nat.   (* on a double knot: the span to its right *)
Proof. vm_compute. reflexivity. Qed.

Example ex_findspan_end : findspan ex_kv 2 (q 4 4) = 5%nat.    (* right end: last non-empty span *)
Proof. vm_compute. reflexivity. Qed.

(* hypotheses of findspan_spec, N_local, N_partition_of_unity, dN_sum_zero, active_values_eq_spec,
   ndu_divisors_pos, colloc_row_values: kv_ok and u in the closed domain *)
Example ex_kv_ok : kv_ok ex_kv 2.
Proof. apply open_kv_ok_l. exact ex_open. Qed.

Example ex_sorted : sorted ex_kv.
Proof. exact (ok_sorted _ _ ex_kv_ok). Qed.

Example ex_domain : kn ex_kv 0 <= q 3 8 /\ q 3 8 <= kn ex_kv (length ex_kv - 1).
Proof. split; apply qleb_iff; vm_compute; reflexivity. Qed.

Example ex_domain_knot : kn ex_kv 0 <= q 2 4 /\ q 2 4 <= kn ex_kv (length ex_kv - 1).
Proof. split; apply qleb_iff; vm_compute; reflexivity. Qed.

Example ex_domain_end : kn ex_kv 0 <= q 4 4 /\ q 4 4 <= kn ex_kv (length ex_kv - 1).
Proof. split; apply qleb_iff; vm_compute; reflexivity. Qed.

(* hypothesis of findspan_unique (u strictly below the right end, t a span containing u) *)
Example ex_unique_hyp : q 3 8 < kn ex_kv (length ex_kv - 1) /\ (S 3 < length ex_kv)%nat /\
  kn ex_kv 3 <= q 3 8 /\ q 3 8 < kn ex_kv 4.
Proof.
  split; [apply qltb_iff; vm_compute; reflexivity|]. split; [vm_compute; lia|].
  split; [apply qleb_iff|apply qltb_iff]; vm_compute; reflexivity.
Qed.

(* index hypotheses: every basis function index i < numdofs = 6 satisfies i + p + 1 < length *)
Example ex_index : (numdofs ex_kv 2 = 6)%nat /\ (5 + 2 + 1 < length ex_kv)%nat.
Proof. vm_compute. split; [reflexivity|lia]. Qed.

(* N_support_knots / N_local: a function that is non-zero, one that is outside the active range *)
Example ex_nonzero : this (Nref ex_kv 2 2 (q 3 8)) = (5 # 8)%Q /\ Nref ex_kv 2 2 (q 3 8) <> 0.
Proof. split; [vm_compute; reflexivity|]. intro H. apply (f_equal this) in H. vm_compute in H. discriminate. Qed.

Example ex_outside : ~ (findspan ex_kv 2 (q 3 8) - 2 <= 5 <= findspan ex_kv 2 (q 3 8))%nat.
Proof. vm_compute. lia. Qed.

(* the active values (model of active_ev) at an interior point, on the double knot and at the right end *)
Example ex_active : map this (active_ev ex_kv 2 (q 3 8)) = [1 # 8; 5 # 8; 1 # 4]%Q.
Proof. vm_compute. reflexivity. Qed.
Example ex_active_knot : map this (active_ev ex_kv 2 (q 2 4)) = [1; 0; 0]%Q.
Proof. vm_compute. reflexivity. Qed.
Example ex_active_end : map this (active_ev ex_kv 2 (q 4 4)) = [0; 0; 1]%Q.
Proof. vm_compute. reflexivity. Qed.

(* dN_sum_zero / dN_high_zero: k = 1, 2 with non-zero summands; k = 3 > p = 2 *)
Example ex_dN : map (fun i => this (dNref ex_kv 1 2 i (q 3 8))) (seq 0 6) = [0; -2; -2; 4; 0; 0]%Q.
Proof. vm_compute. reflexivity. Qed.
Example ex_d2N : map (fun i => this (dNref ex_kv 2 2 i (q 3 8))) (seq 0 6) = [0; 16; -48; 32; 0; 0]%Q.
Proof. vm_compute. reflexivity. Qed.
Example ex_high : (2 < 3)%nat.
Proof. lia. Qed.

(* ndu_divisors_pos: r < j <= p *)
Example ex_div : (0 < 1)%nat /\ (1 <= 2)%nat /\
  this (get2 (ndu_table ex_kv 2 (findspan ex_kv 2 (q 3 8)) (q 3 8)) 1 0) = (1 # 4)%Q.
Proof. split; [lia|]. split; [lia|]. vm_compute. reflexivity. Qed.

(* single_ev_eq_spec: open_kv and the index bound; a non-trivial value, both special cases *)
Example ex_single : map (fun i => this (single_ev ex_kv 2 i (q 3 8))) (seq 0 6) = [0; 1 # 8; 5 # 8; 1 # 4; 0; 0]%Q /\
  this (single_ev ex_kv 2 0 (q 0 4)) = 1%Q /\ this (single_ev ex_kv 2 5 (q 4 4)) = 1%Q /\
  this (single_ev ex_kv 2 4 (q 4 4)) = 0%Q.
Proof. vm_compute. repeat split; reflexivity. Qed.

(* colloc_row_spec / colloc_row_values: full rows of orders 0, 1, 2 *)
Example ex_colloc : map this (colloc_row ex_kv 2 0 (q 3 8)) = [0; 1 # 8; 5 # 8; 1 # 4; 0; 0]%Q.
Proof. vm_compute. reflexivity. Qed.
Example ex_colloc_d1 : map this (colloc_row ex_kv 2 1 (q 3 8)) = [0; -2; -2; 4; 0; 0]%Q.
Proof. vm_compute. reflexivity. Qed.
Example ex_colloc_d2 : map this (colloc_row ex_kv 2 2 (q 3 8)) = [0; 16; -48; 32; 0; 0]%Q.
Proof. vm_compute. reflexivity. Qed.

(* active_derivs_eq_spec / active_deriv_row / dN_formula: orders 0..4 > p = 2 at an interior point and on
   the double knot; the coefficients a_{k,j} of the closed formula are non-trivial *)
Example ex_derivs : map (map this) (active_deriv ex_kv 2 (q 3 8) 4) =
  [[1 # 8; 5 # 8; 1 # 4]; [-2; -2; 4]; [16; -48; 32]; [0; 0; 0]; [0; 0; 0]]%Q.
Proof. vm_compute. reflexivity. Qed.
Example ex_derivs_knot : map (map this) (active_deriv ex_kv 2 (q 2 4) 3) =
  [[1; 0; 0]; [-4; 4; 0]; [8; -16; 8]; [0; 0; 0]]%Q.
Proof. vm_compute. reflexivity. Qed.
Example ex_acoef : map (fun j => this (acoef ex_kv 2 1 2 j)) (seq 0 3) = [0; -24; 8]%Q /\ Ffac 2 2 = 2%Z /\ (2 <= 2)%nat.
Proof. split; [vm_compute; reflexivity|]. split; [reflexivity|lia]. Qed.

(* spline_ev_* / tp_eval_*: a coefficient vector of the right length, a two-axis case (degree 2 with
   the double knot x degree 1) that meets axes_ok, with non-trivial values and a mixed derivative *)
Definition ex_c := map (fun z => q z 1) [1; -2; 3; 0; 5; -1]%Z.
Example ex_c_len : length ex_c = numdofs ex_kv 2.
Proof. vm_compute. reflexivity. Qed.
Example ex_spline_ev : this (spline_ev ex_kv 2 0 ex_c (q 3 8)) = (13 # 8)%Q /\ this (spline_ev ex_kv 2 1 ex_c (q 3 8)) = (-2)%Q.
Proof. vm_compute. split; reflexivity. Qed.
Definition ex_kv1 := map (fun z => q z 2) [0;0;1;2;2]%Z.
Example ex_kv1_ok : kv_ok ex_kv1 1.
Proof. apply open_kv_ok_l. vm_compute. reflexivity. Qed.
Example ex_axes_ok : axes_ok [(ex_kv, 2%nat); (ex_kv1, 1%nat)] [q 3 8; q 1 4].
Proof.
  cbn [axes_ok]. split; [exact ex_kv_ok|]. split; [exact (proj1 ex_domain)|]. split; [exact (proj2 ex_domain)|].
  split; [exact ex_kv1_ok|]. split; [apply qleb_iff; vm_compute; reflexivity|].
  split; [apply qleb_iff; vm_compute; reflexivity|exact I].
Qed.
Definition ex_c2 (idx : list nat) : Qc :=
  match idx with [a; b] => q (Z.of_nat (a * a + 3 * b + a * b)) 1 | _ => 0 end.
Example ex_tp_values : this (tp_eval [(ex_kv, 2%nat); (ex_kv1, 1%nat)] [0%nat; 0%nat] ex_c2 [q 3 8; q 1 4]) = (119 # 16)%Q
                    /\ this (tp_eval [(ex_kv, 2%nat); (ex_kv1, 1%nat)] [1%nat; 1%nat] ex_c2 [q 3 8; q 1 4]) <> 0%Q.
Proof. vm_compute. split; [reflexivity|discriminate]. Qed.
