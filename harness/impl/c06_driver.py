"""Implementation driver for C06 (runs inside the scratch copy of /repo).

stdin : JSON {'forms': [spec..], 'max_nodes': n, 'rules': bool}
        spec = {'code': python over the public vform API, defines V (a VForm; it is
                finalized here under the tracer) and/or R (a list of expressions that are
                just dumped: operator expansions)}
stdout: last line JSON {'results': [..]}

Per form: status 'Ok' | 'Reject:<cls>' (construction raised: explicit rejection) |
'FinalizeError:<cls>' (finalize raised) | 'TooBig' ; header; snapshots (label, forest)
before finalize and after each pass; the schedule; the per-node rule records.
"""
import json
import os
import sys
import traceback


def errclass(e):
    for c in (TypeError, ValueError, AssertionError, IndexError, KeyError, NotImplementedError,
              ZeroDivisionError, RuntimeError, AttributeError, NameError, SyntaxError, RecursionError):
        if isinstance(e, c):
            return c.__name__
    return 'Other:' + type(e).__name__


def main():
    import pyiga
    assert os.path.realpath(pyiga.__file__).startswith(os.path.realpath(os.environ['VERIF_IMPL_DIR'])), pyiga.__file__
    from pyiga import vform
    from harness import vform_dump as vd

    payload = json.load(sys.stdin)
    max_nodes = int(payload.get('max_nodes', 20000))
    want_rules = bool(payload.get('rules', True))
    base_ns = {k: getattr(vform, k) for k in dir(vform) if not k.startswith('_')}
    sys.setrecursionlimit(20000)

    out = []
    for spec in payload['forms']:
        res = {'status': 'Ok'}
        rr = vd.RuleRecorder(vform) if want_rules else None
        try:
            if rr:
                rr.install()
                rr.install_vec()
                rr.install_rpd()
                rr.install_iifd()
            ns = dict(base_ns)
            try:
                exec(spec['code'], ns)
            except Exception as e:  # explicit rejection while building the form
                res['status'] = 'Reject:' + errclass(e)
                res['msg'] = str(e)[:200]
                out.append(res)
                continue
            if 'R' in ns:
                try:
                    res['R'] = [vd.dump_expr(vform, vform.as_expr(r), [max_nodes]) for r in ns['R']]
                except vd.TooBig:
                    res['status'] = 'TooBig'
            V = ns.get('V') if 'R' not in ns else None
            if V is not None and res['status'] == 'Ok':
                res['header'] = vd.form_header(V)
                tr = vd.Tracer(vform, V, max_nodes=max_nodes)
                try:
                    snaps = tr.run_finalize()
                    res['snaps'] = [[l, f] for (l, f) in snaps]
                    res['schedule'] = vd.schedule(vform, V)
                    res['cse'] = tr.cse_records
                except vd.TooBig:
                    res['status'] = 'TooBig'
                except vd.UnknownNode as e:
                    res['status'] = 'UnknownNode'
                    res['msg'] = str(e)[:200]
                except Exception as e:
                    res['status'] = 'FinalizeError:' + errclass(e)
                    res['msg'] = (str(e)[:200] + ' | ' + traceback.format_exc().strip().splitlines()[-3].strip())[:400]
                    res['snaps'] = [[l, f] for (l, f) in tr.snaps]
            if rr:
                res['rules'] = rr.take()
        finally:
            if rr:
                rr.uninstall()
        out.append(res)
    print(json.dumps({'results': out}))


if __name__ == '__main__':
    main()
