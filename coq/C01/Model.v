(* C01 -- executable model of the code-generation layout functions and of the
   quadrature-loop structure of compiled assemblers.  Definitions only.

   Layer 1 (front/middle end) is C06 (coq/C06).  This file models
     layer 2  pyiga/vform.py:28-34            sym_index_to_seq
              pyiga/codegen/cython.py:105-132 storage_size, storage_index, allocate_array
              pyiga/codegen/cython.py:168-182 gen_pderiv
              pyiga/codegen/cython.py:196-235 var_ref, gen_assign (symmetric: i>j skipped)
     layer 3  pyiga/assemble_tools_cy.pyx:27-51   from_seq1/2/3
              pyiga/assemble_tools_cy.pyx:146-158 IntInterval, intersect_intervals
              pyiga/assemble_tools_cy.pyx:161-194 next_lexicographic1/2/3
              pyiga/codegen/cython.py:389-463     entry_impl (Gauss index range, early return,
                                                  bbox_ofs shift of on-demand assemblers)
              pyiga/codegen/cython.py:325-387     combine (the kernel loop  r += ...)
              pyiga/codegen/cython.py:525         nqp = max degree + 1
              pyiga/bspline.py:114-138            _knots_to_mesh, mesh_support_idx_all
              pyiga/quadrature.py:3-12            gauss_rule (affine map of the reference rule)
   Multi-indices are lists; lists whose name starts with r are in REVERSED axis order
   (last axis first), which is the order in which from_seq/next_lexicographic walk them. *)
From Coq Require Import List Arith Bool Lia ZArith QArith.
Import ListNotations.
Close Scope Q_scope. Open Scope nat_scope.

(* ------------------------------------------------------------------------- *)
(* layer 2: storage layout                                                     *)
(* ------------------------------------------------------------------------- *)

(* sum(n - k for k in range(0, i)), vform.py:33 *)
Fixpoint diag_start (n i : nat) : nat :=
  match i with 0 => 0 | S i' => diag_start n i' + (n - i') end.

(* vform.py:28-34 *)
Definition sym_index_to_seq (n i j : nat) : nat :=
  if j <? i then diag_start n j + (i - j) else diag_start n i + (j - i).

Definition prodl (l : list nat) : nat := fold_right Nat.mul 1 l.

(* row-major flattening, axes last-first: I[-1] + n[-1]*(I[-2] + n[-2]*(...)) *)
Fixpoint ravelr (rshape rI : list nat) : nat :=
  match rshape, rI with
  | n :: ns, i :: is_ => i + n * ravelr ns is_
  | _, _ => 0
  end.

(* np.ravel_multi_index(I, shape) (C order), cython.py:123 *)
Definition ravel_multi_index (I shape : list nat) : nat := ravelr (rev shape) (rev I).

(* an AsmVar / Parameter as far as the layout is concerned: shape, symmetric flag
   (vform.py:95: symmetric is only ever set for 2-D shapes) *)
Inductive var := mkVar (shape : list nat) (symmetric : bool).

(* cython.py:105-112 *)
Definition storage_size (v : var) : nat :=
  match v with
  | mkVar [m; n] true => m * (m + 1) / 2
  | mkVar shp _ => prodl shp
  end.

(* cython.py:114-123 *)
Definition storage_index (v : var) (I : list nat) : nat :=
  match v, I with
  | mkVar [] _, _ => 0
  | mkVar [m; _] true, [i; j] => sym_index_to_seq m i j
  | mkVar shp _, _ => ravel_multi_index I shp
  end.

(* cython.py:125-132: per entry (size, offset), and the total size *)
Fixpoint allocate_from (ofs : nat) (vars : list var) : list (nat * nat) * nat :=
  match vars with
  | [] => ([], ofs)
  | v :: r => let sz := storage_size v in
              let '(info, tot) := allocate_from (ofs + sz) r in ((sz, ofs) :: info, tot)
  end.
Definition allocate_array (vars : list var) := allocate_from 0 vars.

(* cython.py:196-208: the slot of entry I of the k-th variable of an array *)
Definition var_ref_slot (vars : list var) (k : nat) (I : list nat) : nat :=
  snd (nth k (fst (allocate_array vars)) (0, 0)) + storage_index (nth k vars (mkVar [] false)) I.

(* cython.py:227-235: the entries gen_assign writes for a matrix variable *)
Definition assigned_entries (m n : nat) (symmetric : bool) : list (nat * nat) :=
  filter (fun ij => negb (symmetric && (snd ij <? fst ij)))
         (list_prod (seq 0 m) (seq 0 n)).

(* cython.py:168-182: per axis k the factor VD<u>k[ (numderiv+1) * i_k + D_rev[k] ] *)
Definition gen_pderiv (dim numderiv : nat) (D : list nat) : list (nat * nat * nat) :=
  let Dr := rev D in map (fun k => (k, numderiv + 1, nth k Dr 0)) (seq 0 dim).

(* C-order flat index of C[i, g, d] in an array of shape (nb, ng, nd1)
   (assemble_tools.py:7-12 compute_values_derivs: axes (basis function, grid point, derivative)) *)
Definition flat3 (ng nd1 i g d : nat) : nat := (i * ng + g) * nd1 + d.

(* ------------------------------------------------------------------------- *)
(* layer 3: index walking                                                       *)
(* ------------------------------------------------------------------------- *)

(* from_seq1/2/3, assemble_tools_cy.pyx:27-51, axes last-first:
   out[d-1] = i % n[d-1]; i /= n[d-1]; ...; out[0] = i  (no modulo on the first axis) *)
Fixpoint from_seq_r (rshape : list nat) (s : nat) : list nat :=
  match rshape with
  | [] => []
  | n :: rest => match rest with
                 | [] => [s]
                 | _ => (s mod n) :: from_seq_r rest (s / n)
                 end
  end.
Definition from_seq (shape : list nat) (s : nat) : list nat := rev (from_seq_r (rev shape) s).

(* next_lexicographic1/2/3, assemble_tools_cy.pyx:161-194, axes last-first;
   None = return 0 (end reached), Some cur' = return 1 *)
Fixpoint next_lex_r (cur start end_ : list nat) : option (list nat) :=
  match cur, start, end_ with
  | c :: cr, s :: sr, e :: er =>
      match cr with
      | [] => if S c =? e then None else Some [S c]                 (* i == 0 *)
      | _ => if S c =? e then option_map (cons s) (next_lex_r cr sr er)
             else Some (S c :: cr)
      end
  | _, _, _ => None
  end.

(* the loop of assemble_vector (cython.py:953-969): visit order, starting at I *)
Fixpoint visit_r (fuel : nat) (cur zero end_ : list nat) : list (list nat) :=
  match fuel with
  | 0 => []
  | S f => cur :: match next_lex_r cur zero end_ with
                  | None => []
                  | Some nxt => visit_r f nxt zero end_
                  end
  end.

(* cython.py:525 *)
Definition nqp (degrees : list nat) : nat := fold_right Nat.max 0 degrees + 1.
(* cython.py:512-525: `max([kv.p for kv in kvs0 + kvs1]) + 1` -- the knot vectors of ALL used spaces
   (a one-space form has kvs1 = kvs0, cython.py:526-527) *)
Definition nqp_spaces (ps0 ps1 : list nat) : nat := nqp (ps0 ++ ps1).

(* bspline.py:117 np.unique(kv, return_inverse=True)[1] for a sorted knot vector (knots as
   integers = numerators over a common denominator): index of kv[i] among the distinct knots *)
Fixpoint k2m_from (prev : Z) (idx : nat) (kv : list Z) : list nat :=
  match kv with
  | [] => []
  | x :: r => let idx' := if Z.eqb x prev then idx else S idx in idx' :: k2m_from x idx' r
  end.
Definition knots_to_mesh (kv : list Z) : list nat :=
  match kv with [] => [] | x :: r => 0 :: k2m_from x 0 r end.

(* bspline.py:131-138 and cython.py:573:  nqp * mesh_support_idx_all() *)
Definition meshsupp (q p : nat) (kv : list Z) : list (nat * nat) :=
  let k2m := knots_to_mesh kv in
  map (fun i => (q * nth i k2m 0, q * nth (i + p + 1) k2m 0)) (seq 0 (length kv - p - 1)).

(* ------------------------------------------------------------------------- *)
(* layer 3: the entry loop over a commutative-free monoid (T, zero, add)         *)
(* ------------------------------------------------------------------------- *)

Definition intersect (s1 s2 : nat * nat) : nat * nat :=       (* intersect_intervals, pyx:157-158 *)
  (Nat.max (fst s1) (fst s2), Nat.min (snd s1) (snd s2)).

(* cython.py:406-431: per axis the Gauss index range (start, count); None = the early
   `return` when an axis has no common support (intv.a >= intv.b) *)
Fixpoint entry_ranges (s1 s2 : list (nat * nat)) : option (list (nat * nat)) :=
  match s1, s2 with
  | a :: r1, b :: r2 =>
      let '(lo, hi) := intersect a b in
      if hi <=? lo then None
      else option_map (cons (lo, hi - lo)) (entry_ranges r1 r2)
  | _, _ => Some []
  end.

Definition add_ofs (ofs idx : list nat) : list nat := map (fun p => fst p + snd p) (combine ofs idx).

Section Loop.
Variable T : Type.
Variable zero : T.
Variable add : T -> T -> T.

(* `for k in range(n): body` threading the accumulator r *)
Fixpoint loop_range (a n : nat) (body : nat -> T -> T) (acc : T) : T :=
  match n with 0 => acc | S n' => loop_range (S a) n' body (body a acc) end.

(* the kernel: nested loops i0 in range(n0), i1 in range(n1), ...:  r += f(i0, i1, ..) *)
Fixpoint loop_box (ns : list nat) (f : list nat -> T) (acc : T) : T :=
  match ns with
  | [] => add acc (f [])
  | n :: r => loop_range 0 n (fun k acc' => loop_box r (fun idx => f (k :: idx)) acc') acc
  end.

(* entry_impl for a bilinear form: supports s1 (of i) and s2 (of j) in Gauss-node units;
   f = integrand term (weights included) as a function of the ABSOLUTE node multi-index.
   All arrays are handed to the kernel shifted by g_sta. *)
Definition entry_impl (s1 s2 : list (nat * nat)) (f : list nat -> T) : T :=
  match entry_ranges s1 s2 with
  | None => zero                                           (* result stays at its initial 0.0 *)
  | Some rs => loop_box (map snd rs) (fun idx => f (add_ofs (map fst rs) idx)) zero
  end.

(* on-demand variant (cython.py:421-423, 546, 559): arrays cover the bounding box only,
   fbb is indexed relative to bbox_ofs *)
Definition entry_impl_od (bbox_ofs : list nat) (s1 s2 : list (nat * nat)) (fbb : list nat -> T) : T :=
  match entry_ranges s1 s2 with
  | None => zero
  | Some rs => loop_box (map snd rs)
                 (fun idx => fbb (add_ofs (map (fun p => fst p - snd p) (combine (map fst rs) bbox_ofs)) idx)) zero
  end.

(* reference: the sum over a box of (start, count) ranges, right nested *)
Fixpoint sum_n (a n : nat) (g : nat -> T) : T :=
  match n with 0 => zero | S n' => add (g a) (sum_n (S a) n' g) end.
Fixpoint sum_box (rs : list (nat * nat)) (f : list nat -> T) : T :=
  match rs with
  | [] => f []
  | (a, n) :: r => sum_n a n (fun k => sum_box r (fun idx => f (k :: idx)))
  end.

(* membership of a multi-index in a box of [lo, hi) intervals *)
Fixpoint in_box (s : list (nat * nat)) (idx : list nat) : bool :=
  match s, idx with
  | [], [] => true
  | (lo, hi) :: r, k :: ks => (lo <=? k) && (k <? hi) && in_box r ks
  | _, _ => false
  end.
End Loop.

(* ------------------------------------------------------------------------- *)
(* quadrature.py:3-12 gauss_rule on one interval, over Q                        *)
(* ------------------------------------------------------------------------- *)
Definition gauss_interval (xw : list (Q * Q)) (a b : Q) : list (Q * Q) :=
  let m := Qmult (Qmake 1 2) (Qplus a b) in
  let h := Qmult (Qmake 1 2) (Qminus b a) in
  map (fun p => (Qplus (Qmult h (fst p)) m, Qmult h (snd p))) xw.
Definition qsum (l : list Q) : Q := fold_right Qplus (Qmake 0 1) l.
