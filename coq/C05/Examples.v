(* C05 -- non-vacuity: concrete inputs meeting the hypotheses of the theorems, and the
   conclusions evaluated on them. *)
From Coq Require Import QArith Qcanon ZArith List Arith Lia.
From Verif.lib Require Import Bsp.
From Verif.C02 Require Import Proofs.
From Verif.C05 Require Import Model Proofs.
Import ListNotations.
Open Scope Qc_scope.

Definition q (n : Z) (d : positive) : Qc := Q2Qc (n # d).
(* degree 2, non-uniform, a double interior knot *)
Definition ex_kv := map (fun z => q z 4) [0;0;0;1;2;2;4;4;4]%Z.

Example ex_ok : kv_ok ex_kv 2.
Proof. apply open_kv_ok. vm_compute. reflexivity. Qed.

(* u strictly inside a span; u on the double knot (multiplicity becomes 3 = p+1); u = left end *)
Example ex_dom1 : in_dom ex_kv (q 3 4).
Proof. split; vm_compute; discriminate || reflexivity. Qed.
Example ex_dom2 : in_dom ex_kv (q 2 4).
Proof. split; vm_compute; discriminate || reflexivity. Qed.

Example ex_insert : qlist_eqb (insert_knot ex_kv 2 (q 3 4)) (map (fun z => q z 4) [0;0;0;1;2;2;3;4;4;4]%Z) = true.
Proof. vm_compute. reflexivity. Qed.

(* the matrix is not trivial: the three affected rows carry proper convex weights *)
Definition mat_eqb (A B : list (list Qc)) : bool :=
  Nat.eqb (length A) (length B) && forallb (fun ab => qlist_eqb (fst ab) (snd ab)) (combine A B).

Example ex_matrix :
  mat_eqb (dense (knot_insertion ex_kv 2 (q 3 4)) 7 6)
  [[q 1 1; q 0 1; q 0 1; q 0 1; q 0 1; q 0 1];
   [q 0 1; q 1 1; q 0 1; q 0 1; q 0 1; q 0 1];
   [q 0 1; q 0 1; q 1 1; q 0 1; q 0 1; q 0 1];
   [q 0 1; q 0 1; q 0 1; q 1 1; q 0 1; q 0 1];
   [q 0 1; q 0 1; q 0 1; q 1 2; q 1 2; q 0 1];
   [q 0 1; q 0 1; q 0 1; q 0 1; q 1 2; q 1 2];
   [q 0 1; q 0 1; q 0 1; q 0 1; q 0 1; q 1 1]] = true.
Proof. vm_compute. reflexivity. Qed.

(* conclusion of knot_insertion_preserves evaluated (a test, not a proof): points in
   every span, on knots, at both ends *)
Example ex_preserves_eval :
  forallb (fun u => forallb (preserves_at ex_kv (insert_knot ex_kv 2 u) 2
                               (dense (knot_insertion ex_kv 2 u) 7 6))
                            (map (fun z => q z 8) [0;1;2;3;4;5;6;7;8]%Z))
          [q 3 4; q 2 4; q 0 4; q 1 8] = true.
Proof. vm_compute. reflexivity. Qed.

(* hypotheses of prolongation_preserves: a refinement by three knots, one repeated *)
Example ex_refine_dom : Forall (in_dom ex_kv) [q 3 4; q 1 8; q 3 4].
Proof. repeat constructor; vm_compute; discriminate || reflexivity. Qed.

Example ex_refine_kv :
  qlist_eqb (refine_kv ex_kv 2 [q 3 4; q 1 8; q 3 4]) (map (fun z => q z 8) [0;0;0;1;2;4;4;6;6;8;8;8]%Z) = true.
Proof. vm_compute. reflexivity. Qed.

Example ex_prolongation_eval :
  let us := [q 3 4; q 1 8; q 3 4] in
  let P := prolongation_spec ex_kv 2 us in
  forallb (preserves_at ex_kv (refine_kv ex_kv 2 us) 2 P) (map (fun z => q z 16) [0;1;3;4;5;8;9;12;13;16]%Z)
  && rows_sum_one P 9 6 && nonneg P 9 6 && negb (qlist_eqb (nth 4 P []) (nth 4 (ident 9) [])) = true.
Proof. vm_compute. reflexivity. Qed.

(* boehm_identity: sorted local knots with a repeated one, interior removed knot *)
Example ex_boehm_hyp :
  let s := fun j => nth j (map (fun z => q z 1) [0;1;1;2;5]%Z) (q 5 1) in
  (forall j, (j <= 3)%nat -> s j <= s (S j)) /\ (1 <= 2 <= 3)%nat.
Proof.
  split; [|lia]. intros j Hj.
  do 4 (destruct j as [|j]; [vm_compute; discriminate|]). lia.
Qed.
