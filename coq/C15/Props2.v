(* C15 -- property theorems, deepening round (closes the NOT PROVED items "reorder zero part" and
   "kron_partial with repeated rows" of Props.v; adds the sequential numbering of level patterns and
   the index map of ReorderedTensorGenerator).  Same conventions as Props.v. *)
From Coq Require Import ZArith List Bool.
From Verif.C15 Require Import Model Spec Proofs Proofs3 Proofs4 Model2 Proofs6.
Import ListNotations.
Open Scope Z_scope.

(* ---- asmatrix() is zero at every position outside the Kronecker pattern ---- *)
Theorem asmatrix_zero_outside : forall bs bidx data r c, length bs = length bidx ->
  ~ In (r, c) (kron_pattern bs bidx) -> dense_entry (asmatrix bs bidx data) r c = 0.
Proof. exact asmatrix_zero_outside_l. Qed.
Print Assumptions asmatrix_zero_outside.

(* ---- reorder(axes).asmatrix() is zero outside the Kronecker pattern of the PERMUTED levels
   (any list `axes`, any data); with reorder_spec (every datum sits at its permuted position) this
   determines every entry of the reordered matrix ---- *)
Theorem reorder_zero_outside : forall bs bidx data axes r c,
  ~ In (r, c) (kron_pattern (reorder_bs bs axes) (reorder_bidx bidx axes)) ->
  dense_entry (reorder_asmatrix bs bidx data axes) r c = 0.
Proof. exact reorder_zero_outside_l. Qed.
Print Assumptions reorder_zero_outside.

(* positionwise form: a non-zero entry of the reordered matrix has, at every level i, its pair of
   digits in level pattern axes[i] *)
Theorem reorder_support : forall bs bidx data axes r c,
  wf_structure bs bidx -> dims_pos (rowdims bs) -> dims_pos (coldims bs) ->
  Forall (fun a => (a < length bidx)%nat) axes ->
  dense_entry (reorder_asmatrix bs bidx data axes) r c <> 0 ->
  kron_nonzero (reorder_bs bs axes) (reorder_bidx bidx axes) r c.
Proof. exact reorder_support_l. Qed.
Print Assumptions reorder_support.

(* ---- utils.kron_partial, restrict=False, ANY list of valid rows (unsorted, repeated): scipy
   sums duplicate positions, so row r of the result is (number of occurrences of r in `rows`)
   times row r of the dense Kronecker product ---- *)
Theorem kron_partial_repeated_rows_spec : forall As rows ts, Forall rect As ->
  kron_partial As rows false = Some ts ->
  forall r c, 0 <= r < fst (shape (map mat_shape As)) -> 0 <= c < snd (shape (map mat_shape As)) ->
  dense_entry ts r c = Z.of_nat (count_occ Z.eq_dec rows r) * kron_rec As r c.
Proof. exact kron_partial_dup_count_l. Qed.
Print Assumptions kron_partial_repeated_rows_spec.

(* ---- sequential numbering of the level patterns (sequential_bidx, repaired) and the index map
   of ReorderedTensorGenerator: for the multi-index K into the compact data tensor the generator
   asks the assembler for the matrix position of the K-th datum, i.e. the pos_of(K)-th entry of
   nonzero() -- every number of levels, rectangular blocks ---- *)
Theorem tensor_generator_index_spec : forall bs bidx K, wf_structure bs bidx -> cvalid bidx K ->
  tensor_gen_index bs bidx K = entry_of bs (sel_of (0, 0) bidx K)
  /\ tensor_gen_index bs bidx K = nth (pos_of bidx K) (kron_pattern bs bidx) (entry_of bs []).
Proof. exact tensor_gen_index_l. Qed.
Print Assumptions tensor_generator_index_spec.

(* the numbering as it stood (m_k*i + j) gives two entries of a 2x3 block the same number and
   makes the generator ask for a wrong position: defect impl:sequential-bidx:rectangular *)
Theorem sequential_bidx_as_written_refuted :
  exists bs bidx K, wf_structure bs bidx /\ Forall (@NoDup (Z * Z)) bidx /\ cvalid bidx K /\
    tensor_gen_index_as_written bs bidx K <> entry_of bs (sel_of (0, 0) bidx K) /\
    nth 2 (nth 0 (sequential_bidx bs bidx) []) 0 = nth 3 (nth 0 (sequential_bidx bs bidx) []) 0.
Proof. exact sequential_bidx_as_written_refuted_l. Qed.
Print Assumptions sequential_bidx_as_written_refuted.

(* NOT PROVED (tie + oracle only):
   transpose_idx for patterns with duplicate entries (the dict keeps the last one);
   kron_rec is not formally identified with C16's kron_ent;
   reorder: the single statement "entry (r,c) of reorder(axes).asmatrix() = entry at the
     back-permuted digits of asmatrix()" for ALL (r,c) is not stated as one theorem: it is the
     conjunction of reorder_spec (positions of the pattern) and reorder_zero_outside (all others);
   state across several products on one MLMatrix object (result buffers) is outside the model:
     the model's matvec is a pure function; the tie replays product histories (see c15.py). *)
