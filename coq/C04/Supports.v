(* C04 -- executable model of the hierarchical support queries of pyiga.hierarchical:
   HMesh._TP_to_HMesh_cells_up/_down/_TP_to_HMesh_cells (:221-258), HMesh.hmesh_cells (:260-271),
   HSpace.compute_supports (:785-792), get_virtual_space (:901-918), compute_virtual_supports (:794-797).
   Definitions only; tied exactly to the implementation by the correspondence run.
   A result dict {level: set of cells} is a list of sets indexed by the level (missing key = []).
   The assertions of the source ('Invalid cells detected') are not modelled: queries are cells of
   the tensor-product meshes, for which they cannot fail on a reachable state. *)
From Coq Require Import List Arith Bool.
From Verif.lib Require Import FinSet.
From Verif.C04 Require Import Model Boundary.
Import ListNotations.

Definition act (st : hspace) (l : nat) : set := lv_active (lvl st l).

(* _TP_to_HMesh_cells_up(lv, cells): entries for the levels l, l+1, ..., l+n-1 *)
Fixpoint cells_up (st : hspace) (n l : nat) (aux : set) : list set :=
  match n with
  | 0 => []
  | S n' => inter aux (act st l) :: cells_up st n' (S l) (of_list (cell_children (diff aux (act st l))))
  end.

(* _TP_to_HMesh_cells_down(lv, cells): entries for the levels l, l-1, ..., 0 *)
Fixpoint cells_down (st : hspace) (l : nat) (aux : set) : list set :=
  match l with
  | 0 => [inter aux (act st 0)]
  | S l' => inter aux (act st (S l')) :: cells_down st l' (cell_parent (diff aux (act st (S l'))))
  end.

(* _TP_to_HMesh_cells(lv, cells) = _dict_union(out_down, out_up) *)
Definition tp_to_hmesh (st : hspace) (lv : nat) (cells : list mi) : list set :=
  let L := numlevels st in
  let cs := of_list cells in
  let ad := union (act st lv) (lv_deact (lvl st lv)) in
  let up := cells_up st (L - lv) lv (inter cs ad) in
  let down := cells_down st lv (diff cs ad) in
  map (fun k => union (if k <=? lv then nth (lv - k) down [] else [])
                      (if lv <=? k then nth (k - lv) up [] else [])) (seq 0 L).

(* hmesh_cells(cells): the per-level results are MERGED (_dict_union) over the query levels *)
Definition hmesh_cells (st : hspace) (cells : list (list mi)) : list set :=
  let L := numlevels st in
  let ds := map (fun lv => tp_to_hmesh st lv (nth lv cells [])) (seq 0 L) in
  map (fun k => fold_left (fun acc d => union acc (nth k d [])) ds []) (seq 0 L).

(* compute_supports(functions): functions = one list per level *)
Definition compute_supports (st : hspace) (funcs : list (list mi)) : list set :=
  hmesh_cells st (map (fun l => support (msh st l) (nth l funcs [])) (seq 0 (length funcs))).

(* get_virtual_space(lv): levels 0..lv, on level lv everything of Omega_lv is active *)
Definition virtual_space (st : hspace) (lv : nat) : hspace :=
  if lv =? numlevels st - 1 then st
  else
    let l := lvl st lv in
    mk_hspace (firstn (lv + 1) (hs_meshes st))
              (firstn lv (hs_levels st)
               ++ [mk_level (union (lv_active l) (lv_deact l)) [] (union (lv_actfun l) (lv_deactfun l)) []])
              (hs_disparity st).

(* compute_virtual_supports(tuplelistset) *)
Definition compute_virtual_supports (st : hspace) (tls : list (list (list mi))) : list (list set) :=
  map (fun lv => compute_supports (virtual_space st lv) (nth lv tls [])) (seq 0 (length tls)).

(* the supports of all active functions cover all active cells *)
Definition supports_cover_b (st : hspace) : bool :=
  let r := compute_supports st (map (fun l => lv_actfun (lvl st l)) (seq 0 (numlevels st))) in
  forallb (fun l => set_eqb (nth l r []) (act st l)) (seq 0 (numlevels st)).

(* the argument used for compute_virtual_supports in the correspondence run:
   global_indices(lv) restricted to the levels of the virtual space *)
Definition global_lists (st : hspace) : list (list (list mi)) :=
  map (fun lv => map (global_indices st lv) (seq 0 (lv + 1))) (seq 0 (numlevels st)).
