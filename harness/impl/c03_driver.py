"""C03 driver -- runs INSIDE the implementation interpreter (stdin JSON -> last stdout line JSON).

Per case: build an HSpace from (axes, disparity, truncate, bdspecs), apply the refinement history, then
for every requested form assemble over the hierarchical space through the public entry points
(assemble.assemble(problem, hspace), HDiscretization.assemble_matrix/assemble_rhs/assemble_functional)
and report, next to the results, everything the model needs as input: the 1-D prolongators of the
hierarchy, the FULL tensor-product matrix / load vector of every level (assembled independently of the
hierarchical code with the same assembler class and a full bounding box), plus the arguments with which
HDiscretization called _assemble_level (rows, bbox) and cell_supp_indices(remove_dirichlet=False).
"""
import io
import json
import os
import sys
import contextlib


def main():
    payload = json.load(sys.stdin)
    real_stdout = sys.stdout
    sys.stdout = io.StringIO()            # on-demand compilation is noisy
    import numpy as np
    import pyiga
    assert os.path.realpath(pyiga.__file__).startswith(os.path.realpath(os.environ['VERIF_IMPL_DIR'])), pyiga.__file__
    from pyiga import bspline, hierarchical, assemble, geometry, vform, compile as pcompile, _hdiscr

    def kv_of(ax):
        knots = []
        for b, m in zip(ax['breaks'], ax['mults']):
            knots += [float(b)] * m
        return bspline.KnotVector(np.array(knots, dtype=float), ax['p'])

    def container(kind, cells):
        cells = [tuple(c) for c in cells]
        return set(cells) if kind == 'set' else (list(cells) if kind == 'list' else tuple(cells))

    def pick_marks(hs, op, rng, dim):
        # explicit marks for a generator op: always currently active cells
        Lh = hs.numlevels
        act = [sorted(hs.active_cells(l)) for l in range(Lh)]
        lvls = [l for l in range(Lh) if act[l] and l <= op.get('maxlv', 2)]
        if not lvls:
            return []
        kind = op['pick']
        if kind == 'corner':
            l = max(lvls)
            corner = op['corner']
            cells = sorted(act[l], key=lambda c: (sum((c[d] if corner[d] == 0 else -c[d]) for d in range(dim)), c))
            return [[l, [list(c) for c in cells[:op.get('n', 1)]]]]
        if kind == 'inner-edge':
            # cells of the finest markable level >= 1 that lie at the boundary of Omega_l in the INTERIOR of the
            # domain (a neighbouring cell of the same level is neither active nor deactivated): refining them makes
            # the boundary of Omega_{l+1} touch that of Omega_l (non-graded hierarchy)
            for l in sorted((x for x in lvls if x >= 1), reverse=True):
                omega = set(hs.hmesh.active[l]) | set(hs.hmesh.deactivated[l])
                nsp = hs.mesh(l).numspans
                edge = []
                for c in act[l]:
                    for d in range(dim):
                        for s in (-1, 1):
                            nbc = tuple(c[e] + (s if e == d else 0) for e in range(dim))
                            if 0 <= nbc[d] < nsp[d] and nbc not in omega:
                                edge.append(c)
                edge = sorted(set(edge))
                if edge:
                    c0 = rng.choice(edge)
                    cells = [c for c in edge if max(abs(a - b) for a, b in zip(c, c0)) <= op.get('n', 1)]
                    return [[l, [list(c) for c in cells]]]
            l = min(lvls)        # nothing refined yet: refine an interior block that does not reach the whole boundary
            nsp = hs.mesh(l).numspans
            cells = [c for c in act[l] if all(c[d] >= nsp[d] // 2 for d in range(dim))]
            return [[l, [list(c) for c in (cells or act[l][:1])]]]
        if kind == 'deepen':
            # all active cells of the finest level that has any (the children of what was refined last): with high
            # degree no function of the intermediate levels fits into the refined region -> EMPTY intermediate levels
            l = max(lvls)
            if len(act[l]) <= op.get('cap', 16):
                return [[l, [list(c) for c in act[l]]]]
            return []
        if kind == 'interior':
            # one interior cell of the coarsest level
            l = min(lvls)
            nsp = hs.mesh(l).numspans
            inner = [c for c in act[l] if all(0 < c[d] < nsp[d] - 1 for d in range(dim))] or act[l]
            return [[l, [list(rng.choice(inner))]]]
        if kind == 'isolated':
            l = rng.choice(lvls)
            return [[l, [list(rng.choice(act[l]))]]]
        if kind == 'nested':
            l = max(lvls)
            return [[l, [list(c) for c in rng.sample(act[l], min(len(act[l]), op.get('n', 1)))]]]
        if kind == 'multi':
            out = []
            for l in lvls:
                if rng.random() < 0.7:
                    out.append([l, [list(c) for c in rng.sample(act[l], min(len(act[l]), rng.randint(1, 2)))]])
            if not out:
                out = [[lvls[0], [list(act[lvls[0]][0])]]]
            rng.shuffle(out)
            return out
        l = rng.choice(lvls)
        return [[l, [list(c) for c in rng.sample(act[l], min(len(act[l]), rng.randint(1, 4)))]]]

    def err(e):
        return '%s: %s' % (type(e).__name__, str(e)[:200])

    def sparse_rows(M, n=None):
        M = M.tocsr()
        M.sum_duplicates()
        out = []
        for i in range(M.shape[0]):
            sl = slice(M.indptr[i], M.indptr[i + 1])
            idx = M.indices[sl]
            dat = M.data[sl]
            o = np.argsort(idx, kind='stable')
            out.append([[int(idx[t]), float(dat[t])] for t in o])
        return out

    def make_geo(name, dim):
        if name == 'id':
            return geometry.unit_square() if dim == 2 else geometry.unit_cube(dim=dim)
        if name == 'scaled':      # affine, anisotropic: the unit box map with scaled coordinates
            g = geometry.unit_square() if dim == 2 else geometry.unit_cube(dim=dim)
            return bspline.BSplineFunc(g.kvs, np.asarray(g.coeffs) * np.array([2.0, 0.5, 1.5][:dim]))
        if name == 'curved':
            if dim == 2:
                return geometry.bspline_quarter_annulus()
            if dim == 1:
                kv = bspline.make_knots(2, 0.0, 1.0, 1)
                return bspline.BSplineFunc((kv,), np.array([[0.0], [0.3], [1.0]]))
            return geometry.twisted_box()
        raise ValueError(name)

    def make_field(spec, dim):
        # a polynomial input field on the parameter domain given by tensor-product Bernstein coefficients
        kvs = tuple(bspline.make_knots(spec['deg'], 0.0, 1.0, 1) for _ in range(dim))
        coeffs = np.array(spec['coeffs'], dtype=float).reshape((spec['deg'] + 1,) * dim)
        return bspline.BSplineFunc(kvs, coeffs)

    results = []
    for case in payload['cases']:
        res = {'status': 'Ok'}
        results.append(res)
        try:
            cfg = case['cfg']
            dim = len(cfg['axes'])
            kvs = tuple(kv_of(ax) for ax in cfg['axes'])
            disp = np.inf if cfg['disparity'] is None else cfg['disparity']
            kw = {}
            if cfg['bdspecs'] != 'default':
                kw['bdspecs'] = None if cfg['bdspecs'] is None else [tuple(b) for b in cfg['bdspecs']]
            hs = hierarchical.HSpace(kvs, truncate=cfg['truncate'], disparity=disp, **kw)
            import random as _random
            rng = _random.Random(case.get('seed', 0))
            explicit = []
            between = []
            warm = None
            if case.get('assemble_between'):
                # the SAME HSpace object is assembled over after every intermediate refinement (this populates the
                # index caches of the object); the final results must be those of the final space
                wf = case['assemble_between']
                wargs = {'geo': make_geo(wf['geo'], dim)}
                warm = (vform.parse_vf(wf['expr'], kvs, args=wargs), wargs)
            for iop, op in enumerate(case['ops']):
                if 'pick' in op:
                    marks = pick_marks(hs, op, rng, dim)
                    if not marks:
                        continue
                    op = {'kind': 'refine', 'marks': marks, 'container': op.get('container', 'set'), 'trunc': bool(op.get('trunc'))}
                explicit.append(op)
                hs.refine({lv: container(op['container'], cells) for lv, cells in op['marks']}, truncate=bool(op.get('trunc')))
                if warm is not None and iop < len(case['ops']) - 1:
                    try:
                        Aw = assemble.assemble(warm[0], hs, **warm[1])
                        between.append([int(s) for s in Aw.shape])
                        hs.dirichlet_dofs()
                    except Exception as e:      # noqa
                        between.append(err(e))
            res['ops'] = explicit
            res['between'] = between
            Lv = hs.numlevels
            res['L'] = Lv
            res['numdofs_lv'] = [[int(n) for n in hs.mesh(k).numdofs] for k in range(Lv)]
            res['levels'] = [[sorted(list(c) for c in hs.hmesh.active[k]), sorted(list(c) for c in hs.hmesh.deactivated[k]),
                              sorted(list(f) for f in hs.actfun[k]), sorted(list(f) for f in hs.deactfun[k])] for k in range(Lv)]
            res['numdofs'] = int(hs.numdofs)
            res['P'] = [[sparse_rows(hs.hmesh.P[k][d]) for d in range(dim)] for k in range(Lv - 1)]
            res['kvs'] = [[[float(x) for x in kv.kv] for kv in hs.knotvectors(k)] for k in range(Lv)]
        except Exception as e:       # noqa
            res['status'] = 'construct:' + err(e)
            continue
        # the index bookkeeping as the public / semi-public API reports it
        try:
            cs = hs.cell_supp_indices(remove_dirichlet=False)
            res['cell_supp'] = [[[list(int(x) for x in f) for f in cs[lv][i]] for i in range(Lv)] for lv in range(Lv)]
        except Exception as e:       # noqa
            res['cell_supp_error'] = err(e)
        forms = []
        res['forms'] = forms
        orig = _hdiscr.HDiscretization._assemble_level

        def run_recorded(fun):
            """Run fun() while recording the (k, rows, bbox, result) of every _assemble_level call."""
            calls = []

            def wrapped(self, k, rows=None, bbox=None, symmetric=False):
                A = orig(self, k, rows=rows, bbox=bbox, symmetric=symmetric)
                calls.append((k, None if rows is None else [int(r) for r in rows],
                              None if bbox is None else [[int(a), int(b)] for a, b in bbox], A))
                return A
            _hdiscr.HDiscretization._assemble_level = wrapped
            try:
                return fun(), calls
            finally:
                _hdiscr.HDiscretization._assemble_level = orig

        def setup_form(fs):
            args = {'geo': make_geo(fs['geo'], dim)}
            for nm, spec in fs.get('fields', {}).items():
                args[nm] = make_field(spec, dim)
            if fs.get('kind') == 'assemble_rhs':
                # the default right-hand side <f, v> with f given in PHYSICAL coordinates (an affine function)
                cf = [float(x) for x in fs['fphys']]
                args['f'] = lambda *X, _c=cf: _c[0] + sum(ci * Xi for ci, Xi in zip(_c[1:], X))
                vf = vform.L2functional_vf(dim=dim, physical=True)
            else:
                vf = vform.parse_vf(fs['expr'], kvs, args=args)
            return vf, args

        prepared = []
        for fs in case['forms']:
            try:
                prepared.append(setup_form(fs))
            except Exception as e:   # noqa
                prepared.append(err(e))
        # sessions: all forms with entry == 'session' are assembled on ONE HDiscretization object per basis
        # (HB object: listed order, THB object: reverse order); every result must be that of a fresh object
        session = {}
        sess = [i for i, fs in enumerate(case['forms']) if fs.get('entry') == 'session' and not isinstance(prepared[i], str)]
        if sess:
            merged = {}
            for i in sess:
                merged.update(prepared[i][1])
            bil = [i for i in sess if prepared[i][0].arity == 2][:1]
            for trunc in (False, True):
                hs.truncate = trunc
                try:
                    hd = hierarchical.HDiscretization(hs, prepared[bil[0]][0] if bil else None, merged)
                except Exception as e:   # noqa
                    for i in sess:
                        session[(i, trunc)] = ('error', err(e))
                    continue
                for i in (sess if not trunc else sess[::-1]):
                    vf_i = prepared[i][0]
                    try:
                        if vf_i.arity == 2:
                            if i not in bil:
                                continue
                            session[(i, trunc)] = ('matrix',) + run_recorded(lambda: hd.assemble_matrix(symmetric=False))
                        elif case['forms'][i].get('kind') == 'assemble_rhs':
                            session[(i, trunc)] = ('vector', hd.assemble_rhs())
                        else:
                            session[(i, trunc)] = ('vector', hd.assemble_functional(vf_i))
                    except Exception as e:   # noqa
                        session[(i, trunc)] = ('error', err(e))
            hs.truncate = cfg['truncate']
        for ifs, fs in enumerate(case['forms']):
            fr = {'name': fs['name']}
            forms.append(fr)
            try:
                if isinstance(prepared[ifs], str):
                    raise RuntimeError(prepared[ifs])
                vf, args = prepared[ifs]
                fr['arity'] = int(vf.arity)
                used = {inp.name: args[inp.name] for inp in vf.inputs}
                cls = pcompile.compile_vform(vf, on_demand=True)
                # independent level data: full bounding box, every row
                lev = []
                for k in range(Lv):
                    kk = hs.knotvectors(k)
                    asm = cls(kk, bbox=tuple((0, kv.numspans) for kv in kk), **used)
                    if vf.arity == 2:
                        lev.append(assemble.assemble_entries(asm, symmetric=False, format='csr'))
                    else:
                        n = int(np.prod([kv.numdofs for kv in kk]))
                        lev.append(np.asarray(asm.multi_entries(np.arange(n))).ravel())
                if vf.arity == 2:
                    fr['lev'] = [sparse_rows(A) for A in lev]
                else:
                    fr['lev'] = [[float(x) for x in b] for b in lev]
            except Exception as e:   # noqa
                fr['setup_error'] = err(e)
                continue
            out = {}
            fr['out'] = out
            entry = fs.get('entry', 'assemble')
            for trunc in (False, True):
                hs.truncate = trunc
                key = 'thb' if trunc else 'hb'
                try:
                    if vf.arity == 2:
                        for symm in ([False, True] if fs.get('symmetric') else [False]):
                            sres = session.get((ifs, trunc)) if not symm else None
                            if sres is not None:
                                if sres[0] == 'error':
                                    raise RuntimeError('in session: ' + sres[1])
                                A, calls = sres[1], sres[2]
                            elif entry == 'assemble':
                                A, calls = run_recorded(lambda: assemble.assemble(vf, hs, symmetric=symm, **args))
                            else:
                                A, calls = run_recorded(lambda: hierarchical.HDiscretization(hs, vf, args).assemble_matrix(symmetric=symm))
                            out[key + ('_sym' if symm else '')] = {'shape': [int(s) for s in A.shape], 'rows': sparse_rows(A)}
                            if not trunc and not symm:
                                fr['calls'] = [[k, rows, bbox] for (k, rows, bbox, _A) in calls]
                                dev = 0.0
                                for (k, rows, bbox, Ak) in calls:
                                    if rows:
                                        D = abs(Ak[rows] - lev[k][rows])
                                        dev = max(dev, float(D.max()) if D.nnz else 0.0)
                                        other = sorted(set(range(Ak.shape[0])) - set(rows))
                                        if other and Ak[other].nnz:
                                            dev = max(dev, float(abs(Ak[other]).max()))
                                fr['partial_rows_dev'] = dev
                                amax = max([float(abs(A_).max()) if A_.nnz else 0.0 for A_ in lev] + [0.0])
                                fr['amax'] = amax
                                if 0.0 < dev <= 1e-12 * amax:
                                    # the rows the hierarchical code assembled itself differ from the independent full
                                    # assembly by rounding only: hand the model exactly the numbers that were used
                                    for (k, rows, bbox, Ak) in calls:
                                        if rows:
                                            Lk = lev[k].tolil()
                                            Lk[rows] = Ak[rows]
                                            lev[k] = Lk.tocsr()
                                    fr['lev'] = [sparse_rows(A_) for A_ in lev]
                                    fr['lev_rows_substituted'] = True
                    else:
                        sres = session.get((ifs, trunc))
                        if sres is not None:
                            if sres[0] == 'error':
                                raise RuntimeError('in session: ' + sres[1])
                            b = sres[1]
                        elif fs.get('kind') == 'assemble_rhs':
                            b = hierarchical.HDiscretization(hs, None, args).assemble_rhs()
                        elif entry == 'assemble':
                            b = assemble.assemble(vf, hs, **args)
                        else:
                            b = hierarchical.HDiscretization(hs, None, args).assemble_functional(vf)
                        out[key] = {'vec': [float(x) for x in np.asarray(b).ravel()]}
                except Exception as e:   # noqa
                    out[key] = {'error': err(e)}
            hs.truncate = cfg['truncate']
        try:
            res['T'] = sparse_rows(hs.thb_to_hb())
        except Exception as e:       # noqa
            res['T_error'] = err(e)
    sys.stdout = real_stdout
    print(json.dumps({'results': results}))


if __name__ == '__main__':
    main()
