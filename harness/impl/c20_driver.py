"""Implementation driver for C20 (runs inside the scratch copy of /repo, one request per process).

stdin: JSON payload; last stdout line: JSON.

payload
  mode   : 'names'   -> module names compile_cython_module derives for the forms (nothing is compiled)
           'probe'   -> import module payload['modname'] from MODDIR, nothing else (oracle calibration)
           'request' -> compile.compile_vform(form) and assemble with the result
           'coldrace' -> payload: nproc, rounds, forms (one per process), depth, base.  nproc forked workers
                        are released together by a barrier, `rounds` times, each time against a cache directory
                        that does not exist yet (depth = how many of its trailing path components are missing);
                        every worker calls compile.compile_cython_module(src).  Only the build itself
                        (_compile_cython_module_nocache: Cython + gcc, irrelevant for directory set-up) is
                        replaced by a stub that publishes a one-line Python module atomically.
  form   : 0 | 1
  kill   : stage or null  -- SIGKILL the whole process group when about to execute that stage
  ctl    : directory or null -- the harness steps this process from stage to stage (see Control)

Stages are the program counters of coq/C20/Model.v:
  'mkdir' | 'import' | 'mkdtemp' | [role, phase] | 'replace' | 'cleanup' | 'reimport'
  role in pyx,c,o,so; phase 0 = about to start the stage; phase 1..4 = the output file holds
  (nothing | its head | half | all but the last byte).  A phase >= 1 is realised by letting the real
  stage finish, truncating its output to that size class, and stopping (kill) or pausing there; on
  resume the full content is written back in place.

None of this needs a hook in /repo: the names `open`, `cythonize`, `_get_build_extension` are
replaced in pyiga.compile's module namespace, importlib.import_module / os.replace /
tempfile.mkdtemp / shutil.rmtree in their own modules, from inside this process.
"""
import importlib
import json
import os
import shutil
import signal
import sys
import tempfile
import time


def size_for_class(k, size):
    """bytes kept for phase k = 1..4 of a file of `size` bytes"""
    if k == 1:
        return 0
    if k == 2:
        return 4096 if size > 32768 else size // 8
    if k == 3:
        return size // 2
    return max(size - 1, 0)


def norm(stage):
    return tuple(stage) if isinstance(stage, (list, tuple)) else stage


class Control:
    """kill at a stage, or be stepped by the harness: the harness writes ctl/cmd = {'seq':k,'target':stage|null};
    this process runs until it is about to execute target, writes ctl/ack = {'seq':k,'stage':..,'file':..}
    and waits for seq k+1."""

    def __init__(self, kill, ctl):
        self.kill = norm(kill) if kill is not None else None
        self.ctl = ctl
        self.seq = 0
        self.target = None
        self.trace = []
        if ctl:
            self.wait_cmd()

    def wait_cmd(self):
        path = os.path.join(self.ctl, 'cmd')
        while True:
            try:
                c = json.load(open(path))
                if c['seq'] > self.seq:
                    self.seq = c['seq']
                    self.target = norm(c['target']) if c['target'] is not None else None
                    return
            except (OSError, ValueError):
                pass
            time.sleep(0.02)

    def at(self, stage, path=None):
        stage = norm(stage)
        self.trace.append(stage if isinstance(stage, str) else '%s%d' % stage)
        hit_kill = self.kill is not None and stage == self.kill
        hit_pause = self.ctl is not None and self.target is not None and stage == self.target
        if not (hit_kill or hit_pause):
            return
        saved = None
        if path is not None and isinstance(stage, tuple) and stage[1] >= 1:
            data = open(path, 'rb').read()
            saved = data
            os.truncate(path, size_for_class(stage[1], len(data)))
            if os.environ.get('C20_JOURNAL'):
                with open(os.environ['C20_JOURNAL'], 'a') as j:
                    j.write(json.dumps({'file': path, 'k': stage[1], 'size': os.path.getsize(path)}) + '\n')
        if hit_kill:
            sys.stdout.flush()
            try:
                os.killpg(os.getpgid(0), signal.SIGKILL)
            finally:
                os.kill(os.getpid(), signal.SIGKILL)
        tmp = os.path.join(self.ctl, 'ack.tmp')
        with open(tmp, 'w') as f:
            json.dump({'seq': self.seq, 'stage': stage, 'file': path}, f)
        os.replace(tmp, os.path.join(self.ctl, 'ack'))
        self.wait_cmd()
        if saved is not None:
            # the interrupted write goes on and completes, in place
            with open(path, 'r+b') as f:
                f.write(saved)
                f.truncate(len(saved))

    def wrote(self, role, path):
        """the real stage has produced `path` completely"""
        for k in (1, 2, 3, 4):
            self.at((role, k), path)


def install(ctrl):
    import pyiga.compile as C
    state = {'imports': 0}

    real_import = importlib.import_module

    def import_module(name, package=None):
        if isinstance(name, str) and name.startswith('mod') and len(name) == 19 and package is None:
            state['imports'] += 1
            # the lookup before a build is 'import', the one after it 'reimport' (a protocol that verifies the
            # entry first and finds it wanting never gets to 'import')
            ctrl.at('reimport' if (state['imports'] > 1 or state.get('built')) else 'import')
        return real_import(name, package)
    importlib.import_module = import_module

    real_open = open

    class PyxFile:
        def __init__(self, f, path):
            self.f, self.path = f, path

        def __enter__(self):
            self.f.__enter__()
            return self

        def write(self, s):
            return self.f.write(s)

        role = 'pyx'

        def __exit__(self, *a):
            r = self.f.__exit__(*a)
            ctrl.wrote(self.role, self.path)
            return r

        def close(self):
            self.f.close()
            ctrl.wrote(self.role, self.path)

    def hooked_open(path, mode='r', *a, **kw):
        if isinstance(path, str) and path.endswith('.pyx') and ('w' in mode):
            ctrl.at(('pyx', 0))
            return PyxFile(real_open(path, mode, *a, **kw), path)
        if isinstance(path, str) and path.endswith('.ok'):
            # the stamp of fixes/C20-verify-so-before-import.patch: read = verify the cached entry, write = stage 'ok'
            if 'w' in mode:
                ctrl.at(('ok', 0))
                f = PyxFile(real_open(path, mode, *a, **kw), path)
                f.role = 'ok'
                return f
            ctrl.at('verify')
        return real_open(path, mode, *a, **kw)
    C.open = hooked_open

    real_cythonize = C.cythonize

    def cythonize(exts, *a, **kw):
        ctrl.at(('c', 0))
        src = exts[0].sources[0]
        cfile = os.path.splitext(src)[0] + '.c'
        before = os.stat(cfile).st_mtime_ns if os.path.exists(cfile) else None
        res = real_cythonize(exts, *a, **kw)
        # Cython regenerates the .c only when it is missing or older than the .pyx
        if os.path.exists(cfile) and os.stat(cfile).st_mtime_ns != before:
            ctrl.wrote('c', cfile)
        return res
    C.cythonize = cythonize

    real_gbe = C._get_build_extension

    def get_build_extension():
        be = real_gbe()
        real_build_extensions = be.build_extensions

        def build_extensions():
            comp = be.compiler
            # distutils runs gcc through CCompiler.spawn (older setuptools) or Compiler.call (newer)
            def wrap(real):
                def run(cmd, *a, **kw):
                    cmd = list(cmd)
                    out = cmd[cmd.index('-o') + 1] if '-o' in cmd else None
                    role = 'o' if '-c' in cmd else ('so' if '-shared' in cmd else None)
                    if role:
                        ctrl.at((role, 0))
                    r = real(cmd, *a, **kw)
                    if role and out:
                        ctrl.wrote(role, out)
                    return r
                return run
            if hasattr(comp, 'call'):
                comp.call = wrap(comp.call)
            else:
                comp.spawn = wrap(comp.spawn)
            return real_build_extensions()
        be.build_extensions = build_extensions
        return be
    C._get_build_extension = get_build_extension

    real_replace = os.replace

    def replace(src, dst, *a, **kw):
        if str(dst).endswith('.so'):
            ctrl.at('replace')
        elif str(dst).endswith('.ok'):
            ctrl.at('replaceok')
        return real_replace(src, dst, *a, **kw)
    os.replace = replace

    real_mkdtemp = tempfile.mkdtemp

    def mkdtemp(*a, **kw):
        if kw.get('dir') == C.MODDIR:
            state['built'] = True
            ctrl.at('mkdtemp')
        return real_mkdtemp(*a, **kw)
    tempfile.mkdtemp = mkdtemp

    real_makedirs = os.makedirs

    def makedirs(name, *a, **kw):
        if str(name) == C.MODDIR:
            ctrl.at('mkdir')
        return real_makedirs(name, *a, **kw)
    os.makedirs = makedirs

    real_rmtree = shutil.rmtree

    def rmtree(path, *a, **kw):
        if os.path.dirname(str(path)) == C.MODDIR:
            ctrl.at('cleanup')
        return real_rmtree(path, *a, **kw)
    shutil.rmtree = rmtree


def make_form(vform, k):
    # not one of the predefined forms that compile.py seeds its in-process cache with
    vf = vform.VForm(2)
    u, v = vf.basisfuns()
    if k == 0:
        vf.add(2 * u * v * vform.dx)
    else:
        vf.add((vform.inner(vform.grad(u), vform.grad(v)) + u * v) * vform.dx)
    return vf


def coldrace(payload):
    import multiprocessing as mp
    import pyiga.compile as pc
    nproc, rounds, forms, depth, base = (payload[k] for k in ('nproc', 'rounds', 'forms', 'depth', 'base'))

    def worker(rank, barrier, queue):
        def stub_nocache(src, modname, verbose=False):
            fd, tmp = tempfile.mkstemp(dir=pc.MODDIR, suffix='.tmp')
            with os.fdopen(fd, 'w') as f:
                f.write('SRC = %r\n' % src)
            os.replace(tmp, os.path.join(pc.MODDIR, modname + '.py'))
            importlib.invalidate_caches()
            return importlib.import_module(modname)
        pc._compile_cython_module_nocache = stub_nocache
        failures = []
        for r in range(rounds):
            root = os.path.join(base, 'r%d' % r)
            pc.MODDIR = os.path.join(root, 'pyiga', 'modules')
            src = '# round %d form %d\n' % (r, forms[rank])
            try:
                barrier.wait(timeout=300)
            except Exception:
                failures.append([rank, r, 'barrier broken'])
                break
            try:
                mod = pc.compile_cython_module(src)
                if mod.SRC != src:
                    failures.append([rank, r, 'wrong module returned'])
            except BaseException as e:  # noqa
                failures.append([rank, r, '%s: %s' % (type(e).__name__, str(e)[:160])])
            finally:
                if pc.MODDIR in sys.path:
                    sys.path.remove(pc.MODDIR)
        queue.put(failures)

    # the part of the path that exists before the race: all but the last `depth` components
    for r in range(rounds):
        parts = [os.path.join(base, 'r%d' % r), 'pyiga', 'modules']
        keep = len(parts) - depth
        if keep > 0:
            os.makedirs(os.path.join(*parts[:keep]), exist_ok=True)
    ctx = mp.get_context('fork')
    barrier = ctx.Barrier(nproc)
    queue = ctx.Queue()
    procs = [ctx.Process(target=worker, args=(k, barrier, queue)) for k in range(nproc)]
    for p in procs:
        p.start()
    failures = []
    got = 0
    try:
        for _ in procs:
            failures += queue.get(timeout=900)
            got += 1
    except Exception:
        pass
    for p in procs:
        p.join(timeout=30)
        if p.is_alive():
            p.kill()
    died = [k for k, p in enumerate(procs) if p.exitcode not in (0, None)]
    print(json.dumps({'failures': failures[:50], 'nfail': len(failures), 'reports': got, 'died': died}))


def main():
    payload = json.load(sys.stdin)
    import pyiga
    assert os.path.realpath(pyiga.__file__).startswith(os.path.realpath(os.environ['VERIF_IMPL_DIR'])), pyiga.__file__
    from pyiga import vform, compile, bspline, assemble, geometry, assemblers
    import hashlib
    mode = payload['mode']
    if mode == 'names':
        names = []
        for k in (0, 1):
            src = compile.generate(make_form(vform, k))
            names.append('mod' + hashlib.shake_128(src.encode()).hexdigest(8))
        print(json.dumps({'names': names, 'moddir': compile.MODDIR}))
        return
    if mode == 'coldrace':
        coldrace(payload)
        return
    if mode == 'probe':
        sys.path.append(compile.MODDIR)
        try:
            m = importlib.import_module(payload['modname'])
            print(json.dumps({'status': 'loaded', 'has_asm': hasattr(m, 'CustomAssembler')}))
        except ImportError as e:
            print(json.dumps({'status': 'importerror', 'msg': str(e)[:200]}))
        return
    ctrl = Control(payload.get('kill'), payload.get('ctl'))
    install(ctrl)
    k = payload['form']
    res = {'form': k}
    try:
        asm = compile.compile_vform(make_form(vform, k))
        kvs = 2 * (bspline.make_knots(2, 0.0, 1.0, 3),)
        geo = geometry.unit_square()
        A = assemble.assemble(asm, kvs, geo=geo).toarray()
        # independent reference: the ahead-of-time compiled assemblers of the package
        M = assemble.assemble(assemblers.MassAssembler2D, kvs, geo=geo).toarray()
        if k == 0:
            R = 2 * M
        else:
            R = assemble.assemble(assemblers.StiffnessAssembler2D, kvs, geo=geo).toarray() + M
        res['status'] = 'ok'
        res['shape'] = list(A.shape)
        res['maxabs_ref'] = float(abs(R).max())
        res['maxdiff'] = float(abs(A - R).max()) if A.shape == R.shape else None
        res['checksum'] = float(A.sum())
    except BaseException as e:  # noqa
        res['status'] = 'exception'
        res['exc'] = type(e).__name__
        res['msg'] = str(e)[:300]
    res['trace'] = ctrl.trace
    print(json.dumps(res))
    sys.stdout.flush()


if __name__ == '__main__':
    main()
