"""Implementation driver for C09: runs pyiga's 1D Galerkin routines, the tensor-product
mass/stiffness routes and the integration helpers on the real code.

stdin: {"out": <dir for .npy arrays>, "cases": [...]};  last stdout line: {"results": [...]}.
Float arrays are handed back as .npy files (bit-exact), integers/structures as JSON.
Thin on purpose: every comparison is made by the harness (harness/props/c09.py).
"""
import json
import os
import sys

import numpy as np


def errclass(e):
    for c in (TypeError, ValueError, AssertionError, IndexError, KeyError, NotImplementedError, ZeroDivisionError):
        if isinstance(e, c):
            return c.__name__
    return 'Other:' + type(e).__name__


def fl(hs):
    return np.array([float.fromhex(h) for h in hs])


def polyfun(coeffs):
    """Horner evaluation of sum c_i x^i (c_i small integers)."""
    def f(x):
        r = np.zeros_like(x, dtype=float) + float(coeffs[-1])
        for c in reversed(coeffs[:-1]):
            r = r * x + float(c)
        return r
    return f


def polyfun_nd(cs):
    """Product of univariate polynomials; argument order follows pyiga's convention
    f(x, y[, z]) with x the LAST parametric axis (utils.grid_eval reverses the mesh)."""
    fs = [polyfun(c) for c in cs]       # cs[k] belongs to kvs[k]

    def f(*X):
        X = X[::-1]                      # X[k] now belongs to kvs[k]
        r = 1.0
        for fk, xk in zip(fs, X):
            r = r * fk(xk)
        return r
    return f


def main():
    import pyiga
    assert os.path.realpath(pyiga.__file__).startswith(os.path.realpath(os.environ['VERIF_IMPL_DIR'])), pyiga.__file__
    pyiga.set_max_threads(2) if hasattr(pyiga, 'set_max_threads') else None
    from pyiga import bspline, assemble, geometry, vform, assemble_tools

    payload = json.load(sys.stdin)
    outdir = payload['out']
    os.makedirs(outdir, exist_ok=True)
    nfile = [0]

    def save(arr):
        nfile[0] += 1
        p = os.path.join(outdir, 'a%d_%05d.npy' % (os.getpid(), nfile[0]))
        np.save(p, np.ascontiguousarray(np.asarray(arr, dtype=float)))
        return p

    def KV(spec):
        return bspline.KnotVector(fl(spec['kv']), int(spec['p']))

    def stored_pattern(A):
        C = A.tocoo()
        return sorted(set(zip(C.row.tolist(), C.col.tolist())))

    def stored_dense(A):
        C = A.tocoo()
        P = np.zeros(A.shape)
        P[C.row, C.col] = 1.0
        return P

    def run_fast(fn, kvs, geo, tol):
        import contextlib
        import io
        buf = io.StringIO()       # fastasm.cc logs through sys.stdout.write
        with contextlib.redirect_stdout(buf):
            A = fn(kvs, geo, tol=tol, verbose=1)
        return A, buf.getvalue()[-400:]

    def make_geo(g, kvs):
        kind = g['kind']
        d = len(kvs)
        if kind == 'unit_cube':
            return geometry.unit_cube(dim=d)
        if kind == 'identity':
            return geometry.identity(kvs)
        if kind == 'multilinear':
            kv1 = bspline.make_knots(1, 0.0, 1.0, 1)
            co = np.array(g['coeffs'], dtype=float).reshape(d * (2,) + (d,))
            return bspline.BSplineFunc(d * (kv1,), co)
        if kind == 'quarter_annulus':
            return geometry.quarter_annulus()
        if kind == 'bspline_quarter_annulus':
            return geometry.bspline_quarter_annulus()
        if kind == 'twisted_box':
            return geometry.twisted_box()
        raise ValueError(kind)

    out = []
    for case in payload['cases']:
        res = {'status': 'Ok'}
        try:
            k = case['kind']
            if k == '1d':
                kv = KV(case)
                wf = polyfun(case['wf']) if case.get('wf') else None
                A = assemble.bsp_mixed_deriv_biform_1d(kv, case['du'], case['dv'], nqp=case.get('nqp'), weightfunc=wf)
                res['shape'] = list(A.shape)
                res['A'] = save(A.toarray())
                res['pattern'] = stored_pattern(A)
                res['mesh'] = [float(x).hex() for x in kv.mesh]
                res['span_idx'] = [int(x) for x in kv.mesh_span_indices()]
                res['first_active'] = [int(x) for x in kv.first_active(kv.mesh_span_indices())]
                res['numspans'] = int(kv.numspans)
                res['numdofs'] = int(kv.numdofs)
                # the named 1D routes are the same routine
                res['mass_same'] = bool((assemble.bsp_mass_1d(kv) != assemble.bsp_mixed_deriv_biform_1d(kv, 0, 0)).nnz == 0)
                if kv.p >= 1:
                    res['stiff_same'] = bool((assemble.bsp_stiffness_1d(kv) != assemble.bsp_mixed_deriv_biform_1d(kv, 1, 1)).nnz == 0)
                    res['K1'] = save(assemble.stiffness(kv).toarray())
                res['M1'] = save(assemble.mass(kv).toarray())
                # load vector / inner products / integral of a polynomial
                f = polyfun(case['f'])
                res['load'] = save(bspline.load_vector(kv, f))
                try:
                    res['inner'] = save(assemble.inner_products(kv, f))
                    res['integral'] = float(assemble.integrate(kv, f)).hex()
                except Exception as e:      # noqa
                    res['inner_err'] = errclass(e) + ': ' + (str(e) or repr(e))[:200]
            elif k == 'asym':
                kv1 = KV(case['s1'])
                kv2 = KV(case['s2'])
                qg = fl(case['quadgrid']) if case.get('quadgrid') else None
                A = assemble.bsp_mixed_deriv_biform_1d_asym(kv1, kv2, case['du'], case['dv'], quadgrid=qg, nqp=case.get('nqp'))
                res['shape'] = list(A.shape)
                res['A'] = save(A.toarray())
                res['pattern'] = stored_pattern(A)
                if case['du'] == 0 and case['dv'] == 0 and case.get('nqp') is None:
                    res['mass_same'] = bool((assemble.bsp_mass_1d_asym(kv1, kv2, quadgrid=qg) != A).nnz == 0)
                if case['du'] == 1 and case['dv'] == 1 and case.get('nqp') is None:
                    res['stiff_same'] = bool((assemble.bsp_stiffness_1d_asym(kv1, kv2, quadgrid=qg) != A).nnz == 0)
            elif k == 'tp':
                kvs = tuple(KV(s) for s in case['spaces'])
                d = len(kvs)
                geo = make_geo(case['geo'], kvs)
                arg = kvs if d > 1 else kvs      # a 1-tuple is accepted by mass()/stiffness()
                routes = {}
                routes['kron'] = assemble.mass(arg)
                if d > 1:
                    routes['generic'] = assemble.mass(arg, geo=geo)
                    routes['fast_nogeo'] = assemble.mass_fast(arg, verbose=0)
                routes['string'] = assemble.assemble('u * v * dx', kvs, geo=geo)
                routes['vform'] = assemble.assemble(vform.mass_vf(d), kvs, geo=geo)
                res['M'] = {r: save(A.toarray()) for r, A in routes.items()}
                if case['stiffness']:
                    routes = {}
                    routes['kron'] = assemble.stiffness(arg)
                    if d > 1:
                        routes['generic'] = assemble.stiffness(arg, geo=geo)
                        routes['fast_nogeo'] = assemble.stiffness_fast(arg, verbose=0)
                    routes['string'] = assemble.assemble('inner(grad(u), grad(v)) * dx', kvs, geo=geo)
                    routes['vform'] = assemble.assemble(vform.stiffness_vf(d), kvs, geo=geo)
                    res['K'] = {r: save(A.toarray()) for r, A in routes.items()}
                f = polyfun_nd(case['f'])
                try:
                    res['inner'] = save(assemble.inner_products(kvs, f))
                    res['inner_geo'] = save(assemble.inner_products(kvs, f, geo=geo))
                    res['integral'] = float(assemble.integrate(kvs, f)).hex()
                    res['integral_geo'] = float(assemble.integrate(kvs, f, geo=geo)).hex()
                except Exception as e:      # noqa
                    res['inner_err'] = errclass(e) + ': ' + (str(e) or repr(e))[:200]
            elif k == 'geo':
                kvs = tuple(KV(s) for s in case['spaces'])
                d = len(kvs)
                geo = make_geo(case['geo'], kvs)
                M = assemble.mass(kvs, geo)
                res['M'] = save(M.toarray())
                one = lambda *X: 1.0 + 0.0 * X[0]
                res['int_one'] = float(assemble.integrate(kvs, one, geo=geo)).hex()
                res['inner_one'] = save(assemble.inner_products(kvs, one, geo=geo))
                # physical coordinate functions: integral of x_c over the mapped domain
                res['int_coord'] = [float(assemble.integrate(kvs, (lambda c: (lambda *X: X[c] + 0.0))(c), f_physical=True, geo=geo)).hex()
                                    for c in range(d)]
                res['inner_coord0'] = save(assemble.inner_products(kvs, lambda *X: X[0] + 0.0, f_physical=True, geo=geo))
                if case.get('fpar'):
                    # both values of f_physical with NON-constant data on this geometry:
                    # parametric integrand (the documented default f_physical=False, and passed explicitly)
                    fp = polyfun_nd(case['fpar'])
                    res['int_par_default'] = float(assemble.integrate(kvs, fp, geo=geo)).hex()
                    res['int_par'] = float(assemble.integrate(kvs, fp, f_physical=False, geo=geo)).hex()
                    res['inner_par_default'] = save(assemble.inner_products(kvs, fp, geo=geo))
                    res['inner_par'] = save(assemble.inner_products(kvs, fp, f_physical=False, geo=geo))
                    # physical integrand x_0 * x_1
                    fq = lambda *X: X[0] * X[1]
                    res['int_phys_prod'] = float(assemble.integrate(kvs, fq, f_physical=True, geo=geo)).hex()
                    res['inner_phys_prod'] = save(assemble.inner_products(kvs, fq, f_physical=True, geo=geo))
                    # the same polynomial data WITHOUT geometry (parameter domain) afterwards
                    res['int_par_nogeo'] = float(assemble.integrate(kvs, fp)).hex()
                if case.get('stiffness'):
                    K = assemble.stiffness(kvs, geo)
                    res['K'] = save(K.toarray())
                if case.get('fast'):
                    tol = case['fast']
                    Mf, lg = run_fast(assemble.mass_fast, kvs, geo, tol)
                    res['Mf'] = save(Mf.toarray())
                    res['Mf_pat'] = save(stored_dense(Mf))
                    res['Mf_log'] = lg
                    if case.get('stiffness'):
                        Kf, lg = run_fast(assemble.stiffness_fast, kvs, geo, tol)
                        res['Kf'] = save(Kf.toarray())
                        res['Kf_pat'] = save(stored_dense(Kf))
                        res['Kf_log'] = lg
            elif k == 'fast':
                # low-rank assembler against the generic one on identity-like geometries
                kvs = tuple(KV(s) for s in case['spaces'])
                geo = make_geo(case['geo'], kvs)
                tol = case['tol']
                res['M'] = save(assemble.mass(kvs, geo).toarray())
                res['K'] = save(assemble.stiffness(kvs, geo).toarray())
                Mf, lg = run_fast(assemble.mass_fast, kvs, geo, tol)
                res['Mf'] = save(Mf.toarray())
                res['Mf_pat'] = save(stored_dense(Mf))
                res['Mf_log'] = lg
                Kf, lg = run_fast(assemble.stiffness_fast, kvs, geo, tol)
                res['Kf'] = save(Kf.toarray())
                res['Kf_pat'] = save(stored_dense(Kf))
                res['Kf_log'] = lg
            elif k == 'detinv':
                X = np.array([[float.fromhex(h) for h in row] for row in case['X']]).reshape(case['shape'])
                X = np.ascontiguousarray(X)
                res['det'] = save(assemble_tools.determinants(X))
                dd, ii = assemble_tools.det_and_inv(X)
                res['det2'] = save(dd)
                res['inv'] = save(ii)
                res['inv2'] = save(assemble_tools.inverses(X))
            else:
                raise ValueError('unknown case kind ' + k)
        except Exception as e:      # noqa
            import traceback
            res = {'status': errclass(e), 'msg': (str(e) or repr(e))[:300], 'tb': traceback.format_exc()[-600:]}
        out.append(res)
    print(json.dumps({'results': out}))


if __name__ == '__main__':
    main()
