(* C06 -- non-vacuity: concrete non-trivial inputs meet the hypotheses of the theorems
   (Qc instance; everything by computation). *)
From Coq Require Import List String Bool Arith ZArith QArith Qcanon Field.
From Verif.C06 Require Import Model Proofs Props.
Import ListNotations. Import QcInst.
Close Scope Qc_scope. Close Scope Q_scope. Open Scope nat_scope. Open Scope string_scope.

Definition q (n : Z) (d : positive) : Qc := Q2Qc (Qmake n d).
Definition C (n : Z) (d : positive) : qexpr := Const (q n d).

(* Qc is a field in the sense of the theorems *)
Example qc_field : field_theory (q 0 1) (q 1 1) Qcplus Qcmult Qcminus Qcopp Qcdiv Qcinv (@eq Qc).
Proof. exact Qcft. Qed.

(* the exact equality test satisfies the hypothesis "near c v -> c = v" of fold1_sound *)
Example qeqb_exact : forall c v : Qc, qeqb c v = true -> c = v.
Proof.
  intros c v H. unfold qeqb in H. apply Qc_is_canon. apply Qeq_bool_eq. exact H.
Qed.

(* a form-like tree on which the rule chain really fires:
   (0*u + 1*(f - (-g))) / 1  folds to  f + g *)
Definition ex_tree : qexpr :=
  Op ODiv (Op OAdd (Op OMul (C 0 1) (PD "u" None [0;0] false))
                   (Op OMul (C 1 1) (Op OSub (VR "f_a" [] [0;0] true) (Neg (VR "g_a" [0] [0;0] true)))))
          (C 1 1).

Example ex_fold : qfold_all ex_tree = Some (Op OAdd (VR "f_a" [] [0;0] true) (VR "g_a" [0] [0;0] true)).
Proof. vm_compute. reflexivity. Qed.

(* division of constants by an exact zero is the ZeroDivisionError of the code *)
Example ex_fold_raises : qfold_all (Op OMul (PD "u" None [0] false) (Op ODiv (C 1 1) (C 0 1))) = None.
Proof. vm_compute. reflexivity. Qed.

(* Dx of a quotient of an input field and a basis function returns an expression *)
Definition ex_kind (n : string) : vkind := if String.eqb n "f_a" then KInput else KParam.
Example ex_dx :
  qdx ex_kind 1 1 true (Op ODiv (VR "f_a" [] [0;0] true) (PD "u" None [0;0] false)) =
  Ok (Op ODiv (Op OSub (Op OMul (VR "f_a" [] [0;1] true) (PD "u" None [0;0] false))
                       (Op OMul (VR "f_a" [] [0;0] true) (PD "u" None [0;1] false)))
              (Op OMul (PD "u" None [0;0] false) (PD "u" None [0;0] false))).
Proof. vm_compute. reflexivity. Qed.

(* mixing physical and parametric derivatives is rejected *)
Example ex_dx_raises : qdx ex_kind 0 1 true (PD "u" None [1;0] true) = Raise.
Proof. vm_compute. reflexivity. Qed.

(* an environment, definitions in an admissible order, and the value of a forest:
   _tmp1 := f*u ; integrand _tmp1 + _tmp1 with f = 3/2, u = 1/4 is 3/4 *)
Definition ex_env : qenv :=
  qenv_of [(pd_key "u" None [0;0] false, q 1 4)] [(vr_key "f_a" [] [0;0] true, q 3 2)] [q 1 2; q 1 2] (q 0 1) (q 0 1) qfn.
Definition ex_defs : list (string * qtexpr) :=
  [("_tmp1", TS (Op OMul (VR "f_a" [] [0;0] true) (PD "u" None [0;0] false)))].
Definition ex_root : qtexpr := TS (Op OAdd (VR "_tmp1" [] [0;0] false) (VR "_tmp1" [] [0;0] false)).

Example ex_forest_value :
  match qeval_forest ex_env ex_defs ex_root with Some [x] => qeqb x (q 3 4) | _ => false end = true.
Proof. vm_compute. reflexivity. Qed.

Example ex_forest_wf : wf_forest Qc ["f_a"] ex_defs [ex_root] = true.
Proof. vm_compute. reflexivity. Qed.

(* use before definition is rejected by the schedule checker *)
Example ex_forest_not_wf :
  wf_forest Qc ["f_a"] (("_tmp2", TS (VR "_tmp1" [] [0;0] false)) :: ex_defs) [ex_root] = false.
Proof. vm_compute. reflexivity. Qed.

(* CSE with the structural key: replacing f*u by the variable leaves the value unchanged,
   and the hypothesis "the new variable has the value of the representative" is met by
   the environment after evaluating the definitions *)
Example ex_cse :
  let rep := Op OMul (VR "f_a" [] [0;0] true) (PD "u" None [0;0] false) in
  cse_subst Qc (fun x => qexpr_eqb x rep) (VR "_tmp1" [] [0;0] false) (Op OAdd rep rep) =
  Op OAdd (VR "_tmp1" [] [0;0] false) (VR "_tmp1" [] [0;0] false).
Proof. vm_compute. reflexivity. Qed.

Example ex_cse_hyp :
  let en := qeval_defs ex_env ex_defs in
  qeval en (VR "_tmp1" [] [0;0] false) = qeval en (Op OMul (VR "f_a" [] [0;0] true) (PD "u" None [0;0] false)).
Proof. apply Qc_is_canon. vm_compute. reflexivity. Qed.

(* the function-name-blind key identifies sin(f) and cos(f), whose values differ under the
   interpretation used by the correspondence runs *)
Example ex_blind_key :
  erase_fn Qc (Fn "sin" (VR "f_a" [] [0;0] true)) = erase_fn Qc (Fn "cos" (VR "f_a" [] [0;0] true)) /\
  qeqb (qeval ex_env (Fn "sin" (VR "f_a" [] [0;0] true))) (qeval ex_env (Fn "cos" (VR "f_a" [] [0;0] true))) = false.
Proof. split; vm_compute; reflexivity. Qed.

(* indexing of a matrix-vector product expands to the left-nested sum of products *)
Example ex_matvec :
  qtat (TMatVec (TLM 2 2 [C 1 1; C 2 1; C 3 1; C 4 1]) (TLV [PD "u" None [0] false; PD "v" None [0] false])) [1] =
  Some (Op OAdd (Op OMul (C 3 1) (PD "u" None [0] false)) (Op OMul (C 4 1) (PD "v" None [0] false))).
Proof. vm_compute. reflexivity. Qed.

(* ---- round 2: non-vacuity of the new theorems ------------------------------------------- *)
From Verif.C06 Require Import Sched Ops Phys PhysST Compose.

(* a geometry Jacobian with det J = 2 <> 0 meets the hypothesis of physical_*_sound_2 *)
Definition exJ (a b : nat) : Qc := match a, b with 0, 0 => q 2 1 | 0, 1 => q 1 1 | 1, 0 => q 0 1 | _, _ => q 1 1 end.
Example ex_detJ : qeqb (detJ Qc (q 0 1) (q 1 1) Qcplus Qcmult Qcminus Qcdiv Qcopp exJ 2) (q 2 1) = true.
Proof. vm_compute. reflexivity. Qed.
Example ex_detJ_nonzero : detJ Qc (q 0 1) (q 1 1) Qcplus Qcmult Qcminus Qcdiv Qcopp exJ 2 <> q 0 1.
Proof. intro H. apply (f_equal (fun x => qeqb x (q 0 1))) in H. vm_compute in H. discriminate H. Qed.

(* the model's output for the mixed derivative d_x0 d_t^2 u in a 2+1 space-time form: the helper
   variables carry TWO time derivatives (the multiplicity indices_to_D must keep) *)
Example ex_spacetime_rpd :
  qrpd_bf true 3 "u" None [1; 0; 2] true =
  RNew (Op OAdd (Op OMul (VR "JacInv" [0; 0] [0; 0; 0] false) (VR "_du_102" [] [0; 0; 0] false))
                (Op OMul (VR "JacInv" [1; 0] [0; 0; 0] false) (VR "_du_012" [] [0; 0; 0] false)))
       [("_du_102", TS (PD "u" None [1; 0; 2] false)); ("_du_012", TS (PD "u" None [0; 1; 2] false))].
Proof. vm_compute. reflexivity. Qed.

(* an environment meeting st_env_ok (dim 2, n = 2 time derivatives) exists *)
Section ExST.
Variables (Js : nat -> nat -> Qc) (P : nat -> Qc).
Definition ex_st_env : qenv :=
  mkEnv (fun _ _ _ _ => Qcplus (Qcmult (Js 0 0) (P 0)) (q 0 1))
        (fun n Ix _ _ => if String.eqb n "JacInv"
                         then qeval (PhysST.dummy Qc (q 0 1))
                                (inv_entry Qc (q 0 1) (q 1 1) Qcopp (Jcm Qc (q 0 1) (q 1 1) Js 2) (nth 0 Ix 0) (nth 1 Ix 0))
                         else Qcplus (Qcmult (Js 0 0) (P 0)) (q 0 1))
        (fun _ => q 0 1) (q 0 1) (q 0 1) (fun _ x => x).
Example ex_st_env_ok :
  st_env_ok Qc (q 0 1) (q 1 1) Qcplus Qcmult Qcminus Qcdiv Qcopp Js P 2 "u" None 2 ex_st_env.
Proof.
  split; [|split].
  - intros a b. reflexivity.
  - intros i Hi. reflexivity.
  - intros i Hi. destruct i; [reflexivity|]. exfalso. simpl in Hi. apply Nat.lt_1_r in Hi. discriminate Hi.
Qed.
End ExST.

(* det and inv of a concrete matrix *)
Definition exA : list (list qexpr) := [[C 2 1; C 1 1]; [C 0 1; C 1 1]].
Example ex_det : match qe_det 3 exA with Some d => qeqb (qeval ex_env d) (q 2 1) | None => false end = true.
Proof. vm_compute. reflexivity. Qed.
Example ex_inv_entry : qeqb (qeval ex_env (inv_entry Qc (q 0 1) (q 1 1) Qcopp exA 0 1)) (q (-1) 2) = true.
Proof. vm_compute. reflexivity. Qed.

(* vector component substitution: u[1]*v[0] with u <- e_1, v <- e_0 becomes u*v, with u <- e_0 it is 0*v *)
Example ex_subst_vec :
  qsubst_vec2 "u" "v" 0 1 (Op OMul (PD "u" (Some 1) [0] false) (PD "v" (Some 0) [0] false)) =
  Op OMul (PD "u" None [0] false) (PD "v" None [0] false) /\
  qsubst_vec2 "u" "v" 0 0 (Op OMul (PD "u" (Some 1) [0] false) (PD "v" (Some 0) [0] false)) =
  Op OMul (Const (Q2Qc 0)) (PD "v" None [0] false).
Proof. split; vm_compute; reflexivity. Qed.

(* an index inside the shape of a definition accepted by the checker *)
Example ex_in_shape : in_shape (tshape Qc (TLM 2 2 [C 1 1; C 2 1; C 3 1; C 4 1])) [1; 0].
Proof. repeat constructor. Qed.

(* a pipeline of two passes on a tree *)
Example ex_run_passes :
  run_passes Qc [rpd_node Qc 0%Qc false 2; qfold1] (Op OMul (C 1 1) (PD "u" None [0; 0] true)) =
  Some (PD "u" None [0; 0] false).
Proof. vm_compute. reflexivity. Qed.
