(* C10 -- lemmas about the model of RestrictedLinearSystem and of the boundary-index code. *)
From Coq Require Import List Arith Bool ZArith Lia Ring Permutation Sorted.
From Verif.lib Require Import Slice.
From Verif.C10 Require Import Model.
Import ListNotations.
Local Open Scope nat_scope.

(* ------------------------------------------------------------------------- *)
(* generic facts about compress                                              *)
(* ------------------------------------------------------------------------- *)

Lemma compress_nil_r {X} (m : list bool) : @compress X m [] = [].
Proof. destruct m; reflexivity. Qed.

Lemma compress_map {X Y} (f : X -> Y) m : forall l, compress m (map f l) = map f (compress m l).
Proof.
  induction m as [|b m IH]; intros [|x l]; simpl; auto.
  destruct b; simpl; rewrite IH; reflexivity.
Qed.

Lemma compress_length {X} m : forall (l : list X), length l = length m -> length (compress m l) = ntrue m.
Proof.
  unfold ntrue. induction m as [|b m IH]; intros [|x l] H; simpl in *; try discriminate; auto.
  destruct b; simpl; rewrite IH; auto.
Qed.

Lemma nmask_length m : length (nmask m) = length m.
Proof. apply map_length. Qed.

Lemma free_mask_length n idx : length (free_mask n idx) = n.
Proof. unfold free_mask. rewrite map_length, seq_length. reflexivity. Qed.

Lemma memb_In j l : memb j l = true <-> In j l.
Proof.
  unfold memb. rewrite existsb_exists. split.
  - intros [x [Hx He]]. apply Nat.eqb_eq in He. subst. exact Hx.
  - intros H. exists j. split; auto. apply Nat.eqb_refl.
Qed.

Lemma nth_map_lt {A B} (f : A -> B) l j d d' : j < length l -> nth j (map f l) d = f (nth j l d').
Proof.
  intros H. rewrite nth_indep with (d' := f d') by (rewrite map_length; exact H). apply map_nth.
Qed.

Lemma nth_free_mask n idx j : j < n -> nth j (free_mask n idx) false = negb (memb j idx).
Proof.
  intros H. unfold free_mask.
  rewrite nth_map_lt with (d' := 0) by (rewrite seq_length; exact H).
  rewrite seq_nth by exact H. reflexivity.
Qed.

Lemma nth_nmask m j : j < length m -> nth j (nmask m) false = negb (nth j m false).
Proof.
  intros H. unfold nmask. apply nth_map_lt, H.
Qed.

(* selecting with a mask: position of the j-th entry in the compressed list *)
Lemma nth_rank_compress {X} (dflt : X) m : forall (l : list X) j,
  length l = length m -> nth j m false = true ->
  nth (rank m j) (compress m l) dflt = nth j l dflt.
Proof.
  unfold rank, ntrue.
  induction m as [|b m IH]; intros l j Hl Hj.
  - destruct j; discriminate.
  - destruct l as [|x l]; [discriminate|]. simpl in Hl.
    destruct j as [|j].
    + simpl in Hj. subst b. reflexivity.
    + simpl in Hj. simpl. destruct b; simpl; apply IH; auto.
Qed.

Lemma rank_lt_ntrue m : forall j, nth j m false = true -> rank m j < ntrue m.
Proof.
  unfold rank, ntrue.
  induction m as [|b m IH]; intros j Hj.
  - destruct j; discriminate.
  - destruct j as [|j]; simpl in *.
    + subst b. simpl. lia.
    + destruct b; simpl; specialize (IH j Hj); lia.
Qed.

(* two lists that agree after compression agree at every selected position *)
Lemma compress_eq_nth {X} (dflt : X) m : forall (a b : list X) i,
  length a = length b -> compress m a = compress m b -> nth i m false = true ->
  nth i a dflt = nth i b dflt.
Proof.
  induction m as [|c m IH]; intros a b i Hl He Hi.
  - destruct i; discriminate.
  - destruct a as [|x a], b as [|y b]; try discriminate.
    + reflexivity.
    + simpl in Hl. destruct i as [|i]; simpl in *.
      * subst c. injection He. auto.
      * destruct c; [injection He; intros|]; apply IH; auto.
Qed.

(* ------------------------------------------------------------------------- *)
(* argsort: sorting the (index, position) pairs                              *)
(* ------------------------------------------------------------------------- *)

Definition le1 (a b : nat * nat) : Prop := fst a <= fst b.

Lemma ins_perm kp l : Permutation (ins kp l) (kp :: l).
Proof.
  induction l as [|x l IH]; simpl; auto.
  destruct (fst kp <=? fst x); auto.
  eapply perm_trans; [apply perm_skip, IH | apply perm_swap].
Qed.

Lemma ins_sorted kp l : StronglySorted le1 l -> StronglySorted le1 (ins kp l).
Proof.
  induction l as [|x l IH]; intros Hs; simpl.
  - constructor; constructor.
  - inversion Hs as [|? ? Hs' Hall]; subst.
    destruct (fst kp <=? fst x) eqn:E.
    + apply Nat.leb_le in E. constructor; auto.
      constructor; [exact E|].
      rewrite Forall_forall in *. intros y Hy. unfold le1 in *. specialize (Hall y Hy). lia.
    + apply Nat.leb_gt in E. constructor; auto.
      rewrite Forall_forall in *. intros y Hy.
      apply (Permutation_in _ (ins_perm kp l)) in Hy. destruct Hy as [<-|Hy].
      * unfold le1. lia.
      * apply Hall, Hy.
Qed.

Lemma sort_pairs_perm idx : Permutation (sort_pairs idx) (combine idx (seq 0 (length idx))).
Proof.
  unfold sort_pairs. induction (combine idx (seq 0 (length idx))) as [|x l IH]; simpl; auto.
  eapply perm_trans; [apply ins_perm | apply perm_skip, IH].
Qed.

Lemma sort_pairs_sorted idx : StronglySorted le1 (sort_pairs idx).
Proof.
  unfold sort_pairs. induction (combine idx (seq 0 (length idx))) as [|x l IH]; simpl.
  - constructor.
  - apply ins_sorted, IH.
Qed.

Lemma in_combine_seq (l : list nat) : forall s a p,
  In (a, p) (combine l (seq s (length l))) -> s <= p < s + length l /\ nth (p - s) l 0 = a.
Proof.
  induction l as [|x l IH]; intros s a p H; simpl in *; [contradiction|].
  destruct H as [H|H].
  - injection H; intros; subst. split; [lia|]. rewrite Nat.sub_diag. reflexivity.
  - apply IH in H. destruct H as [H1 H2]. split; [lia|].
    replace (p - s) with (S (p - S s)) by lia. exact H2.
Qed.

Lemma map_fst_combine_seq (l : list nat) : forall s, map fst (combine l (seq s (length l))) = l.
Proof. induction l as [|x l IH]; intros s; simpl; [|rewrite IH]; reflexivity. Qed.

Lemma map_snd_combine_seq (l : list nat) : forall s, map snd (combine l (seq s (length l))) = seq s (length l).
Proof. induction l as [|x l IH]; intros s; simpl; [|rewrite IH]; reflexivity. Qed.

Lemma sorted_map_fst l : StronglySorted le1 l -> StronglySorted le (map fst l).
Proof.
  induction 1 as [|x l Hs IH Hall]; simpl; constructor; auto.
  rewrite Forall_forall in *. intros y Hy. apply in_map_iff in Hy. destruct Hy as [z [<- Hz]].
  apply Hall, Hz.
Qed.

Lemma sorted_nodup_strict l : StronglySorted le l -> NoDup l -> StronglySorted lt l.
Proof.
  induction 1 as [|x l Hs IH Hall]; intros Hn; constructor; inversion Hn; subst; auto.
  rewrite Forall_forall in *. intros y Hy. specialize (Hall y Hy).
  assert (x <> y) by (intros ->; contradiction). lia.
Qed.

(* a strictly increasing list with entries in [s, s+n) is what filtering the range by
   membership returns *)
Lemma filter_memb_sorted : forall n s l,
  StronglySorted lt l -> (forall x, In x l -> s <= x < s + n) ->
  filter (fun j => memb j l) (seq s n) = l.
Proof.
  induction n as [|n IH]; intros s l Hs Hr.
  - destruct l as [|a l]; [reflexivity|]. specialize (Hr a (or_introl eq_refl)). lia.
  - simpl. destruct l as [|a l].
    + simpl. clear. generalize (S s). induction n; intros; simpl; auto.
    + inversion Hs as [|? ? Hs' Hall]; subst. rewrite Forall_forall in Hall.
      assert (Ha := Hr a (or_introl eq_refl)).
      destruct (Nat.eq_dec a s) as [->|Hne].
      * replace (memb s (s :: l)) with true by (symmetry; apply memb_In; left; reflexivity).
        f_equal.
        rewrite filter_ext_in with (g := fun j => memb j l).
        -- apply IH; auto. intros x Hx. specialize (Hall x Hx). specialize (Hr x (or_intror Hx)). lia.
        -- intros x Hx. apply in_seq in Hx. unfold memb. simpl.
           replace (x =? s) with false by (symmetry; apply Nat.eqb_neq; lia). reflexivity.
      * replace (memb s (a :: l)) with false.
        -- apply IH; auto. intros x [<-|Hx]; [lia|]. specialize (Hall x Hx). specialize (Hr x (or_intror Hx)). lia.
        -- symmetry. apply not_true_iff_false. rewrite memb_In. intros [->|Hx]; [lia|].
           specialize (Hall s Hx). lia.
Qed.

Lemma compress_nmask_free_mask n idx :
  elim_dofs n idx = filter (fun j => memb j idx) (seq 0 n).
Proof.
  unfold elim_dofs, free_mask, nmask. generalize 0.
  induction n as [|n IH]; intros s; simpl; auto.
  rewrite negb_involutive. destruct (memb s idx); simpl; rewrite IH; reflexivity.
Qed.

(* np.argsort brings duplicate-free indices into the order of the rows of I[~mask] *)
Lemma argsort_spec n idx :
  NoDup idx -> (forall x, In x idx -> x < n) ->
  map (fun p => nth p idx 0) (argsort idx) = elim_dofs n idx.
Proof.
  intros Hnd Hr. rewrite compress_nmask_free_mask.
  pose proof (sort_pairs_perm idx) as Hp. pose proof (sort_pairs_sorted idx) as Hs.
  unfold argsort. rewrite map_map.
  assert (E : map (fun x => nth (snd x) idx 0) (sort_pairs idx) = map fst (sort_pairs idx)).
  { apply map_ext_in. intros [a p] Hin. simpl.
    apply (Permutation_in _ Hp) in Hin. apply in_combine_seq in Hin.
    destruct Hin as [_ H]. rewrite Nat.sub_0_r in H. exact H. }
  rewrite E.
  assert (Hpf : Permutation (map fst (sort_pairs idx)) idx).
  { rewrite <- (map_fst_combine_seq idx 0) at 2. apply Permutation_map, Hp. }
  symmetry.
  rewrite filter_ext with (g := fun j => memb j (map fst (sort_pairs idx))).
  - apply filter_memb_sorted.
    + apply sorted_nodup_strict; [apply sorted_map_fst, Hs|].
      eapply Permutation_NoDup; [apply Permutation_sym, Hpf | exact Hnd].
    + intros x Hx. apply (Permutation_in _ Hpf) in Hx. specialize (Hr x Hx). lia.
  - intros j. apply eq_true_iff_eq. rewrite !memb_In. split; intros H.
    + eapply Permutation_in; [apply Permutation_sym, Hpf | exact H].
    + eapply Permutation_in; [apply Hpf | exact H].
Qed.

Lemma argsort_perm idx : Permutation (argsort idx) (seq 0 (length idx)).
Proof.
  unfold argsort. rewrite <- (map_snd_combine_seq idx 0). apply Permutation_map, sort_pairs_perm.
Qed.

Lemma argsort_length idx : length (argsort idx) = length idx.
Proof. rewrite (Permutation_length (argsort_perm idx)). apply seq_length. Qed.

Lemma argsort_lt idx p : In p (argsort idx) -> p < length idx.
Proof. intros H. apply (Permutation_in _ (argsort_perm idx)) in H. apply in_seq in H. lia. Qed.

Lemma elim_dofs_length n idx : length (elim_dofs n idx) = ntrue (nmask (free_mask n idx)).
Proof.
  unfold elim_dofs. apply compress_length. rewrite seq_length, nmask_length, free_mask_length. reflexivity.
Qed.

(* the number of eliminated dofs is the number of indices *)
Lemma ntrue_elim n idx : NoDup idx -> (forall x, In x idx -> x < n) ->
  ntrue (nmask (free_mask n idx)) = length idx.
Proof.
  intros Hnd Hr. rewrite <- elim_dofs_length, <- (argsort_spec n idx Hnd Hr), map_length.
  apply argsort_length.
Qed.

(* ------------------------------------------------------------------------- *)
(* linear algebra over an arbitrary commutative ring                          *)
(* ------------------------------------------------------------------------- *)

Section LinProofs.
Variable R : Type.
Variables (rO rI : R) (radd rmul rsub : R -> R -> R) (ropp : R -> R).
Hypothesis Rth : ring_theory rO rI radd rmul rsub ropp eq.
Add Ring Rring : Rth.

Notation expand := (expand R rO).
Notation dot := (dot R rO radd rmul).
Notation matvec := (matvec R rO radd rmul).
Notation vadd := (vadd R radd).
Notation vsub := (vsub R rsub).
Notation take := (take R rO).
Notation complete := (complete R rO radd).
Notation extend := (extend R rO).
Notation lift := (lift R rO).
Notation restrict := (restrict R).
Notation restrict_rhs := (restrict_rhs R).
Notation restrict_matrix := (restrict_matrix R).
Notation restricted_rhs := (restricted_rhs R rO radd rmul rsub).

Lemma expand_length m : forall v, length (expand m v) = length m.
Proof. induction m as [|[|] m IH]; intros v; simpl; auto. Qed.

Lemma dot_nil_r a : dot a [] = rO.
Proof. destruct a; reflexivity. Qed.

(* restrict (extend u) = u *)
Lemma compress_expand m : forall v, length v = ntrue m -> compress m (expand m v) = v.
Proof.
  unfold ntrue. induction m as [|[|] m IH]; intros v H; simpl in *.
  - destruct v; [reflexivity|discriminate].
  - destruct v as [|x v]; [discriminate|]. simpl. f_equal. apply IH. simpl in H. lia.
  - apply IH, H.
Qed.

(* restrict (R_elim^T w) = 0 *)
Lemma compress_expand_nmask m : forall w, compress m (expand (nmask m) w) = repeat rO (ntrue m).
Proof.
  unfold ntrue, nmask. induction m as [|[|] m IH]; intros w; simpl; auto.
  f_equal. apply IH.
Qed.

(* <row, R^T v> = <R row, v> *)
Lemma dot_expand m : forall row v, dot row (expand m v) = dot (compress m row) v.
Proof.
  induction m as [|b m IH]; intros row v.
  - simpl. rewrite dot_nil_r. reflexivity.
  - destruct row as [|r row]; [reflexivity|].
    destruct b; simpl.
    + destruct v as [|x v]; simpl.
      * rewrite IH, dot_nil_r. ring.
      * rewrite IH. reflexivity.
    + rewrite IH. ring.
Qed.

(* (R_v B R^T) u = R_v (B (R^T u)): restrict_matrix is consistent with extend/restrict_rhs *)
Lemma restrict_matrix_matvec mask maskv B u :
  matvec (restrict_matrix mask maskv B) u = restrict_rhs maskv (matvec B (extend mask u)).
Proof.
  unfold Model.restrict_matrix, Model.restrict_rhs, Model.matvec, Model.extend.
  rewrite !compress_map, map_map.
  apply map_ext. intros row. symmetry. apply dot_expand.
Qed.

Lemma vzip_length f : forall a b, length a = length b -> length (vzip R f a b) = length a.
Proof. induction a as [|x a IH]; intros [|y b] H; simpl in *; try discriminate; auto. Qed.

Lemma dot_vadd : forall row x y, length x = length y ->
  dot row (vadd x y) = radd (dot row x) (dot row y).
Proof.
  induction row as [|r row IH]; intros x y H; simpl; [ring|].
  destruct x as [|a x], y as [|c y]; try discriminate; simpl; [ring|].
  unfold Model.vadd in IH. rewrite IH by (simpl in H; lia). ring.
Qed.

Lemma matvec_vadd A x y : length x = length y ->
  matvec A (vadd x y) = vadd (matvec A x) (matvec A y).
Proof.
  intros H. unfold Model.matvec. induction A as [|row A IH]; simpl; auto.
  rewrite dot_vadd by exact H. unfold Model.vadd in *. simpl. f_equal. exact IH.
Qed.

Lemma compress_vzip f m : forall a b, compress m (vzip R f a b) = vzip R f (compress m a) (compress m b).
Proof.
  induction m as [|c m IH]; intros a b.
  - destruct a, b; reflexivity.
  - destruct a as [|x a], b as [|y b]; simpl.
    + reflexivity.
    + destruct c; reflexivity.
    + destruct c; simpl; destruct (compress m a); reflexivity.
    + destruct c; simpl; rewrite IH; reflexivity.
Qed.

Lemma vsub_vadd : forall a b, length a = length b -> vadd (vsub a b) b = a.
Proof.
  induction a as [|x a IH]; intros [|y b] H; simpl in *; try discriminate; auto.
  unfold Model.vadd, Model.vsub in *. simpl. rewrite IH by lia. f_equal. ring.
Qed.

Lemma matvec_length A x : length (matvec A x) = length A.
Proof. apply map_length. Qed.

(* every non-eliminated equation of the original system holds for the completed solution *)
Lemma complete_solves_l mask maskv A b values u :
  length b = length A ->
  matvec (restrict_matrix mask maskv A) u = restricted_rhs mask maskv A b values ->
  restrict_rhs maskv (matvec A (complete mask values u)) = restrict_rhs maskv b.
Proof.
  intros Hb H. unfold Model.complete.
  rewrite matvec_vadd by (unfold Model.extend, Model.lift; rewrite !expand_length, nmask_length; reflexivity).
  unfold Model.restrict_rhs. unfold Model.vadd. rewrite compress_vzip.
  fold (restrict_rhs maskv (matvec A (extend mask u))).
  rewrite <- restrict_matrix_matvec, H.
  unfold Model.restricted_rhs, Model.restrict_rhs, Model.vsub.
  rewrite <- compress_vzip. f_equal.
  apply vsub_vadd. rewrite matvec_length. exact Hb.
Qed.

(* the same, equation by equation *)
Lemma complete_solves_rows mask maskv A b values u i :
  length b = length A ->
  matvec (restrict_matrix mask maskv A) u = restricted_rhs mask maskv A b values ->
  nth i maskv false = true ->
  dot (nth i A []) (complete mask values u) = nth i b rO.
Proof.
  intros Hb H Hi.
  pose proof (complete_solves_l mask maskv A b values u Hb H) as E.
  unfold Model.restrict_rhs in E.
  pose proof (compress_eq_nth rO maskv _ _ i (eq_trans (matvec_length A _) (eq_sym Hb)) E Hi) as E2.
  rewrite <- E2. unfold Model.matvec.
  destruct (Nat.lt_ge_cases i (length A)) as [Hlt|Hge].
  - symmetry. apply (nth_map_lt (fun row => dot row (complete mask values u))), Hlt.
  - rewrite !nth_overflow by (rewrite ?map_length; exact Hge). reflexivity.
Qed.

Lemma nth_expand m : forall v j, j < length m ->
  nth j (expand m v) rO = if nth j m false then nth (rank m j) v rO else rO.
Proof.
  unfold rank, ntrue.
  induction m as [|b m IH]; intros v j Hj; simpl in Hj; [lia|].
  destruct j as [|j].
  - destruct b; simpl; [destruct v|]; reflexivity.
  - destruct b; simpl; rewrite IH by lia; [|reflexivity].
    destruct (nth j m false); [|reflexivity].
    generalize (length (filter (fun b : bool => b) (firstn j m))). intros r.
    destruct v; simpl; [destruct r|]; reflexivity.
Qed.

Lemma nth_vadd : forall a b j, length a = length b ->
  nth j (vadd a b) rO = radd (nth j a rO) (nth j b rO).
Proof.
  induction a as [|x a IH]; intros [|y b] j H; simpl in *; try discriminate.
  - destruct j; ring.
  - destruct j; [reflexivity|]. apply IH. lia.
Qed.

(* the completed vector takes the prescribed value at every constrained dof,
   whatever the order in which the dofs were given *)
Lemma complete_prescribed_l n idx values u k :
  NoDup idx -> (forall x, In x idx -> x < n) -> length values = length idx -> k < length idx ->
  nth (nth k idx 0) (complete (free_mask n idx) (take (argsort idx) values) u) rO = nth k values rO.
Proof.
  intros Hnd Hr Hl Hk.
  set (j := nth k idx 0). assert (Hj : j < n) by (apply Hr, nth_In, Hk).
  assert (Hm : nth j (free_mask n idx) false = false).
  { rewrite nth_free_mask by exact Hj. apply negb_false_iff, memb_In, nth_In, Hk. }
  unfold Model.complete, Model.extend, Model.lift.
  rewrite nth_vadd by (rewrite !expand_length, nmask_length; reflexivity).
  rewrite !nth_expand by (rewrite ?nmask_length, free_mask_length; exact Hj).
  rewrite Hm. rewrite nth_nmask by (rewrite free_mask_length; exact Hj). rewrite Hm. simpl.
  set (r := rank (nmask (free_mask n idx)) j).
  assert (Hnm : nth j (nmask (free_mask n idx)) false = true).
  { rewrite nth_nmask by (rewrite free_mask_length; exact Hj). rewrite Hm. reflexivity. }
  assert (Hr' : r < length (argsort idx)).
  { rewrite argsort_length, <- (ntrue_elim n idx Hnd Hr). apply rank_lt_ntrue, Hnm. }
  (* the r-th row of R_elim is dof j *)
  assert (Hrow : nth r (elim_dofs n idx) 0 = j).
  { unfold elim_dofs, r. rewrite nth_rank_compress.
    - apply seq_nth, Hj.
    - rewrite seq_length, nmask_length, free_mask_length. reflexivity.
    - exact Hnm. }
  rewrite <- (argsort_spec n idx Hnd Hr) in Hrow.
  rewrite nth_map_lt with (d' := 0) in Hrow by exact Hr'.
  assert (Hp : nth r (argsort idx) 0 < length idx) by (apply argsort_lt, nth_In, Hr').
  assert (Hk' : nth r (argsort idx) 0 = k).
  { apply (proj1 (NoDup_nth idx 0) Hnd); auto. }
  unfold Model.take.
  rewrite nth_map_lt with (d' := 0) by exact Hr'.
  rewrite Hk'. ring.
Qed.

(* scalar values: every constrained dof gets the scalar *)
Lemma complete_prescribed_scalar_l n idx c u j :
  NoDup idx -> (forall x, In x idx -> x < n) -> In j idx ->
  nth j (complete (free_mask n idx) (repeat c (length idx)) u) rO = c.
Proof.
  intros Hnd Hr Hin. assert (Hj : j < n) by (apply Hr, Hin).
  assert (Hm : nth j (free_mask n idx) false = false).
  { rewrite nth_free_mask by exact Hj. apply negb_false_iff, memb_In, Hin. }
  unfold Model.complete, Model.extend, Model.lift.
  rewrite nth_vadd by (rewrite !expand_length, nmask_length; reflexivity).
  rewrite !nth_expand by (rewrite ?nmask_length, free_mask_length; exact Hj).
  rewrite Hm. rewrite nth_nmask by (rewrite free_mask_length; exact Hj). rewrite Hm. simpl.
  assert (Hlt : rank (nmask (free_mask n idx)) j < length idx).
  { rewrite <- (ntrue_elim n idx Hnd Hr). apply rank_lt_ntrue.
    rewrite nth_nmask by (rewrite free_mask_length; exact Hj). rewrite Hm. reflexivity. }
  rewrite nth_indep with (d' := c) by (rewrite repeat_length; exact Hlt).
  rewrite nth_repeat. ring.
Qed.

(* free dofs of the completed vector are the restricted solution: restrict (complete u) = u *)
Lemma vadd_zero_r : forall u k, length u = k -> vadd u (repeat rO k) = u.
Proof.
  induction u as [|x u IH]; intros k H; subst k; simpl; auto.
  unfold Model.vadd in *. simpl. rewrite IH by reflexivity. f_equal. ring.
Qed.

Lemma restrict_complete_l mask values u :
  length u = ntrue mask -> restrict mask (complete mask values u) = u.
Proof.
  intros H. unfold Model.restrict, Model.complete, Model.vadd. rewrite compress_vzip.
  unfold Model.extend, Model.lift. rewrite compress_expand by exact H.
  rewrite compress_expand_nmask. apply vadd_zero_r, H.
Qed.

Lemma restrict_extend_l mask u : length u = ntrue mask -> restrict mask (extend mask u) = u.
Proof. apply compress_expand. Qed.

(* R_free^T R_free + R_elim^T R_elim = I *)
Lemma split_identity_l mask : forall x, length x = length mask ->
  vadd (expand mask (compress mask x)) (expand (nmask mask) (compress (nmask mask) x)) = x.
Proof.
  unfold Model.vadd, nmask.
  induction mask as [|[|] m IH]; intros [|a x] H; simpl in *; try discriminate; auto;
    rewrite IH by lia; f_equal; ring.
Qed.

(* the eliminated dofs of complete(u) do not depend on u; the free ones not on the values *)
Lemma complete_free_l mask values u j :
  j < length mask -> nth j mask false = true ->
  nth j (complete mask values u) rO = nth (rank mask j) u rO.
Proof.
  intros Hj Hm. unfold Model.complete, Model.extend, Model.lift.
  rewrite nth_vadd by (rewrite !expand_length, nmask_length; reflexivity).
  rewrite !nth_expand by (rewrite ?nmask_length; exact Hj).
  rewrite nth_nmask by exact Hj. rewrite Hm. simpl. ring.
Qed.

End LinProofs.

(* ------------------------------------------------------------------------- *)
(* the unrepaired line (values in the caller's order) assigns values to the   *)
(* wrong dofs: indices [3;0] with values [10;20] on a 5-dof system            *)
(* ------------------------------------------------------------------------- *)

Lemma unsorted_bug_witness :
  let idx := [3; 0] in
  let values := [10; 20]%Z in
  let s := rls_init_unsorted_bug Z 0%Z Z.add Z.mul Z.sub [] 5 (Scalar 0%Z) idx (Arr values) None in
  nth (nth 0 idx 0) (rls_complete Z 0%Z Z.add s [0; 0; 0]%Z) 0%Z <> nth 0 values 0%Z.
Proof. vm_compute. discriminate. Qed.

(* ------------------------------------------------------------------------- *)
(* combine_bcs                                                               *)
(* ------------------------------------------------------------------------- *)

Lemma list_max_ge l x : In x l -> x <= list_max l.
Proof.
  intros H. pose proof (proj1 (list_max_le l (list_max l)) (le_n _)) as F.
  rewrite Forall_forall in F. apply F, H.
Qed.

Lemma unique_sorted_In l j : In j (unique_sorted l) <-> In j l.
Proof.
  unfold unique_sorted. rewrite filter_In, memb_In, in_seq. split; [tauto|].
  intros H. split; auto. pose proof (list_max_ge l j H). lia.
Qed.

Lemma filter_seq_sorted f : forall n s, StronglySorted lt (filter f (seq s n)).
Proof.
  induction n as [|n IH]; intros s; simpl; [constructor|].
  destruct (f s); [|apply IH]. constructor; [apply IH|].
  rewrite Forall_forall. intros x Hx. apply filter_In in Hx. destruct Hx as [Hx _].
  apply in_seq in Hx. lia.
Qed.

Lemma unique_sorted_sorted l : StronglySorted lt (unique_sorted l).
Proof. apply filter_seq_sorted. Qed.

Lemma sorted_lt_NoDup l : StronglySorted lt l -> NoDup l.
Proof.
  induction 1 as [|x l Hs IH Hall]; constructor; auto.
  rewrite Forall_forall in Hall. intros Hx. specialize (Hall x Hx). lia.
Qed.

Lemma unique_sorted_NoDup l : NoDup (unique_sorted l).
Proof. apply sorted_lt_NoDup, unique_sorted_sorted. Qed.

Lemma first_pos_spec j l : In j l ->
  first_pos j l < length l /\ nth (first_pos j l) l 0 = j /\
  (forall k, k < first_pos j l -> nth k l 0 <> j).
Proof.
  induction l as [|x l IH]; intros H; [contradiction|]. simpl.
  destruct (Nat.eqb_spec j x) as [->|Hne].
  - split; [lia|]. split; [reflexivity|]. intros k Hk. lia.
  - destruct H as [H|H]; [congruence|]. destruct (IH H) as [H1 [H2 H3]].
    split; [lia|]. split; [exact H2|]. intros [|k] Hk; simpl; [congruence|]. apply H3. lia.
Qed.

Section CombineProofs.
Variable X : Type.
Variable d : X.

Lemma combine_flat_fst_length indices (values : list X) :
  length (fst (combine_flat X d indices values)) = length (snd (combine_flat X d indices values)).
Proof. unfold combine_flat. simpl. rewrite map_length. reflexivity. Qed.

(* one value per dof: the result lists each dof of the input exactly once (strictly
   increasing), and its value is the one given at the FIRST occurrence of the dof *)
Lemma combine_flat_spec indices (values : list X) :
  let r := combine_flat X d indices values in
  StronglySorted lt (fst r) /\ NoDup (fst r) /\
  (forall j, In j (fst r) <-> In j indices) /\
  length (snd r) = length (fst r) /\
  (forall t, t < length (fst r) ->
     let j := nth t (fst r) 0 in
     let k := first_pos j indices in
     k < length indices /\ nth k indices 0 = j /\ (forall k', k' < k -> nth k' indices 0 <> j) /\
     nth t (snd r) d = nth k values d).
Proof.
  unfold combine_flat. simpl. repeat split.
  - apply unique_sorted_sorted.
  - apply unique_sorted_NoDup.
  - apply unique_sorted_In.
  - apply unique_sorted_In.
  - apply map_length.
  - apply first_pos_spec, unique_sorted_In, nth_In, H.
  - apply first_pos_spec, unique_sorted_In, nth_In, H.
  - apply first_pos_spec, unique_sorted_In, nth_In, H.
  - apply (nth_map_lt (fun j => nth (first_pos j indices) values d)), H.
Qed.

End CombineProofs.

(* blocked numbering: the index sets of different components are disjoint *)
Lemma blocked_disjoint NN bd j1 j2 i1 i2 :
  (forall i, In i bd -> i < NN) -> In i1 bd -> In i2 bd ->
  i1 + j1 * NN = i2 + j2 * NN -> i1 = i2 /\ j1 = j2.
Proof.
  intros Hr H1 H2 E. pose proof (Hr i1 H1). pose proof (Hr i2 H2).
  assert (j1 = j2) by nia. subst. split; lia.
Qed.

(* ------------------------------------------------------------------------- *)
(* _parse_bdspec                                                             *)
(* ------------------------------------------------------------------------- *)

Lemma parse_bdspec_pair_l a s dim ax side :
  parse_bdspec (BPair a s) dim = Some (ax, side) <->
  (a = Z.of_nat ax /\ s = Z.of_nat side /\ ax < dim /\ (side = 0 \/ side = 1)).
Proof.
  unfold parse_bdspec. split.
  - destruct ((s =? 0)%Z || (s =? 1)%Z) eqn:E1; simpl; [|discriminate].
    destruct (0 <=? a)%Z eqn:E2; simpl; [|discriminate].
    destruct (a <? Z.of_nat dim)%Z eqn:E3; simpl; [|discriminate].
    intros H. injection H; intros; subst.
    apply Z.leb_le in E2. apply Z.ltb_lt in E3. apply orb_true_iff in E1.
    rewrite !Z.eqb_eq in E1. repeat split; try lia.
  - intros [-> [-> [H1 H2]]].
    replace ((Z.of_nat side =? 0)%Z || (Z.of_nat side =? 1)%Z) with true
      by (destruct H2; subst; reflexivity).
    replace (0 <=? Z.of_nat ax)%Z with true by (symmetry; apply Z.leb_le; lia).
    replace (Z.of_nat ax <? Z.of_nat dim)%Z with true by (symmetry; apply Z.ltb_lt; lia).
    simpl. rewrite !Nat2Z.id. reflexivity.
Qed.

Lemma parse_bdspec_name_l s dim :
  parse_bdspec (BName s) dim = parse_bdspec (BPair (fst (bdname_pair s dim)) (snd (bdname_pair s dim))) dim.
Proof. unfold parse_bdspec. destruct (bdname_pair s dim). reflexivity. Qed.

(* 'all' = every (axis, side) pair exactly once *)
Lemma all_faces_spec dim ax side :
  ax < dim -> side < 2 -> In (BPair (Z.of_nat ax) (Z.of_nat side)) (all_faces dim).
Proof.
  intros H1 H2. unfold all_faces. apply in_flat_map. exists ax. split; [apply in_seq; lia|].
  destruct side as [|[|side]]; [left; reflexivity | right; left; reflexivity | lia].
Qed.

Lemma all_faces_length dim : length (all_faces dim) = 2 * dim.
Proof.
  unfold all_faces. replace (2 * dim) with (dim + dim) by lia. generalize 0.
  induction dim as [|n IH]; intros s; simpl; auto.
  rewrite IH. lia.
Qed.

Lemma all_faces_valid dim b : In b (all_faces dim) ->
  exists ax side, b = BPair (Z.of_nat ax) (Z.of_nat side) /\ ax < dim /\ side < 2 /\
                  parse_bdspec b dim = Some (ax, side).
Proof.
  unfold all_faces. intros H. apply in_flat_map in H. destruct H as [ax [Hax Hb]].
  apply in_seq in Hax.
  destruct Hb as [<-|[<-|[]]]; [exists ax, 0 | exists ax, 1]; repeat split; try lia;
    apply parse_bdspec_pair_l; repeat split; auto; lia.
Qed.

(* ------------------------------------------------------------------------- *)
(* the statements about the class RestrictedLinearSystem as a whole           *)
(* ------------------------------------------------------------------------- *)

Section ClassProofs.
Variable R : Type.
Variables (rO rI : R) (radd rmul rsub : R -> R -> R) (ropp : R -> R).
Hypothesis Rth : ring_theory rO rI radd rmul rsub ropp eq.

Notation rls_init := (rls_init R rO radd rmul rsub).
Notation rls_complete := (rls_complete R rO radd).
Notation rls_restrict := (rls_restrict R).
Notation rls_extend := (rls_extend R rO).
Notation rls_restrict_rhs := (rls_restrict_rhs R).
Notation rls_restrict_matrix := (rls_restrict_matrix R).
Notation matvec := (matvec R rO radd rmul).
Notation dot := (dot R rO radd rmul).

Lemma rls_complete_prescribed A ncols b idx values elim_rows u k :
  NoDup idx -> (forall x, In x idx -> x < ncols) -> length values = length idx -> k < length idx ->
  nth (nth k idx 0) (rls_complete (rls_init A ncols b idx (Arr values) elim_rows) u) rO = nth k values rO.
Proof. intros. unfold Model.rls_complete. simpl. eapply complete_prescribed_l; eauto. Qed.

Lemma rls_complete_prescribed_scalar A ncols b idx c elim_rows u j :
  NoDup idx -> (forall x, In x idx -> x < ncols) -> In j idx ->
  nth j (rls_complete (rls_init A ncols b idx (Scalar c) elim_rows) u) rO = c.
Proof. intros. unfold Model.rls_complete. simpl. eapply complete_prescribed_scalar_l; eauto. Qed.

Definition elim_row_set (idx : list nat) (elim_rows : option (list nat)) : list nat :=
  match elim_rows with Some er => er | None => idx end.

Lemma rls_complete_solves A ncols b idx values elim_rows u i :
  let s := rls_init A ncols b idx values elim_rows in
  let bv := bcast R (length A) b in
  length bv = length A ->
  (elim_rows = None -> length A = ncols) ->
  matvec (r_A R s) u = r_b R s ->
  i < length A -> ~ In i (elim_row_set idx elim_rows) ->
  dot (nth i A []) (rls_complete s u) = nth i bv rO.
Proof.
  intros s bv Hb Hsq H Hi Hni. unfold Model.rls_complete, s. simpl.
  apply (complete_solves_rows R rO rI radd rmul rsub ropp Rth _ _ A bv _ u i Hb H).
  destruct elim_rows as [er|]; simpl in *.
  - rewrite nth_free_mask by exact Hi. apply negb_true_iff, not_true_iff_false.
    rewrite memb_In. exact Hni.
  - rewrite nth_free_mask by (rewrite <- Hsq; auto). apply negb_true_iff, not_true_iff_false.
    rewrite memb_In. exact Hni.
Qed.

Lemma rls_restrict_extend A ncols b idx values elim_rows u :
  let s := rls_init A ncols b idx values elim_rows in
  length u = ntrue (r_mask R s) -> rls_restrict s (rls_extend s u) = u.
Proof. intros s H. eapply restrict_extend_l; eauto. Qed.

Lemma rls_restrict_complete A ncols b idx values elim_rows u :
  let s := rls_init A ncols b idx values elim_rows in
  length u = ntrue (r_mask R s) -> rls_restrict s (rls_complete s u) = u.
Proof. intros s H. eapply restrict_complete_l; eauto. Qed.

Lemma rls_restrict_matrix_consistent A ncols b idx values elim_rows B u :
  let s := rls_init A ncols b idx values elim_rows in
  matvec (rls_restrict_matrix s B) u = rls_restrict_rhs s (matvec B (rls_extend s u)).
Proof. intros s. eapply restrict_matrix_matvec; eauto. Qed.

(* self.A is restrict_matrix(A) *)
Lemma rls_A_is_restrict_matrix A ncols b idx values elim_rows :
  let s := rls_init A ncols b idx values elim_rows in r_A R s = rls_restrict_matrix s A.
Proof. reflexivity. Qed.

(* number of free dofs *)
Lemma ntrue_split m : ntrue m + ntrue (nmask m) = length m.
Proof. unfold ntrue, nmask. induction m as [|[|] m IH]; simpl; lia. Qed.

Lemma rls_num_free A ncols b idx values elim_rows :
  NoDup idx -> (forall x, In x idx -> x < ncols) ->
  ntrue (r_mask R (rls_init A ncols b idx values elim_rows)) = ncols - length idx.
Proof.
  intros Hnd Hr. simpl.
  pose proof (ntrue_split (free_mask ncols idx)) as E.
  rewrite (ntrue_elim ncols idx Hnd Hr), free_mask_length in E. lia.
Qed.

End ClassProofs.

(* ------------------------------------------------------------------------- *)
(* slice_indices: every dof of the slice exactly once                         *)
(* ------------------------------------------------------------------------- *)

Definition valid_mi (shape mi : list nat) : Prop := Forall2 (fun n i => i < n) shape mi.

(* ---- itertools.product ---- *)
Lemma product_In ls : forall mi, In mi (product ls) <-> Forall2 (fun l i => In i l) ls mi.
Proof.
  induction ls as [|l ls IH]; intros mi; simpl.
  - split.
    + intros [<-|[]]. constructor.
    + intros H. inversion H. left. reflexivity.
  - rewrite in_flat_map. split.
    + intros [x [Hx Hm]]. apply in_map_iff in Hm. destruct Hm as [t [<- Ht]].
      constructor; auto. apply IH, Ht.
    + intros H. inversion H as [|? i ? t Hi Ht]; subst. exists i. split; auto.
      apply in_map, IH, Ht.
Qed.

Lemma NoDup_map_cons {A} (x : A) l : NoDup l -> NoDup (map (cons x) l).
Proof.
  induction 1 as [|y l Hy Hn IH]; simpl; constructor; auto.
  intros H. apply in_map_iff in H. destruct H as [z [E Hz]]. injection E; intros; subst. contradiction.
Qed.

Lemma NoDup_flat_map_disjoint {A B} (f : A -> list B) l :
  NoDup l -> (forall x, In x l -> NoDup (f x)) ->
  (forall x y b, In x l -> In y l -> In b (f x) -> In b (f y) -> x = y) ->
  NoDup (flat_map f l).
Proof.
  induction 1 as [|a l Ha Hn IH]; intros H1 H2; simpl; [constructor|].
  assert (Hd : forall b, In b (f a) -> ~ In b (flat_map f l)).
  { intros b Hb Hin. apply in_flat_map in Hin. destruct Hin as [y [Hy Hby]].
    assert (a = y) by (apply (H2 a y b); simpl; auto). subst. contradiction. }
  assert (Hl : NoDup (flat_map f l)).
  { apply IH; [intros; apply H1; simpl; auto | intros x y b ? ? ? ?; apply (H2 x y b); simpl; auto]. }
  assert (Ha' : NoDup (f a)) by (apply H1; simpl; auto).
  clear - Hd Hl Ha'. induction (f a) as [|b fb IHf]; simpl; auto.
  inversion Ha'; subst. constructor.
  - rewrite in_app_iff. intros [H|H]; [contradiction|]. apply (Hd b); simpl; auto.
  - apply IHf; auto. intros c Hc. apply Hd. simpl. auto.
Qed.

Lemma product_NoDup ls : Forall (@NoDup nat) ls -> NoDup (product ls).
Proof.
  induction 1 as [|l ls Hl Hls IH]; simpl.
  - constructor; [intros []|constructor].
  - apply NoDup_flat_map_disjoint; auto.
    + intros x _. apply NoDup_map_cons, IH.
    + intros x y b _ _ Hx Hy. apply in_map_iff in Hx, Hy.
      destruct Hx as [t [<- _]]. destruct Hy as [t' [E _]]. injection E; auto.
Qed.

(* ---- the per-axis ranges ---- *)
Definition axok (k ax idx : nat) (n i : nat) : Prop := if Nat.eqb k ax then i = idx else i < n.

Fixpoint axall (k ax idx : nat) (shape mi : list nat) : Prop :=
  match shape, mi with
  | [], [] => True
  | n :: shape', i :: mi' => axok k ax idx n i /\ axall (S k) ax idx shape' mi'
  | _, _ => False
  end.

Lemma axdofs_In ax idx : forall shape k flip mi,
  Forall2 (fun l i => In i l) (axdofs_aux k ax idx shape flip) mi <-> axall k ax idx shape mi.
Proof.
  induction shape as [|n shape IH]; intros k flip mi; simpl.
  - split.
    + intros H. inversion H. exact I.
    + destruct mi; [constructor|intros []].
  - destruct mi as [|i mi].
    + split; [intros H; inversion H|intros []].
    + split.
      * intros H. inversion H as [|? ? ? ? Hi Ht]; subst. split; [|apply (IH (S k) (tl flip)), Ht].
        unfold axok. destruct (Nat.eqb k ax).
        -- destruct Hi as [<-|[]]. reflexivity.
        -- destruct (match flip with [] => false | f :: _ => f end).
           ++ apply in_rev, in_seq in Hi. lia.
           ++ apply in_seq in Hi. lia.
      * intros [Hi Ht]. constructor; [|apply IH, Ht].
        unfold axok in Hi. destruct (Nat.eqb k ax).
        -- left. auto.
        -- destruct (match flip with [] => false | f :: _ => f end).
           ++ apply -> in_rev. apply in_seq. lia.
           ++ apply in_seq. lia.
Qed.

Lemma axdofs_NoDup ax idx : forall shape k flip, Forall (@NoDup nat) (axdofs_aux k ax idx shape flip).
Proof.
  induction shape as [|n shape IH]; intros k flip; simpl; constructor; auto.
  destruct (Nat.eqb k ax).
  - constructor; [intros []|constructor].
  - destruct (match flip with [] => false | f :: _ => f end).
    + apply NoDup_rev, seq_NoDup.
    + apply seq_NoDup.
Qed.

(* axall <-> valid multi-index with coordinate idx on axis ax *)
Lemma axall_valid ax idx : forall shape k mi,
  k <= ax -> ax - k < length shape -> idx < nth (ax - k) shape 0 ->
  (axall k ax idx shape mi <-> valid_mi shape mi /\ nth (ax - k) mi 0 = idx).
Proof.
  unfold valid_mi.
  induction shape as [|n shape IH]; intros k mi Hk Hax Hidx; simpl in *; [lia|].
  destruct mi as [|i mi].
  - split; [intros []|intros [H _]; inversion H].
  - unfold axok. destruct (Nat.eqb_spec k ax) as [->|Hne].
    + rewrite Nat.sub_diag in *. simpl in *.
      (* the remaining axes are all different from ax *)
      assert (Hrest : forall shape' k' mi', ax < k' -> (axall k' ax idx shape' mi' <-> Forall2 (fun n i => i < n) shape' mi')).
      { clear. induction shape' as [|n s IHs]; intros k' mi' Hlt; destruct mi' as [|i t]; simpl.
        - split; constructor.
        - split; [intros []|intros H; inversion H].
        - split; [intros []|intros H; inversion H].
        - unfold axok. replace (Nat.eqb k' ax) with false by (symmetry; apply Nat.eqb_neq; lia).
          rewrite IHs by lia. split.
          + intros [H1 H2]. constructor; auto.
          + intros H. inversion H; subst. auto. }
      rewrite Hrest by lia. split.
      * intros [-> H]. split; [constructor; auto|reflexivity].
      * intros [H E]. inversion H; subst. auto.
    + replace (ax - k) with (S (ax - S k)) in * by lia. simpl in *.
      rewrite IH by lia. split.
      * intros [H1 [H2 H3]]. split; [constructor; auto|exact H3].
      * intros [H E]. inversion H; subst. auto.
Qed.

(* ---- ravel is injective on valid multi-indices ---- *)
Definition prodl (l : list nat) : nat := fold_right Nat.mul 1 l.

Lemma ravel_aux_acc : forall shape mi acc, Forall2 (fun n i => i < n) shape mi ->
  ravel_aux acc shape mi = acc * prodl shape + ravel_aux 0 shape mi /\ ravel_aux 0 shape mi < prodl shape.
Proof.
  induction shape as [|n shape IH]; intros mi acc H; inversion H as [|? i ? t Hi Ht]; subst; simpl.
  - lia.
  - destruct (IH t (acc * n + i) Ht) as [E1 B]. destruct (IH t i Ht) as [E2 _].
    rewrite E1, E2. split; [ring|]. nia.
Qed.

Lemma ravel_inj : forall shape mi mi', valid_mi shape mi -> valid_mi shape mi' ->
  ravel shape mi = ravel shape mi' -> mi = mi'.
Proof.
  unfold ravel, valid_mi.
  induction shape as [|n shape IH]; intros mi mi' H H' E;
    inversion H as [|? i ? t Hi Ht]; inversion H' as [|? i' ? t' Hi' Ht']; subst; auto.
  simpl in E.
  destruct (ravel_aux_acc shape t i Ht) as [E1 B1]. destruct (ravel_aux_acc shape t' i' Ht') as [E2 B2].
  rewrite E1, E2 in E.
  assert (i = i') by nia. subst. f_equal. apply IH; auto. lia.
Qed.

Lemma NoDup_map_inj_in {A B} (f : A -> B) l :
  NoDup l -> (forall x y, In x l -> In y l -> f x = f y -> x = y) -> NoDup (map f l).
Proof.
  induction 1 as [|a l Ha Hn IH]; intros Hinj; simpl; constructor.
  - intros H. apply in_map_iff in H. destruct H as [y [E Hy]].
    assert (y = a) by (apply Hinj; simpl; auto). subst. contradiction.
  - apply IH. intros x y Hx Hy. apply Hinj; simpl; auto.
Qed.

Lemma slice_multi_In ax idx shape flip mi :
  ax < length shape -> idx < nth ax shape 0 ->
  (In mi (slice_multi ax idx shape flip) <-> valid_mi shape mi /\ nth ax mi 0 = idx).
Proof.
  intros Hax Hidx. unfold slice_multi. rewrite product_In, axdofs_In.
  pose proof (axall_valid ax idx shape 0 mi) as H. rewrite Nat.sub_0_r in H. apply H; auto. lia.
Qed.

(* slice_indices lists every dof whose multi-index has coordinate idx on axis ax exactly once,
   for every shape, axis, index and flip pattern *)
Lemma slice_indices_face_l ax idx shape flip :
  ax < length shape -> idx < nth ax shape 0 ->
  NoDup (slice_indices ax idx shape flip) /\
  (forall r, In r (slice_indices ax idx shape flip) <->
             exists mi, valid_mi shape mi /\ nth ax mi 0 = idx /\ r = ravel shape mi).
Proof.
  intros Hax Hidx. unfold slice_indices. split.
  - apply NoDup_map_inj_in.
    + apply product_NoDup, axdofs_NoDup.
    + intros x y Hx Hy. apply (slice_multi_In ax idx shape flip) in Hx, Hy; auto.
      apply ravel_inj; tauto.
  - intros r. rewrite in_map_iff. split.
    + intros [mi [<- Hmi]]. apply slice_multi_In in Hmi; auto. exists mi. tauto.
    + intros [mi [H1 [H2 ->]]]. exists mi. split; auto. apply slice_multi_In; auto.
Qed.

Lemma slice_indices_z_face_l ax (idx : Z) shape flip :
  ax < length shape -> (- Z.of_nat (nth ax shape 0%nat) <= idx < Z.of_nat (nth ax shape 0%nat))%Z ->
  exists l, slice_indices_z ax idx shape flip = Some l /\ NoDup l /\
    (forall r, In r l <->
       exists mi, valid_mi shape mi /\ Z.of_nat (nth ax mi 0%nat) = (idx mod Z.of_nat (nth ax shape 0%nat))%Z /\ r = ravel shape mi).
Proof.
  intros Hax Hidx. unfold slice_indices_z. set (n := nth ax shape 0) in *.
  assert (Hw : (0 <= wrap idx n < Z.of_nat n)%Z /\ wrap idx n = (idx mod Z.of_nat n)%Z).
  { unfold wrap. destruct (idx <? 0)%Z eqn:E.
    - apply Z.ltb_lt in E. split; [lia|].
      apply Z.mod_unique with (q := (-1)%Z); [left; lia | lia].
    - apply Z.ltb_ge in E. split; [lia|]. symmetry. apply Z.mod_small. lia. }
  destruct Hw as [[H0 H1] Hm].
  replace (ax <? length shape) with true by (symmetry; apply Nat.ltb_lt; exact Hax).
  replace (0 <=? wrap idx n)%Z with true by (symmetry; apply Z.leb_le; exact H0).
  replace (wrap idx n <? Z.of_nat n)%Z with true by (symmetry; apply Z.ltb_lt; exact H1).
  simpl. eexists. split; [reflexivity|].
  assert (Hlt : Z.to_nat (wrap idx n) < nth ax shape 0) by (fold n; lia).
  destruct (slice_indices_face_l ax (Z.to_nat (wrap idx n)) shape flip Hax Hlt) as [Hnd Hin].
  split; [exact Hnd|]. intros r. rewrite Hin. split; intros [mi [Hv [He Hr]]]; exists mi; repeat split; auto.
  - rewrite He, <- Hm. lia.
  - rewrite <- Hm in He. lia.
Qed.
