(* C04 -- admissibility for EVERY finite disparity d >= 1 (default marking): no active function of level k
   is non-zero on an active cell of level > k + d, on every reachable state of a valid hierarchy whose knot
   multiplicities are all >= 1.  Same induction as ProofsDisparity.v with the invariants taken d levels
   below an active cell. *)
From Coq Require Import List Arith Bool Lia.
From Verif.lib Require Import FinSet.
From Verif.C04 Require Import Model Proofs ProofsFun ProofsMesh ProofsQuery ProofsClosure Children ProofsChildren ProofsParents ProofsDisparity.
Import ListNotations.

Definition CCd (d : nat) (st : hspace) : Prop :=
  forall j c k c', In c (A st j) -> j < numlevels st -> k + d < j -> inCSE st j c k c' -> In c' (D st k).
Definition I2d (d : nat) (st : hspace) : Prop :=
  forall j c c', In c (A st j) -> d <= j -> j < numlevels st -> inCSE st j c (j - d) c' ->
    In c' (A st (j - d)) \/ In c' (D st (j - d)).
Definition closedd (d : nat) (st : hspace) (m : list set) : Prop :=
  forall l c0 c', d <= l -> l < numlevels st -> In c0 (mk m l) -> inCSE st l c0 (l - d) c' ->
    In c' (A st (l - d)) -> In c' (mk m (l - d)).

Section StepD.
  Variable axes : list axis.
  Hypothesis HA : Forall axis_ok axes.
  Hypothesis HP : Forall axis_pos axes.
  Variable d : nat.
  Hypothesis Hd1 : 1 <= d.
  Let base := tpmesh_of axes.
  Let H : hier_ok base := hier_ok_valid axes HA.

  (* nestedness of support extensions, any pair of consecutive levels below the cell *)
  Lemma support_extension_nested_gen : forall st l c k c', good2 base st -> S k <= l -> l < numlevels st ->
    inCSE st l c (S k) c' -> inCSE st l c k (parent1 c').
  Proof.
    intros st l c k c' G Hk HlL [g [HG [Hc Hc']]].
    rewrite (msh_lv axes st (S k) G ltac:(lia)) in HG, Hc, Hc'.
    change (Nat.iter (S k) (map ax_refine) axes) with (map ax_refine (Nat.iter k (map ax_refine) axes)) in HG, Hc, Hc'.
    set (ax_k := Nat.iter k (map ax_refine) axes) in *.
    assert (HAk : Forall axis_ok ax_k) by (apply axes_ok_iter; auto).
    assert (HPk : Forall axis_pos ax_k) by (apply axes_pos_iter; auto).
    change (tpmesh_of (map ax_refine ax_k)) with (tp_refine (tpmesh_of ax_k)) in HG, Hc, Hc'.
    destruct (parent_exists_l ax_k g HAk HPk HG) as [f [HF Hch]].
    destruct (children_inside_parent_support_l ax_k f g HAk HF Hch) as [_ Hin].
    exists f. rewrite (msh_lv axes st k G ltac:(lia)). fold ax_k.
    split; [exact HF|]. split.
    - replace (l - k) with (S (l - S k)) by lia. rewrite anc_S. apply Hin. exact Hc.
    - apply Hin. exact Hc'.
  Qed.

  Section RefinedD.
    Variable st : hspace.
    Variable m : list set.
    Hypothesis G : good2 base st.
    Hypothesis V : marks_valid st m.
    Hypothesis HCC : CCd d st.
    Hypothesis HI2 : I2d d st.
    Hypothesis HCL : closedd d st m.

    Let I : cells_inv st := g_cells _ (g2_good _ _ G).
    Let st' := refined st m.
    Let I' : cells_inv st' := cells_inv_refined st m I V.

    Lemma OmonoD : forall k c, In c (A st k) \/ In c (D st k) -> In c (A st' k) \/ In c (D st' k).
    Proof.
      intros k c Hc. unfold st'. rewrite (refined_A st m V (ci_pos _ I)), (refined_D st m V).
      destruct (In_dec_mi c (mk m k)); tauto.
    Qed.

    Lemma DmonoD : forall k c, In c (D st k) \/ In c (mk m k) -> In c (D st' k).
    Proof. intros k c Hc. unfold st'. rewrite (refined_D st m V). exact Hc. Qed.

    Lemma below_markedD : forall l cp c', d <= l -> l < numlevels st -> In cp (mk m l) ->
      inCSE st l cp (l - d) c' -> In c' (D st' (l - d)).
    Proof.
      intros l cp c' Hl1 HlL Hcp Hin. pose proof V as [Va _].
      destruct (HI2 l cp c' (Va l cp Hcp) Hl1 HlL Hin) as [Ha|Hd].
      - apply DmonoD. right. apply (HCL l cp c'); auto.
      - apply DmonoD. left. exact Hd.
    Qed.

    Lemma CCd_refined : CCd d st'.
    Proof.
      intros j c k c' Hc Hj Hk Hin. unfold st' in Hj. rewrite numlevels_refined in Hj.
      change (inCSE st j c k c') in Hin.
      unfold st' in Hc. rewrite (refined_A st m V (ci_pos _ I)) in Hc. destruct Hc as [[Hold|[Hj0 Hp]] _].
      - apply DmonoD. left. apply (HCC j c k c'); auto.
      - pose proof V as [Va _]. apply (inCSE_parent st j c k c') in Hin; [|lia].
        destruct (Nat.eq_dec (k + d + 1) j) as [E|E].
        + replace k with (j - 1 - d) by lia. apply (below_markedD (j - 1) (parent1 c) c'); try lia; auto.
          replace (j - 1 - d) with k by lia. exact Hin.
        + apply DmonoD. left. apply (HCC (j - 1) (parent1 c) k c'); auto; lia.
    Qed.

    Lemma I2d_refined : I2d d st'.
    Proof.
      intros j c c' Hc Hj1 Hj Hin. unfold st' in Hj. rewrite numlevels_refined in Hj.
      change (inCSE st j c (j - d) c') in Hin.
      unfold st' in Hc. rewrite (refined_A st m V (ci_pos _ I)) in Hc. destruct Hc as [[Hold|[Hj0 Hp]] _].
      - apply OmonoD. apply (HI2 j c c'); auto.
      - pose proof V as [Va _]. apply (inCSE_parent st j c (j - d) c') in Hin; [|lia].
        set (cp := parent1 c) in *.
        destruct (Nat.eq_dec j d) as [->|Hne].
        + (* level 0: every cell of a support lies in Omega_0 *)
          rewrite Nat.sub_diag in *. destruct Hin as [f [HF [_ Hc']]].
          apply OmonoD. apply (ci_root _ I).
          apply (mo_incells _ (good2_meshes_fine _ _ H G 0 ltac:(lia)) f c'); auto.
        + assert (Ek : j - d = S (j - 1 - d)) by lia.
          assert (Hn : inCSE st (j - 1) cp (j - 1 - d) (parent1 c')).
          { apply support_extension_nested_gen; auto; try lia. rewrite <- Ek. exact Hin. }
          assert (Hdd : In (parent1 c') (D st' (j - 1 - d))).
          { apply (below_markedD (j - 1) cp (parent1 c')); auto; lia. }
          rewrite Ek. apply (ci_nest _ I'). exact Hdd.
    Qed.
  End RefinedD.
End StepD.

Section HistoryD.
  Variable axes : list axis.
  Hypothesis HA : Forall axis_ok axes.
  Hypothesis HP : Forall axis_pos axes.
  Variable d : nat.
  Hypothesis Hd1 : 1 <= d.
  Let base := tpmesh_of axes.
  Let H : hier_ok base := hier_ok_valid axes HA.

  Lemma CCd_I2d_add_level : forall st, good2 base st -> CCd d st /\ I2d d st -> CCd d (add_level st) /\ I2d d (add_level st).
  Proof.
    intros st G [HCC HI2]. pose proof (g_meshes _ (g2_good _ _ G)) as M. unfold meshes_ok in M.
    split.
    - intros j c k c' Hc Hj Hk Hin. unfold A, D in *. rewrite lvl_add_level in *.
      rewrite numlevels_add_level in Hj.
      destruct (Nat.eq_dec j (numlevels st)) as [->|Hne]; [rewrite lvl_overflow in Hc by lia; destruct Hc|].
      apply (inCSE_add_level st j c k c') in Hin; [|lia].
      apply (HCC j c k c'); auto. lia.
    - intros j c c' Hc Hj1 Hj Hin. unfold A, D in *. rewrite !lvl_add_level in *.
      rewrite numlevels_add_level in Hj.
      destruct (Nat.eq_dec j (numlevels st)) as [->|Hne]; [rewrite lvl_overflow in Hc by lia; destruct Hc|].
      apply (inCSE_add_level st j c (j - d) c') in Hin; [|lia].
      apply (HI2 j c c'); auto. lia.
  Qed.

  Lemma CCd_I2d_ensure : forall st L, good2 base st -> CCd d st /\ I2d d st ->
    CCd d (ensure_levels st L) /\ I2d d (ensure_levels st L).
  Proof.
    intros st L G HI. unfold ensure_levels.
    assert (X : forall n, good2 base (Nat.iter n add_level st) /\ (CCd d (Nat.iter n add_level st) /\ I2d d (Nat.iter n add_level st))).
    { induction n as [|n [IH1 IH2]]; simpl; [auto|]. split; [apply good2_add_level; auto | apply CCd_I2d_add_level; auto]. }
    apply X.
  Qed.

  Record invd (st : hspace) : Prop := {
    id_good : good2 base st; id_cc : CCd d st; id_i2 : I2d d st; id_disp : hs_disparity st = Some d }.

  Lemma invd_hs_refine : forall st raw st' m, invd st -> raw_valid st raw ->
    hs_refine st raw false = Ok (st', m) -> invd st'.
  Proof.
    intros st raw st' m [G HCC HI2 Hdisp] Hv E.
    destruct (hs_refine_spec _ _ _ _ _ (g2_good _ _ G) Hv E) as [mx [Emx [-> [V _]]]].
    destruct (hs_refine_closed st raw false _ m d Hdisp Hd1 E) as [mx' [Emx' Hcl]].
    rewrite Emx in Emx'. injection Emx' as <-. simpl in Hcl.
    set (st1 := ensure_levels st (mx + 2)) in *.
    assert (G1 : good2 base st1) by (apply good2_ensure; auto).
    destruct (CCd_I2d_ensure st (mx + 2) G (conj HCC HI2)) as [HCC1 HI21]. fold st1 in HCC1, HI21.
    assert (HCL : closedd d st1 m).
    { intros l c0 c' Hl1 HlL Hc0 Hin Ha.
      apply (Hcl l c' HlL). unfold cell_neighborhood.
      assert (El : (l <? d) = false) by (apply Nat.ltb_ge; lia). rewrite El.
      apply inter_In. split; [exact Ha|].
      pose proof V as [Va _].
      apply (cse_many axes HA st1 l (mk m l) c0 (l - d) c' G1 ltac:(lia) HlL (Va l) Hc0 Hin). }
    constructor.
    - apply good2_refined; auto.
    - eapply CCd_refined; eassumption.
    - eapply I2d_refined; eassumption.
    - unfold refined. simpl. unfold st1. rewrite disparity_ensure. exact Hdisp.
  Qed.

  Lemma invd_ensure : forall st L, invd st -> invd (ensure_levels st L).
  Proof.
    intros st L [G HCC HI2 Hdisp]. destruct (CCd_I2d_ensure st L G (conj HCC HI2)).
    constructor; auto. apply good2_ensure; auto. rewrite disparity_ensure. exact Hdisp.
  Qed.

  Lemma invd_step : forall st o, invd st -> op_valid st o -> op_default o -> invd (fst (step st o)).
  Proof.
    intros st [raw trunc|lv sel] Hi V Hdef; simpl in *.
    - subst trunc. destruct (hs_refine st raw false) as [[st' m]| |] eqn:E; simpl; auto.
      eapply invd_hs_refine; eauto.
    - unfold hs_refine_region. set (st1 := ensure_levels st (lv + 2)).
      assert (Hi1 : invd st1) by (apply invd_ensure; auto).
      destruct (hs_refine st1 _ false) as [[st' m]| |] eqn:E; simpl; auto.
      eapply invd_hs_refine; [exact Hi1 | | exact E].
      intros k c. simpl. destruct (lv =? k) eqn:Ek; [|intros []].
      apply Nat.eqb_eq in Ek; subst k. rewrite filter_In. tauto.
  Qed.

  Lemma invd_run : forall ops st, invd st -> ops_valid st ops -> Forall op_default ops -> invd (run st ops).
  Proof.
    induction ops as [|o ops IH]; intros st Hi V Hdef; simpl; auto.
    destruct V as [V1 V2]. inversion Hdef; subst. apply IH; auto. apply invd_step; auto.
  Qed.

  Lemma invd_init : invd (hs_init axes (Some d)).
  Proof.
    constructor.
    - apply good2_init; auto. intros d0 E. injection E as <-. exact Hd1.
    - intros j c k c' Hc Hj Hk. unfold numlevels, hs_init in Hj. simpl in Hj. lia.
    - intros j c c' Hc Hj1 Hj. unfold numlevels, hs_init in Hj. simpl in Hj. lia.
    - reflexivity.
  Qed.

  Lemma cell_condition_d : forall ops,
    ops_valid (hs_init axes (Some d)) ops -> Forall op_default ops ->
    cell_condition axes (Some d) ops d.
  Proof.
    intros ops V Hdef j c k c' Hc Hj Hk Hin.
    destruct (invd_run ops _ invd_init V Hdef) as [G HCC _ _].
    apply (HCC j c k c'); auto.
    apply (in_cse_iff axes HA _ j c k c' G ltac:(lia) Hj (or_introl Hc)). exact Hin.
  Qed.

  Lemma disparity_admissible_l : forall ops,
    ops_valid (hs_init axes (Some d)) ops -> Forall op_default ops ->
    admissible axes (Some d) ops d.
  Proof.
    intros ops V Hdef. apply admissible_from_cell_condition_l; auto.
    - intros d0 E. injection E as <-. exact Hd1.
    - apply cell_condition_d; auto.
  Qed.
End HistoryD.
