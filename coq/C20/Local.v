(* C20 -- locality: a request for form n neither reads nor writes the entry of any other form, hence the
   outcome of a fresh request is determined by the state of its own entry alone -- for EVERY combination of
   corrupt files in the directory.  (New file of the last round.) *)
From Coq Require Import List Arith Bool Lia.
From Verif.C20 Require Import Model Proofs Faults.
Import ListNotations.

Definition other_so (n : form) (x : path) : Prop := exists n', n' <> n /\ x = Final So n'.

Record agree (n : form) (st st' : state) : Prop := {
  ag_files : forall x, ~ other_so n x -> files st x = files st' x;
  ag_mtime : forall x, mtime st x = mtime st' x;
  ag_clock : clock st = clock st';
  ag_procs : forall p, procs st p = procs st' p }.

Lemma not_other_tmp n p r : ~ other_so n (Tmp p r).
Proof. intros (n' & _ & H). discriminate. Qed.
Lemma not_other_dir n : ~ other_so n CacheDir.
Proof. intros (n' & _ & H). discriminate. Qed.
Lemma not_other_own n : ~ other_so n (Final So n).
Proof. intros (n' & H1 & H). inversion H. congruence. Qed.

Lemma agree_setproc n st st' p q : agree n st st' -> agree n (setproc st p q) (setproc st' p q).
Proof.
  intros [A B C D]. split; simpl; auto. intros p'. rewrite D. reflexivity.
Qed.

Lemma agree_write n st st' x v : agree n st st' -> agree n (write st x v) (write st' x v).
Proof.
  intros [A B C D]. split; simpl.
  - intros y Hy. unfold upd. destruct (path_eqb y x); auto.
  - intros y. unfold upd. rewrite C, B. reflexivity.
  - rewrite C. reflexivity.
  - auto.
Qed.

Lemma agree_clear n st st' p : agree n st st' -> agree n (clear_tmp st p) (clear_tmp st' p).
Proof.
  intros [A B C D]. split; simpl; auto.
  intros y Hy. destruct y as [r m|p' r|]; auto. destruct (Nat.eqb p' p); auto.
Qed.

Lemma stale_agree n st st' a b : agree n st st' -> ~ other_so n b -> stale st a b = stale st' a b.
Proof. intros [A B C D] Hb. unfold stale. rewrite (A b Hb), !B. reflexivity. Qed.

Section Local.
Variable orc : oracle.

Lemma agree_step_proc n st st' p q :
  agree n st st' -> pform q = n ->
  agree n (step_proc New orc st p q) (step_proc New orc st' p q).
Proof.
  intros HA Hn. destruct q as [m c g]. simpl in Hn. subst m.
  pose proof (fun r => ag_files _ _ _ HA (Tmp p r) (not_other_tmp n p r)) as HT.
  pose proof (ag_files _ _ _ HA CacheDir (not_other_dir n)) as HD.
  pose proof (ag_files _ _ _ HA (Final So n) (not_other_own n)) as HF.
  unfold step_proc; simpl.
  destruct c as [| | | | |r w| | | |o]; unfold goto; simpl.
  - apply agree_setproc, agree_write; auto.
  - rewrite HD. destruct (exists_ (files st' CacheDir)); apply agree_setproc; auto.
  - rewrite HD. destruct (exists_ (files st' CacheDir)); apply agree_setproc; auto. apply agree_write; auto.
  - rewrite HF. destruct (load orc (files st' (Final So n))); apply agree_setproc; auto.
  - rewrite HD. destruct (exists_ (files st' CacheDir)); apply agree_setproc; auto.
  - unfold stage, begin, goto; simpl.
    destruct r, w; simpl; rewrite ?HT;
      repeat match goal with
             | |- context [match files st' ?x with _ => _ end] => destruct (files st' x)
             end;
      rewrite ?(stale_agree n st st' _ _ HA (not_other_tmp n p _));
      repeat match goal with
             | |- context [if stale ?a ?b ?c then _ else _] => destruct (stale a b c)
             end;
      repeat (apply agree_setproc || apply agree_write); auto.
  - rewrite HT. apply agree_setproc. repeat apply agree_write. auto.
  - apply agree_setproc, agree_clear; auto.
  - rewrite HF. destruct (load orc (files st' (Final So n))); apply agree_setproc; auto.
  - auto.
Qed.

Lemma step_Step pr st p q : procs st p = Some q -> step pr orc st (Step p) = step_proc pr orc st p q.
Proof. intros H. unfold step. rewrite H. reflexivity. Qed.

Lemma agree_solo n fuel : forall st st' p q,
  agree n st st' -> procs st p = Some q -> pform q = n ->
  agree n (solo New orc fuel st p) (solo New orc fuel st' p).
Proof.
  induction fuel as [|f IH]; intros st st' p q HA HP Hn.
  - exact HA.
  - rewrite !(solo_S orc).
    assert (HP' : procs st' p = Some q) by (rewrite <- (ag_procs _ _ _ HA p); exact HP).
    destruct (step_keeps_proc New orc st (Step p) p q HP) as (q' & Hq' & Hf & _).
    apply (IH _ _ p q').
    + rewrite (step_Step New st p q HP), (step_Step New st' p q HP'). apply agree_step_proc; auto.
    + exact Hq'.
    + congruence.
Qed.

(* the directory with the entries of all other forms removed *)
Definition forget_others (n : form) (st : state) : state :=
  mkstate (fun x => match x with
                    | Final So n' => if Nat.eqb n' n then files st x else Absent
                    | _ => files st x
                    end) (mtime st) (clock st) (procs st).

Lemma agree_forget n st : agree n st (forget_others n st).
Proof.
  split; simpl; auto. intros x Hx. destruct x as [r m|p r|]; auto. destruct r; auto.
  destruct (Nat.eqb m n) eqn:E; auto. exfalso. apply Hx. exists m. split; auto. apply Nat.eqb_neq. auto.
Qed.

(* a loadable entry is returned as it is *)
Lemma fresh_loads_l st p n c :
  procs st p = None -> load orc (files st (Final So n)) = LOk c ->
  outcome_of (solo New orc FUEL (step New orc st (Spawn p n)) p) p = Some (Ok c).
Proof.
  intros HN EL.
  set (st1 := setproc st p (mkproc n PMkdir n)).
  assert (E1 : step New orc st (Spawn p n) = st1) by (unfold step; rewrite HN; reflexivity).
  assert (H1 : procs st1 p = Some (mkproc n PMkdir n)).
  { unfold st1. rewrite procs_setproc, Nat.eqb_refl. reflexivity. }
  set (st2 := goto (write st1 CacheDir (Complete 0)) p (mkproc n PMkdir n) PImport).
  assert (E2 : step New orc st1 (Step p) = st2) by (unfold step; rewrite H1; reflexivity).
  assert (H2 : procs st2 p = Some (mkproc n PImport n)).
  { unfold st2, goto. rewrite procs_setproc, Nat.eqb_refl. reflexivity. }
  assert (F2 : files st2 (Final So n) = files st (Final So n)).
  { unfold st2, goto, write, setproc; simpl. rewrite upd_other by congruence. unfold st1; simpl. auto. }
  set (st3 := goto st2 p (mkproc n PImport n) (PDone (Ok c))).
  assert (E3 : step New orc st2 (Step p) = st3).
  { unfold step. rewrite H2. unfold step_proc. simpl ppc. simpl pform. cbv beta iota.
    rewrite F2, EL. reflexivity. }
  assert (H3 : procs st3 p = Some (mkproc n (PDone (Ok c)) n)).
  { unfold st3, goto. rewrite procs_setproc, Nat.eqb_refl. reflexivity. }
  rewrite E1. change FUEL with (S (S 26)).
  rewrite (solo_S orc), E2. rewrite (solo_S orc), E3.
  rewrite (solo_done orc New 26 st3 p _ (Ok c) H3 eq_refl).
  unfold outcome_of. rewrite H3. reflexivity.
Qed.

(* a rejected or absent entry is rebuilt, whatever the entries of the other forms look like *)
Lemma settled_forget n st : settled st -> settled (forget_others n st).
Proof. intros H p q HP. exact (H p q HP). Qed.

Lemma tmp_forget n st :
  (forall p, procs st p = None -> forall r, files st (Tmp p r) = Absent) ->
  (forall p, procs (forget_others n st) p = None -> forall r, files (forget_others n st) (Tmp p r) = Absent).
Proof. intros H p HP r. exact (H p HP r). Qed.

Lemma final_forget n st :
  load orc (files st (Final So n)) = LErr ->
  forall m, final_ok orc m (files (forget_others n st) (Final So m)).
Proof.
  intros EL m. unfold forget_others; simpl. destruct (Nat.eqb m n) eqn:E; simpl; auto.
  apply Nat.eqb_eq in E. subst m.
  unfold load in EL. destruct (files st (Final So n)) as [|k c|c]; simpl; auto; try discriminate.
  destruct (orc k); try discriminate. auto.
Qed.

Lemma spawn_fresh st p n :
  procs st p = None -> step New orc st (Spawn p n) = setproc st p (mkproc n PMkdir n).
Proof. intros HN. unfold step. rewrite HN. reflexivity. Qed.

Lemma fresh_rebuilds_l st p n :
  settled st ->
  (forall p, procs st p = None -> forall r, files st (Tmp p r) = Absent) ->
  procs st p = None -> load orc (files st (Final So n)) = LErr ->
  outcome_of (solo New orc FUEL (step New orc st (Spawn p n)) p) p = Some (Ok n).
Proof.
  intros HS HT HN EL.
  assert (HN' : procs (forget_others n st) p = None) by exact HN.
  pose proof (recovery_every_directory_l orc (forget_others n st) p n (settled_forget n st HS)
                (tmp_forget n st HT) (final_forget n st EL) HN') as HR.
  rewrite (spawn_fresh _ p n HN') in HR. rewrite (spawn_fresh _ p n HN).
  assert (HA : agree n (setproc st p (mkproc n PMkdir n)) (setproc (forget_others n st) p (mkproc n PMkdir n))).
  { apply agree_setproc, agree_forget. }
  assert (HP : procs (setproc st p (mkproc n PMkdir n)) p = Some (mkproc n PMkdir n)).
  { rewrite procs_setproc, Nat.eqb_refl. reflexivity. }
  pose proof (ag_procs _ _ _ (agree_solo n FUEL _ _ p _ HA HP eq_refl) p) as HS2.
  revert HR. unfold outcome_of. rewrite HS2. auto.
Qed.

(* the outcome of a fresh request, for every directory content *)
Lemma fresh_request_outcome_l st p n :
  settled st ->
  (forall p, procs st p = None -> forall r, files st (Tmp p r) = Absent) ->
  procs st p = None ->
  outcome_of (solo New orc FUEL (step New orc st (Spawn p n)) p) p =
  Some (match load orc (files st (Final So n)) with
        | LOk c => Ok c | LErr => Ok n | LCrash => Death end).
Proof.
  intros HS HT HN.
  destruct (load orc (files st (Final So n))) as [c| |] eqn:EL.
  - apply fresh_loads_l; auto.
  - apply fresh_rebuilds_l; auto.
  - unfold load in EL. destruct (files st (Final So n)) as [|k c|c] eqn:EF; try discriminate.
    destruct (orc k) eqn:EO; try discriminate.
    apply (crash_class_kills_l orc st p n k c); auto.
Qed.
End Local.
