#!/bin/bash
# Builds the extracted OCaml programs (offline: coqc + ocamlfind ocamlopt only).  Picked up by
# setup.sh; also run on demand by a check whose binary is missing.  One stanza per property.
# C02: coq/C02/Extract.v --(Extraction, ExtrOcamlBasic only)--> extract/c02_model.ml(i)
#      + extract/c02_driver.ml --> extract/c02_run
cd "$(dirname "$0")/.." || exit 1           # coq/
build_c02() {
  local src=C02/Extract.v ml=extract/c02_model.ml bin=extract/c02_run
  if [ ! -f "$ml" ] || [ "$src" -nt "$ml" ] || [ C02/ExtractDefs.v -nt "$ml" ] || [ lib/Bsp.v -nt "$ml" ]; then
    timeout 1800 make -f Makefile.coq -j4 C02/ExtractDefs.vo >/dev/null 2>&1
    timeout 900 coqc -R . Verif -w -all "$src" || { echo "c02 extraction failed"; return 1; }
  fi
  if [ ! -x "$bin" ] || [ "$ml" -nt "$bin" ] || [ extract/c02_driver.ml -nt "$bin" ]; then
    local tmp; tmp=$(mktemp -d /tmp/c02-extract-XXXXXX) || return 1
    cp extract/c02_model.ml extract/c02_model.mli extract/c02_driver.ml "$tmp"/ &&
    ( cd "$tmp" && timeout 900 ocamlfind ocamlopt -O3 -w -a -package str c02_model.mli c02_model.ml c02_driver.ml -o c02_run 2>/dev/null \
      || timeout 900 ocamlfind ocamlopt -w -a c02_model.mli c02_model.ml c02_driver.ml -o c02_run ) &&
    mv "$tmp/c02_run" "$bin.$$" && mv "$bin.$$" "$bin"
    local rc=$?; rm -rf "$tmp"; [ $rc -eq 0 ] || { echo "c02 ocaml build failed"; return 1; }
  fi
  echo "c02_run ok"
}
build_c02
