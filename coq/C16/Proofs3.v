(* C16 -- lemmas, third part: BlockOperator transpose without side condition, fastdiag for several
   right-hand sides, left-nested reduce(np.kron) = the right-nested Kronecker matrix. *)
From Coq Require Import List Arith Bool Lia Ring.
From Verif.C16 Require Import Model Model2 Proofs Proofs2.
Import ListNotations.

Section Proofs3.
Variable R : Type.
Variables (rO rI : R) (radd rmul rsub : R -> R -> R) (ropp : R -> R).
Variable Rth : ring_theory rO rI radd rmul rsub ropp eq.
Add Ring Rring3 : Rth.

Notation "0" := rO : rs.
Notation "1" := rI : rs.
Notation "x + y" := (radd x y) : rs.
Notation "x * y" := (rmul x y) : rs.
Local Open Scope rs.

Notation sumn := (Model.sumn R rO radd).
Notation mv := (Model.mv R rO radd rmul).
Local Notation sumn_ext := (Proofs.sumn_ext R rO radd).
Local Notation sumn_mul_l := (Proofs.sumn_mul_l R rO rI radd rmul rsub ropp Rth).
Local Notation sumn_mul_r := (Proofs.sumn_mul_r R rO rI radd rmul rsub ropp Rth).
Local Notation sumn_swap := (Proofs.sumn_swap R rO rI radd rmul rsub ropp Rth).
Local Notation sumn_delta := (Proofs.sumn_delta R rO rI radd rmul rsub ropp Rth).
Local Notation sumn_add := (Proofs.sumn_add R rO rI radd rmul rsub ropp Rth).
Local Notation sumn_zero := (Proofs.sumn_zero R rO rI radd rmul rsub ropp Rth).
Local Notation kron_ent := (Proofs2.kron_ent R rI rmul).
Local Notation wf_row := (Proofs2.wf_row R).
Local Notation wf_grid := (Proofs2.wf_grid R).
Local Notation row_placed := (Proofs2.row_placed R).
Local Notation grid_placed := (Proofs2.grid_placed R).
Local Notation grid_dense := (Proofs2.grid_dense R rO).
Notation omats ops := (map (omat R) ops).
Notation orows ops := (map (fun o => mrows R (omat R o)) ops).
Notation ocols ops := (map (fun o => mcols R (omat R o)) ops).

(* ---------------- BlockOperator: the row bound follows from the cell-shape assertion ------- *)
Lemma row_placed_bound_r : forall h row ws, wf_row h row ws ->
  forall ro co b, In b (row_placed ro co row ws) -> (pro R b + mrows R (pb R b) <= ro + h)%nat.
Proof.
  induction 1 as [|o w row ws Ho Hrow IH]; intros ro co b Hb.
  - contradiction.
  - rewrite row_placed_cons in Hb. apply in_app_or in Hb. destruct Hb as [Hb|Hb].
    + destruct o as [B|]; [|contradiction]. destruct Hb as [<-|[]]. destruct Ho as [Hr _]. simpl. lia.
    + apply IH in Hb. assumption.
Qed.

Lemma grid_placed_bound_r : forall grid hs ws, wf_grid grid hs ws ->
  forall ro b, In b (grid_placed ro grid hs ws) -> (pro R b + mrows R (pb R b) <= ro + suml hs)%nat.
Proof.
  induction 1 as [|row h grid hs Hrow Hg IH]; intros ro b Hb.
  - contradiction.
  - rewrite grid_placed_cons in Hb. apply in_app_or in Hb. destruct Hb as [Hb|Hb].
    + apply (row_placed_bound_r h row ws Hrow) in Hb. simpl. lia.
    + apply IH in Hb. simpl. lia.
Qed.

Lemma grid_block_transpose_full_l : forall grid hs ws x r, wf_grid grid hs ws ->
  base_block_matvec R rO radd rmul (map (placed_T R) (block_operator R grid hs ws)) x r =
  mv (mT R (grid_dense grid hs ws)) x r.
Proof.
  intros. apply (grid_block_transpose_l R rO rI radd rmul rsub ropp Rth); auto.
  intros b Hb. rewrite block_operator_grid in Hb.
  apply (grid_placed_bound_r grid hs ws H 0%nat b) in Hb. lia.
Qed.

(* ---------------- fastdiag_solver, several right-hand sides ---------------- *)
Local Notation eig_ok := (Proofs2.eig_ok R rO rI radd rmul).
Local Notation sizes := (Proofs2.sizes R).
Local Notation lap_ent := (Proofs2.lap_ent R rO rI radd rmul).
Local Notation diag_ev := (Proofs2.diag_ev R rO radd).
Local Notation mmuls := (Proofs2.mmuls R rO radd rmul).

Lemma fastdiag_inverts_mat_l : forall (fs : list (eigfac R)) (Us : list (operand R)) (dinv : nat -> R) (x : arr R) m,
  Forall eig_ok fs -> omats Us = map (fU R) fs ->
  (forall c, (c < prodl (sizes fs))%nat -> diag_ev fs c * dinv c = 1) ->
  ashape R x = [prodl (sizes fs); m] ->
  forall i k, (i < prodl (sizes fs))%nat -> (k < m)%nat ->
  sumn (prodl (sizes fs)) (fun j => lap_ent fs i j * aat R (fastdiag_apply_mat R rO radd rmul Us dinv x) [j; k]) = aat R x [i; k].
Proof.
  intros fs Us dinv x m H HU Hd Hx i k Hi Hk.
  destruct (eig_dims R rO rI radd rmul fs H) as [E1 [E2 [E3 [E4 E5]]]].
  assert (Er : orows Us = sizes fs) by (rewrite <- (rowsl_omats R), HU; assumption).
  assert (Ec : ocols Us = sizes fs) by (rewrite <- (colsl_omats R), HU; assumption).
  set (N := prodl (sizes fs)) in *.
  unfold fastdiag_apply_mat. rewrite Er, Hx. cbn [nth]. fold N.
  set (r := kronecker_operator R rO radd rmul (map (oT R) Us) x).
  set (d := mkarr R [N; m] (fun idx => match idx with [j; c] => dinv j * aat R r [j; c] | _ => 0 end)).
  assert (Hr : forall c, (c < N)%nat -> aat R r [c; k] = sumn N (fun l => kron_ent (map (fU R) fs) l c * aat R x [l; k])).
  { intros c Hc. unfold r. rewrite (kron_operator_mat_l R rO rI radd rmul rsub ropp Rth _ x m).
    - rewrite (ocols_oT R), (omats_oT R), HU, Er. fold N. apply sumn_ext. intros l _.
      rewrite (kron_ent_T R rI rmul). reflexivity.
    - rewrite (ocols_oT R), Er. assumption.
    - rewrite (orows_oT R), Ec. assumption.
    - assumption. }
  assert (Hy : forall j, (j < N)%nat -> aat R (kronecker_operator R rO radd rmul Us d) [j; k] =
                 sumn N (fun c => kron_ent (map (fU R) fs) j c * (dinv c * aat R r [c; k]))).
  { intros j Hj. rewrite (kron_operator_mat_l R rO rI radd rmul rsub ropp Rth _ d m).
    - rewrite Ec, HU. fold N. reflexivity.
    - rewrite Ec. reflexivity.
    - rewrite Er. assumption.
    - assumption. }
  rewrite (sumn_ext _ _ (fun j => sumn N (fun c => lap_ent fs i j * kron_ent (map (fU R) fs) j c * (dinv c * aat R r [c; k])))).
  2:{ intros j Hj. rewrite Hy by assumption. rewrite <- sumn_mul_l. apply sumn_ext. intros c _. ring. }
  rewrite sumn_swap.
  rewrite (sumn_ext _ _ (fun c => sumn N (fun l => kron_ent (mmuls (map (fM R) fs) (map (fU R) fs)) i c * kron_ent (map (fU R) fs) l c * aat R x [l; k]))).
  2:{ intros c Hc. rewrite sumn_mul_r. unfold N.
      rewrite (lap_times_U R rO rI radd rmul rsub ropp Rth fs H i c Hi Hc). fold N.
      rewrite (Hr c Hc).
      transitivity (kron_ent (mmuls (map (fM R) fs) (map (fU R) fs)) i c * (diag_ev fs c * dinv c) *
                    sumn N (fun l => kron_ent (map (fU R) fs) l c * aat R x [l; k])). ring.
      rewrite (Hd c Hc).
      transitivity (kron_ent (mmuls (map (fM R) fs) (map (fU R) fs)) i c *
                    sumn N (fun l => kron_ent (map (fU R) fs) l c * aat R x [l; k])). ring.
      rewrite <- sumn_mul_l. apply sumn_ext. intros l _. ring. }
  rewrite sumn_swap.
  rewrite (sumn_ext _ _ (fun l => if Nat.eqb l i then aat R x [l; k] else 0)).
  - apply sumn_delta. assumption.
  - intros l Hl. rewrite sumn_mul_r. unfold N.
    rewrite (MU_times_UT R rO rI radd rmul rsub ropp Rth fs H i l Hi Hl).
    rewrite Nat.eqb_sym. destruct (Nat.eqb l i); ring.
Qed.

(* ---------------- reduce(np.kron, ...) (left-nested) = the right-nested Kronecker matrix ------- *)
Local Notation rowsl := (Proofs2.rowsl R).
Local Notation colsl := (Proofs2.colsl R).
Local Notation kron2 := (Model2.kron2 R rmul).
Local Notation kron_reduce := (Model2.kron_reduce R rI rmul).

Lemma divmod_nest : forall i Rl r, (r <> 0)%nat -> (Rl <> 0)%nat ->
  (i / (Rl * r) = (i / r) / Rl /\ (i mod (Rl * r)) / r = (i / r) mod Rl /\ (i mod (Rl * r)) mod r = i mod r)%nat.
Proof.
  intros i Rl r Hr HR. repeat split.
  - rewrite Nat.div_div by assumption. f_equal. apply Nat.mul_comm.
  - rewrite (Nat.mul_comm Rl r), Nat.mod_mul_r by assumption.
    rewrite (Nat.add_comm (i mod r)), (Nat.mul_comm r), Nat.div_add_l by assumption.
    rewrite (Nat.div_small (i mod r) r) by (apply Nat.mod_upper_bound; assumption). lia.
  - rewrite (Nat.mul_comm Rl r), Nat.mod_mul_r by assumption.
    rewrite (Nat.mul_comm r), Nat.mod_add by assumption. apply Nat.mod_mod. assumption.
Qed.

Lemma rowsl_app : forall l B, prodl (rowsl (l ++ [B])) = (prodl (rowsl l) * mrows R B)%nat.
Proof. intros. unfold Proofs2.rowsl. rewrite map_app. simpl. apply prodl_app1. Qed.
Lemma colsl_app : forall l B, prodl (colsl (l ++ [B])) = (prodl (colsl l) * mcols R B)%nat.
Proof. intros. unfold Proofs2.colsl. rewrite map_app. simpl. apply prodl_app1. Qed.

Lemma kron_ent_snoc : forall l B i j,
  (i < prodl (rowsl (l ++ [B])))%nat -> (j < prodl (colsl (l ++ [B])))%nat ->
  kron_ent (l ++ [B]) i j =
  kron_ent l (i / mrows R B) (j / mcols R B) * ment R B (i mod mrows R B) (j mod mcols R B).
Proof.
  induction l as [|A l IH]; intros B i j Hi Hj.
  - cbn [app Proofs2.kron_ent Proofs2.rowsl Proofs2.colsl map prodl] in *.
    rewrite !Nat.div_1_r. rewrite !Nat.mod_small by lia. ring.
  - cbn [app Proofs2.kron_ent]. fold (rowsl (l ++ [B])). fold (colsl (l ++ [B])). fold (rowsl l). fold (colsl l).
    rewrite rowsl_app, colsl_app in *.
    cbn [Proofs2.rowsl Proofs2.colsl map prodl] in Hi, Hj. fold (rowsl l) in Hi. fold (colsl l) in Hj.
    set (Rl := prodl (rowsl l)) in *. set (Cl := prodl (colsl l)) in *.
    assert (Hr : mrows R B <> 0%nat) by (intro E; rewrite E in Hi; lia).
    assert (Hc : mcols R B <> 0%nat) by (intro E; rewrite E in Hj; lia).
    assert (HR : Rl <> 0%nat) by (intro E; rewrite E in Hi; lia).
    assert (HC : Cl <> 0%nat) by (intro E; rewrite E in Hj; lia).
    destruct (divmod_nest i Rl (mrows R B) Hr HR) as [A1 [A2 A3]].
    destruct (divmod_nest j Cl (mcols R B) Hc HC) as [B1 [B2 B3]].
    rewrite IH.
    + rewrite A1, A2, A3, B1, B2, B3. ring.
    + rewrite rowsl_app. fold Rl. apply Nat.mod_upper_bound. lia.
    + rewrite colsl_app. fold Cl. apply Nat.mod_upper_bound. lia.
Qed.

Lemma kron_fold_spec : forall rest A,
  mrows R (fold_left kron2 rest A) = prodl (rowsl (A :: rest)) /\
  mcols R (fold_left kron2 rest A) = prodl (colsl (A :: rest)) /\
  forall i j, (i < prodl (rowsl (A :: rest)))%nat -> (j < prodl (colsl (A :: rest)))%nat ->
    ment R (fold_left kron2 rest A) i j = kron_ent (A :: rest) i j.
Proof.
  induction rest as [|B rest IH] using rev_ind; intros A.
  - cbn [fold_left Proofs2.rowsl Proofs2.colsl map prodl Proofs2.kron_ent]. repeat split; try lia.
    intros i j Hi Hj. rewrite !Nat.div_1_r. ring.
  - rewrite fold_left_app. cbn [fold_left]. destruct (IH A) as [Er [Ec Eent]].
    change (A :: rest ++ [B]) with ((A :: rest) ++ [B]).
    rewrite rowsl_app, colsl_app. cbn [Model2.kron2 mrows mcols ment]. rewrite Er, Ec.
    repeat split; auto.
    intros i j Hi Hj.
    assert (Hr : mrows R B <> 0%nat) by (intro E; rewrite E in Hi; lia).
    assert (Hc : mcols R B <> 0%nat) by (intro E; rewrite E in Hj; lia).
    rewrite kron_ent_snoc by (rewrite ?rowsl_app, ?colsl_app; assumption).
    rewrite Eent. reflexivity.
    + apply Nat.div_lt_upper_bound; auto. lia.
    + apply Nat.div_lt_upper_bound; auto. lia.
Qed.

(* reduce(np.kron, ops) has the shape and the entries of the Kronecker matrix of Proofs2 *)
Lemma kron_reduce_spec_l : forall ops,
  mrows R (kron_reduce ops) = prodl (rowsl ops) /\ mcols R (kron_reduce ops) = prodl (colsl ops) /\
  forall i j, (i < prodl (rowsl ops))%nat -> (j < prodl (colsl ops))%nat ->
    ment R (kron_reduce ops) i j = kron_ent ops i j.
Proof.
  destruct ops as [|A rest].
  - simpl. repeat split; auto.
  - apply kron_fold_spec.
Qed.

End Proofs3.
