(* C20 -- non-vacuity: concrete reachable states meet the hypotheses of the theorems,
   and the model does what one expects on concrete histories (tests, by vm_compute). *)
From Coq Require Import List Arith Bool Lia.
From Verif.C20 Require Import Model Proofs Faults Local.
Import ListNotations.

(* three processes on two forms, interleaved; 0 is killed while linking, 1 while Cython writes the .c *)
Definition ex_tr : list label :=
  [Spawn 0 0; Spawn 1 0; Spawn 2 1; Step 0; Step 1; Step 2] ++
  repeat (Step 0) 19 ++ [Kill 0] ++ repeat (Step 1) 10 ++ [Kill 1] ++ repeat (Step 2) 30.

(* hypothesis of [recovery]: pid 3 is fresh after that history; its conclusion, computed *)
Example ex_fresh : procs (run New orc_ref ex_tr init) 3 = None.
Proof. vm_compute. reflexivity. Qed.
Example ex_recovers :
  outcome_of (solo New orc_ref FUEL (step New orc_ref (run New orc_ref ex_tr init) (Spawn 3 0)) 3) 3 = Some (Ok 0).
Proof. vm_compute. reflexivity. Qed.
(* the history is not trivial: 0 and 1 were killed in the middle of a write, 2 finished *)
Example ex_history :
  map (outcome_of (run New orc_ref ex_tr init)) [0; 1; 2] = [Some Killed; Some Killed; Some (Ok 1)] /\
  files (run New orc_ref ex_tr init) (Tmp 0 So) = Partial Header 0 /\
  files (run New orc_ref ex_tr init) (Tmp 1 Cfile) = Partial Half 0 /\
  files (run New orc_ref ex_tr init) (Final So 0) = Absent /\
  files (run New orc_ref ex_tr init) (Final So 1) = Complete 1.
Proof. vm_compute. auto 6. Qed.

(* hypotheses of [race_safety] / [completed_never_overwritten]: a finished process, a completed entry *)
Example ex_finished : exists q, procs (run New orc_ref ex_tr init) 2 = Some q /\ ppc q = PDone (Ok 1).
Proof. eexists. vm_compute. split; reflexivity. Qed.

(* hypothesis of [race_liveness] *)
Example ex_steps : rank PMkdir <= steps_of 2 ex_tr.
Proof. vm_compute. lia. Qed.

(* [Inv] also holds in directories that were damaged from outside in ways dlopen rejects: an empty
   and a garbage .so under final names, plus left-overs of the old protocol *)
Definition ex_damaged : state :=
  mkstate (fun y => match y with
                    | Final So 0 => Partial Empty 0
                    | Final So 1 => Partial Garbage 7
                    | Final Pyx 0 => Partial Half 0
                    | Final Cfile 0 => Partial Garbage 0
                    | _ => Absent end) (fun _ => 0) 1 (fun _ => None).
Example ex_damaged_inv : Inv orc_ref ex_damaged.
Proof.
  split; simpl; auto; try discriminate.
  intros [|[|n]]; simpl; auto.
Qed.
Example ex_damaged_recovers :
  outcome_of (solo New orc_ref FUEL (step New orc_ref ex_damaged (Spawn 0 1)) 0) 0 = Some (Ok 1).
Proof. vm_compute. reflexivity. Qed.

(* the hypothesis of the refutations holds for the measured oracle *)
Example ex_oracle : orc_ref Header = Crash.
Proof. reflexivity. Qed.

(* tests of the executable fault-history semantics used by the tie *)
Definition cold_trace := [3; 1; 2; 10; 11; 12; 13; 14; 20; 21; 22; 23; 24; 30; 31; 32; 33; 34; 40; 41; 42; 43; 44; 50; 51; 52].
Example ex_predict_new :
  predict New orc_ref 1 [EKill 0 (PWrite So W2); ERun 0; ERun 0] =
    [([3], [1; 0; 0; 0; 0], []); ([0], [1; 1; 0; 0; 0], cold_trace); ([0], [1; 1; 0; 0; 0], [3; 1])].
Proof. vm_compute. reflexivity. Qed.
Example ex_predict_old :
  predict Old orc_ref 1 [EKill 0 (PWrite So W2); ERun 0] =
    [([3], [0; 3; 1; 1; 1], []); ([2], [0; 3; 1; 1; 1], [3; 1])].
Proof. vm_compute. reflexivity. Qed.
Example ex_predict_sched :
  predict New orc_ref 1 [ESched [0; 0] [(0, PWrite So W2); (1, PReplace); (0, PReplace)]] =
    [([0; 0], [0; 1; 0; 0; 0], [])] /\
  predict Old orc_ref 1 [ESched [0; 0] [(0, PWrite So W2); (1, PReplace)]] =
    [([0; 2], [0; 1; 1; 1; 1], [])].
Proof. vm_compute. auto. Qed.
(* external damage: an empty .so is rebuilt, one cut after its first pages kills the interpreter
   (dlopen: SIGBUS) -- a state which, by final_entries_complete, no interrupted build can leave behind *)
Example ex_predict_damage :
  predict New orc_ref 1 [ERun 0; EDmg So (Some Empty); ERun 0; EDmg So (Some Header); ERun 0] =
    [([0], [0; 1; 0; 0; 0], cold_trace); ([], [0; 2; 0; 0; 0], []); ([0], [0; 1; 0; 0; 0], cold_trace);
     ([], [0; 3; 0; 0; 0], []); ([2], [0; 3; 0; 0; 0], [3; 1])].
Proof. vm_compute. reflexivity. Qed.

(* cold start: the cache directory does not exist in [init]; with the idempotent mkdir the schedule that
   breaks check-then-create (cold_start_refuted) ends well for both processes *)
Example ex_cold_start_new :
  map (outcome_of (solo New orc_ref FUEL (solo New orc_ref FUEL (run New orc_ref tr_cold_start init) 0) 1)) [0; 1]
  = [Some (Ok 0); Some (Ok 1)].
Proof. vm_compute. reflexivity. Qed.
(* and check-then-create alone (no second process) is fine: the defect needs the race *)
Example ex_cold_start_solo :
  outcome_of (solo NewCC orc_ref FUEL (step NewCC orc_ref init (Spawn 0 0)) 0) 0 = Some (Ok 0).
Proof. vm_compute. reflexivity. Qed.

(* ---- fault histories (Faults.v): a concrete history meets the hypotheses of recovery_after_faults ---- *)
(* session 1: process 0 builds form 0 completely; fault: every .so emptied; fault: clear-cache.py;
   session 2: process 1 builds form 1 and is killed in the link; fault: every .o replaced by garbage *)
Definition ex_s1 : list label := Spawn 0 0 :: repeat (Step 0) 28.
Definition ex_s2 : list label := Spawn 1 1 :: repeat (Step 1) 20 ++ [Kill 1].
Definition ex_hist : list hitem :=
  [HRun ex_s1; HFault (FDmg So (Some Empty)); HFault FClear; HRun ex_s2; HFault (FDmg Obj (Some Garbage))].
Definition ex_hist_end : state :=
  apply_fault (run New orc_ref ex_s2 (apply_fault (apply_fault (run New orc_ref ex_s1 init)
     (FDmg So (Some Empty))) FClear)) (FDmg Obj (Some Garbage)).

Lemma ex_quiescent_2 st :
  (forall p, 2 <= p -> procs st p = None) ->
  (forall q, procs st 0 = Some q -> is_done (ppc q) = true) ->
  (forall q, procs st 1 = Some q -> is_done (ppc q) = true) -> quiescent st.
Proof.
  intros H2 H0 H1 [|[|p]] q HP; auto. rewrite H2 in HP by lia. discriminate.
Qed.

Example ex_hist_ok : hist orc_ref init ex_hist ex_hist_end.
Proof.
  unfold ex_hist, ex_hist_end.
  apply h_run. apply h_fault.
  { apply ex_quiescent_2; [intros p Hp; destruct p as [|[|p]]; [lia|lia|reflexivity]| |];
      intros q H; vm_compute in H; inversion H; reflexivity || discriminate. }
  { simpl. discriminate. }
  apply h_fault.
  { apply ex_quiescent_2; [intros p Hp; destruct p as [|[|p]]; [lia|lia|reflexivity]| |];
      intros q H; vm_compute in H; inversion H; reflexivity || discriminate. }
  { exact I. }
  apply h_run. apply h_fault.
  { apply ex_quiescent_2; [intros p Hp; destruct p as [|[|p]]; [lia|lia|reflexivity]| |];
      intros q H; vm_compute in H; inversion H; reflexivity || discriminate. }
  { exact I. }
  apply h_nil.
Qed.
(* the history is not trivial: after it the cache holds no entry, one dead build directory with a damaged .o *)
Example ex_hist_state :
  files ex_hist_end (Final So 0) = Absent /\ files ex_hist_end (Final So 1) = Absent /\
  files ex_hist_end (Tmp 1 Obj) = Partial Garbage 1 /\ files ex_hist_end (Tmp 1 So) = Partial Header 1 /\
  outcome_of ex_hist_end 0 = Some (Ok 0) /\ outcome_of ex_hist_end 1 = Some Killed /\ procs ex_hist_end 2 = None.
Proof. vm_compute. auto 8. Qed.
(* the conclusion of recovery_after_faults, computed *)
Example ex_hist_recovers :
  outcome_of (solo New orc_ref FUEL (step New orc_ref ex_hist_end (Spawn 2 0)) 2) 2 = Some (Ok 0).
Proof. vm_compute. reflexivity. Qed.
(* hypothesis of crash_class_kills / the excluded fault: a finished entry cut to its header *)
Example ex_crash_class :
  let st := apply_fault (run New orc_ref ex_s1 init) (FDmg So (Some Header)) in
  files st (Final So 0) = Partial Header 0 /\ orc_ref Header = Crash /\ ~ safe_fault orc_ref (FDmg So (Some Header)).
Proof. vm_compute. repeat split. intros H. apply H. reflexivity. Qed.

(* ---- locality (Local.v): hypotheses of fresh_request_outcome in a directory where ANOTHER form's entry is
   cut to its header (dlopen would crash on it), the own entry is garbage, old-protocol left-overs lie around *)
Definition ex_mixed : state :=
  mkstate (fun y => match y with
                    | Final So 0 => Partial Garbage 0
                    | Final So 1 => Partial Header 1
                    | Final So 2 => Complete 2
                    | Final Pyx 0 => Partial Empty 0
                    | Final Obj 1 => Partial Half 1
                    | _ => Absent end) (fun _ => 0) 1 (fun _ => None).
Example ex_mixed_hyps :
  settled ex_mixed /\ (forall p, procs ex_mixed p = None -> forall r, files ex_mixed (Tmp p r) = Absent) /\
  ~ final_ok orc_ref 1 (files ex_mixed (Final So 1)).
Proof.
  split; [|split].
  - intros p q H. discriminate.
  - intros p _ r. reflexivity.
  - simpl. intros [H|[H _]]; discriminate.
Qed.
(* the three cases of the theorem, computed: rebuilt / dies / returned as it is *)
Example ex_mixed_outcomes :
  map (fun n => outcome_of (solo New orc_ref FUEL (step New orc_ref ex_mixed (Spawn 0 n)) 0) 0) [0; 1; 2]
  = [Some (Ok 0); Some Death; Some (Ok 2)].
Proof. vm_compute. reflexivity. Qed.
Example ex_agree : agree 0 ex_mixed (forget_others 0 ex_mixed) /\
  files (forget_others 0 ex_mixed) (Final So 1) = Absent.
Proof. split; [apply agree_forget|reflexivity]. Qed.
