(* C14 -- executable model of the automatic interface detection of pyiga.assemble
   (assemble.py:1111-1183): _bb_rect / _check_geo_match / _find_matching_boundaries /
   detect_interfaces, on EXACT data.

   A patch geometry enters through what the code looks at:
   * its samples on the tensor grid  linspace(s0, s1, grid)^d  (grid = 4 in the source), as a C-order
     array of points; the restriction G.boundary((ax, side)).grid_eval(grid without axis ax) is the
     slice of that array at index 0 resp. grid-1 of axis ax -- the SAME index function
     (Slice.boundary_dofs) that join_boundaries applies to the dof grid, and flipping the grid vector
     of boundary axis i before evaluation is boundary_dofs with flip_i = true;
   * its bounding box (scipy.spatial.Rectangle of G.bounding_box()).
   np.allclose(X1, X2) is modelled by exact equality of the exact sample points (the tie hands over
   exact rationals; the harness keeps every pair of non-coinciding faces farther apart than the
   tolerance of allclose).  All patches are parametrised over the same box, so the comparison of
   G1.support with G2.support in _check_geo_match is always true and is not modelled.
   Definitions only; proofs are in ProofsGeo.v. *)
From Coq Require Import List Arith Bool QArith.
From Verif.lib Require Import Slice.
From Verif.C14 Require Import Model.
Import ListNotations.
Close Scope Q_scope.

Fixpoint list_eqb {A : Type} (e : A -> A -> bool) (a b : list A) : bool :=
  match a, b with
  | [], [] => true
  | x :: a', y :: b' => e x y && list_eqb e a' b'
  | _, _ => false
  end.

(* itertools.product of k copies of (False, True): first entry varies slowest *)
Fixpoint all_flips (k : nat) : list (list bool) :=
  match k with
  | 0 => [[]]
  | S k' => map (cons false) (all_flips k') ++ map (cons true) (all_flips k')
  end.

(* itertools.product(range(d), (0,1)) *)
Definition all_bds (d : nat) : list (nat * nat) :=
  flat_map (fun ax => [(ax, 0); (ax, 1)]) (seq 0 d).

(* shape of the face normal to axis ax *)
Definition face_shape (shape : list nat) (ax : nat) : list nat := firstn ax shape ++ skipn (S ax) shape.

Section Match.
Variable P : Type.                       (* points of the physical space *)
Variable peqb : P -> P -> bool.

Definition opt_eqb (a b : option P) : bool :=
  match a, b with
  | Some x, Some y => peqb x y
  | None, None => true
  | _, _ => false
  end.

(* X = G.boundary((ax, side)).grid_eval(flipped grid), raveled *)
Definition face_pts (shape : list nat) (S : list P) (ax side : nat) (flip : list bool) : list (option P) :=
  map (nth_error S) (boundary_dofs shape ax side flip).

(* _check_geo_match(bd1, bd2): the first flip (in product order) under which the samples agree *)
Definition check_geo_match (sh1 : list nat) (S1 : list P) (ax1 s1 : nat)
                           (sh2 : list nat) (S2 : list P) (ax2 s2 : nat) : option (list bool) :=
  if negb (Nat.eqb (length sh1) (length sh2)) then None                       (* sdim / dim differ *)
  else if negb (list_eqb Nat.eqb (face_shape sh1 ax1) (face_shape sh2 ax2)) then None
  else find (fun f => list_eqb opt_eqb (face_pts sh1 S1 ax1 s1 []) (face_pts sh2 S2 ax2 s2 f))
            (all_flips (length sh2 - 1)).

Definition match_t := ((nat * nat) * (nat * nat) * list bool)%type.

(* _find_matching_boundaries(G1, G2) *)
Definition find_matching (sh1 : list nat) (S1 : list P) (sh2 : list nat) (S2 : list P) : list match_t :=
  flat_map (fun bd1 =>
    flat_map (fun bd2 =>
      match check_geo_match sh1 S1 (fst bd1) (snd bd1) sh2 S2 (fst bd2) (snd bd2) with
      | Some f => [(bd1, bd2, f)]
      | None => []
      end) (all_bds (length sh2))) (all_bds (length sh1)).

(* ---- bounding boxes: scipy.spatial.Rectangle.min_distance_rectangle / max_distance_rectangle ---- *)
Definition qmax (a b : Q) : Q := if Qle_bool a b then b else a.
Definition qltb (a b : Q) : bool := negb (Qle_bool b a).
Definition gap (a b : Q * Q) : Q := qmax 0 (qmax (fst a - snd b) (fst b - snd a))%Q.
Fixpoint mind2 (b1 b2 : list (Q * Q)) : Q :=
  match b1, b2 with
  | a :: r1, b :: r2 => (gap a b * gap a b + mind2 r1 r2)%Q
  | _, _ => 0%Q
  end.
Fixpoint diam2 (b : list (Q * Q)) : Q :=
  match b with
  | a :: r => ((snd a - fst a) * (snd a - fst a) + diam2 r)%Q
  | [] => 0%Q
  end.
(* mindist < 1e-10 * maxdiam, both sides squared (both are >= 0) *)
Definition touch (b1 b2 : list (Q * Q)) : bool :=
  qltb (mind2 b1 b2) ((1 # 100000000000000000000) * qmax (diam2 b1) (diam2 b2))%Q.

Record gpatch := mk_gpatch { gp_shape : list nat; gp_samples : list P; gp_bb : list (Q * Q) }.
Definition gp_none : gpatch := mk_gpatch [] [] [].

Definition intf_t := (nat * (nat * nat) * nat * (nat * nat) * list bool)%type.

(* detect_interfaces(patches)[1]: the list of interfaces, in the order of the source *)
Definition detect (ps : list gpatch) : list intf_t :=
  flat_map (fun p1 =>
    flat_map (fun p2 =>
      let G1 := nth p1 ps gp_none in
      let G2 := nth p2 ps gp_none in
      if touch (gp_bb G1) (gp_bb G2) then
        map (fun m : match_t => let '(bd1, bd2, f) := m in (p1, bd1, p2, bd2, f))
            (find_matching (gp_shape G1) (gp_samples G1) (gp_shape G2) (gp_samples G2))
      else []) (seq (S p1) (length ps - S p1))) (seq 0 (length ps)).

(* detect_interfaces(patches)[0]: nx.is_connected of the graph with an edge per pair of patches that
   has at least one interface (at least one patch) *)
Definition adj (es : list intf_t) (a b : nat) : bool :=
  existsb (fun e : intf_t => let '(p1, _, p2, _, _) := e in
             (Nat.eqb p1 a && Nat.eqb p2 b) || (Nat.eqb p1 b && Nat.eqb p2 a)) es.
Fixpoint reach (fuel n : nat) (es : list intf_t) (cur : list nat) : list nat :=
  match fuel with
  | 0 => cur
  | S k => reach k n es (filter (fun v => existsb (Nat.eqb v) cur || existsb (fun u => adj es u v) cur) (seq 0 n))
  end.
Definition connected (n : nat) (es : list intf_t) : bool := Nat.eqb (length (reach n n es [0])) n.

End Match.

(* an interface as the join_boundaries call Multipatch.__init__(automatch=True) makes of it *)
Definition to_bjoin (e : nat * (nat * nat) * nat * (nat * nat) * list bool) : bjoin :=
  let '(p1, bd1, p2, bd2, f) := e in mk_bjoin p1 (fst bd1) (snd bd1) p2 (fst bd2) (snd bd2) f.

(* Multipatch(patches, automatch=True): detect, join every interface in order, finalize *)
Definition automatch_observe (P : Type) (peqb : P -> P -> bool) (dofshapes : list (list nat))
                             (ps : list (gpatch P)) : nat * list (list nat) :=
  observe dofshapes (map to_bjoin (detect P peqb ps)).
