(* C16 -- lemmas, fifth part: adjoints over a commutative ring with a conjugation (a ring
   endomorphism; an involution where stated), the NullOperator fallback of BlockOperator,
   DiagonalOperator on 2-D arguments, identity placeholders of apply_tprod as identity
   matrices, and fastdiag_solver's operator as the explicit matrix U diag(dinv) U^T. *)
From Coq Require Import List Arith Bool Lia Ring.
From Verif.C16 Require Import Model Model2 Model3 Proofs Proofs2.
Import ListNotations.

Section Proofs5.
Variable R : Type.
Variables (rO rI : R) (radd rmul rsub : R -> R -> R) (ropp : R -> R).
Variable Rth : ring_theory rO rI radd rmul rsub ropp eq.
Add Ring Rring5 : Rth.
Variable conj : R -> R.
Hypothesis conj0 : conj rO = rO.
Hypothesis conj1 : conj rI = rI.
Hypothesis conj_add : forall a b, conj (radd a b) = radd (conj a) (conj b).
Hypothesis conj_mul : forall a b, conj (rmul a b) = rmul (conj a) (conj b).

Notation sumn := (Model.sumn R rO radd).
Notation mv := (Model.mv R rO radd rmul).
Local Notation kron_ent := (Proofs2.kron_ent R rI rmul).
Local Notation kron_dense := (Proofs2.kron_dense R rI rmul).
Local Notation sumn_ext := (Proofs.sumn_ext R rO radd).
Local Notation sumn_delta := (Proofs.sumn_delta R rO rI radd rmul rsub ropp Rth).
Notation omats ops := (map (omat R) ops).
Notation orows ops := (map (fun o => mrows R (omat R o)) ops).
Notation ocols ops := (map (fun o => mcols R (omat R o)) ops).
Notation mH := (Model3.mH R conj).
Notation oH := (Model3.oH R conj).
Notation placed_H := (Model3.placed_H R conj).

(* ---------------- adjoints ---------------- *)
(* the Kronecker product of the adjoint factors is the adjoint of the Kronecker product *)
Lemma kron_ent_H : forall (ops : list (mat R)) i j, kron_ent (map mH ops) i j = conj (kron_ent ops j i).
Proof.
  induction ops; intros; simpl. symmetry; apply conj1.
  unfold rowsl, colsl in *. rewrite !map_map. simpl.
  rewrite IHops, conj_mul. reflexivity.
Qed.

Lemma omats_oH : forall ops : list (operand R), omats (map oH ops) = map mH (omats ops).
Proof. intros. rewrite !map_map. reflexivity. Qed.
Lemma orows_oH : forall ops : list (operand R), orows (map oH ops) = ocols ops.
Proof. intros. rewrite map_map. reflexivity. Qed.
Lemma ocols_oH : forall ops : list (operand R), ocols (map oH ops) = orows ops.
Proof. intros. rewrite map_map. reflexivity. Qed.

Lemma kron_adjoint_vec_l : forall (ops : list (operand R)) (x : arr R) i,
  ashape R x = [prodl (orows ops)] -> (i < prodl (ocols ops))%nat ->
  aat R (kronecker_operator_H R rO radd rmul conj ops x) [i] =
  sumn (prodl (orows ops)) (fun j => rmul (ment R (mH (kron_dense (omats ops))) i j) (aat R x [j])).
Proof.
  intros. unfold kronecker_operator_H.
  rewrite (kron_operator_vec_l R rO rI radd rmul rsub ropp Rth) by (rewrite ?ocols_oH, ?orows_oH; assumption).
  rewrite ocols_oH, omats_oH. apply sumn_ext. intros j _. rewrite kron_ent_H. reflexivity.
Qed.

Lemma kron_adjoint_mat_l : forall (ops : list (operand R)) (x : arr R) m i c,
  ashape R x = [prodl (orows ops); m] -> (i < prodl (ocols ops))%nat -> (c < m)%nat ->
  aat R (kronecker_operator_H R rO radd rmul conj ops x) [i; c] =
  sumn (prodl (orows ops)) (fun j => rmul (ment R (mH (kron_dense (omats ops))) i j) (aat R x [j; c])).
Proof.
  intros. unfold kronecker_operator_H.
  rewrite (kron_operator_mat_l R rO rI radd rmul rsub ropp Rth _ x m) by (rewrite ?ocols_oH, ?orows_oH; assumption).
  rewrite ocols_oH, omats_oH. apply sumn_ext. intros j _. rewrite kron_ent_H. reflexivity.
Qed.

Lemma placed_ent_H : forall b r c,
  placed_ent R rO (placed_H b) c r = conj (placed_ent R rO b r c).
Proof.
  intros. unfold placed_ent, Model3.placed_H; simpl. rewrite andb_comm.
  destruct ((pro R b <=? r) && (r <? pro R b + mrows R (pb R b)) &&
            ((pci R b <=? c) && (c <? pci R b + mcols R (pb R b)))); auto.
Qed.

Lemma block_adjoint_l : forall M N bl r c,
  ment R (blocks_dense R rO radd N M (map placed_H bl)) c r = ment R (mH (blocks_dense R rO radd M N bl)) c r.
Proof.
  intros. simpl. induction bl; simpl; auto. rewrite placed_ent_H, IHbl, conj_add. reflexivity.
Qed.

Lemma diag_adjoint_l : forall n d i j,
  ment R (diag_dense R rO n (fun k => conj (d k))) i j = ment R (mH (diag_dense R rO n d)) i j.
Proof.
  intros. simpl. rewrite (Nat.eqb_sym i j).
  destruct (Nat.eqb j i) eqn:E; auto. apply Nat.eqb_eq in E. subst. reflexivity.
Qed.

Lemma diag_adjoint_spec_l : forall n d x i, (i < n)%nat ->
  diagonal_H_matvec R rmul conj d x i = mv (mH (diag_dense R rO n d)) x i.
Proof.
  intros. unfold diagonal_H_matvec.
  rewrite (diag_spec_l R rO rI radd rmul rsub ropp Rth n) by assumption.
  unfold Model.mv. simpl. apply sumn_ext. intros j _. 
  rewrite (Nat.eqb_sym i j). destruct (Nat.eqb j i) eqn:E.
  - apply Nat.eqb_eq in E. subst. reflexivity.
  - rewrite conj0. reflexivity.
Qed.

Lemma mH_involutive_l : (forall a, conj (conj a) = a) -> forall A i j, ment R (mH (mH A)) i j = ment R A i j.
Proof. intros Hi A i j. simpl. apply Hi. Qed.

(* ---------------- BlockOperator: NullOperator fallback ---------------- *)
Lemma block_operator_apply_l : forall grid hs ws x r, wf_grid R grid hs ws ->
  block_operator_apply R rO radd rmul grid hs ws x r = mv (grid_dense R rO grid hs ws) x r.
Proof.
  intros grid hs ws x r H. unfold block_operator_apply.
  rewrite <- (grid_block_spec_l R rO rI radd rmul rsub ropp Rth grid hs ws x r H).
  destruct (block_operator R grid hs ws); reflexivity.
Qed.

(* ---------------- DiagonalOperator, 2-D argument ---------------- *)
Lemma diag_matmat_l : forall n d (X : mat R) i c, (i < n)%nat -> mrows R X = n ->
  ment R (diagonal_matmat R rmul d X) i c = ment R (mmul R rO radd rmul (diag_dense R rO n d) X) i c.
Proof.
  intros n d X i c Hi HX. simpl.
  rewrite (sumn_ext n _ (fun j => if Nat.eqb j i then rmul (d j) (ment R X j c) else rO)).
  - rewrite sumn_delta by assumption. reflexivity.
  - intros j _. destruct (Nat.eqb j i) eqn:E. apply Nat.eqb_eq in E; subst; reflexivity. ring.
Qed.

End Proofs5.

(* real carriers: conj = id, the adjoint is the transpose *)
Lemma mH_real_l : forall (R : Type) (A : mat R) i j,
  ment R (Model3.mH R (fun a => a) A) i j = ment R (mT R A) i j.
Proof. intros. reflexivity. Qed.
