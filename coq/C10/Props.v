(* C10 -- property theorems only.  Each is closed by [exact] of a lemma of Proofs.v and
   followed by Print Assumptions.  The linear-algebra theorems hold for EVERY commutative
   ring R with Leibniz equality (Z, the rationals Qc, polynomial rings, ...), every matrix
   size, every matrix A, right-hand side b and every duplicate-free list of constrained
   dofs in ANY order. *)
From Coq Require Import List Arith Bool ZArith Ring Sorted QArith Qcanon.
From Verif.lib Require Import Slice Bsp.
From Verif.C02 Require Proofs Proofs_ref.
From Verif.C14 Require Model Spec.
From Verif.C10 Require Import Model Model_ic Model_bc Proofs Proofs_ic Proofs_ic2 Proofs_ic3 Proofs_mp Proofs_bc.
Import ListNotations.
Local Open Scope nat_scope.

(* complete(u) takes the prescribed value at each constrained dof: values[k] at dof
   indices[k], whatever the order of the indices (sorted or not); with or without elim_rows;
   scalar or array right-hand side. *)
Theorem complete_prescribed :
  forall (R : Type) (rO rI : R) radd rmul rsub ropp, ring_theory rO rI radd rmul rsub ropp eq ->
  forall A ncols b idx values elim_rows u k,
  NoDup idx -> (forall x, In x idx -> x < ncols) -> length values = length idx -> k < length idx ->
  nth (nth k idx 0)
      (rls_complete R rO radd (rls_init R rO radd rmul rsub A ncols b idx (Arr values) elim_rows) u) rO
  = nth k values rO.
Proof. exact rls_complete_prescribed. Qed.
Print Assumptions complete_prescribed.

(* the same for a scalar value (np.isscalar(values)) *)
Theorem complete_prescribed_scalar :
  forall (R : Type) (rO rI : R) radd rmul rsub ropp, ring_theory rO rI radd rmul rsub ropp eq ->
  forall A ncols b idx c elim_rows u j,
  NoDup idx -> (forall x, In x idx -> x < ncols) -> In j idx ->
  nth j (rls_complete R rO radd (rls_init R rO radd rmul rsub A ncols b idx (Scalar c) elim_rows) u) rO = c.
Proof. exact rls_complete_prescribed_scalar. Qed.
Print Assumptions complete_prescribed_scalar.

(* The code before the repair fixes/C10-unsorted-indices.patch (values kept in the caller's
   order while the rows of R_elim are in increasing dof order) violates complete_prescribed:
   indices [3;0], values [10;20] put 10 at dof 0. *)
Theorem complete_prescribed_unrepaired_refuted :
  let idx := [3; 0] in
  let values := [10; 20]%Z in
  let s := rls_init_unsorted_bug Z 0%Z Z.add Z.mul Z.sub [] 5 (Scalar 0%Z) idx (Arr values) None in
  nth (nth 0 idx 0) (rls_complete Z 0%Z Z.add s [0; 0; 0]%Z) 0%Z <> nth 0 values 0%Z.
Proof. exact unsorted_bug_witness. Qed.
Print Assumptions complete_prescribed_unrepaired_refuted.

(* If u solves the restricted system (self.A u = self.b) then complete(u) satisfies every
   non-eliminated equation of the original system A x = b.  The eliminated rows are
   elim_rows if given, the constrained dofs otherwise. *)
Theorem complete_solves :
  forall (R : Type) (rO rI : R) radd rmul rsub ropp, ring_theory rO rI radd rmul rsub ropp eq ->
  forall A ncols b idx values elim_rows u i,
  let s := rls_init R rO radd rmul rsub A ncols b idx values elim_rows in
  let bv := bcast R (length A) b in
  length bv = length A ->
  (elim_rows = None -> length A = ncols) ->
  matvec R rO radd rmul (r_A R s) u = r_b R s ->
  i < length A -> ~ In i (elim_row_set idx elim_rows) ->
  dot R rO radd rmul (nth i A []) (rls_complete R rO radd s u) = nth i bv rO.
Proof. exact rls_complete_solves. Qed.
Print Assumptions complete_solves.

(* restrict, extend, complete, restrict_matrix, restrict_rhs are mutually consistent *)
Theorem restrict_extend :
  forall (R : Type) (rO : R) radd rmul rsub A ncols b idx values elim_rows u,
  let s := rls_init R rO radd rmul rsub A ncols b idx values elim_rows in
  length u = ntrue (r_mask R s) -> rls_restrict R s (rls_extend R rO s u) = u.
Proof. exact rls_restrict_extend. Qed.
Print Assumptions restrict_extend.

Theorem restrict_complete :
  forall (R : Type) (rO rI : R) radd rmul rsub ropp, ring_theory rO rI radd rmul rsub ropp eq ->
  forall A ncols b idx values elim_rows u,
  let s := rls_init R rO radd rmul rsub A ncols b idx values elim_rows in
  length u = ntrue (r_mask R s) -> rls_restrict R s (rls_complete R rO radd s u) = u.
Proof. exact rls_restrict_complete. Qed.
Print Assumptions restrict_complete.

Theorem restrict_matrix_consistent :
  forall (R : Type) (rO rI : R) radd rmul rsub ropp, ring_theory rO rI radd rmul rsub ropp eq ->
  forall A ncols b idx values elim_rows B u,
  let s := rls_init R rO radd rmul rsub A ncols b idx values elim_rows in
  matvec R rO radd rmul (rls_restrict_matrix R s B) u
  = rls_restrict_rhs R s (matvec R rO radd rmul B (rls_extend R rO s u)).
Proof. exact rls_restrict_matrix_consistent. Qed.
Print Assumptions restrict_matrix_consistent.

(* R_free^T R_free + R_elim^T R_elim = I *)
Theorem selection_split_identity :
  forall (R : Type) (rO rI : R) radd rmul rsub ropp, ring_theory rO rI radd rmul rsub ropp eq ->
  forall mask x, length x = length mask ->
  vadd R radd (expand R rO mask (compress mask x)) (expand R rO (nmask mask) (compress (nmask mask) x)) = x.
Proof. exact split_identity_l. Qed.
Print Assumptions selection_split_identity.

(* the restricted system has ncols - #indices unknowns *)
Theorem num_free_dofs :
  forall (R : Type) (rO : R) radd rmul rsub A ncols b idx values elim_rows,
  NoDup idx -> (forall x, In x idx -> x < ncols) ->
  ntrue (r_mask R (rls_init R rO radd rmul rsub A ncols b idx values elim_rows)) = ncols - length idx.
Proof. exact rls_num_free. Qed.
Print Assumptions num_free_dofs.

(* np.argsort of duplicate-free indices lists them in the order of the rows of I[~mask] *)
Theorem argsort_orders_rows : forall n idx,
  NoDup idx -> (forall x, In x idx -> x < n) ->
  map (fun p => nth p idx 0) (argsort idx) = elim_dofs n idx.
Proof. exact argsort_spec. Qed.
Print Assumptions argsort_orders_rows.

(* combine_bcs keeps one value per dof: strictly increasing indices, the same set of dofs
   as the input, and each dof takes the value of its FIRST occurrence *)
Theorem combine_one_value_per_dof : forall (X : Type) (d : X) indices (values : list X),
  let r := combine_flat X d indices values in
  StronglySorted lt (fst r) /\ NoDup (fst r) /\
  (forall j, In j (fst r) <-> In j indices) /\
  length (snd r) = length (fst r) /\
  (forall t, t < length (fst r) ->
     let j := nth t (fst r) 0 in
     let k := first_pos j indices in
     k < length indices /\ nth k indices 0 = j /\ (forall k', k' < k -> nth k' indices 0 <> j) /\
     nth t (snd r) d = nth k values d).
Proof. exact combine_flat_spec. Qed.
Print Assumptions combine_one_value_per_dof.

(* blocked numbering of vector fields: component j of face dof i is i + j*NN and no two
   (dof, component) pairs collide *)
Theorem blocked_numbering : forall NN bd j1 j2 i1 i2,
  (forall i, In i bd -> i < NN) -> In i1 bd -> In i2 bd ->
  i1 + j1 * NN = i2 + j2 * NN -> i1 = i2 /\ j1 = j2.
Proof. exact blocked_disjoint. Qed.
Print Assumptions blocked_numbering.

(* _parse_bdspec accepts exactly the valid (axis, side) pairs; names are the documented pairs *)
Theorem parse_bdspec_total : forall a s dim ax side,
  parse_bdspec (BPair a s) dim = Some (ax, side) <->
  (a = Z.of_nat ax /\ s = Z.of_nat side /\ ax < dim /\ (side = 0 \/ side = 1)).
Proof. exact parse_bdspec_pair_l. Qed.
Print Assumptions parse_bdspec_total.

Theorem parse_bdspec_names : forall s dim,
  parse_bdspec (BName s) dim = parse_bdspec (BPair (fst (bdname_pair s dim)) (snd (bdname_pair s dim))) dim.
Proof. exact parse_bdspec_name_l. Qed.
Print Assumptions parse_bdspec_names.

(* the 'all' shorthand: all 2*dim faces, each valid *)
Theorem all_faces_complete : forall dim ax side,
  ax < dim -> side < 2 -> In (BPair (Z.of_nat ax) (Z.of_nat side)) (all_faces dim).
Proof. exact all_faces_spec. Qed.
Print Assumptions all_faces_complete.

Theorem all_faces_count : forall dim, length (all_faces dim) = 2 * dim.
Proof. exact all_faces_length. Qed.
Print Assumptions all_faces_count.

Theorem all_faces_are_valid : forall dim b, In b (all_faces dim) ->
  exists ax side, b = BPair (Z.of_nat ax) (Z.of_nat side) /\ ax < dim /\ side < 2 /\
                  parse_bdspec b dim = Some (ax, side).
Proof. exact all_faces_valid. Qed.
Print Assumptions all_faces_are_valid.

(* slice_indices (hence boundary_dofs, boundary_cells, the index arrays of the boundary
   conditions) lists every dof whose multi-index has coordinate idx on axis ax exactly once,
   for every shape (any dimension), axis, index and flip pattern *)
Theorem slice_indices_face : forall ax idx shape flip,
  ax < length shape -> idx < nth ax shape 0 ->
  NoDup (slice_indices ax idx shape flip) /\
  (forall r, In r (slice_indices ax idx shape flip) <->
             exists mi, valid_mi shape mi /\ nth ax mi 0 = idx /\ r = ravel shape mi).
Proof. exact slice_indices_face_l. Qed.
Print Assumptions slice_indices_face.

(* the same with Python's negative indices (idx = -1 is the last slice) *)
Theorem slice_indices_wrap_face : forall ax (idx : Z) shape flip,
  ax < length shape -> (- Z.of_nat (nth ax shape 0%nat) <= idx < Z.of_nat (nth ax shape 0%nat))%Z ->
  exists l, slice_indices_z ax idx shape flip = Some l /\ NoDup l /\
    (forall r, In r l <->
       exists mi, valid_mi shape mi /\
                  Z.of_nat (nth ax mi 0%nat) = (idx mod Z.of_nat (nth ax shape 0%nat))%Z /\ r = ravel shape mi).
Proof. exact slice_indices_z_face_l. Qed.
Print Assumptions slice_indices_wrap_face.

(* np.ravel_multi_index is injective on the valid multi-indices of a shape *)
Theorem ravel_injective : forall shape mi mi', valid_mi shape mi -> valid_mi shape mi' ->
  ravel shape mi = ravel shape mi' -> mi = mi'.
Proof. exact ravel_inj. Qed.
Print Assumptions ravel_injective.

(* ---- compute_initial_condition_01 (on top of C02's B-spline theorems) ----
   For EVERY open knot vector kv of degree p >= 1 on any interval [t0, t1] (open_kv is C02's
   boolean well-formedness check; knots are arbitrary rationals):
   the matrix active_deriv(kv, t0, 1)[:2, :2] is [[1, 0], [-c, c]] with c = p / (t_{p+1} - t_0) <> 0,
   the matrix active_deriv(kv, t1, 1)[:2, -2:] is [[0, 1], [-c', c']] with c' = p / (t_last - t_{n-p-2}). *)
Theorem initial_condition_bdcolloc_left : forall kv p, open_kv kv p = true -> 1 <= p ->
  ic_bdcolloc kv p 0 = (1, 0, - cleft kv p, cleft kv p)%Qc /\ cleft kv p <> 0%Qc.
Proof. exact (fun kv p H1 H2 => conj (ic_bdcolloc_left kv p H1 H2) (cleft_nonzero kv p H1 H2)). Qed.
Print Assumptions initial_condition_bdcolloc_left.

Theorem initial_condition_bdcolloc_right : forall kv p, open_kv kv p = true -> 1 <= p ->
  ic_bdcolloc kv p 1 = (0, 1, - cright kv p, cright kv p)%Qc /\ cright kv p <> 0%Qc.
Proof. exact (fun kv p H1 H2 => conj (ic_bdcolloc_right kv p H1 H2) (cright_nonzero kv p H1 H2)). Qed.
Print Assumptions initial_condition_bdcolloc_right.

(* initial_condition_01_reproduces: let (a, b) be the two coefficients computed for one spatial dof
   from the interpolation coefficients g0 (value) and g1 (time derivative).  Then EVERY spline in
   the time direction whose two boundary coefficients are a, b -- whatever its other coefficients
   -- has value g0 and first derivative g1 at the end point: only two basis functions contribute.
   Nref / dNref are the Cox-de Boor reference and its derivative recursion (lib/Bsp.v), sumf the
   finite sum of C02.  side 0: coefficients 0 and 1 at t0 = kv[0]. *)
Theorem initial_condition_01_reproduces : forall kv p coef g0 g1,
  open_kv kv p = true -> 1 <= p ->
  nth 0 coef 0%Qc = fst (ic_coeffs kv p 0 g0 g1) -> nth 1 coef 0%Qc = snd (ic_coeffs kv p 0 g0 g1) ->
  C02.Proofs_ref.sumf (fun j => nth j coef 0 * Nref kv p j (kn kv 0))%Qc 0 (numdofs kv p) = g0 /\
  C02.Proofs_ref.sumf (fun j => nth j coef 0 * dNref kv 1 p j (kn kv 0))%Qc 0 (numdofs kv p) = g1.
Proof. exact (fun kv p coef g0 g1 H1 H2 => ic_reproduces_left kv p H1 H2 coef g0 g1). Qed.
Print Assumptions initial_condition_01_reproduces.

(* side 1: coefficients numdofs-2 and numdofs-1 at t1 = kv[-1] *)
Theorem initial_condition_01_reproduces_right : forall kv p coef g0 g1,
  open_kv kv p = true -> 1 <= p ->
  nth (numdofs kv p - 2) coef 0%Qc = fst (ic_coeffs kv p 1 g0 g1) ->
  nth (numdofs kv p - 1) coef 0%Qc = snd (ic_coeffs kv p 1 g0 g1) ->
  C02.Proofs_ref.sumf (fun j => nth j coef 0 * Nref kv p j (kn kv (length kv - 1)))%Qc 0 (numdofs kv p) = g0 /\
  C02.Proofs_ref.sumf (fun j => nth j coef 0 * dNref kv 1 p j (kn kv (length kv - 1)))%Qc 0 (numdofs kv p) = g1.
Proof. exact ic_reproduces_right_numdofs. Qed.
Print Assumptions initial_condition_01_reproduces_right.

(* the computed coefficients in closed form *)
Theorem initial_condition_coeffs : forall kv p g0 g1, open_kv kv p = true -> 1 <= p ->
  ic_coeffs kv p 0 g0 g1 = (g0, g0 + g1 / cleft kv p)%Qc /\
  ic_coeffs kv p 1 g0 g1 = (g0 - g1 / cright kv p, g0)%Qc.
Proof. exact (fun kv p g0 g1 H1 H2 => conj (ic_coeffs_left kv p H1 H2 g0 g1) (ic_coeffs_right kv p H1 H2 g0 g1)). Qed.
Print Assumptions initial_condition_coeffs.

(* ---- Multipatch.compute_dirichlet_bcs on top of C14's numbering ----
   The loop with its per-patch cache renumbers every condition with the index map of ITS patch,
   for every list of conditions in any order and with any repetition of patches ... *)
Theorem mp_loop_any_order : forall (X : Type) (p2g_of : nat -> list nat) (conds : list (mp_cond X)),
  mp_loop X p2g_of conds =
  map (fun c : mp_cond X => let '(p, loc, vals) := c in (renumber (p2g_of p) loc, vals)) conds.
Proof. exact mp_loop_spec. Qed.
Print Assumptions mp_loop_any_order.

(* ... hence (mp_bcs_glued) the returned indices are exactly the glued numbers glob(p, i) of C14's
   model of the constrained local dofs, strictly increasing (every glued dof once), and each glued
   dof carries the value of its first occurrence in the condition list. *)
Theorem mp_bcs_glued : forall (X : Type) (d : X) (st : C14.Model.state) (Ns : list nat) (conds : list (mp_cond X)),
  Forall (cond_valid X Ns) conds ->
  let r := mp_compute_dirichlet_bcs X d (C14.Model.patch_to_global_idx st Ns) conds in
  StronglySorted lt (fst r) /\ NoDup (fst r) /\
  (forall g, In g (fst r) <->
     exists p loc vals i, In (p, loc, vals) conds /\ In i loc /\ g = C14.Model.glob st Ns (p, i)) /\
  length (snd r) = length (fst r) /\
  (forall t, t < length (fst r) ->
     let g := nth t (fst r) 0 in
     let k := first_pos g (glued_indices X st Ns conds) in
     k < length (glued_indices X st Ns conds) /\ nth k (glued_indices X st Ns conds) 0 = g /\
     nth t (snd r) d = nth k (all_values X conds) d).
Proof. exact mp_bcs_glued_l. Qed.
Print Assumptions mp_bcs_glued.

(* two constrained local dofs are represented by the same entry iff the joins connect them
   (C14.glue_is_closure), for every join history ps *)
Theorem mp_bcs_one_entry_per_class : forall (X : Type) (d : X) ps Ns (conds : list (mp_cond X)) p loc vals i q loc' vals' j,
  let st := fold_left C14.Model.join1 ps C14.Model.init in
  Forall (cond_valid X Ns) conds ->
  In (p, loc, vals) conds -> In i loc -> In (q, loc', vals') conds -> In j loc' ->
  let r := mp_compute_dirichlet_bcs X d (C14.Model.patch_to_global_idx st Ns) conds in
  In (C14.Model.glob st Ns (p, i)) (fst r) /\ In (C14.Model.glob st Ns (q, j)) (fst r) /\
  (C14.Model.glob st Ns (p, i) = C14.Model.glob st Ns (q, j) <-> C14.Spec.conn ps (p, i) (q, j)).
Proof. exact mp_bcs_classes_l. Qed.
Print Assumptions mp_bcs_one_entry_per_class.

(* ---- faces ----
   boundary_dofs and boundary_cells (the same slice function on numdofs resp. numspans) return
   exactly the multi-indices with coordinate 0 resp. n-1 on the axis of the face, each once,
   for every shape, every accepted bdspec (names and pairs) and every flip pattern. *)
Theorem boundary_dofs_face : forall numdofs b flip ax side,
  parse_bdspec b (length numdofs) = Some (ax, side) -> 0 < nth ax numdofs 0 ->
  exists l, boundary_dofs numdofs b flip = Some l /\ NoDup l /\
    (forall r, In r l <-> exists mi, on_face numdofs ax side mi /\ r = ravel numdofs mi).
Proof. exact boundary_slice_face_l. Qed.
Print Assumptions boundary_dofs_face.

Theorem boundary_cells_face : forall numspans b ax side,
  parse_bdspec b (length numspans) = Some (ax, side) -> 0 < nth ax numspans 0 ->
  exists l, boundary_cells numspans b = Some l /\ NoDup l /\
    (forall r, In r l <-> exists mi, on_face numspans ax side mi /\ r = ravel numspans mi).
Proof. exact (fun s b => boundary_slice_face_l s b []). Qed.
Print Assumptions boundary_cells_face.

(* one boundary condition: the face dofs, blocked per component for vector data *)
Theorem dirichlet_indices_face : forall shape b nc ax side,
  parse_bdspec b (length shape) = Some (ax, side) -> 0 < nth ax shape 0 ->
  exists l, dirichlet_indices shape b nc = Some l /\
    (forall r, In r l <->
       exists mi, on_face shape ax side mi /\
         (if Nat.eqb nc 0 then r = ravel shape mi
          else exists j, j < nc /\ r = ravel shape mi + j * prod_list shape)).
Proof. exact dirichlet_indices_spec. Qed.
Print Assumptions dirichlet_indices_face.

(* compute_dirichlet_bcs(('all', g)) = combine_bcs over all 2d faces: every boundary dof (of every
   component) exactly once, in increasing order -- corners and edges shared by several faces included *)
Theorem dirichlet_bcs_all_each_dof_once : forall shape nc, Forall (fun n => 0 < n) shape ->
  exists l, dirichlet_bcs_all_indices shape nc = Some l /\ StronglySorted lt l /\ NoDup l /\
    (forall r, In r l <->
       exists ax side mi, ax < length shape /\ side < 2 /\ on_face shape ax side mi /\
         (if Nat.eqb nc 0 then r = ravel shape mi
          else exists j, j < nc /\ r = ravel shape mi + j * prod_list shape)).
Proof. exact dirichlet_bcs_all_spec. Qed.
Print Assumptions dirichlet_bcs_all_each_dof_once.

(* ---- compute_dirichlet_bcs for ANY list of conditions (not only the 'all' shorthand) ----
   every condition names a valid face of a non-empty axis (cond_ok): the result lists exactly the
   dofs (of every component) on the requested faces, each once, strictly increasing -- whatever
   the order of the list, with repeated or overlapping faces, scalar and vector data mixed. *)
Theorem dirichlet_bcs_any_list_each_dof_once : forall shape conds, Forall (cond_ok shape) conds ->
  exists l, dirichlet_bcs_indices shape conds = Some l /\ StronglySorted lt l /\ NoDup l /\
    (forall r, In r l <->
       exists b nc ax side mi, In (b, nc) conds /\ parse_bdspec b (length shape) = Some (ax, side) /\
         on_face shape ax side mi /\
         (if Nat.eqb nc 0 then r = ravel shape mi
          else exists j, j < nc /\ r = ravel shape mi + j * prod_list shape)).
Proof. exact dirichlet_bcs_list_spec. Qed.
Print Assumptions dirichlet_bcs_any_list_each_dof_once.

(* an invalid boundary specification anywhere in the list: the call fails (ValueError), no partial result *)
Theorem dirichlet_bcs_invalid_spec_fails : forall shape conds b nc,
  In (b, nc) conds -> parse_bdspec b (length shape) = None -> dirichlet_bcs_indices shape conds = None.
Proof. exact dirichlet_bcs_list_invalid. Qed.
Print Assumptions dirichlet_bcs_invalid_spec_fails.

(* ---- compute_dirichlet_bc WITH its values (Model_bc.v) ----
   coef k [j] is the interpolation coefficient of the k-th dof of the face [and component j], None = nan.
   Scalar data: the face dofs with a non-nan coefficient, each once, each paired with ITS coefficient. *)
Theorem dirichlet_bc_scalar_values : forall (X : Type) shape b (coef : nat -> option X) ax side,
  parse_bdspec b (length shape) = Some (ax, side) -> 0 < nth ax shape 0 ->
  exists bd idx vals, boundary_slice shape b [] = Some bd /\
    dirichlet_bc_scalar X shape b coef = Some (idx, vals) /\
    length idx = length vals /\ NoDup idx /\
    (forall r v, In (r, v) (combine idx vals) <-> exists k, k < length bd /\ r = nth k bd 0 /\ coef k = Some v).
Proof. exact dirichlet_bc_scalar_spec. Qed.
Print Assumptions dirichlet_bc_scalar_values.

(* Vector data, blocked numbering WITH values: component j of the k-th face dof sits at index
   bd[k] + j*NN (NN = number of dofs of the patch) and carries coefficient coef k j -- no mixing of
   components or dofs; indices strictly increasing; nan coefficients dropped. *)
Theorem dirichlet_bc_vector_blocked_values : forall (X : Type) shape b nc (coef : nat -> nat -> option X) ax side,
  parse_bdspec b (length shape) = Some (ax, side) -> 0 < nth ax shape 0 ->
  exists bd idx vals, boundary_slice shape b [] = Some bd /\
    dirichlet_bc_vector X shape b nc coef = Some (idx, vals) /\
    length idx = length vals /\ StronglySorted lt idx /\
    (forall r v, In (r, v) (combine idx vals) <->
       exists k j, k < length bd /\ j < nc /\ r = nth k bd 0 + j * prod_list shape /\ coef k j = Some v).
Proof. exact dirichlet_bc_vector_spec. Qed.
Print Assumptions dirichlet_bc_vector_blocked_values.

(* combine_bcs on duplicate-free indices only sorts: the set of (index, value) pairs is unchanged *)
Theorem combine_bcs_nodup_is_sort : forall (X : Type) (d : X) indices (values : list X),
  NoDup indices -> length values = length indices ->
  let res := combine_flat X d indices values in
  forall r v, In (r, v) (combine (fst res) (snd res)) <-> In (r, v) (combine indices values).
Proof. exact combine_flat_nodup. Qed.
Print Assumptions combine_bcs_nodup_is_sort.

(* _drop_nans keeps exactly the pairs whose value is not nan (order and sortedness preserved) *)
Theorem drop_nans_keeps_non_nan : forall (X : Type) idx (vals : list (option X)) r v,
  In (r, v) (combine (fst (drop_nans X idx vals)) (snd (drop_nans X idx vals))) <-> In (r, Some v) (combine idx vals).
Proof. exact drop_nans_pairs. Qed.
Print Assumptions drop_nans_keeps_non_nan.

Theorem drop_nans_preserves_order : forall (X : Type) idx (vals : list (option X)),
  StronglySorted lt idx -> StronglySorted lt (fst (drop_nans X idx vals)).
Proof. exact drop_nans_sorted. Qed.
Print Assumptions drop_nans_preserves_order.

(* ---- compute_initial_condition_01: from the time direction to the space-time spline ----
   c j s = coefficient of the space-time spline with time index j and spatial (face) index s; G0 s, G1 s the
   interpolation coefficients of g0, g1 on the face; B s ARBITRARY weights (the values of the spatial basis
   functions at any point x of the face).  If for every spatial dof the two boundary coefficients are the
   computed pair, then  u(t0, x) = sum_s G0_s B_s(x)  and  du/dt(t0, x) = sum_s G1_s B_s(x):  on the initial
   face the space-time spline IS the spatial interpolant of g0 and its time derivative that of g1 --
   whatever the remaining coefficients of the space-time spline are. *)
Theorem initial_condition_spacetime : forall kv p, open_kv kv p = true -> 1 <= p ->
  forall ns (G0 G1 B : nat -> Qc) (c : nat -> nat -> Qc),
  (forall s, s < ns -> c 0 s = fst (ic_coeffs kv p 0 (G0 s) (G1 s)) /\ c 1 s = snd (ic_coeffs kv p 0 (G0 s) (G1 s))) ->
  (C02.Proofs_ref.sumf (fun j => C02.Proofs_ref.sumf (fun s => c j s * (Nref kv p j (kn kv 0) * B s)) 0 ns) 0 (numdofs kv p)
    = C02.Proofs_ref.sumf (fun s => G0 s * B s) 0 ns /\
   C02.Proofs_ref.sumf (fun j => C02.Proofs_ref.sumf (fun s => c j s * (dNref kv 1 p j (kn kv 0) * B s)) 0 ns) 0 (numdofs kv p)
    = C02.Proofs_ref.sumf (fun s => G1 s * B s) 0 ns)%Qc.
Proof. exact ic_spacetime_left. Qed.
Print Assumptions initial_condition_spacetime.

Theorem initial_condition_spacetime_right : forall kv p, open_kv kv p = true -> 1 <= p ->
  forall ns (G0 G1 B : nat -> Qc) (c : nat -> nat -> Qc),
  (forall s, s < ns -> c (numdofs kv p - 2) s = fst (ic_coeffs kv p 1 (G0 s) (G1 s)) /\
                       c (numdofs kv p - 1) s = snd (ic_coeffs kv p 1 (G0 s) (G1 s))) ->
  (C02.Proofs_ref.sumf (fun j => C02.Proofs_ref.sumf (fun s => c j s * (Nref kv p j (kn kv (length kv - 1)) * B s)) 0 ns) 0 (numdofs kv p)
    = C02.Proofs_ref.sumf (fun s => G0 s * B s) 0 ns /\
   C02.Proofs_ref.sumf (fun j => C02.Proofs_ref.sumf (fun s => c j s * (dNref kv 1 p j (kn kv (length kv - 1)) * B s)) 0 ns) 0 (numdofs kv p)
    = C02.Proofs_ref.sumf (fun s => G1 s * B s) 0 ns)%Qc.
Proof. exact ic_spacetime_right. Qed.
Print Assumptions initial_condition_spacetime_right.

(* ---- compute_initial_condition_01 WITH its values: which dof every coefficient lands on ----
   (Model_bc.initial_condition; coef k s = coll_coeffs[k, s]).  For every shape, every accepted bdspec whose
   axis has at least two dofs: the index array is the one of Model.initial_indices, duplicate-free, of length
   2*nface; its s-th entry is the dof with time index f (= 0 resp. n-2) and the s-th spatial multi-index of the
   face and carries coef 0 s; entry nface+s is the dof with the SAME spatial multi-index and time index f+1
   and carries coef 1 s.  (put ax i mi = mi with coordinate ax replaced by i.) *)
Theorem initial_condition_alignment : forall (X : Type) (d : X) shape b (coef : nat -> nat -> X) ax side,
  parse_bdspec b (length shape) = Some (ax, side) -> 2 <= nth ax shape 0 ->
  let f := ic_first_idx (nth ax shape 0) side in
  let face := slice_multi ax f shape [] in
  exists idx vals, initial_condition X shape b coef = Some (idx, vals) /\
    initial_indices shape b = Some idx /\
    length idx = 2 * length face /\ length vals = length idx /\ NoDup idx /\
    (forall s, s < length face ->
       let mi := nth s face [] in
       valid_mi shape mi /\ nth ax mi 0 = f /\
       nth s idx 0 = ravel shape mi /\ nth s vals d = coef 0 s /\
       nth (length face + s) idx 0 = ravel shape (put ax (f + 1) mi) /\ nth (length face + s) vals d = coef 1 s).
Proof. exact initial_condition_spec. Qed.
Print Assumptions initial_condition_alignment.

(* slices of the same axis at different positions agree entry by entry up to that coordinate (any flips) *)
Theorem slice_positions_aligned : forall ax i i0 shape fl,
  slice_indices ax i shape fl = map (fun mi => ravel shape (put ax i mi)) (slice_multi ax i0 shape fl).
Proof. exact slice_indices_put. Qed.
Print Assumptions slice_positions_aligned.

(* =========================================================================================
   NOT PROVED -- clause by clause account of property C10 (what has no theorem about the model):

   1. "solving the restricted system and completing the solution ... prescribed value ... every
      non-eliminated equation ... restrict/extend/restrict-matrix/complete consistent": THEOREMS
      (complete_prescribed[_scalar], complete_solves, restrict_*, selection_split_identity) over every
      commutative ring.  Without theorem: binary64 rounding of A.dot and of the caller's solve (the tie
      uses integer data, for which the implementation is exact; the solve is done exactly by the harness).
   2. "every dof on the requested faces exactly once": THEOREMS for one face (boundary_dofs_face,
      dirichlet_indices_face, dirichlet_bc_scalar_values), the 'all' shorthand and any list of conditions
      (dirichlet_bcs_all_each_dof_once, dirichlet_bcs_any_list_each_dof_once).
   3. "blocked numbering for vector fields": THEOREMS (blocked_numbering, dirichlet_bc_vector_blocked_values:
      indices AND the pairing of every (dof, component) with its coefficient).  Without theorem: that
      dircoeffs[..., j].ravel() enumerates the face in the order of bdindices (C order of a numpy array;
      the model takes coef k j with k the position in bdindices) -- decided by the interpolation oracle.
   4. "glued numbering for multipatch": THEOREMS on C14's model (mp_loop_any_order, mp_bcs_glued,
      mp_bcs_one_entry_per_class).
   5. "values interpolating the boundary data on the physical boundary face": NO THEOREM.  interpolate()
      (tensor-product collocation solve, C17), geo.boundary() and the evaluation of g at the mapped Greville
      points are not modelled here; evaluated on the implementation on every face within 1e-11 relative
      against an own exact Cox-de Boor evaluation (harness/props/c10.py: check_local_bc).
   6. "combining several conditions keeps one value per dof": THEOREMS (combine_one_value_per_dof,
      combine_bcs_nodup_is_sort, drop_nans_keeps_non_nan, drop_nans_preserves_order).
   7. "space-time initial conditions reproduce the prescribed value and time derivative on the initial
      face": THEOREMS for the time direction, every open knot vector, both ends
      (initial_condition_01_reproduces[_right], initial_condition_bdcolloc_*, initial_condition_coeffs).
      The placement of coefficient (k, s) on the dof with time index firstidx+k and the s-th spatial multi-index
      is a THEOREM (initial_condition_alignment).  Without theorem: (a) that coll_coeffs.ravel() (numpy C order of a
      (2, nface) array) is row 0 followed by row 1 and that the interpolation coefficients are raveled in the order of
      the face slice (both decided by the reproduction oracle on the implementation);
      (b) the spatial interpolation of g0, g1 that produces G0, G1 (interpolate, C17) -- the passage from the time
      direction to the space-time spline IS a theorem (initial_condition_spacetime[_right]); (c) degree p = 0 in time and
      non-open knot vectors are outside the theorem (the code needs two boundary basis functions);
      (d) binary64 rounding of the 2x2 solve (tied within IC_SOLVE_TOL).
   ========================================================================================= *)
