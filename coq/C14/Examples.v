(* C14 -- non-vacuity: a concrete reachable history meets the hypotheses. *)
From Coq Require Import List Arith Lia.
From Verif.lib Require Import Slice.
From Verif.C14 Require Import Model Spec Proofs.
Import ListNotations.

(* four bilinear 2x2-dof patches around a cross point, joined in the order
   (0,1),(2,3),(0,2),(1,3) that needs class merging *)
Definition ex_shapes := [[2;2];[2;2];[2;2];[2;2]].
Definition ex_joins := [
  mk_bjoin 0 1 1 1 1 0 [false];   (* right of 0 = left of 1 *)
  mk_bjoin 2 1 1 3 1 0 [false];
  mk_bjoin 0 0 1 2 0 0 [false];   (* top of 0 = bottom of 2 *)
  mk_bjoin 1 0 1 3 0 0 [false] ].

Example ex_numdofs : fst (observe ex_shapes ex_joins) = 9.
Proof. vm_compute. reflexivity. Qed.

Example ex_crosspoint_single_index :
  let st := run ex_shapes ex_joins in
  let Ns := map prod_list ex_shapes in
  glob st Ns (0, 3) = glob st Ns (1, 2) /\ glob st Ns (1, 2) = glob st Ns (2, 1)
  /\ glob st Ns (2, 1) = glob st Ns (3, 0).
Proof. vm_compute. auto. Qed.

Example ex_pairs_distinct : distinct_pairs (all_pairs ex_shapes ex_joins).
Proof.
  intros e He. vm_compute in He.
  repeat (destruct He as [<-|He]; [simpl; congruence|]). destruct He.
Qed.

Example ex_valid : valid (map prod_list ex_shapes) (3, 0).
Proof. unfold valid; simpl; split; repeat constructor. Qed.

From Verif.C14 Require Import ProofsBd.
Example ex_joins_wellformed : Forall (bjoin_ok ex_shapes) ex_joins.
Proof. repeat constructor; simpl; try lia; try discriminate. Qed.

(* assemble_system_*: two patches with 2 dofs each, dof 1 of patch 0 glued to dof 0 of patch 1:
   3 global dofs, the shared diagonal entry is the sum of the two patch entries, and the bilinear
   form identity has non-trivial sides *)
From Coq Require Import QArith Qcanon.
From Verif.C14 Require Import ProofsAsm.
Close Scope Q_scope. Close Scope Qc_scope.
Definition ex2_ps : list (dof * dof) := [((0, 1), (1, 0))].
Definition ex2_Ns := [2; 2].
Definition ex2_As (p i j : nat) : Qc := Q2Qc (Z.of_nat (10 * p + 3 * i + j + 1) # 1)%Q.
Example ex2_numdofs : numdofs (fold_left join1 ex2_ps init) ex2_Ns = 3.
Proof. vm_compute. reflexivity. Qed.
Example ex2_shared_entry :
  let st := fold_left join1 ex2_ps init in
  let g := glob st ex2_Ns (0, 1) in
  g = glob st ex2_Ns (1, 0) /\
  this (asm_mat st ex2_Ns ex2_As g g) = (this (ex2_As 0 1 1) + this (ex2_As 1 0 0))%Q.
Proof. vm_compute. split; reflexivity. Qed.
Example ex2_form_nontrivial :
  let st := fold_left join1 ex2_ps init in
  let u := fun g => Q2Qc (Z.of_nat (g + 1) # 1)%Q in
  this (sumn (fun g => sumn (fun h => u g * asm_mat st ex2_Ns ex2_As g h * u h)%Qc 3) 3) <> 0%Q.
Proof. vm_compute. discriminate. Qed.
