(* C02 -- correctness of the NDU table loop of bspline_active_deriv_single (Bsp.ndu_table):
   the upper triangle holds the Cox-de Boor values, the lower triangle the (positive) knot
   differences the loop divides by.  For every degree, knot vector, u. *)
From Coq Require Import QArith Qcanon ZArith List Bool Arith Lia Lqa.
From Verif.lib Require Import Bsp.
From Verif.C02 Require Import Proofs Proofs_ref.
Import ListNotations.
Open Scope Qc_scope.

(* ------------------------------------------------------------------ *)
(* functional arrays *)

Lemma upd_cons0 {A} (x : A) l v : upd (x :: l) 0 v = v :: l.
Proof. reflexivity. Qed.
Lemma upd_consS {A} (x : A) l i v : upd (x :: l) (S i) v = x :: upd l i v.
Proof. reflexivity. Qed.

Lemma length_upd {A} (l : list A) : forall i v, (i < length l)%nat -> length (upd l i v) = length l.
Proof.
  induction l as [|x l IH]; intros i v H; [simpl in H; lia|].
  destruct i; [reflexivity|]. rewrite upd_consS. simpl. rewrite IH; [reflexivity|simpl in H; lia].
Qed.

Lemma nth_upd {A} (l : list A) : forall i v a d, (i < length l)%nat ->
  nth a (upd l i v) d = if (a =? i)%nat then v else nth a l d.
Proof.
  induction l as [|x l IH]; intros i v a d H; [simpl in H; lia|].
  destruct i.
  - rewrite upd_cons0. destruct a; reflexivity.
  - rewrite upd_consS. destruct a; [reflexivity|]. simpl nth. rewrite IH by (simpl in H; lia). reflexivity.
Qed.

Definition dims (M : list (list Qc)) (m n : nat) : Prop :=
  length M = m /\ forall i, (i < m)%nat -> length (nth i M []) = n.

Lemma dims_upd2 M m n i j v : dims M m n -> (i < m)%nat -> (j < n)%nat -> dims (upd2 M i j v) m n.
Proof.
  intros [L R] Hi Hj. unfold upd2. split.
  - rewrite length_upd; lia.
  - intros a Ha. rewrite nth_upd by lia. destruct (Nat.eqb_spec a i).
    + rewrite length_upd; rewrite R; lia.
    + apply R; exact Ha.
Qed.

Lemma get2_upd2 M m n i j v a b : dims M m n -> (i < m)%nat -> (j < n)%nat ->
  get2 (upd2 M i j v) a b = if ((a =? i) && (b =? j))%nat then v else get2 M a b.
Proof.
  intros [L R] Hi Hj. unfold get2, upd2. rewrite nth_upd by lia.
  destruct (Nat.eqb_spec a i) as [->|Ha]; [|reflexivity].
  rewrite nth_upd by (rewrite R; lia). reflexivity.
Qed.

Lemma length_zeros n : length (zeros n) = n.
Proof. apply repeat_length. Qed.

Lemma nth_repeat_d {A} (x : A) n i : nth i (repeat x n) x = x.
Proof. revert i. induction n; intros [|i]; simpl; auto. Qed.

Lemma dims_zeros2 m n : dims (zeros2 m n) m n.
Proof.
  unfold zeros2. split; [apply repeat_length|].
  intros i Hi. rewrite (nth_indep _ [] (zeros n)) by (rewrite repeat_length; exact Hi).
  rewrite nth_repeat_d. apply length_zeros.
Qed.

(* loops over seq with an invariant indexed by the loop counter *)
Lemma fold_left_seq_inv {St} (f : St -> nat -> St) (P : nat -> St -> Prop) :
  forall n a st, P a st ->
  (forall i st, (a <= i < a + n)%nat -> P i st -> P (S i) (f st i)) ->
  P (a + n)%nat (fold_left f (seq a n) st).
Proof.
  induction n as [|n IH]; intros a st H0 Hstep.
  - replace (a + 0)%nat with a by lia. exact H0.
  - cbn [seq fold_left]. replace (a + S n)%nat with (S a + n)%nat by lia.
    apply IH.
    + apply Hstep; [lia|exact H0].
    + intros i st' Hi. apply Hstep. lia.
Qed.

(* ------------------------------------------------------------------ *)
(* the table the loop is supposed to build *)

Section NDU.
Variable kv : list Qc.
Variable span : nat.
Variable u : Qc.
Hypothesis Hs : sorted kv.
Hypothesis Hsp : span_ok kv span u.

(* entry (a, b): b >= a: N_{span-b+a, b}(u);  b < a: t_{span+b+1} - t_{span+1-(a-b)} *)
Definition tbl (a b : nat) : Qc :=
  if (a <=? b)%nat then Nref kv b (span - b + a) u
  else kn kv (span + b + 1) - kn kv (span + 1 - (a - b)).

Definition aterm (j r : nat) : Qc :=
  (u - kn kv (span - j + r)) / (kn kv (span + r) - kn kv (span - j + r)) * Nref kv (j - 1) (span - j + r) u.

Definition lft_ok (lft : list Qc) (j : nat) : Prop :=
  forall m, (m < j)%nat -> nth m lft 0 = u - kn kv (span - m).
Definition rgt_ok (rgt : list Qc) (j : nat) : Prop :=
  forall m, (m < j)%nat -> nth m rgt 0 = kn kv (span + S m) - u.

Definition inner_inv (p j : nat) (r : nat) (st : list (list Qc) * Qc) : Prop :=
  dims (fst st) (S p) (S p) /\
  (forall a b, ((a < j /\ b < j) \/ (b = j /\ a < r) \/ (a = j /\ b < r))%nat -> get2 (fst st) a b = tbl a b) /\
  snd st = aterm j r.

Lemma inner_step p j lft rgt : (1 <= j <= p)%nat -> (p <= span)%nat -> (span + p + 1 < length kv)%nat ->
  lft_ok lft j -> rgt_ok rgt j ->
  forall r st, (0 <= r < 0 + j)%nat -> inner_inv p j r st -> inner_inv p j (S r) (ndu_inner lft rgt j st r).
Proof.
  intros Hj Hp Hl Hlft Hrgt r [M saved] Hr [Hd [Hent Hsv]]. cbn [fst snd] in *.
  unfold ndu_inner.
  set (d := nth r rgt 0 + nth (j - r - 1) lft 0).
  set (M1 := upd2 M j r d).
  assert (Hd1 : dims M1 (S p) (S p)) by (apply dims_upd2; [exact Hd|lia|lia]).
  assert (Hg : get2 M1 r (j - 1) = Nref kv (j - 1) (span - (j - 1) + r) u).
  { unfold M1. rewrite (get2_upd2 M (S p) (S p)) by (assumption || lia).
    destruct (Nat.eqb_spec r j); [lia|]. cbn [andb].
    rewrite Hent by lia. unfold tbl. destruct (Nat.leb_spec r (j - 1)); [reflexivity|lia]. }
  rewrite Hg.
  set (temp := Nref kv (j - 1) (span - (j - 1) + r) u / d).
  assert (Ed : d = kn kv (span + r + 1) - kn kv (span - j + r + 1)).
  { unfold d. rewrite Hrgt by lia. rewrite Hlft by lia.
    replace (span + S r)%nat with (span + r + 1)%nat by lia.
    replace (span - (j - r - 1))%nat with (span - j + r + 1)%nat by lia. ring. }
  split; [|split]; cbn [fst snd].
  - apply dims_upd2; [exact Hd1|lia|lia].
  - intros a b Hab.
    rewrite (get2_upd2 M1 (S p) (S p)) by (assumption || lia).
    destruct (Nat.eqb_spec a r) as [->|Ha]; cbn [andb].
    + destruct (Nat.eqb_spec b j) as [->|Hb].
      * (* the new value N_{span-j+r, j} *)
        unfold tbl. destruct (Nat.leb_spec r j); [|lia].
        destruct j as [|q]; [lia|].
        rewrite Nref_S. rewrite Hsv. unfold aterm, temp.
        replace (S q - 1)%nat with q by lia.
        replace (span - S q + r + q + 1)%nat with (span + r)%nat by lia.
        replace (span - S q + r + q + 2)%nat with (span + r + 1)%nat by lia.
        replace (span - q + r)%nat with (span - S q + r + 1)%nat by lia.
        rewrite Hrgt by lia. rewrite Ed.
        replace (span + S r)%nat with (span + r + 1)%nat by lia.
        unfold Qcdiv. ring.
      * unfold M1. rewrite (get2_upd2 M (S p) (S p)) by (assumption || lia).
        destruct (Nat.eqb_spec r j); [lia|]. cbn [andb]. apply Hent. lia.
    + unfold M1. rewrite (get2_upd2 M (S p) (S p)) by (assumption || lia).
      destruct (Nat.eqb_spec a j) as [->|Ha'].
      * destruct (Nat.eqb_spec b r) as [->|Hb]; cbn [andb].
        -- unfold tbl. destruct (Nat.leb_spec j r); [lia|]. rewrite Ed.
           replace (span + 1 - (j - r))%nat with (span - j + r + 1)%nat by lia. reflexivity.
        -- apply Hent. lia.
      * cbn [andb]. apply Hent. lia.
  - unfold aterm, temp. rewrite Hlft by lia. rewrite Ed.
    replace (span - (j - r - 1))%nat with (span - j + S r)%nat by lia.
    replace (span - (j - 1) + r)%nat with (span - j + S r)%nat by lia.
    replace (span - j + r + 1)%nat with (span - j + S r)%nat by lia.
    replace (span + r + 1)%nat with (span + S r)%nat by lia.
    unfold Qcdiv. ring.
Qed.

Definition outer_inv (p : nat) (j : nat) (st : list (list Qc) * list Qc * list Qc) : Prop :=
  let '(M, lft, rgt) := st in
  dims M (S p) (S p) /\ length lft = p /\ length rgt = p /\
  lft_ok lft (j - 1) /\ rgt_ok rgt (j - 1) /\
  (forall a b, (a < j)%nat -> (b < j)%nat -> get2 M a b = tbl a b).

Lemma outer_step p : (p <= span)%nat -> (span + p + 1 < length kv)%nat ->
  forall j st, (1 <= j < 1 + p)%nat -> outer_inv p j st -> outer_inv p (S j) (ndu_outer kv span u st j).
Proof.
  intros Hp Hl j [[M lft] rgt] Hj [Hd [Ll [Lr [Hlft [Hrgt Hent]]]]].
  unfold ndu_outer.
  set (lft' := upd lft (j - 1) (u - kn kv (span + 1 - j))).
  set (rgt' := upd rgt (j - 1) (kn kv (span + j) - u)).
  assert (Hlft' : lft_ok lft' j).
  { intros m Hm. unfold lft'. rewrite nth_upd by lia. destruct (Nat.eqb_spec m (j - 1)) as [->|N].
    - f_equal. f_equal. lia.
    - apply Hlft. lia. }
  assert (Hrgt' : rgt_ok rgt' j).
  { intros m Hm. unfold rgt'. rewrite nth_upd by lia. destruct (Nat.eqb_spec m (j - 1)) as [->|N].
    - f_equal. f_equal. lia.
    - apply Hrgt. lia. }
  pose proof (fold_left_seq_inv (ndu_inner lft' rgt' j) (inner_inv p j) j 0 (M, 0)) as F.
  cbn [Nat.add] in F.
  destruct (fold_left (ndu_inner lft' rgt' j) (seq 0 j) (M, 0)) as [M' saved] eqn:EF.
  assert (I : inner_inv p j j (M', saved)).
  { apply F.
    - split; [exact Hd|]. split; cbn [fst snd].
      + intros a b Hab. apply Hent; lia.
      + unfold aterm. rewrite (N_zero_left kv Hs span u (j - 1) (span - j + 0) Hsp) by lia. ring.
    - intros r st Hr. apply inner_step; try assumption; lia. }
  destruct I as [Hd' [Hent' Hsv]]. cbn [fst snd] in *.
  split; [apply dims_upd2; [exact Hd'|lia|lia]|].
  split; [unfold lft'; rewrite length_upd; lia|].
  split; [unfold rgt'; rewrite length_upd; lia|].
  replace (S j - 1)%nat with j by lia.
  split; [exact Hlft'|]. split; [exact Hrgt'|].
  intros a b Ha Hb. rewrite (get2_upd2 M' (S p) (S p)) by (assumption || lia).
  destruct (Nat.eqb_spec a j) as [->|Na]; cbn [andb].
  - destruct (Nat.eqb_spec b j) as [->|Nb].
    + rewrite Hsv. unfold tbl, aterm. rewrite Nat.leb_refl.
      destruct j as [|q]; [lia|]. rewrite Nref_S.
      replace (S q - 1)%nat with q by lia.
      replace (span - S q + S q)%nat with span by lia.
      rewrite (N_zero_right kv Hs span u q (span + 1) Hsp) by lia.
      replace (span + q + 1)%nat with (span + S q)%nat by lia. ring.
    + apply Hent'. lia.
  - apply Hent'. lia.
Qed.

Lemma ndu_table_inv p : (p <= span)%nat -> (span + p + 1 < length kv)%nat ->
  let M := ndu_table kv p span u in
  dims M (S p) (S p) /\ forall a b, (a <= p)%nat -> (b <= p)%nat -> get2 M a b = tbl a b.
Proof.
  intros Hp Hl. unfold ndu_table.
  pose proof (fold_left_seq_inv (ndu_outer kv span u) (outer_inv p) p 1
                (upd2 (zeros2 (S p) (S p)) 0 0 1, zeros p, zeros p)) as F.
  destruct (fold_left (ndu_outer kv span u) (seq 1 p) (upd2 (zeros2 (S p) (S p)) 0 0 1, zeros p, zeros p))
    as [[M lft] rgt] eqn:EF.
  assert (I : outer_inv p (1 + p) (M, lft, rgt)).
  { apply F.
    - split; [apply dims_upd2; [apply dims_zeros2|lia|lia]|].
      split; [apply length_zeros|]. split; [apply length_zeros|].
      split; [intros m Hm; lia|]. split; [intros m Hm; lia|].
      intros a b Ha Hb. assert (a = 0%nat) by lia. assert (b = 0%nat) by lia. subst a b.
      rewrite (get2_upd2 _ (S p) (S p)) by (apply dims_zeros2 || lia). cbn [Nat.eqb andb].
      unfold tbl. cbn [Nat.leb Nref]. replace (span - 0 + 0)%nat with span by lia.
      rewrite in_span_intro; [reflexivity|].
      destruct Hsp as [L [Hne [Hl' Hr]]]. destruct Hr as [Hr|[Hr1 Hr2]]; [left|right]; auto.
    - apply outer_step; assumption. }
  cbn [fst]. destruct I as [Hd [_ [_ [_ [_ Hent]]]]].
  split; [exact Hd|]. intros a b Ha Hb. apply Hent; lia.
Qed.

(* the divisors used by the loop (stored in the lower triangle) are positive *)
Lemma tbl_lower_pos a b : (b < a)%nat -> (a <= span + 1)%nat -> (span + b + 1 < length kv)%nat -> 0 < tbl a b.
Proof.
  intros Hab Ha Hl. unfold tbl. destruct (Nat.leb_spec a b); [lia|].
  destruct Hsp as [L [Hne _]].
  assert (A : kn kv (span + 1 - (a - b)) <= kn kv span) by (apply Hs; lia).
  assert (B : kn kv (S span) <= kn kv (span + b + 1)) by (apply Hs; lia).
  qc2q. lra.
Qed.

End NDU.

(* ------------------------------------------------------------------ *)
(* consequences for active_deriv / collocation rows *)

Lemma nth_map_seq {A} (f : nat -> A) a n j d : (j < n)%nat -> nth j (map f (seq a n)) d = f (a + j)%nat.
Proof.
  intros H. rewrite (nth_indep _ d (f 0%nat)) by (rewrite map_length, seq_length; exact H).
  rewrite map_nth. rewrite seq_nth by exact H. reflexivity.
Qed.

Lemma active_values_eq_spec_l kv p u nd :
  kv_ok kv p -> kn kv 0 <= u -> u <= kn kv (length kv - 1) ->
  nth 0 (active_deriv kv p u nd) [] =
  map (fun r => Nref kv p (findspan kv p u - p + r) u) (seq 0 (S p)).
Proof.
  intros Hok H0 H1. destruct (findspan_span_ok kv p u Hok H0 H1) as [Hsp [Hp Hq]].
  pose proof (ok_sorted _ _ Hok) as Hs.
  unfold active_deriv. cbn [nth].
  apply map_ext_in. intros r Hr. apply in_seq in Hr.
  destruct (ndu_table_inv kv (findspan kv p u) u Hs Hsp p Hp Hq) as [_ E].
  rewrite E by lia. unfold tbl. destruct (Nat.leb_spec r p); [reflexivity|lia].
Qed.

Lemma active_ev_eq_spec_l kv p u :
  kv_ok kv p -> kn kv 0 <= u -> u <= kn kv (length kv - 1) ->
  active_ev kv p u = map (fun r => Nref kv p (findspan kv p u - p + r) u) (seq 0 (S p)).
Proof. intros. unfold active_ev. apply active_values_eq_spec_l; assumption. Qed.

(* every divisor of the value loop (temp = ndu[r][j-1] / ndu[j][r], r < j <= p) is positive:
   the exact model's x/0 = 0 convention is never exercised *)
Lemma ndu_divisors_pos_l kv p u j r :
  kv_ok kv p -> kn kv 0 <= u -> u <= kn kv (length kv - 1) -> (r < j)%nat -> (j <= p)%nat ->
  0 < get2 (ndu_table kv p (findspan kv p u) u) j r.
Proof.
  intros Hok H0 H1 Hr Hj. destruct (findspan_span_ok kv p u Hok H0 H1) as [Hsp [Hp Hq]].
  pose proof (ok_sorted _ _ Hok) as Hs.
  destruct (ndu_table_inv kv (findspan kv p u) u Hs Hsp p Hp Hq) as [_ E].
  rewrite E by lia. apply tbl_lower_pos; try assumption; lia.
Qed.

Lemma colloc_row_length kv p k u : length (colloc_row kv p k u) = numdofs kv p.
Proof. unfold colloc_row. rewrite map_length, seq_length. reflexivity. Qed.

(* the row holds exactly the p+1 active entries at columns first_active .. first_active+p *)
Lemma colloc_row_spec_l kv p k u j : (j < numdofs kv p)%nat ->
  nth j (colloc_row kv p k u) 0 =
  if ((first_active_at kv p u <=? j) && (j <=? first_active_at kv p u + p))%nat
  then nth (j - first_active_at kv p u) (nth k (active_deriv kv p u k) []) 0 else 0.
Proof. intros H. unfold colloc_row. rewrite nth_map_seq by exact H. reflexivity. Qed.

(* ... hence row k = 0 is the full vector of reference values *)
Lemma colloc_row_values_l kv p u j :
  kv_ok kv p -> kn kv 0 <= u -> u <= kn kv (length kv - 1) -> (j < numdofs kv p)%nat ->
  nth j (colloc_row kv p 0 u) 0 = Nref kv p j u.
Proof.
  intros Hok H0 H1 Hj. rewrite colloc_row_spec_l by exact Hj.
  destruct (findspan_span_ok kv p u Hok H0 H1) as [Hsp [Hp Hq]].
  unfold first_active_at, numdofs in *.
  destruct (Nat.leb_spec (findspan kv p u - p) j) as [A|A];
  destruct (Nat.leb_spec j (findspan kv p u - p + p)) as [B|B]; cbn [andb].
  - rewrite active_values_eq_spec_l by assumption. rewrite nth_map_seq by lia.
    f_equal. lia.
  - symmetry. apply N_local_l; try assumption; lia.
  - symmetry. apply N_local_l; try assumption; lia.
  - lia.
Qed.
