(* C18 -- non-vacuity: concrete non-trivial inputs meet the hypotheses of the theorems
   (R := Z), and the model computes what the code computes on them. *)
From Coq Require Import List Arith ZArith Bool Ring ZArithRing.
From Verif.C18 Require Import Model Proofs ZInst.
Import ListNotations.
Open Scope Z_scope.

Example ex_Zring : ring_theory 0 1 Z.add Z.mul Z.sub Z.opp (@eq Z).
Proof. exact InitialRing.Zth. Qed.

(* index expressions *)
Example ex_wrap : wrap 5 (-2) = Some 3%nat.
Proof. vm_compute. reflexivity. Qed.
Example ex_slice_neg_step : slice_range 6 (Some 4) (Some (-7)) (Some (-2)) = Ok [4%nat; 2%nat; 0%nat].
Proof. vm_compute. reflexivity. Qed.
Example ex_slice_like_test : slice_range 5 (Some 3) (Some 0) (Some (-2)) = Ok [3%nat; 1%nat].
Proof. vm_compute. reflexivity. Qed.
Example ex_normalize :
  normalize_indices [IInt (-1); ISlice None None (Some (-1)); IList [1; -1]] [3%nat; 2%nat; 4%nat; 2%nat]
  = Ok [([2%nat], true); ([1%nat; 0%nat], false); ([1%nat; 3%nat], false); ([0%nat; 1%nat], false)].
Proof. vm_compute. reflexivity. Qed.
Example ex_normalize_error : normalize_indices [IInt 3] [3%nat] = Err IndexError.
Proof. vm_compute. reflexivity. Qed.

(* two canonical tensors of shape (2,3), ranks 2 and 1 *)
Definition mA : list (mat Z) := map (mat_of Z 0) [M 2 2 [[1; 2]; [3; 4]]; M 3 2 [[1; 0]; [0; 1]; [2; -1]]].
Definition mB : list (mat Z) := map (mat_of Z 0) [M 2 1 [[5]; [-1]]; M 3 1 [[1]; [1]; [2]]].

Example ex_uniform_A : uniform Z mA 2.
Proof. repeat constructor. Qed.
Example ex_uniform_B : uniform Z mB 1.
Proof. repeat constructor. Qed.
Example ex_add_value :
  full_tab Z (canon_asarray Z 0 1 Z.add Z.mul (canon_add Z mA mB)) = ([2%nat; 3%nat], [6; 7; 10; 2; 3; 0]).
Proof. vm_compute. reflexivity. Qed.

(* a Tucker tensor whose core shape matches its factors *)
Definition tU : list (mat Z) := map (mat_of Z 0) [M 2 2 [[1; 2]; [0; 1]]; M 3 1 [[1]; [2]; [3]]].
Definition tX : full Z := full_of Z 0 ([2%nat; 1%nat], [1; -1]).
Example ex_core_ok : core_ok Z tU tX.
Proof. reflexivity. Qed.
Example ex_core_ok_diag : core_ok Z mA (diag_core Z 0 1 2 2).
Proof. reflexivity. Qed.
Example ex_join_value :
  full_tab Z (tucker_asarray Z 0 Z.add Z.mul (join_U Z tU mA) (join_X2 Z 0 tX (diag_core Z 0 1 2 2)))
  = full_tab Z (canon_asarray Z 0 1 Z.add Z.mul mA).
Proof. vm_compute. reflexivity. Qed.

(* a Kronecker-rank-2 operator on 2x2 arrays: hypotheses of canop_compose / canop_apply *)
Definition opA : canop Z := map (map (mat_of Z 0))
  [[M 2 2 [[1; 2]; [0; 1]]; M 2 2 [[0; 1]; [1; 0]]]; [M 2 2 [[1; 0]; [0; 1]]; M 2 2 [[2; 0]; [0; 2]]]].
Example ex_op_dims : Forall (fun t => map (mc Z) t = [2%nat; 2%nat]) opA.
Proof. repeat constructor. Qed.

(* a cross step with pivot value 1 (alpha = 1 / E_row[j0] = -1): hypothesis of aca_step_exact_on_cross_* *)
Definition aA : mat Z := mat_of Z 0 (M 2 2 [[1; 2]; [3; 7]]).
Definition aX : mat Z := mat_of Z 0 (M 2 2 [[0; 0]; [0; 0]]).
Example ex_aca_pivot : (-1) * aca_E_row Z Z.sub aA aX 0 0 = 1.
Proof. vm_compute. reflexivity. Qed.
Example ex_aca_step_value :
  mat_tab Z (aca_step Z Z.add Z.mul Z.sub aA aX 0 0 (-1)) = M 2 2 [[1; 2]; [3; 6]].
Proof. vm_compute. reflexivity. Qed.

(* the step checker of the correspondence run flags a wrong expectation (differ self-test) *)
Example ex_checker_rejects :
  zcheck_step (oNeg, [Ca [M 2 1 [[1]; [2]]]], Ca [M 2 1 [[1]; [2]]]) = false.
Proof. vm_compute. reflexivity. Qed.
Example ex_checker_accepts :
  zcheck_step (oNeg, [Ca [M 2 1 [[1]; [2]]]], Ca [M 2 1 [[-1]; [-2]]]) = true.
Proof. vm_compute. reflexivity. Qed.

(* mode-2 product of a 2x1x3 array with a rectangular 2x3 matrix: new axis stays in position 2 *)
Example ex_modek_value :
  full_tab Z (full_tprod Z 0 Z.add Z.mul (modek_ops Z (mat_of Z 0 (M 2 3 [[1; 0; 2]; [0; 1; -1]])) 2)
                         (full_of Z 0 ([2%nat; 1%nat; 3%nat], [1; 2; 3; 4; 5; 6])))
  = ([2%nat; 1%nat; 2%nat], [7; -1; 16; -1]).
Proof. vm_compute. reflexivity. Qed.

(* ---- second round ---- *)
From Verif.C18 Require Import Proofs2.

(* find_truncation_rank on a 2x3 integer core with tol^2 = 5: the last column (squared norm 1+1) and
   then the last row (squared norm 0+1... ) are cut while the accumulated error stays <= 5 *)
Definition trX : full Z := full_of Z 0 ([2%nat; 3%nat], [3; 2; 1; 1; 1; 1]).
Example ex_trunc_hyp : Z.ltb 5 0 = false.
Proof. reflexivity. Qed.
Example ex_trunc_value : find_truncation_rank Z 0 Z.add Z.mul Z.ltb trX 5 = ([1%nat; 2%nat], 4).
Proof. vm_compute. reflexivity. Qed.
Example ex_trunc_mass :
  sqnorm Z 0 Z.add Z.mul [2%nat; 3%nat] (fe Z trX) = sqnorm Z 0 Z.add Z.mul [1%nat; 2%nat] (fe Z trX) + 4.
Proof. vm_compute. reflexivity. Qed.

(* the loop of apply_tprod and the nested-sum definition on a concrete 2x2x2 array, middle operator None *)
Example ex_loop_value :
  let Bs := [Some (mat_of Z 0 (M 1 2 [[1; -1]])); None; Some (mat_of Z 0 (M 2 2 [[0; 1]; [2; 1]]))] in
  let f := fe Z (full_of Z 0 ([2%nat; 2%nat; 2%nat], [1; 2; 3; 4; 5; 6; 7; 8])) in
  map (tprod_loop Z 0 Z.add Z.mul Bs f) (ndindex [1%nat; 2%nat; 2%nat])
  = map (tprod Z 0 Z.add Z.mul Bs f) (ndindex [1%nat; 2%nat; 2%nat])
  /\ map (tprod Z 0 Z.add Z.mul Bs f) (ndindex [1%nat; 2%nat; 2%nat]) = [-4; -12; -4; -12].
Proof. vm_compute. split; reflexivity. Qed.

(* __getitem__ of the canonical tensor mA (shape 2x3, rank 2) with [-1, ::-2]: hypotheses of canon_getitem *)
Example ex_getitem_norm :
  normalize_indices [IInt (-1); ISlice None None (Some (-2))] (cshape Z mA)
  = Ok [([1%nat], true); ([2%nat; 0%nat], false)].
Proof. vm_compute. reflexivity. Qed.
Example ex_getitem_ok :
  tab Z (getitem Z 0 1 Z.add Z.mul (TCanon Z mA) [IInt (-1); ISlice None None (Some (-2))])
  = Ca [M 2 2 [[6; -4]; [3; 0]]].
Proof. vm_compute. reflexivity. Qed.
Example ex_uniform_crank : Proofs2.uniform Z mA (crank Z mA).
Proof. repeat constructor. Qed.
Example ex_squeeze_hyps : NoDup [0%nat] /\ keep 0 mA [0%nat] <> [].
Proof. split; [repeat constructor; simpl; tauto|vm_compute; discriminate]. Qed.

(* Tucker -> canonical: the zero test of the integer instance satisfies the hypothesis *)
Example ex_nonzero_hyp : forall a, znonzero a = false -> a = 0.
Proof. intros a H. unfold znonzero in H. destruct (Z.eqb_spec a 0); [assumption|discriminate]. Qed.
Example ex_t2c_value :
  full_tab Z (canon_asarray Z 0 1 Z.add Z.mul (tucker_to_canon Z 0 Z.mul znonzero tU tX))
  = full_tab Z (tucker_asarray Z 0 Z.add Z.mul tU tX).
Proof. vm_compute. reflexivity. Qed.

(* pad: a literal array vanishes outside its shape (hypothesis of pad_spec) *)
Example ex_pad_hyp : forall J, all_lt J [2%nat] = false -> fe Z (full_of Z 0 ([2%nat], [5; 7])) J = 0.
Proof.
  intros [|j [|j' J]] H; simpl in *; try discriminate.
  - destruct j as [|[|j]]; simpl in *; try discriminate. destruct j; reflexivity.
  - destruct j as [|[|j]]; simpl in *; try discriminate. destruct j; reflexivity.
Qed.
Example ex_slice_hyp : Forall (fun t : list (mat Z) => length t = length [(0%nat, 1%nat); (1%nat, 2%nat)]) opA.
Proof. repeat constructor. Qed.

(* generator: X[::-1, [2,0]] of a 2x3 array -- hypotheses of generator_getitem_spec_partial *)
Example ex_gen_hyps :
  normalize_indices [ISlice None None (Some (-1)); IList [2; 0]] [2%nat; 3%nat]
    = Ok [([1%nat; 0%nat], false); ([2%nat; 0%nat], false)]
  /\ sel_singletons 0 [([1%nat; 0%nat], false); ([2%nat; 0%nat], false)] = []
  /\ gen_getitem Z [2%nat; 3%nat] (fe Z (full_of Z 0 ([2%nat; 3%nat], [1; 2; 3; 4; 5; 6])))
       [ISlice None None (Some (-1)); IList [2; 0]] = Ok ([2%nat; 2%nat], [6; 4; 3; 1]).
Proof. vm_compute. repeat split; reflexivity. Qed.
