"""Implementation driver for C16: builds pyiga's linear-operator building blocks from
integer-valued operands and applies them; results go back as exact integers.
Runs INSIDE the implementation interpreter (stdin JSON -> last stdout line JSON)."""
import json
import os
import sys

import numpy as np
import scipy.sparse
import scipy.sparse.linalg


def errclass(e):
    for c in (TypeError, ValueError, AssertionError, IndexError, KeyError, NotImplementedError, AttributeError):
        if isinstance(e, c):
            return c.__name__
    return 'Other:' + type(e).__name__


class PlainOp(scipy.sparse.linalg.LinearOperator):
    """An abstract operator (no array interface) acting like the given dense matrix."""
    def __init__(self, M):
        self.M = M
        super().__init__(dtype=M.dtype, shape=M.shape)

    def _matvec(self, x):
        return self.M.dot(x)

    def _matmat(self, x):
        return self.M.dot(x)

    def _transpose(self):
        return PlainOp(np.ascontiguousarray(self.M.T))

    def _adjoint(self):
        return PlainOp(np.ascontiguousarray(self.M.conj().T))


def mk(spec):
    """operand from {'kind','r','c','data','dtype'}"""
    if spec is None:
        return None
    M = np.array(spec['data'], dtype=spec.get('dtype', 'f8')).reshape(spec['r'], spec['c'])
    k = spec['kind']
    if k == 'dense':
        return M
    if k == 'denseF':
        return np.asfortranarray(M)
    if k == 'csr':
        return scipy.sparse.csr_matrix(M)
    if k == 'csc':
        return scipy.sparse.csc_matrix(M)
    if k == 'coo':
        return scipy.sparse.coo_matrix(M)
    if k == 'aslinop':
        return scipy.sparse.linalg.aslinearoperator(M)
    if k == 'linop':
        return PlainOp(M)
    raise ValueError(k)


def mkx(spec):
    X = np.array(spec['data'], dtype=spec.get('dtype', 'f8')).reshape(spec['shape'])
    if spec.get('order') == 'F':
        X = np.asfortranarray(X)
    return X


def out_arr(Y):
    Y = np.asarray(Y)
    if not np.all(np.isfinite(Y)) or not np.all(Y == np.round(Y)):
        return {'status': 'NonIntegral', 'shape': list(Y.shape), 'repr': [float(v) for v in Y.ravel()[:50]]}
    return {'status': 'Ok', 'shape': [int(s) for s in Y.shape], 'data': [int(v) for v in Y.ravel()],
            'dtype': str(Y.dtype)}


def variant(op, v):
    for ch in v:
        if ch == 'T':
            op = op.T
        elif ch == 'H':
            op = op.H
        elif ch != 'N':
            raise ValueError(v)
    return op


def apply(op, x, how):
    if how == 'matmul':
        return op @ x
    if how == 'mul':
        return op * x
    return op.dot(x)


def run_case(c, O, K, T, U, S):
    fam = c['fam']
    if fam == 'tprod':
        return out_arr(T.apply_tprod(tuple(mk(o) for o in c['ops']), mkx(c['x'])))
    if fam == 'modek':
        return out_arr(T.modek_tprod(mk(c['B']), c['k'], mkx(c['x'])))
    if fam == 'kronop':
        op = variant(O.KroneckerOperator(*[mk(o) for o in c['ops']]), c['variant'])
        return out_arr(apply(op, mkx(c['x']), c.get('how')))
    if fam == 'applykron':
        return out_arr(K.apply_kronecker(tuple(mk(o) for o in c['ops']), mkx(c['x'])))
    if fam == 'block':
        grid = []
        for i, row in enumerate(c['grid']):
            grid.append([mk(o) if o is not None else O.NullOperator((c['heights'][i], c['widths'][j]))
                         for j, o in enumerate(row)])
        op = variant(O.BlockOperator(grid), c['variant'])
        return out_arr(apply(op, mkx(c['x']), c.get('how')))
    if fam == 'blockdiag':
        op = variant(O.BlockDiagonalOperator(*[mk(o) for o in c['ops']]), c['variant'])
        return out_arr(apply(op, mkx(c['x']), c.get('how')))
    if fam == 'diag':
        d = np.array(c['d'], dtype=c.get('dtype', 'f8'))
        if c.get('dshape'):
            d = d.reshape(c['dshape'])
        op = variant(O.DiagonalOperator(d), c['variant'])
        return out_arr(apply(op, mkx(c['x']), c.get('how')))
    if fam == 'identity':
        op = variant(O.IdentityOperator(c['n']), c['variant'])
        return out_arr(apply(op, mkx(c['x']), c.get('how')))
    if fam == 'null':
        op = variant(O.NullOperator((c['r'], c['c'])), c['variant'])
        return out_arr(apply(op, mkx(c['x']), c.get('how')))
    if fam == 'subspace':
        op = variant(O.SubspaceOperator([mk(p) for p in c['P']], [mk(b) for b in c['B']]), c['variant'])
        return out_arr(apply(op, mkx(c['x']), c.get('how')))
    if fam in ('rowslice', 'rowsubset'):
        a = c['A']
        A = scipy.sparse.csr_matrix((np.array(a['data'], dtype='f8'), np.array(a['indices'], dtype=np.int32),
                                     np.array(a['indptr'], dtype=np.int32)), shape=(a['r'], a['c']))
        if fam == 'rowslice':
            op = U.CSRRowSlice(A, (c['r0'], c['r1']))
        else:
            op = U.CSRRowSubset(A, c['rows'] if c.get('rows_list') else np.array(c['rows'], dtype=int))
        x = mkx(c['x'])
        how = c.get('how')
        Y = op * x if how == 'mul' else op.dot(x)
        return out_arr(Y)
    # ---- solver factories: floating point, the harness checks residuals exactly
    if fam in ('solver', 'kronsolver', 'fastdiag'):
        if fam == 'solver':
            op = O.make_solver(mk(c['B']), symmetric=c.get('symmetric', False), spd=c.get('spd', False))
        elif fam == 'kronsolver':
            op = O.make_kronecker_solver(*[mk(b) for b in c['Bs']])
        else:
            op = S.fastdiag_solver([(mk(k), mk(m)) for (k, m) in c['KM']])
        Y = np.asarray(apply(op, mkx(c['x']), c.get('how')))
        return {'status': 'Ok', 'shape': [int(s) for s in Y.shape], 'hex': [float(v).hex() for v in Y.ravel()],
                'opshape': [int(s) for s in op.shape]}
    raise ValueError('unknown family ' + fam)


def main():
    import pyiga
    assert os.path.realpath(pyiga.__file__).startswith(os.path.realpath(os.environ['VERIF_IMPL_DIR'])), pyiga.__file__
    from pyiga import operators as O, kronecker as K, tensor as T, utils as U, solvers as S
    import warnings
    warnings.simplefilter('ignore')
    payload = json.load(sys.stdin)
    out = []
    for c in payload['cases']:
        try:
            res = run_case(c, O, K, T, U, S)
        except Exception as e:  # noqa
            res = {'status': errclass(e), 'msg': str(e)[:200]}
        out.append(res)
    print(json.dumps({'results': out}))


if __name__ == '__main__':
    main()
