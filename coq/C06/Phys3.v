(* C06 -- the dim-3 physical Hessian of the model (separate file: the nine field identities
   are the expensive part of the build). *)
From Coq Require Import List String Bool Arith Lia Field Ring.
From Verif.C06 Require Import Model Phys.
Import ListNotations.

Section Phys3.
Variable F : Type.
Variables (f0 f1 : F) (fadd fmul fsub fdiv : F -> F -> F) (fopp finv : F -> F).
Hypothesis Fth : field_theory f0 f1 fadd fmul fsub fopp fdiv finv (@eq F).
Add Field Ffield4 : Fth.
Variable J : nat -> nat -> F.
Variable HG : nat -> nat -> nat -> F.
Variable gu : nat -> F.
Variable Hu : nat -> nat -> F.
Variable u0 : F.

Ltac small i := destruct i as [|[|[|i]]]; try lia.
Ltac fin Hd := cbv; field; let H := fresh "H" in (intro H; apply Hd; rewrite <- H; ring).

Lemma physical_hess_3_l :
  detJ F f0 f1 fadd fmul fsub fdiv fopp J 3 <> f0 ->
  forall i j, i < 3 -> j < 3 -> hess_ok F f0 f1 fadd fmul fsub fdiv fopp J HG gu Hu u0 3 i j.
Proof. intros Hd i j Hi Hj. cbv in Hd. small i; small j; fin Hd. Qed.
End Phys3.
