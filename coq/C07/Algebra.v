(* C07 -- rational-function identities behind the circular-arc constructors of
   geometry.py, over an arbitrary field (no decidable equality, no order):
   cos/sin of the (half-)angles enter as field elements c, s constrained by
   c^2 + s^2 = 1; multiples of the angle are formed by the addition formulas.

   geometry.py:630-658  circular_arc_3pt/5pt/7pt:  control points r (cos a_k, sin a_k),
       a_k = k alpha/(n-1), weights (1, w, 1, w, ...), w = cos(alpha/(n-1)), premultiplied=True,
       quadratic knot vector with double interior knots  =>  every knot span is one
       rational quadratic Bezier segment with control points 2j, 2j+1, 2j+2.
   geometry.py:468-491  quarter_annulus. *)
From Coq Require Import Field Ring.

Section Arcs.
Variable F : Type.
Variables (f0 f1 : F) (fadd fmul fsub : F -> F -> F) (fopp : F -> F) (fdiv : F -> F -> F) (finv : F -> F).
Hypothesis Fth : field_theory f0 f1 fadd fmul fsub fopp fdiv finv (@eq F).
Add Field Ffield : Fth.
Notation "0" := f0.
Notation "1" := f1.
Infix "+" := fadd.
Infix "*" := fmul.
Infix "-" := fsub.
Infix "/" := fdiv.
Notation "- x" := (fopp x).
Definition two : F := 1 + 1.

(* Bernstein polynomials of degree 2 = the B-splines of one span of an open quadratic
   knot vector with double interior knots, in the local parameter *)
Definition B0 (t : F) := (1 - t) * (1 - t).
Definition B1 (t : F) := two * t * (1 - t).
Definition B2 (t : F) := t * t.

(* one segment: start direction (C0, S0), half-angle (c, s); control directions by the
   angle-addition formulas, weights (1, c, 1); radius r *)
Definition seg_w (c t : F) : F := B0 t + B1 t * c + B2 t.
Definition seg_x (C0 S0 c s r t : F) : F :=
  r * (B0 t * C0 + B1 t * (C0 * c - S0 * s) + B2 t * (C0 * (c * c - s * s) - S0 * (two * s * c))).
Definition seg_y (C0 S0 c s r t : F) : F :=
  r * (B0 t * S0 + B1 t * (S0 * c + C0 * s) + B2 t * (S0 * (c * c - s * s) + C0 * (two * s * c))).

Lemma arc3_norm : forall c s r t, c * c + s * s = 1 ->
  seg_x 1 0 c s r t * seg_x 1 0 c s r t + seg_y 1 0 c s r t * seg_y 1 0 c s r t
  = (r * seg_w c t) * (r * seg_w c t).
Proof.
  intros c s r t H. unfold seg_x, seg_y, seg_w, B0, B1, B2.
  assert (Hs : s * s = 1 - c * c) by (rewrite <- H; ring).
  set (a := 1 - t). set (b := t).
  transitivity (r * r * ((a * a + two * a * b * c + b * b * (c * c - (s * s))) * (a * a + two * a * b * c + b * b * (c * c - (s * s)))
                         + two * two * b * b * (s * s) * (a + b * c) * (a + b * c))).
  - unfold two, a, b; ring.
  - rewrite Hs. unfold two, a, b; ring.
Qed.

(* every point of a segment has squared norm (r w)^2, i.e. N/w lies on the circle of radius r *)
Lemma segment_norm : forall C0 S0 c s r t, C0 * C0 + S0 * S0 = 1 -> c * c + s * s = 1 ->
  seg_x C0 S0 c s r t * seg_x C0 S0 c s r t + seg_y C0 S0 c s r t * seg_y C0 S0 c s r t
  = (r * seg_w c t) * (r * seg_w c t).
Proof.
  intros C0 S0 c s r t H0 H. rewrite <- (arc3_norm c s r t H).
  transitivity ((C0 * C0 + S0 * S0) *
                (seg_x 1 0 c s r t * seg_x 1 0 c s r t + seg_y 1 0 c s r t * seg_y 1 0 c s r t)).
  - unfold seg_x, seg_y. ring.
  - rewrite H0. ring.
Qed.

(* end points: the segment starts in direction (C0, S0) and ends in that direction turned by
   twice the half-angle; the weight there is 1 *)
Lemma segment_start : forall C0 S0 c s r,
  seg_x C0 S0 c s r 0 = r * C0 /\ seg_y C0 S0 c s r 0 = r * S0 /\ seg_w c 0 = 1.
Proof. intros. unfold seg_x, seg_y, seg_w, B0, B1, B2, two. repeat split; ring. Qed.

Lemma segment_end : forall C0 S0 c s r,
  seg_x C0 S0 c s r 1 = r * (C0 * (c * c - s * s) - S0 * (two * s * c))
  /\ seg_y C0 S0 c s r 1 = r * (S0 * (c * c - s * s) + C0 * (two * s * c)) /\ seg_w c 1 = 1.
Proof. intros. unfold seg_x, seg_y, seg_w, B0, B1, B2, two. repeat split; ring. Qed.

(* the end direction of a segment is again a unit direction: segments chain (5pt: 2, 7pt: 3) *)
Lemma segment_end_unit : forall C0 S0 c s, C0 * C0 + S0 * S0 = 1 -> c * c + s * s = 1 ->
  let C1 := C0 * (c * c - s * s) - S0 * (two * s * c) in
  let S1 := S0 * (c * c - s * s) + C0 * (two * s * c) in
  C1 * C1 + S1 * S1 = 1.
Proof.
  intros C0 S0 c s H0 H. cbv zeta.
  transitivity ((C0 * C0 + S0 * S0) * ((c * c + s * s) * (c * c + s * s))).
  - unfold two. ring.
  - rewrite H0, H. ring.
Qed.

(* quarter_annulus: radial direction linear in x between r1 and r2, angular direction the
   quarter arc with middle weight q = 1/sqrt 2 (q^2 = 1/2), control points (rho,0), (rho,rho), (0,rho) *)
Definition qa_w (q y : F) : F := B0 y + B1 y * q + B2 y.
Definition qa_x (q r1 r2 x y : F) : F := ((1 - x) * r1 + x * r2) * (B0 y + B1 y * q).
Definition qa_y (q r1 r2 x y : F) : F := ((1 - x) * r1 + x * r2) * (B1 y * q + B2 y).

Lemma quarter_annulus_norm : forall q r1 r2 x y, two * (q * q) = 1 ->
  qa_x q r1 r2 x y * qa_x q r1 r2 x y + qa_y q r1 r2 x y * qa_y q r1 r2 x y
  = (((1 - x) * r1 + x * r2) * qa_w q y) * (((1 - x) * r1 + x * r2) * qa_w q y).
Proof.
  intros q r1 r2 x y H. unfold qa_x, qa_y, qa_w, B0, B1, B2. unfold two in *.
  set (rho := (1 - x) * r1 + x * r2). set (a := 1 - y).
  (* difference of the two sides = rho^2 (b^2 q^2 - 2 a d) with b = 2 y a, d = y^2 *)
  assert (E : rho * rho * ((1+1) * (1+1) * y * y * a * a * (q * q)) = rho * rho * ((1+1) * a * a * y * y * ((1+1) * (q * q)))) by ring.
  transitivity (rho * rho * ((a * a + (1+1) * y * a * q + y * y) * (a * a + (1+1) * y * a * q + y * y))
                + (rho * rho * ((1+1) * (1+1) * y * y * a * a * (q * q)) - rho * rho * ((1+1) * a * a * y * y))).
  - ring.
  - rewrite E, H. ring.
Qed.

Lemma quarter_annulus_sides : forall q r1 r2 y,
  qa_x q r1 r2 0 y = r1 * (B0 y + B1 y * q) /\ qa_x q r1 r2 1 y = r2 * (B0 y + B1 y * q)
  /\ forall x, qa_y q r1 r2 x 0 = 0 /\ qa_x q r1 r2 x 1 = 0.
Proof. intros. unfold qa_x, qa_y, B0, B1, B2, two. repeat split; ring. Qed.

End Arcs.

