"""C05 -- Every transfer between nested spline spaces preserves the function.

Stage 1: Coq theorems (coq/C05/Props.v): Boehm knot insertion and arbitrary knot refinement
         preserve every basis function at every point (Cox-de Boor reference), rows sum to one,
         entries non-negative; transfers compose.
Stage 2: tie.  bspline.knot_insertion / bspline.prolongation of /repo against the exact Qc model
         (case files under coq/gen), span index exactly, entries within the bounds stated below.
Stage 3: the property evaluated directly on the implementation with an independent exact oracle
         (Cox-de Boor in Fractions, written here): knot insertion, prolongation, and the
         hierarchical transfers (virtual_hierarchy_prolongators, prolongate_to, represent_fine,
         level-wise evaluation, boundary restriction).
"""
import itertools
import math
from fractions import Fraction as F

from harness.core import clist, log, parse_coq_list_of_nat

PROPS = 'C05/Props.v'
EPS = F(1, 2 ** 52)

# --- bounds (derived, see the text next to each) ---------------------------------------------
# knot_insertion: a = (u - t_i) / (t_{i+p} - t_i) and 1 - a; the inputs are dyadic rationals on a
# grid of 2^-20 with |t| <= 16, so both subtractions are exact in binary64; one rounding for the
# quotient (|a| <= 1), one for 1 - a: |impl - exact| <= 2 * 2^-53 < 2^-51.
KI_BOUND = F(1, 2 ** 51)
# prolongation: spsolve(C2, C1) with C2 the Greville collocation matrix of kv2 (banded LU with
# partial pivoting, n2 unknowns): forward error <= 8 n2 eps cond_inf(C2) max|P| (Higham, Thm 9.4
# with growth factor <= 2^(p) absorbed in the factor 8 n2 for the band widths used here, max|P| = 1),
# plus the 1e-15 pruning threshold, plus the perturbation of C1, C2 by the rounding of the
# Greville abscissae and of the collocation values (<= 8 (p+1) eps each, amplified by cond).
def prol_bound(n2, p, cond):
    return F(1, 10 ** 15) + (8 * n2 + 16 * (p + 1)) * EPS * F(cond) + 64 * (p + 1) * EPS
# hierarchical matrices: every entry is a sum of at most 10^4 products of at most 12 factors in
# [-1, 1], each factor an entry of a 1-D prolongation (error <= 2^-40, see prol_bound for the
# uniformly refined knot vectors used, cond <= 2^8): |impl - exact| <= 10^4 * 12 * 2^-40 < 2^-23.
H_TOL = F(1, 2 ** 23)


# ---------------------------------------------------------------------------
# independent exact oracle
# ---------------------------------------------------------------------------

def basis_table(kv, p, x, nd):
    """D[k][i] = k-th derivative of N_{i,p} at x by the Cox-de Boor recursion (0/0 := 0;
    half-open spans, last non-empty span closed on the right)."""
    m = len(kv)
    last = kv[-1]
    memo = {}

    def N(q, i):
        key = (q, i)
        if key in memo:
            return memo[key]
        if q == 0:
            a, b = kv[i], kv[i + 1]
            r = F(1) if (a <= x < b) or (x == last and a < b and b == last) else F(0)
        else:
            r = F(0)
            d1 = kv[i + q] - kv[i]
            if d1 != 0:
                r += (x - kv[i]) / d1 * N(q - 1, i)
            d2 = kv[i + q + 1] - kv[i + 1]
            if d2 != 0:
                r += (kv[i + q + 1] - x) / d2 * N(q - 1, i + 1)
        memo[key] = r
        return r

    dm = {}

    def D(k, q, i):
        if k == 0:
            return N(q, i)
        if q == 0:
            return F(0)
        key = (k, q, i)
        if key in dm:
            return dm[key]
        r = F(0)
        d1 = kv[i + q] - kv[i]
        if d1 != 0:
            r += D(k - 1, q - 1, i) / d1
        d2 = kv[i + q + 1] - kv[i + 1]
        if d2 != 0:
            r -= D(k - 1, q - 1, i + 1) / d2
        r *= q
        dm[key] = r
        return r

    n = m - p - 1
    return [[D(k, p, i) for i in range(n)] for k in range(nd + 1)]


def check_points(kv, p):
    """p+1 distinct points in every non-empty span (determines a piecewise polynomial of degree p)
    plus every knot and the right end."""
    pts = set(kv)
    br = sorted(set(kv))
    for a, b in zip(br, br[1:]):
        for k in range(1, p + 2):
            pts.add(a + (b - a) * F(k, p + 2))
    return sorted(pts)


def preserved_exactly(kv1, kv2, p, P, tol=0, pts=None):
    """max over points and coarse functions of |N1_i(x) - sum_j P[j][i] N2_j(x)| > tol ?
    Returns None or (i, x, lhs, rhs)."""
    n1, n2 = len(kv1) - p - 1, len(kv2) - p - 1
    for x in (pts or check_points(kv2, p)):
        v1 = basis_table(kv1, p, x, 0)[0]
        v2 = basis_table(kv2, p, x, 0)[0]
        nz = [j for j in range(n2) if v2[j] != 0]
        for i in range(n1):
            rhs = sum(P[j][i] * v2[j] for j in nz)
            if abs(v1[i] - rhs) > tol:
                return (i, x, v1[i], rhs)
    return None


def boehm_exact(kv, p, u):
    """One knot insertion, exact (used for the oracle's two-level prolongations, which are then
    verified pointwise by preserved_exactly, so the oracle does not rest on it)."""
    n = len(kv) - p - 1
    if u < kv[-1]:
        k = max(i for i in range(len(kv) - 1) if kv[i] <= u < kv[i + 1])
    else:
        k = max(i for i in range(len(kv) - 1) if kv[i] < kv[i + 1])
    P = [[F(0)] * n for _ in range(n + 1)]
    for i in range(n + 1):
        if i <= k - p:
            al = F(1)
        elif i <= k:
            al = (u - kv[i]) / (kv[i + p] - kv[i])
        else:
            al = F(0)
        if i < n:
            P[i][i] = al
        if i >= 1:
            P[i][i - 1] = 1 - al
    return P, kv[:k + 1] + [u] + kv[k + 1:]


def multiset_diff(kv2, kv1):
    rest = list(kv1)
    us = []
    for x in kv2:
        if rest and rest[0] == x:
            rest.pop(0)
        else:
            us.append(x)
    if rest:
        return None
    return us


_PCACHE = {}


def prolong_exact(kv1, kv2, p):
    key = (tuple(kv1), tuple(kv2), p)
    if key in _PCACHE:
        return _PCACHE[key]
    us = multiset_diff(kv2, kv1)
    assert us is not None, 'knot vectors not nested'
    n1 = len(kv1) - p - 1
    M = [[F(int(i == j)) for j in range(n1)] for i in range(n1)]
    kv = list(kv1)
    for u in us:
        Pk, kv = boehm_exact(kv, p, u)
        M = [[sum(Pk[j][l] * M[l][i] for l in range(len(M)) if Pk[j][l] != 0) for i in range(n1)] for j in range(len(Pk))]
    assert kv == list(kv2)
    bad = preserved_exactly(kv1, kv2, p, M)
    assert bad is None, 'oracle self-check failed: %r' % (bad,)
    _PCACHE[key] = M
    return M


# ---------------------------------------------------------------------------
# generators
# ---------------------------------------------------------------------------

def gen_kv(rng, p, nbmax=6):
    nb = rng.randint(2, nbmax)
    mode = rng.choice(['uniform', 'mild', 'mild', 'steep'])
    b = [F(rng.randint(-8, 8), 4)]
    for _ in range(nb - 1):
        e = {'uniform': -2, 'mild': rng.randint(-4, 1), 'steep': rng.randint(-9, 1)}[mode]
        b.append(b[-1] + F(2) ** e)
    mults = [p + 1] + [rng.randint(1, max(p, 1)) if rng.random() < 0.5 else 1 for _ in range(nb - 2)] + [p + 1]
    kv = []
    for x, m in zip(b, mults):
        kv += [x] * m
    return kv, b, mults, mode


def hexs(xs):
    return [float(x).hex() for x in xs]


def gen_ki_cases(ctx):
    rng = ctx.rng
    thorough = ctx.tier == 'thorough'
    cases = []
    nkv = 160 if thorough else 40
    for c in range(nkv):
        p = c % 9 if c < 18 else rng.randint(0, 8)
        kv, b, mults, mode = gen_kv(rng, p, 6 if p <= 5 else 4)
        kinds = []
        # inside a span (midpoint / random dyadic), on an interior knot (any multiplicity), both ends
        i = rng.randrange(len(b) - 1)
        kinds.append(('mid', (b[i] + b[i + 1]) / 2))
        i = rng.randrange(len(b) - 1)
        kinds.append(('inside', b[i] + (b[i + 1] - b[i]) * F(rng.randint(1, 2 ** 10 - 1), 2 ** 10)))
        if len(b) > 2:
            j = rng.randrange(1, len(b) - 1)
            kinds.append(('knot-mult%s' % ('<p' if mults[j] < p else '>=p'), b[j]))
        if c % 4 == 0:
            kinds.append(('left-end', b[0]))
        if c % 4 == 1:
            kinds.append(('right-end', b[-1]))
        for kind, u in kinds:
            cases.append({'p': p, 'kv': hexs(kv), 'u': float(u).hex(), 'kind': kind, 'mode': mode, '_kv': kv, '_u': u})
    return cases


def gen_prol_cases(ctx):
    rng = ctx.rng
    thorough = ctx.tier == 'thorough'
    cases = []
    n = 150 if thorough else 36
    for c in range(n):
        p = c % 9 if c < 18 else rng.randint(0, 8)
        kv1, b, mults, mode = gen_kv(rng, p, 5 if p <= 4 else 4)
        kind = rng.choice(['refine', 'random', 'random', 'raise-mult', 'mixed'])
        if p == 0 and kind in ('raise-mult', 'mixed'):
            kind = 'random'
        mult = {x: m for x, m in zip(b, mults)}
        new = []
        if kind == 'refine':
            new = [(a + bb) / 2 for a, bb in zip(b, b[1:])]
        if kind in ('random', 'mixed'):
            for _ in range(rng.randint(1, 5)):
                i = rng.randrange(len(b) - 1)
                x = b[i] + (b[i + 1] - b[i]) * F(rng.randint(1, 15), 16)
                if mult.get(x, 0) < max(p, 1):
                    mult[x] = mult.get(x, 0) + 1
                    new.append(x)
        if kind in ('raise-mult', 'mixed'):
            for x in b[1:-1]:
                if mult[x] < p and rng.random() < 0.7:
                    mult[x] += 1
                    new.append(x)
        if not new:
            new = [(b[0] + b[1]) / 2]
        kv2 = sorted(kv1 + new)
        cases.append({'p': p, 'kv1': hexs(kv1), 'kv2': hexs(kv2), 'kind': kind, 'mode': mode,
                      'refine': kind == 'refine', '_kv1': kv1, '_kv2': kv2, '_b': list(b), '_mults': list(mults)})
    return cases


def gen_hier_cases(ctx):
    rng = ctx.rng
    thorough = ctx.tier == 'thorough'
    cases = []

    def fixed(p, n, steps, fine_steps, trunc, disp, chain=None):
        kv = [F(0)] * p + [F(i) for i in range(n + 1)] + [F(n)] * p
        g = sorted([F(0), F(n), F(n) * F(5, 64), F(n) * F(3, 8)])
        return {'kvs': [hexs(kv)], 'p': [p], 'truncate': trunc, 'disparity': disp, 'steps': steps, 'fine_steps': fine_steps,
                'chain_steps': chain or [[0, [[float(n - 2), float(n - 1)]]]],
                'coeffs': [rng.randint(-8, 8) for _ in range(400)], 'grid': [hexs(g)], 'points': [hexs([g[1]]), hexs([g[2]])],
                'rf_rows': [1, 5, 7], 'bdspecs': [], 'dim': 1, '_grid': [g], '_points': [[g[1]], [g[2]]]}
    # corner refinement nested twice (THB, three levels); finite disparity with a fine space two levels deeper;
    # p = 1 with a deactivated fine function inside the support of an active coarse one
    cases.append(fixed(2, 4, [[0, [[0.0, 2.0]]], [1, [[0.0, 1.0]]]], [[2, [[0.0, 0.5]]]], True, None))
    cases.append(fixed(2, 4, [[0, [[0.0, 2.0]]]], [[1, [[0.0, 1.0]]], [2, [[0.0, 0.5]]]], False, 1))
    cases.append(fixed(1, 4, [[0, [[1.0, 2.0]]], [1, [[1.0, 2.0]]]], [[2, [[1.0, 1.5]]]], True, None))
    cases.append(fixed(3, 6, [[0, [[1.0, 5.0]]], [1, [[2.0, 4.0]]]], [[0, [[0.0, 1.0]]]], False, 2))
    def fixed2(p, kvx, kvy, steps, fine_steps, trunc, disp, chain):
        kvs2 = [kvx, kvy]
        grid = [sorted({kv[0], kv[-1], kv[0] + (kv[-1] - kv[0]) * F(5, 64), kv[0] + (kv[-1] - kv[0]) * F(5, 8)}) for kv in kvs2]
        pts = [[g[1] for g in grid], [g[2] for g in grid]]
        return {'kvs': [hexs(kv) for kv in kvs2], 'p': [p, p], 'truncate': trunc, 'disparity': disp, 'steps': steps,
                'fine_steps': fine_steps, 'chain_steps': chain, 'coeffs': [rng.randint(-8, 8) for _ in range(400)],
                'grid': [hexs(g) for g in grid], 'points': [hexs(pt) for pt in pts], 'rf_rows': [1, 5, 7, 20],
                'bdspecs': [[0, 0], [1, 1]], 'dim': 2, '_grid': grid, '_points': pts}
    # equal degree and knot count in both directions, different knot positions (uniform / graded)
    cases.append(fixed2(2, [F(0)] * 3 + [F(1), F(2), F(3)] + [F(4)] * 3, [F(0)] * 3 + [F(1, 2), F(1), F(2)] + [F(4)] * 3,
                        [[0, [[0.0, 2.5], [0.0, 2.5]]]], [[1, [[0.0, 1.5], [0.0, 1.5]]]], True, None, [[0, [[2.0, 4.0], [2.0, 4.0]]]]))
    # warm caches, then a patch that only adds level-1 functions (8 cells, p = 2: first the right end, then cells 1,2)
    cases.append(fixed(2, 8, [[0, [[5.0, 8.0]]]], [[1, [[6.0, 8.0]]]], False, None, chain=[[0, [[1.0, 3.0]]]]))
    n = 240 if thorough else 44
    for c in range(n):
        dim = [1, 1, 2, 2, 2, 3][c % 6] if thorough else [1, 1, 2, 2, 1, 2, 3, 2][c % 8]
        if dim == 1:
            p = [rng.randint(1, 4)]
            nint = [rng.randint(2, 6)]
            maxsteps = 3
        elif dim == 2:
            p = [rng.randint(1, 3), rng.randint(1, 3)] if rng.random() < 0.5 else [rng.randint(1, 3)] * 2
            nint = [rng.randint(2, 4), rng.randint(2, 4)]
            maxsteps = 2 if max(p) >= 3 else 3
        else:
            p = [rng.randint(1, 2)] * 3
            nint = [2, 2, rng.randint(2, 3)]
            maxsteps = 2 if thorough else 1
        kvs = []
        # anisotropic spaces: every direction has the same degree and the same number of knots, but the
        # knots sit at different positions (uniform / graded breakpoints, a double knot at different places)
        aniso = dim >= 2 and rng.random() < (0.4 if dim == 2 else 0.5)
        if aniso:
            pp = max(p)
            p = [pp] * dim
            ni = min(nint) if dim == 3 else max(min(nint), 3)
            nint = [ni] * dim
            kind = rng.choice(['graded', 'double'] if pp >= 2 else ['graded'])
            used = set()
            for d in range(dim):
                for _try in range(20):
                    if kind == 'graded':
                        if d == 0 and rng.random() < 0.6:
                            b = [F(i) for i in range(ni + 1)]
                        else:
                            b = [F(0)]
                            for _ in range(ni):
                                b.append(b[-1] + rng.choice([F(1, 2), F(1), F(1), F(2)]))
                        mults = [pp + 1] + [1] * (ni - 1) + [pp + 1]
                    else:
                        b = [F(i) for i in range(ni + 1)] if rng.random() < 0.5 else [F(i, 2) if i < 2 else F(i) - F(1, 2) for i in range(ni + 1)]
                        j = rng.randrange(1, ni)
                        mults = [pp + 1] + [2 if i == j else 1 for i in range(1, ni)] + [pp + 1]
                    kv = []
                    for x, m in zip(b, mults):
                        kv += [x] * m
                    if tuple(kv) not in used:
                        break
                used.add(tuple(kv))
                kvs.append(kv)
        for d in range(dim if not aniso else 0):
            if rng.random() < 0.25 and dim <= 2:
                # non-uniform breakpoints, possibly a repeated interior knot
                b = [F(0)]
                for _ in range(nint[d]):
                    b.append(b[-1] + F(1, rng.choice([2, 4, 4, 8])))
                mults = [p[d] + 1] + [rng.choice([1, 1, min(2, p[d])]) for _ in b[1:-1]] + [p[d] + 1]
                kv = []
                for x, m in zip(b, mults):
                    kv += [x] * m
            else:
                kv = [F(0)] * p[d] + [F(i) for i in range(nint[d] + 1)] + [F(nint[d])] * p[d]
            kvs.append(kv)

        def box(kv_list, inside=None):
            bx = []
            for d, kv in enumerate(kv_list):
                lo, hi = (kv[0], kv[-1]) if inside is None else (F(inside[d][0]), F(inside[d][1]))
                a = lo + (hi - lo) * F(rng.randint(0, 4), 8)
                w = (hi - lo) * F(rng.randint(3, 6), 8)
                bx.append([float(a), float(min(a + w, hi))])
            return bx
        nsteps = rng.randint(1, maxsteps)
        steps = []
        prev = None
        for s in range(nsteps):
            # mostly nested regions on successive levels (so that deeper levels exist), sometimes a
            # region on an earlier level
            if rng.random() < 0.8:
                lv, prev = s, box(kvs, prev)
                steps.append([lv, prev])
            else:
                steps.append([rng.randint(0, s), box(kvs)])
        nf = rng.randint(1, 2 if dim < 3 else 1)
        fine_steps = []
        for s in range(nf):
            if rng.random() < 0.6:
                prev = box(kvs, prev)
                fine_steps.append([nsteps + s, prev])
            else:
                fine_steps.append([rng.randint(0, nsteps + s), box(kvs)])
        # third space of the chain hs -> fine -> fine2: mostly a small patch of level-0 cells
        # (k <= p adjacent cells per axis: activates level-1 functions without deactivating any)
        chain_steps = []
        for s in range(rng.randint(1, 2)):
            if rng.random() < 0.65:
                bx = []
                for d, kv in enumerate(kvs):
                    br = sorted(set(kv))
                    k = rng.randint((p[d] + 2) // 2, max(p[d], 1))
                    i = rng.randrange(max(1, len(br) - k))
                    bx.append([float(br[i]), float(br[min(i + k, len(br) - 1)])])
                chain_steps.append([0, bx])
            else:
                chain_steps.append([rng.randint(0, nsteps + nf - 1), box(kvs)])
        disparity = rng.choice([None, None, 1, 2])
        truncate = rng.random() < 0.5
        grid = []
        for kv in kvs:
            lo, hi = kv[0], kv[-1]
            g = sorted({lo, hi, lo + (hi - lo) * F(rng.randint(1, 63), 64), lo + (hi - lo) * F(rng.randint(1, 7), 8)})
            if dim == 3:
                g = g[:3]
            grid.append(g)
        points = [[rng.choice(g) for g in grid] for _ in range(3)]
        bdspecs = [[rng.randrange(dim), rng.randint(0, 1)] for _ in range(2)] if dim >= 2 else []
        cases.append({'kvs': [hexs(kv) for kv in kvs], 'p': p, 'truncate': truncate, 'disparity': disparity,
                      'steps': steps, 'fine_steps': fine_steps, 'chain_steps': chain_steps,
                      'coeffs': [rng.randint(-8, 8) for _ in range(400)],
                      'grid': [hexs(g) for g in grid], 'points': [hexs(pt) for pt in points],
                      'rf_rows': [rng.randrange(10 ** 6) for _ in range(rng.randint(1, 12))],
                      'bdspecs': bdspecs, 'dim': dim, '_grid': grid, '_points': points})
    return cases


# ---------------------------------------------------------------------------
# the property on the implementation: 1-D transfers
# ---------------------------------------------------------------------------

def fr(h):
    return F(float.fromhex(h))


def check_ki_impl(c, r):
    kv, p, u = c['_kv'], c['p'], c['_u']
    n = len(kv) - p - 1
    if r['status'] != 'Ok':
        return ('raises-' + r['status'], 'knot_insertion raised %s: %s' % (r['status'], r.get('msg')))
    if r['shape'] != [n + 1, n]:
        return ('shape', 'knot_insertion returned shape %s, expected %s' % (r['shape'], [n + 1, n]))
    P = [[fr(x) for x in row] for row in r['P']]
    kv2 = sorted(kv + [u])
    bad = preserved_exactly(kv, kv2, p, P, tol=4 * KI_BOUND)
    if bad:
        return ('not-preserved', 'N_old[%d](%s) = %s but sum_j P[j,%d] N_new[j] = %s' % (bad[0], float(bad[1]), float(bad[2]), bad[0], float(bad[3])))
    for j, row in enumerate(P):
        if any(x < 0 for x in row):
            return ('negative', 'row %d has a negative entry' % j)
        if abs(sum(row) - 1) > 2 * KI_BOUND:
            return ('row-sum', 'row %d sums to %s' % (j, float(sum(row))))
    return None


def cond_inf_greville(kv2, p):
    """cond_inf of the Greville collocation matrix of kv2 (float; a harness-side estimate used
    only to scale the rounding bound)."""
    import numpy as np
    n2 = len(kv2) - p - 1
    if p == 0:
        return 1.0
    g = [sum(kv2[i + 1:i + p + 1]) / p for i in range(n2)]
    C = np.array([[float(v) for v in basis_table(kv2, p, x, 0)[0]] for x in g])
    try:
        return float(np.linalg.cond(C, np.inf))
    except Exception:
        return float('inf')


def check_prol_impl(c, r, bound):
    kv1, kv2, p = c['_kv1'], c['_kv2'], c['p']
    n1, n2 = len(kv1) - p - 1, len(kv2) - p - 1
    if r['status'] != 'Ok':
        return ('raises-' + r['status'], 'prolongation raised %s: %s' % (r['status'], r.get('msg')))
    if r['shape'] != [n2, n1]:
        return ('shape', 'prolongation returned shape %s, expected %s' % (r['shape'], [n2, n1]))
    P = [[fr(x) for x in row] for row in r['P']]
    bad = preserved_exactly(kv1, kv2, p, P, tol=(p + 1) * bound)
    if bad:
        return ('not-preserved', 'N_coarse[%d](%s) = %s but sum_j P[j,%d] N_fine[j] = %s' % (bad[0], float(bad[1]), float(bad[2]), bad[0], float(bad[3])))
    for j, row in enumerate(P):
        if any(x < -bound for x in row):
            return ('negative', 'row %d has an entry below -bound' % j)
        if abs(sum(row) - 1) > n1 * bound:
            return ('row-sum', 'row %d sums to %s' % (j, float(sum(row))))
    if c.get('refine'):
        kvr = [fr(x) for x in r['refined']]
        if kvr != kv2:
            return ('refine-kv', 'KnotVector.refine() is not the insertion of all span midpoints')
        Pr = [[fr(x) for x in row] for row in r['Pref']]
        if Pr != P:
            return ('refine-route', 'prolongation(kv, kv.refine()) differs between two calls')
    return None


# ---------------------------------------------------------------------------
# the property on the implementation: hierarchical transfers
# ---------------------------------------------------------------------------

class Sp:
    def __init__(self, st):
        self.L = st['L']
        self.dim = st['dim']
        self.p = st['p']
        self.kvs = [[[F(x) for x in kv] for kv in lvl] for lvl in st['kvs']]
        self.act = [[tuple(t) for t in l] for l in st['act']]
        self.deact = [[tuple(t) for t in l] for l in st['deact']]
        self.numdofs = st['numdofs']
        self.nd = [tuple(len(kv) - p - 1 for kv, p in zip(lvl, self.p)) for lvl in self.kvs]
        self._P = {}

    def P1(self, l, d):
        if (l, d) not in self._P:
            M = prolong_exact(self.kvs[l][d], self.kvs[l + 1][d], self.p[d])
            cols = []
            for i in range(len(M[0])):
                cols.append([(j, M[j][i]) for j in range(len(M)) if M[j][i] != 0])
            self._P[(l, d)] = cols
        return self._P[(l, d)]

    def prolong(self, l, vec):
        for d in range(self.dim):
            cols = self.P1(l, d)
            new = {}
            for J, v in vec.items():
                for (r, w) in cols[J[d]]:
                    K = J[:d] + (r,) + J[d + 1:]
                    new[K] = new.get(K, 0) + v * w
            vec = new
        return vec

    def prolong_to(self, l, K, vec):
        for k in range(l, K):
            vec = self.prolong(k, vec)
        return vec

    def dofs(self, lv):
        """canonical dofs of the virtual level lv (lv = L-1: the space itself): (level, multi-index)"""
        out = []
        for l in range(lv + 1):
            out += [(l, J) for J in self.act[l]]
        out += [(lv, J) for J in self.deact[lv]]
        return out

    def rep(self, lv, trunc):
        """exact representation of every basis function of virtual level lv in the level-lv
        tensor-product basis: list of dicts (one per dof, canonical order)."""
        Z = [set(self.act[k]) | set(self.deact[k]) for k in range(self.L)]
        cols = []
        for (l, J) in self.dofs(lv):
            vec = {J: F(1)}
            for k in range(l, lv):
                vec = self.prolong(k, vec)
                if trunc:
                    vec = {K: v for K, v in vec.items() if K not in Z[k + 1]}
            cols.append(vec)
        return cols

    def ravel(self, l, J):
        r = 0
        for n, j in zip(self.nd[l], J):
            r = r * n + j
        return r


def comb(cols, coeffs):
    """sum_r coeffs[r] * cols[r] for a sparse {r: coeff}"""
    out = {}
    for r, c in coeffs.items():
        for K, v in cols[r].items():
            out[K] = out.get(K, 0) + c * v
    return out


def maxdiff(a, b):
    m = F(0)
    for K in set(a) | set(b):
        d = abs(a.get(K, 0) - b.get(K, 0))
        if d > m:
            m = d
    return m


def mat_cols(t):
    """triplets -> list of {row: Fraction} per column"""
    cols = [dict() for _ in range(t['shape'][1])]
    for i, j, v in t['ijv']:
        cols[j][i] = cols[j].get(i, 0) + F(v)
    return cols


def is_err(x):
    return isinstance(x, dict) and 'error' in x


def check_hier(c, r):
    """Returns a list of (signature-part, text, extra)."""
    bad = []
    if r['status'] != 'Ok':
        return [('refine-raises-' + r['status'], 'building the spaces raised %s: %s' % (r['status'], r.get('msg')), {})]
    sp = Sp(r['hs'])
    fine = Sp(r['fine'])
    L = sp.L
    dispname = 'inf' if c['disparity'] is None else str(c['disparity'])
    reps = {}

    def rep(lv, tr):
        if (lv, tr) not in reps:
            reps[(lv, tr)] = sp.rep(lv, tr)
        return reps[(lv, tr)]

    # -- represent_fine(lv, truncate) for every virtual level, both bases
    for tr in (False, True):
        key = 'rf_%d' % tr
        if is_err(r[key]):
            bad.append(('represent_fine-raises-' + r[key]['error'], 'represent_fine raised: ' + r[key]['msg'], {}))
            continue
        for lv in range(L):
            t = r[key][lv]
            exp = rep(lv, tr)
            N = 1
            for n in sp.nd[lv]:
                N *= n
            if t['shape'] != [N, len(exp)]:
                bad.append(('represent_fine-shape', 'represent_fine(lv=%d) has shape %s, expected %s' % (lv, t['shape'], [N, len(exp)]), {}))
                continue
            cols = mat_cols(t)
            for k, e in enumerate(exp):
                e2 = {sp.ravel(lv, K): v for K, v in e.items()}
                d = maxdiff(cols[k], e2)
                if d > H_TOL:
                    bad.append(('represent_fine:%s:lv%s' % ('thb' if tr else 'hb', 'last' if lv == L - 1 else 'virtual'),
                                'represent_fine(lv=%d, truncate=%s): column %d differs from the exact representation by %s' % (lv, tr, k, float(d)), {}))
                    break
    # rows= variants of represent_fine on the finest level
    tr0 = c['truncate']
    if not is_err(r['rf_rows']) and not is_err(r['rf_rows_restrict']) and not is_err(r['rf_%d' % tr0]):
        rows = r['rf_rows_used']
        full = mat_cols(r['rf_%d' % tr0][L - 1])
        part = mat_cols(r['rf_rows'])
        rest = mat_cols(r['rf_rows_restrict'])
        pos = {row: k for k, row in enumerate(rows)}
        for k in range(len(full)):
            e1 = {i: v for i, v in full[k].items() if i in pos}
            e2 = {pos[i]: v for i, v in full[k].items() if i in pos}
            # the two routes (full Kronecker product / partial rows) round differently: tolerance, not equality
            if maxdiff(part[k], e1) > H_TOL or maxdiff(rest[k], e2) > H_TOL:
                bad.append(('represent_fine-rows', 'represent_fine(rows=..., restrict=False/True) is not the row selection of the full matrix (column %d)' % k, {'rows': rows}))
                break
    elif is_err(r['rf_rows']) or is_err(r['rf_rows_restrict']):
        e = r['rf_rows'] if is_err(r['rf_rows']) else r['rf_rows_restrict']
        bad.append(('represent_fine-rows-raises-' + e['error'], 'represent_fine(rows=...) raised: ' + e['msg'], {}))
    if not is_err(r['rf_default']) and not is_err(r['rf_%d' % tr0]):
        if mat_cols(r['rf_default']) != mat_cols(r['rf_%d' % tr0][L - 1]):
            bad.append(('represent_fine-default', 'represent_fine() differs from represent_fine(lv=last, truncate=self.truncate)', {}))

    # -- virtual hierarchy prolongators, per level and composed from level 0
    for tr, key in ((False, 'vh_hb'), (True, 'vh_thb')):
        Ps = r[key]
        name = 'thb' if tr else 'hb'
        if is_err(Ps):
            bad.append(('vh-raises-%s:%s' % (Ps['error'], name), 'virtual_hierarchy_prolongators raised: ' + Ps['msg'], {}))
            continue
        if len(Ps) != L - 1:
            bad.append(('vh-count', 'virtual_hierarchy_prolongators returned %d matrices for %d levels' % (len(Ps), L), {}))
            continue
        okshape = True
        for lv in range(L - 1):
            if Ps[lv]['shape'] != [len(sp.dofs(lv + 1)), len(sp.dofs(lv))]:
                bad.append(('vh-shape:' + name, 'prolongator %d has shape %s, expected %s' % (lv, Ps[lv]['shape'], [len(sp.dofs(lv + 1)), len(sp.dofs(lv))]), {}))
                okshape = False
        if not okshape:
            continue
        first_bad = None
        for lv in range(L - 1):
            cols = mat_cols(Ps[lv])
            src = rep(lv, tr)
            dst = rep(lv + 1, tr)
            for k in range(len(src)):
                lhs = sp.prolong(lv, src[k])
                rhs = comb(dst, cols[k])
                d = maxdiff(lhs, rhs)
                if d > H_TOL:
                    first_bad = (lv, k, d)
                    break
            if first_bad:
                break
        if first_bad:
            lv, k, d = first_bad
            bad.append(('vh-level:%s:levels%s' % (name, '2' if L == 2 else '>=3'),
                        '%s virtual_hierarchy_prolongators()[%d]: function %d of virtual level %d is not reproduced on level %d (max coefficient error %s, %d levels)' % (
                            name.upper(), lv, k, lv, lv + 1, float(d), L), {'level': lv, 'column': k, 'error': float(d)}))
        # composition of all of them: level-0 tensor-product coefficients -> coefficients in the full space
        comp = [{k: F(1)} for k in range(len(sp.dofs(0)))]
        for lv in range(L - 1):
            cols = mat_cols(Ps[lv])
            comp = [comb(cols, v) for v in comp]
        dst = rep(L - 1, tr)
        dofs0 = sp.dofs(0)
        for k, v in enumerate(comp):
            lhs = sp.prolong_to(0, L - 1, {dofs0[k][1]: F(1)})
            d = maxdiff(lhs, comb(dst, v))
            if d > H_TOL * L:
                bad.append(('vh-compose:%s:levels%s' % (name, '2' if L == 2 else '>=3'),
                            'composition of all %s virtual-hierarchy prolongators maps level-0 function %d to a different function (max coefficient error %s, %d levels)' % (
                                name.upper(), k, float(d), L), {'column': k, 'error': float(d)}))
                break
    if not is_err(r['vh_default']) and not is_err(r['vh_thb' if tr0 else 'vh_hb']):
        if [mat_cols(t) for t in r['vh_default']] != [mat_cols(t) for t in r['vh_thb' if tr0 else 'vh_hb']]:
            bad.append(('vh-default', 'virtual_hierarchy_prolongators() differs from (truncate=self.truncate)', {}))

    # -- prolongate_to(fine) on HB coefficients
    pt = r['pt']
    gap = fine.L - L
    if is_err(pt):
        bad.append(('prolongate_to-raises-%s' % pt['error'], 'prolongate_to raised: ' + pt['msg'], {}))
    elif pt['shape'] != [fine.numdofs, sp.numdofs]:
        bad.append(('prolongate_to-shape', 'prolongate_to has shape %s, expected %s' % (pt['shape'], [fine.numdofs, sp.numdofs]), {}))
    else:
        cols = mat_cols(pt)
        src = rep(L - 1, False)
        dst = fine.rep(fine.L - 1, False)
        for k in range(len(src)):
            lhs = fine.prolong_to(L - 1, fine.L - 1, src[k])
            d = maxdiff(lhs, comb(dst, cols[k]))
            if d > H_TOL * fine.L:
                lvl = sp.dofs(L - 1)[k][0]
                bad.append(('prolongate_to:disparity-%s' % dispname,
                            'prolongate_to(fine): coarse function %d (level %d) is mapped to a different function (max coefficient error %s; coarse %d levels, fine %d levels, disparity %s)' % (
                                k, lvl, float(d), L, fine.L, dispname), {'column': k, 'error': float(d)}))
                break

    # -- chain hs -> fine -> fine2 (caches of fine are warm when it is copied and refined)
    ch = r.get('chain')
    if ch is not None:
        if is_err(ch):
            bad.append(('chain-raises-%s' % ch['error'], 'chain fine -> fine2 raised: ' + ch['msg'], {}))
        else:
            f2 = Sp(ch['hs'])

            def check_pt(csp, t, label):
                if t['shape'] != [f2.numdofs, csp.numdofs]:
                    return ('prolongate_to-shape:' + label, 'prolongate_to (%s) has shape %s, expected %s' % (label, t['shape'], [f2.numdofs, csp.numdofs]), {})
                cols = mat_cols(t)
                src = csp.rep(csp.L - 1, False)
                dst = f2.rep(f2.L - 1, False)
                for k in range(len(src)):
                    lhs = f2.prolong_to(csp.L - 1, f2.L - 1, src[k])
                    d = maxdiff(lhs, comb(dst, cols[k]))
                    if d > H_TOL * f2.L:
                        return ('prolongate_to-chain:%s' % label,
                                'prolongate_to (%s, index caches warm): coarse function %d is mapped to a different function (max coefficient error %s; %d -> %d levels, disparity %s)' % (
                                    label, k, float(d), csp.L, f2.L, dispname), {'column': k, 'error': float(d), 'chain_marks': ch['used']})
                return None
            for t, csp, label in ((ch['pt12'], fine, 'fine->fine2'), (ch['pt02'], sp, 'coarse->fine2'), (ch['pt_inplace'], fine, 'refined-in-place')):
                b = check_pt(csp, t, label)
                if b:
                    bad.append(b)
            N = 1
            for n in f2.nd[f2.L - 1]:
                N *= n
            exp = f2.rep(f2.L - 1, False)
            if ch['rf']['shape'] != [N, len(exp)]:
                bad.append(('represent_fine-shape:chain', 'represent_fine of the refined copy has shape %s, expected %s' % (ch['rf']['shape'], [N, len(exp)]), {}))
            else:
                cols = mat_cols(ch['rf'])
                for k, e in enumerate(exp):
                    if maxdiff(cols[k], {f2.ravel(f2.L - 1, K): v for K, v in e.items()}) > H_TOL:
                        bad.append(('represent_fine:chain', 'represent_fine of the refined copy: column %d differs from the exact representation' % k, {}))
                        break

    # -- thb_to_hb / hb_to_thb are mutually inverse changes of basis of the same functions
    if not is_err(r['thb_to_hb']) and not is_err(r['hb_to_thb']):
        T = mat_cols(r['thb_to_hb'])
        hb, thb = rep(L - 1, False), rep(L - 1, True)
        for k in range(len(T)):
            d = maxdiff(thb[k], comb(hb, T[k]))
            if d > H_TOL * L:
                bad.append(('thb_to_hb', 'thb_to_hb column %d does not express THB function %d in the HB basis (error %s)' % (k, k, float(d)), {}))
                break
        Ti = mat_cols(r['hb_to_thb'])
        for k in range(len(Ti)):
            d = maxdiff(hb[k], comb(thb, Ti[k]))
            if d > H_TOL * L:
                bad.append(('hb_to_thb', 'hb_to_thb column %d does not express HB function %d in the THB basis (error %s)' % (k, k, float(d)), {}))
                break

    # -- level-wise evaluation = evaluation of the finest tensor-product representation
    u = [F(x) for x in r['u']]
    cmax = max([abs(x) for x in u] + [1])
    grid = c['_grid']
    kvL = sp.kvs[L - 1]
    hmin = min(min(b - a for a, b in zip(kv, kv[1:]) if b > a) for kv in kvL)
    pmax = max(sp.p)
    tabs = [[basis_table(kvL[d], sp.p[d], x, 2) for x in grid[d]] for d in range(sp.dim)]
    for tr in (False, True):
        ev = r['eval_%d' % tr]
        name = 'thb' if tr else 'hb'
        if is_err(ev):
            bad.append(('eval-raises-%s' % ev['error'], 'HSplineFunc evaluation raised: ' + ev['msg'], {}))
            continue
        w = comb(rep(L - 1, tr), {k: x for k, x in enumerate(u) if x != 0})

        def value(idx, D):
            s = F(0)
            for K, v in w.items():
                t = v
                for d in range(sp.dim):
                    t *= tabs[d][idx[d]][D[d]][K[d]]
                    if t == 0:
                        break
                s += t
            return s
        shape = [len(g) for g in grid]
        idxs = list(itertools.product(*[range(n) for n in shape]))
        dim = sp.dim

        def bnd(k):
            return H_TOL * 8 * cmax * (F(2 * pmax) / hmin) ** k
        # values
        for route in ('grid_eval', 'hs_grid_eval'):
            got = ev[route]
            if len(got) != len(idxs):
                bad.append(('eval-shape', '%s returned %d values for a grid of %d points' % (route, len(got), len(idxs)), {}))
                continue
            for n, idx in enumerate(idxs):
                if abs(F(got[n]) - value(idx, [0] * dim)) > bnd(0):
                    bad.append(('eval:%s:%s' % (route, name), '%s (truncate=%s) differs from the finest-level tensor-product representation at grid index %s: %s vs %s' % (
                        route, tr, idx, got[n], float(value(idx, [0] * dim))), {}))
                    break
        got = ev['grid_jacobian']
        if len(got) != len(idxs) * dim:
            bad.append(('eval-shape', 'grid_jacobian returned %d numbers' % len(got), {}))
        else:
            done = False
            for n, idx in enumerate(idxs):
                for ci, ax in enumerate(reversed(range(dim))):      # x-component (last axis) first
                    D = [0] * dim
                    D[ax] = 1
                    if abs(F(got[n * dim + ci]) - value(idx, D)) > bnd(1):
                        bad.append(('eval:grid_jacobian:%s' % name, 'grid_jacobian (truncate=%s) component %d differs at grid index %s: %s vs %s' % (
                            tr, ci, idx, got[n * dim + ci], float(value(idx, D))), {}))
                        done = True
                        break
                if done:
                    break
        got = ev['grid_hessian']
        nh = dim * (dim + 1) // 2
        if len(got) != len(idxs) * nh:
            bad.append(('eval-shape', 'grid_hessian returned %d numbers' % len(got), {}))
        else:
            pairs = [(i, j) for i in reversed(range(dim)) for j in reversed(range(i + 1))]
            done = False
            for n, idx in enumerate(idxs):
                for ci, (i, j) in enumerate(pairs):
                    D = [0] * dim
                    D[i] += 1
                    D[j] += 1
                    if abs(F(got[n * nh + ci]) - value(idx, D)) > bnd(2):
                        bad.append(('eval:grid_hessian:%s' % name, 'grid_hessian (truncate=%s) component %d differs at grid index %s: %s vs %s' % (
                            tr, ci, idx, got[n * nh + ci], float(value(idx, D))), {}))
                        done = True
                        break
                if done:
                    break
        # single points
        for pt, got1 in zip(c['_points'], ev['call']):
            idx = [grid[d].index(pt[d]) for d in range(dim)]
            if abs(F(got1) - value(idx, [0] * dim)) > bnd(0):
                bad.append(('eval:call:%s' % name, '__call__ (truncate=%s) at %s gives %s, finest-level representation gives %s' % (
                    tr, [float(x) for x in pt], got1, float(value(idx, [0] * dim))), {}))
                break
    if r['default_truncate'] != c['truncate']:
        bad.append(('eval-default-basis', 'HSplineFunc(hs, u) does not take the basis from hs.truncate', {}))

    # -- boundary restriction
    for b in r['bd']:
        ax, side = b['bdspec']
        if is_err(b['res']):
            bad.append(('boundary-raises-%s' % b['res']['error'], 'boundary(%s) raised: %s' % (b['bdspec'], b['res']['msg']), {'bdspec': b['bdspec']}))
            continue
        bs = Sp(b['res']['hs'])
        mp = b['res']['map']
        canon = {d: k for k, d in enumerate(sp.dofs(L - 1))}
        exp_map = []
        ok = True
        for l in range(L):
            bidx = 0 if side == 0 else sp.nd[l][ax] - 1
            exp = sorted(J[:ax] + J[ax + 1:] for J in sp.act[l] if J[ax] == bidx)
            have = bs.act[l] if l < bs.L else []
            if exp != have:
                bad.append(('boundary-functions', 'boundary(%s): level %d boundary functions are not the traces of the active functions on the face' % (b['bdspec'], l), {'bdspec': b['bdspec']}))
                ok = False
                break
            if l < bs.L and bs.kvs[l] != sp.kvs[l][:ax] + sp.kvs[l][ax + 1:]:
                bad.append(('boundary-kvs', 'boundary(%s): knot vectors of level %d are not those of the face' % (b['bdspec'], l), {'bdspec': b['bdspec']}))
                ok = False
                break
            exp_map += [canon[(l, J[:ax] + (bidx,) + J[ax:])] for J in exp]
        if not ok:
            continue
        if mp != exp_map:
            bad.append(('boundary-map', 'boundary(%s): index map %s, but function k of the boundary space is the trace of function %s' % (b['bdspec'], mp[:12], exp_map[:12]), {'bdspec': b['bdspec']}))
            continue
        # traces of the (truncated) parent functions = (truncated) boundary functions, on the finest level
        for tr in (False, True):
            par = rep(L - 1, tr)
            bidx = 0 if side == 0 else sp.nd[L - 1][ax] - 1
            own = bs.rep(bs.L - 1, tr)
            for k in range(len(own)):
                o = own[k]
                if bs.L < L:
                    lvl_kvs = [sp.kvs[l][:ax] + sp.kvs[l][ax + 1:] for l in range(L)]
                    tmp = Sp.__new__(Sp)
                    tmp.dim, tmp.p, tmp.kvs, tmp._P = bs.dim, bs.p, lvl_kvs, {}
                    o = tmp.prolong_to(bs.L - 1, L - 1, o)
                t = {K[:ax] + K[ax + 1:]: v for K, v in par[mp[k]].items() if K[ax] == bidx}
                if maxdiff(o, t) != 0:
                    bad.append(('boundary-trace:%s' % ('thb' if tr else 'hb'), 'boundary(%s): %s function %d of the boundary space is not the trace of function %d' % (
                        b['bdspec'], 'THB' if tr else 'HB', k, mp[k]), {'bdspec': b['bdspec']}))
                    break
    return bad


# ---------------------------------------------------------------------------
# Coq case files
# ---------------------------------------------------------------------------

HEADER = '''From Coq Require Import QArith Qcanon ZArith List Bool.
From Verif.lib Require Import Bsp.
From Verif.C05 Require Import Model.
Import ListNotations.
Definition q (n : Z) (d : positive) : Qc := Q2Qc (n # d).
'''


def cqc(x):
    x = F(x)
    return '(q (%d) %d)' % (x.numerator, x.denominator)


def sample_points(kv2, p, rng, npts):
    br = sorted(set(kv2))
    pts = [br[0], br[-1]]
    if len(br) > 2:
        pts.append(rng.choice(br[1:-1]))
    while len(pts) < npts:
        i = rng.randrange(len(br) - 1)
        pts.append(br[i] + (br[i + 1] - br[i]) * F(rng.randint(1, 15), 16))
    return pts[:npts]


def coq_ki(c, r, rng):
    p = c['p']
    kv, u = c['_kv'], c['_u']
    xs = sample_points(sorted(kv + [u]), p, rng, 4 if p <= 4 else 2)
    impl = clist([clist([fr(x) for x in row], cqc) for row in r['P']])
    return 'check_ki %s %d%%nat %s %d%%nat %s %s %s' % (
        clist(kv, cqc), p, cqc(u), r['k'], impl, cqc(KI_BOUND), clist(xs, cqc))


def coq_prol(c, r, bound, rng):
    p = c['p']
    kv1, kv2 = c['_kv1'], c['_kv2']
    us = multiset_diff(kv2, kv1)
    xs = sample_points(kv2, p, rng, 3 if p <= 4 else 2)
    impl = clist([clist([fr(x) for x in row], cqc) for row in r['P']])
    return 'check_prol %s %d%%nat %s %s %s %s %s' % (
        clist(kv1, cqc), p, clist(us, cqc), clist(kv2, cqc), impl, cqc(bound), clist(xs, cqc))


def coq_bridge(c, r, bound):
    """dyadic case (kv2 = kv1.refine()): hypotheses of dyadic_child_pattern_midpoints hold on this input and the
    non-zero entries of the exact product / the implementation's entries beyond the float bound lie in C04's child pattern"""
    impl = clist([clist([fr(x) for x in row], cqc) for row in r['P']])
    return 'check_bridge %s %d%%nat %s %s %s %s %s' % (
        clist(c['_kv1'], cqc), c['p'], clist(c['_b'], cqc), '[' + '; '.join('%d%%nat' % m for m in c['_mults']) + ']',
        clist(c['_kv2'], cqc), impl, cqc(bound))


def strip(c):
    return {k: v for k, v in c.items() if not k.startswith('_')}


def run(ctx):
    ctx.obligations_stage(PROPS, extra_targets=['C05/Examples.vo', 'C05/HierEx.vo', 'C05/HierEx2.vo'], gate_dirs=['C02'])
    ctx.obligations_stage('C05/Props3.v', extra_targets=['C05/Examples3.vo'], gate_dirs=['C02', 'C04', 'C07'])
    ctx.assumptions += [
        'model: hand transcription of bspline.knot_insertion (the three loops over a lil_matrix, bspline.py:714-736) into Gallina over Qc '
        '(coq/C05/Model.v); prolongation(kv1,kv2) is SPECIFIED as the product of the single insertions of kv2 minus kv1 '
        '(the implementation obtains it from a Greville collocation solve, bspline.py:692-712)',
        'reference: Cox-de Boor recursion Nref of coq/lib/Bsp.v (x/0 = 0, last non-empty span closed at the right end)',
        'float tie: knot_insertion entries within 2^-51 of the model (two roundings); prolongation entries within '
        '1e-15 + (8 n2 + 16(p+1)) eps cond_inf(C_greville) + 64(p+1) eps; findspan index exactly',
        'hierarchical conjuncts: proved over an abstract multilevel basis with a two-scale relation (instantiated for tensor-product '
        'B-splines in any dimension by the Kronecker lifting of prolongation_preserves): represent_fine (HB), level-wise evaluation (HB; THB for two levels), '
        'HB virtual-hierarchy prolongators per level and composed, repaired THB composition (given the inverse change of basis), the propagation of the repaired prolongate_to; '
        'the children-closed property of deactivated functions is an explicit hypothesis; the matrix index bookkeeping, multi-level THB and the boundary restriction '
        'are covered by the exact Fraction oracle on the implementation only, matrix entries within 2^-23',
        'model tie for the hierarchical part: Phb / Pthb_old of coq/C05/Hier.v against virtual_hierarchy_prolongators of /repo on the three-level hierarchy of coq/C05/HierEx.v (entries within 2^-40)',
        'not covered: scipy.sparse.linalg.spsolve inside prolongation; numpy/scipy sparse algebra inside hierarchical.py',
    ]
    rng = ctx.rng
    ki = gen_ki_cases(ctx)
    prol = gen_prol_cases(ctx)
    hier = gen_hier_cases(ctx)
    log('[C05] %d knot insertions, %d prolongations, %d hierarchical histories' % (len(ki), len(prol), len(hier)))
    from concurrent.futures import ThreadPoolExecutor
    ctx.impl.build()
    env1 = {'OMP_NUM_THREADS': '1', 'OPENBLAS_NUM_THREADS': '1', 'MKL_NUM_THREADS': '1'}
    B = max(6, (len(hier) + 7) // 8)
    payloads = [[strip(c) for c in hier[i:i + B]] for i in range(0, len(hier), B)]
    ex = ThreadPoolExecutor(max_workers=10)
    fut1 = ex.submit(lambda: ctx.impl.run('harness/impl/c05_driver.py', {'ki': [strip(c) for c in ki], 'prol': [strip(c) for c in prol]},
                                          timeout=3000, extra_env=env1))
    futh = [ex.submit(lambda pl=pl: ctx.impl.run('harness/impl/c05_driver.py', {'hier': pl}, timeout=6000, extra_env=env1)) for pl in payloads]
    import time as _t
    t0 = _t.time()
    res = fut1.result()
    rki, rprol = res['ki'], res['prol']
    log('[C05] 1-D driver done after %.0fs' % (_t.time() - t0))
    dist = {'ki_kind': {}, 'ki_p': {}, 'prol_kind': {}, 'prol_p': {}, 'hier': {}}
    nfail = 0
    # ---- stage 3 (always): the property on the implementation ------------------------------
    for c, r in zip(ki, rki):
        ctx.count(('ki', c['kv'], c['p'], c['u']))
        dist['ki_kind'][c['kind']] = dist['ki_kind'].get(c['kind'], 0) + 1
        dist['ki_p'][c['p']] = dist['ki_p'].get(c['p'], 0) + 1
        bad = check_ki_impl(c, r)
        if bad:
            nfail += 1
            ctx.report('impl:knot_insertion:%s:%s' % (bad[0], c['kind']), bad[1],
                       {'p': c['p'], 'kv': [float(x) for x in c['_kv']], 'u': float(c['_u']),
                        'how': 'P = bspline.knot_insertion(bspline.KnotVector(np.array(kv), p), u); compare N_old_i(x) with sum_j P[j,i] N_new_j(x), new knots = sorted(kv + [u])'})
    bounds = []
    for c, r in zip(prol, rprol):
        ctx.count(('prol', c['kv1'], c['kv2'], c['p']))
        dist['prol_kind'][c['kind']] = dist['prol_kind'].get(c['kind'], 0) + 1
        dist['prol_p'][c['p']] = dist['prol_p'].get(c['p'], 0) + 1
        n2 = len(c['_kv2']) - c['p'] - 1
        cond = cond_inf_greville(c['_kv2'], c['p'])
        bound = prol_bound(n2, c['p'], math.ceil(min(cond, 1e12)))
        bounds.append(bound)
        bad = check_prol_impl(c, r, bound)
        if bad:
            nfail += 1
            ctx.report('impl:prolongation:%s:%s' % (bad[0], c['kind']), bad[1],
                       {'p': c['p'], 'kv1': [float(x) for x in c['_kv1']], 'kv2': [float(x) for x in c['_kv2']],
                        'bound': float(bound),
                        'how': 'P = bspline.prolongation(KnotVector(kv1,p), KnotVector(kv2,p)); compare N1_i(x) with sum_j P[j,i] N2_j(x)'})
    log('[C05] 1-D oracle done after %.0fs' % (_t.time() - t0))
    rh = []
    for f in futh:
        rh += f.result()['hier']
    ex.shutdown()
    log('[C05] hierarchical drivers done after %.0fs' % (_t.time() - t0))
    nh = 0
    for c, r in zip(hier, rh):
        key = (c['dim'], tuple(c['p']), c['truncate'], c['disparity'])
        ctx.count(('hier', c['kvs'], c['p'], c['steps'], c['fine_steps'], c['truncate'], c['disparity']),
                  nontrivial=r.get('status') == 'Ok' and r['hs']['L'] >= 2)
        if r.get('status') == 'Ok':
            k2 = 'dim%d:L%d:%s:disp%s' % (c['dim'], r['hs']['L'], 'thb' if c['truncate'] else 'hb', c['disparity'])
            dist['hier'][k2] = dist['hier'].get(k2, 0) + 1
        for (sig, text, extra) in check_hier(c, r):
            nfail += 1
            rep = dict(strip(c))
            rep.pop('coeffs', None)
            rep.update(extra)
            rep['used_marks'] = r.get('used')
            rep['used_marks_fine'] = r.get('used_fine')
            rep['how'] = ('hs = HSpace(kvs (KnotVector(np.array(map(float.fromhex, kv)), p) per axis), truncate, disparity); every step (lv, box): '
                          'hs.refine({lv: active cells of level lv whose centre lies in box}); fine = hs.copy() + fine_steps; see harness/impl/c05_driver.py')
            ctx.report('impl:' + sig, text, rep)
        nh += 1
    log('[C05] hierarchical oracle done after %.0fs' % (_t.time() - t0))
    ctx.cov['traces_validated_against_impl'] = len(ki) + len(prol) + nh
    ctx.cov['property_failures_on_impl'] = nfail

    # ---- stage 2: correspondence with the exact model (case files) --------------------------
    files, index = [], []
    PER = 6
    okki = [(c, r) for c, r in zip(ki, rki) if r['status'] == 'Ok' and r['shape'] == [len(c['_kv']) - c['p'], len(c['_kv']) - c['p'] - 1]]
    for n, i in enumerate(range(0, len(okki), PER)):
        chunk = okki[i:i + PER]
        body = HEADER + 'Definition results := [\n' + ';\n'.join(coq_ki(c, r, rng) for c, r in chunk) + '].\n'
        body += 'Eval vm_compute in bad_cases 0 results.\n'
        files.append(('C05_ki_%03d' % n, body))
        index.append(('ki', chunk))
    okprol = [(c, r, b) for c, r, b in zip(prol, rprol, bounds) if r['status'] == 'Ok' and
              r['shape'] == [len(c['_kv2']) - c['p'] - 1, len(c['_kv1']) - c['p'] - 1]]
    for n, i in enumerate(range(0, len(okprol), 3)):
        chunk = okprol[i:i + 3]
        body = HEADER + 'Definition results := [\n' + ';\n'.join(coq_prol(c, r, b, rng) for c, r, b in chunk) + '].\n'
        body += 'Eval vm_compute in bad_cases 0 results.\n'
        files.append(('C05_prol_%03d' % n, body))
        index.append(('prol', chunk))
    # bridge C05 <-> C04 (coq/C05/Bridge.v): every dyadic prolongation case
    okbridge = [(c, r, b) for c, r, b in okprol if c['refine']]
    for n, i in enumerate(range(0, len(okbridge), 4)):
        chunk = okbridge[i:i + 4]
        body = (HEADER + 'From Verif.C05 Require Import Bridge.\n' + 'Definition results := [\n'
                + ';\n'.join(coq_bridge(c, r, b) for c, r, b in chunk) + '].\nEval vm_compute in bad_cases 0 results.\n')
        files.append(('C05_bridge_%03d' % n, body))
        index.append(('bridge', chunk))
        for c, r, b in chunk:
            ctx.count('bridge_child_pattern', nontrivial=len(c['_b']) > 2)
    # the hierarchy of coq/C05/HierEx.v (witness of vh_prolongators_thb_old_refuted) is the first corpus
    # history: the implementation's THB prolongator [1] must be the model's Pthb_old entry by entry
    r0 = rh[0] if rh else None
    if r0 and r0.get('status') == 'Ok' and not is_err(r0['vh_thb']) and not is_err(r0['vh_hb']):
        st = r0['hs']
        same = (st['act'] == [[[2], [3], [4], [5]], [[2], [3]], [[0], [1], [2], [3]]] and st['deact'] == [[[0], [1]], [[0], [1]], []]
                and st['kvs'][0][0] == [0.0, 0.0, 0.0, 1.0, 2.0, 3.0, 4.0, 4.0, 4.0])
        if not same:
            ctx.broken.append('the first corpus history no longer produces the hierarchy of coq/C05/HierEx.v')
        else:
            def dense(t):
                M = [[F(0)] * t['shape'][1] for _ in range(t['shape'][0])]
                for i, j, v in t['ijv']:
                    M[i][j] += F(v)
                return clist([clist(row, cqc) for row in M])
            body = ('From Coq Require Import QArith Qcanon ZArith List Bool.\nFrom Verif.lib Require Import Bsp.\n'
                    'From Verif.C05 Require Import Model Hier HierEx.\nImport ListNotations.\n'
                    'Definition agree (k : nat) (M : nat -> dof -> dof -> Qc) (impl : list (list Qc)) : bool :=\n'
                    '  forallb (fun a => forallb (fun b => close (q 1 1099511627776)\n'
                    '     (nth b (nth a impl []) 0) (M k (nth a (dofsV exact exdeact (S k)) (0,0)%%nat) (nth b (dofsV exact exdeact k) (0,0)%%nat)))\n'
                    '     (seq 0 (length (dofsV exact exdeact k)))) (seq 0 (length (dofsV exact exdeact (S k)))).\n'
                    'Definition results := [agree 0 (Pthb_old exn exP exact exdeact) %s; agree 1 (Pthb_old exn exP exact exdeact) %s;\n'
                    '  agree 0 (Phb exP exact exdeact) %s; agree 1 (Phb exP exact exdeact) %s].\n'
                    'Eval vm_compute in bad_cases 0 results.\n') % (
                        dense(r0['vh_thb'][0]), dense(r0['vh_thb'][1]), dense(r0['vh_hb'][0]), dense(r0['vh_hb'][1]))
            files.append(('C05_vhmodel', body))
            index.append(('vhmodel', None))
    # self-test of the differ: a deliberately perturbed implementation matrix must be flagged
    if okki:
        c, r = okki[0]
        r2 = dict(r)
        P = [list(row) for row in r['P']]
        k = r['k']
        P[k][k] = (float.fromhex(P[k][k]) + 2.0 ** -40).hex()
        r2['P'] = P
        body = HEADER + 'Definition results := [\n' + coq_ki(c, r2, rng) + '].\nEval vm_compute in bad_cases 0 results.\n'
        files.append(('C05_selftest', body))
        index.append(('selftest', None))
    dis = []
    for (name, ok, out), (kind, chunk) in zip(ctx.coq_eval_many(files, timeout=1500), index):
        ctx.obligations += 1
        badidx = parse_coq_list_of_nat(out) if ok else None
        if badidx is None:
            ctx.broken.append('case file %s did not evaluate: %s' % (name, out[-500:]))
            continue
        if kind == 'vhmodel':
            if badidx != []:
                ctx.broken.append('virtual_hierarchy_prolongators of /repo differ from the Coq model (Phb / Pthb_old) on the three-level witness: matrices %s' % badidx)
                ctx.report('tie:vh-model', 'virtual_hierarchy_prolongators (HB or THB) no longer equals the Coq model Phb / Pthb_old on the hierarchy of coq/C05/HierEx.v '
                           '(if the THB composition was repaired, vh_prolongators_thb_old_refuted no longer describes the code)',
                           {'history': strip(hier[0]), 'which': badidx}, found_input=False)
            else:
                ctx.discharged += 1
            continue
        if kind == 'selftest':
            if badidx != [0]:
                ctx.broken.append('differ self-test: a perturbed matrix was not flagged')
            else:
                ctx.discharged += 1
            continue
        ctx.discharged += 1
        dis += [(kind, chunk[b]) for b in badidx]
    log('[C05] case files done after %.0fs' % (_t.time() - t0))
    ctx.cov['disagreements_checked'] = len(dis)
    for kind, item in dis[:4]:
        c, r = item[0], item[1]
        if kind == 'bridge':
            ctx.broken.append('bridge C05<->C04: a dyadic prolongation has an entry outside the child pattern of coq/C04/Children.v, or the '
                              'hypotheses of dyadic_child_pattern_midpoints fail on a generated knot vector (p=%d)' % c['p'])
            ctx.report('tie:bridge-child-pattern',
                       'bspline.prolongation(kv, kv.refine()) has an entry beyond the float bound outside the children pattern phi(i) <= j <= phi(i+p+1)-(p+1) '
                       '(or the exact knot-insertion product has, contradicting dyadic_child_pattern_midpoints)',
                       {'p': c['p'], 'kv1': [float(x) for x in c['_kv1']], 'kv2': [float(x) for x in c['_kv2']], 'mults': c['_mults'], 'bound': float(item[2]),
                        'how': 'bspline.prolongation(KnotVector(kv1,p), KnotVector(kv2,p)).toarray() against check_bridge of coq/C05/Bridge.v'},
                       found_input=False)
            continue
        if kind == 'ki':
            bad = check_ki_impl(c, r)
            ctx.broken.append('correspondence C05 model<->impl differs for knot_insertion (p=%d, kind %s)' % (c['p'], c['kind']))
            ctx.report('tie:knot_insertion:%s' % c['kind'],
                       'bspline.knot_insertion differs from the exact model (span index or an entry beyond 2^-51)' + (': ' + bad[1] if bad else
                       ' (the function-preservation predicate still holds within tolerance on this input)'),
                       {'p': c['p'], 'kv': [float(x) for x in c['_kv']], 'u': float(c['_u']), 'impl_k': r['k'],
                        'impl_P': [[float.fromhex(x) for x in row] for row in r['P']],
                        'how': 'bspline.knot_insertion(KnotVector(kv,p), u).toarray() and kv.findspan(u) against coq/C05/Model.v knot_insertion'},
                       found_input=bool(bad))
        else:
            bad = check_prol_impl(c, r, item[2])
            ctx.broken.append('correspondence C05 model<->impl differs for prolongation (p=%d, kind %s)' % (c['p'], c['kind']))
            ctx.report('tie:prolongation:%s' % c['kind'],
                       'bspline.prolongation differs from the product of knot insertions beyond the bound' + (': ' + bad[1] if bad else ''),
                       {'p': c['p'], 'kv1': [float(x) for x in c['_kv1']], 'kv2': [float(x) for x in c['_kv2']], 'bound': float(item[2]),
                        'how': 'bspline.prolongation(KnotVector(kv1,p), KnotVector(kv2,p)).toarray() against coq/C05/Model.v prolongation_spec'},
                       found_input=bool(bad))
    ctx.cov['rule'] = ('1-D: open knot vectors (degree 0..8, 2..6 dyadic breakpoints, span ratios up to 2^10, interior multiplicities 1..p) x inserted knot '
                       '(span midpoint, random dyadic, existing interior knot, either end) resp. x nested refinement (uniform, random, raised multiplicities); '
                       'hierarchical: refinement histories (dim 1..3, p 1..4, disparity inf/1/2, HB and THB, 1..3 region refinements + 1..2 further ones for the fine space); '
                       'one evaluation = one (knot vector, knot) / (kv1, kv2) / history (all matrices and evaluation routes of that history)')
    ctx.cov['input_distribution'] = dist
    ctx.cov['exhaustive'] = False
    ctx.cov['bounds'] = {'knot_insertion': '2^-51', 'prolongation_max': float(max(bounds)) if bounds else None, 'hierarchical': '2^-23'}
    ctx.cov['partial'] = [                          'vh_prolongators_thb_repaired: rests on the hypothesis that H2 undoes T2 (product of truncate_one_level factors); code as it is: vh_prolongators_thb_old_refuted',
                          'prolongate_to_replaced_partial: propagation proved, canonical-index bookkeeping of the returned matrix not modelled',
                          'boundary_restriction: proved for the tensor-product (HB) functions of every level (coq/C05/Props3.v); the truncated functions of a THB boundary space and the set bookkeeping of boundary(): oracle only',
                          'reachable versions (vh_prolongators_hb_reachable, prolongate_to_replaced_reachable): children-closedness is C04.children_closed; remaining hypotheses: the non-zero pattern of the prolongator columns lies in the C04 children pattern (1-D: now dyadic_child_pattern, coq/C05/Props3.v; its Kronecker/raveling lifting is not proved), raveling injective and in range']
    if ki:
        ctx.sample({'knot_insertion': {'p': ki[0]['p'], 'kv': [float(x) for x in ki[0]['_kv']], 'u': float(ki[0]['_u']), 'impl_k': rki[0].get('k')}})
    if hier:
        ctx.sample({'history': {k: hier[0][k] for k in ('p', 'truncate', 'disparity', 'steps', 'fine_steps')}, 'levels': rh[0].get('hs', {}).get('L')})
    return ctx.finish()


META = {
    'technique': 'Rocq proof by induction on the degree over the Cox-de Boor reference (Boehm identity, x/0 = 0 convention handled) + composition by induction over the list of inserted knots; '
                 'exact-model correspondence for knot_insertion/prolongation; exact Fraction oracle for the hierarchical transfer matrices',
    'level_text': 'Theorems (Coq, unbounded, closed under the global context): knot_insertion_preserves (every well-formed open knot vector, every degree, every u in the domain incl. existing knots and end points, '
                  'every basis function, every point), knot_insertion_rows_sum_one, knot_insertion_nonneg, knot_insertion_entries (loops = closed form), refinement_wellformed, prolongation_preserves / _rows_sum_one / _nonneg '
                  '(any list of inserted knots), transfer_compose, transfer_coefficients. Tie: bspline.knot_insertion (span index exact, entries within 2^-51) and bspline.prolongation (within the stated cond-scaled bound) '
                  'against the Qc model in vm_compute case files. Hierarchical conjuncts (28 theorems in coq/C05/Props.v in all), over a multilevel basis with a two-scale relation that the Kronecker lifting '
                  '(tp_prolongation_preserves, tp_two_scale, any dimension) provides for tensor-product B-splines: represent_fine_hb, levelwise_eval_eq_fine (HB) and levelwise_eval_eq_fine_thb / '
                  'thb_to_hb_represent_fine (THB, any number of levels), vh_prolongators_hb (per level, composed, and _reachable on every C04-reachable HSpace state using C04.children_closed), '
                  'vh_prolongators_thb_repaired (conditional on the inverse change of basis), vh_prolongators_thb_old_refuted (three-level witness tied to /repo), prolongate_to_replaced_partial/_reachable. '
                  'Every hierarchical conjunct is additionally checked on the implementation by an independent exact oracle.',
    'level_note': 'Trusted: Coq kernel + vm_compute; transcription of knot_insertion; the specification of prolongation as a product of insertions; harness oracle (self-verified pointwise) and generators. '
                  'Not proved: matrix index bookkeeping of prolongate_to, THB on virtual levels / inverse change of basis for the repaired prolongators, boundary restriction, the link between the Qc knot vectors and the integer axes of C04 (pattern hypothesis); spsolve.',
}
