(* C07 -- ComposedFunction, _BoundaryFunction as a trace (any coordinate / value type), copy. *)
From Coq Require Import QArith Qcanon ZArith List Arith Bool Lia.
From Verif.lib Require Import Bsp.
From Verif.C07 Require Import Model Proofs.
Import ListNotations.
Open Scope Qc_scope.

(* ---- _BoundaryFunction ------------------------------------------------------------- *)

Lemma firstn_len_le {A} (l : list A) k : (k <= length l)%nat -> length (firstn k l) = k.
Proof. intros. rewrite firstn_length. lia. Qed.

Lemma insert_facts {A} : forall (l : list A) k v d, (k <= length l)%nat ->
  nth k (insert_at k v l) d = v /\ remove_at k (insert_at k v l) = l.
Proof.
  intros l k v d Hk. unfold insert_at, remove_at. split.
  - rewrite app_nth2 by (rewrite firstn_len_le; lia). rewrite firstn_len_le by lia.
    rewrite Nat.sub_diag. reflexivity.
  - rewrite firstn_app_len by (apply firstn_len_le; lia).
    rewrite skipn_app. rewrite skipn_all2 by (rewrite firstn_len_le; lia).
    rewrite firstn_len_le by lia. replace (S k - k)%nat with 1%nat by lia. simpl.
    apply firstn_skipn.
Qed.

(* For ANY function val of an xyz coordinate list (any coordinate type A, any value type B --
   splines, NURBS, callables, compositions): the boundary function evaluates val at the point whose
   xyz coordinate number len(x)-axis -- the coordinate of knot vector / support entry `axis` -- is the
   fixed one and whose other coordinates are x in order; __call__ and grid_eval reach the same point. *)
Lemma boundary_function_is_trace_l : forall (A B : Type) (val : list A -> B) axis (fixed d : A) xs,
  (axis <= length xs)%nat ->
  let k := (length xs - axis)%nat in
  let full := insert_at k fixed xs in
  bf_call val axis fixed xs = val full
  /\ bf_grid (fun u => val (rev u)) axis fixed (rev xs) = val full
  /\ nth k full d = fixed /\ remove_at k full = xs /\ length full = S (length xs).
Proof.
  intros A B val axis fixed d xs Ha k full. split; [reflexivity|]. split.
  - unfold bf_grid. rewrite <- (insert_rev xs fixed axis Ha). rewrite rev_involutive. reflexivity.
  - destruct (insert_facts xs k fixed d ltac:(unfold k; lia)) as [E1 E2].
    split; [exact E1|]. split; [exact E2|].
    unfold full, insert_at. rewrite app_length. cbn [length].
    rewrite firstn_length, skipn_length. unfold k. lia.
Qed.

(* ---- ComposedFunction ----------------------------------------------------------------- *)

(* value: geo2 evaluated (scattered-point route = __call__ route) at the point geo1(x);
   Jacobian row c: sum_a J2[c][a] J1[a][j] with J2 the grid Jacobian of geo2 AT geo1(x) and J1 that of geo1 at x *)
Lemma composed_routes_l : forall f2 f1 us c,
  Forall2 in_dom (kvs f2) (rev (comp_point f1 us)) ->
  comp_val f2 f1 us c = Some (call_val f2 (comp_point f1 us) c)
  /\ comp_jac f2 f1 us c
     = Some (map (fun j => rdot 0 (g_jac f2 (rev (comp_point f1 us)) c) (fun a => nth j (g_jac f1 us a) 0))
                 (seq 0 (sdim f1))).
Proof.
  intros f2 f1 us c H. split.
  - apply routes_agree_val_l. exact H.
  - unfold comp_jac. rewrite (routes_agree_jac_l f2 _ c H). reflexivity.
Qed.

(* ---- copy ----------------------------------------------------------------------------- *)

Lemma copy_spec_l : forall f us c,
  kvs (b_copy f) = kvs f /\ nc (b_copy f) = nc f /\ (forall idx, co (b_copy f) idx c = co f idx c)
  /\ g_val (b_copy f) us c = g_val f us c /\ n_val (b_copy f) us c = n_val f us c
  /\ g_jac (b_copy f) us c = g_jac f us c /\ g_hess (b_copy f) us c = g_hess f us c.
Proof. intros. repeat split; reflexivity. Qed.

(* ---- support of a boundary ------------------------------------------------------------------ *)

(* whichever route boundary() takes, the support of the result is the support of f (restricted or not)
   with the entry of the boundary's axis removed: restrictions along the REMAINING axes are kept *)
Lemma boundary_support_spec_l : forall ov f axis side,
  r_boundary_support ov f axis side = remove_at axis (support_of ov f).
Proof.
  intros [s|] f axis side; unfold r_boundary_support, remove_at; [reflexivity|].
  unfold support_of, boundary. cbn [kvs]. unfold remove_at. rewrite map_app, firstn_map, skipn_map. reflexivity.
Qed.

(* ---- UserFunction ---------------------------------------------------------------------------- *)

(* the three routes of a user-defined function agree (for any callable, coordinate and value types), and
   so do the routes of its boundary restriction *)
Lemma user_routes_agree_l : forall (A B : Type) (fn : list A -> B) xs axis fixed,
  u_pw fn xs = u_call fn xs /\ u_grid fn (rev xs) = u_call fn xs
  /\ ((axis <= length xs)%nat ->
      bf_call (u_call fn) axis fixed xs = bf_grid (u_grid fn) axis fixed (rev xs)).
Proof.
  intros A B fn xs axis fixed. split; [reflexivity|]. split.
  - unfold u_grid, u_call. rewrite rev_involutive. reflexivity.
  - intros Ha. unfold bf_call, bf_grid, u_grid, u_call. rewrite <- (insert_rev xs fixed axis Ha).
    rewrite rev_involutive. reflexivity.
Qed.
