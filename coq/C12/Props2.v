(* C12 -- property theorems, second file.  Each is closed by [exact] of a lemma of Proofs2.v and
   followed by Print Assumptions.  Reading guide as in Props.v.

   A. "so that y' = const is integrated exactly": every tableau with sum b = 1, on every code
      path of dirk_step (with and without the stiffly-accurate shortcut) and for rosenbrock_step.
   B. The drivers WITH their state (Model2.v): what every call of the step function receives --
      in particular the cached right-hand side Fx, which dirk_step uses as F(x) in an explicit
      first stage -- for every step function, every outcome sequence, accepted, rejected and failed
      attempts alike; and the stepper-driven adaptive loop refines the outcome-list model of
      Model.v, so that the theorems adaptive_driver_* of Props.v hold of it. *)
From Coq Require Import QArith List Ring_theory.
From Verif.C12 Require Import Model Model2 Proofs Proofs2.
Import ListNotations.
Open Scope nat_scope.

(* A1. dirk_step, any is_sa: a consistent tableau (sum b = 1) whose stage systems are solved exactly
   (all Newton residuals zero) integrates y' = M^-1 c exactly: M x_new = M x + tau c.  On the
   shortcut path the premise is the one the code tests (b is the last row of A). *)
Theorem dirk_const_rhs_exact :
  forall (R : Type) (rO rI : R) (radd rmul rsub : R -> R -> R) (ropp : R -> R),
  ring_theory rO rI radd rmul rsub ropp eq ->
  forall (isz : R -> bool) (M F Minv : R -> R) (solve : R -> R -> R -> R * R) (x tau : R) (Fx : option R),
  (forall a, isz a = true -> a = rO) ->
  (forall c rhs x0, snd (solve c rhs x0) = F (fst (solve c rhs x0))) ->
  (forall f, Fx = Some f -> f = F x) ->
  (forall v, M (Minv v) = v) ->
  forall (c : R) (A : list (list R)) (b : list R) (bhat : option (list R)) (is_sa : bool)
         (xn : R) (xe Fxn : option R) (ys Fy rs : list R),
  (forall z, F z = c) -> length b = length A -> fold_right radd rO b = rI ->
  (is_sa = true -> A <> [] /\ b = last A []) ->
  (forall r, In r rs -> r = rO) ->
  dirk_step R rO radd rmul rsub isz M F Minv solve x tau Fx A b bhat is_sa = Some (xn, xe, Fxn, (ys, Fy, rs)) ->
  M xn = radd (M x) (rmul tau c).
Proof. exact dirk_const_rhs_exact_l. Qed.
Print Assumptions dirk_const_rhs_exact.

(* A2. rosenbrock_step with a linearly acting mass matrix, constant F (so J = 0):
   M x_new = M x + tau (sum b) c for any weights ... *)
Theorem rosenbrock_const_rhs_update :
  forall (R : Type) (rO rI : R) (radd rmul rsub : R -> R -> R) (ropp : R -> R),
  ring_theory rO rI radd rmul rsub ropp eq ->
  forall (M F : R -> R) (x tau : R) (Jx Cinv : R -> R) (gam : R),
  (forall v, rsub (M (Cinv v)) (rmul (rmul tau gam) (Jx (Cinv v))) = v) ->
  (forall u v, M (radd u v) = radd (M u) (M v)) ->
  forall (c : R) (A G : list (list R)) (b : list R) (bhat : option (list R)) (xn : R) (xe : option R) (ks : list R),
  length A = length G -> length b = length A ->
  (forall v, M (rmul tau v) = rmul tau (M v)) ->
  (forall s v, In s b -> M (rmul s v) = rmul s (M v)) ->
  ros_step R rO radd rmul F x tau Jx Cinv A G b bhat = (xn, xe, ks) ->
  (forall z, Jx z = rO) -> (forall z, F z = c) ->
  M xn = radd (M x) (rmul tau (rmul (fold_right radd rO b) c)).
Proof. exact ros_const_rhs_update_l. Qed.
Print Assumptions rosenbrock_const_rhs_update.

(* ... hence exactly M x + tau c for a consistent tableau *)
Theorem rosenbrock_const_rhs_exact :
  forall (R : Type) (rO rI : R) (radd rmul rsub : R -> R -> R) (ropp : R -> R),
  ring_theory rO rI radd rmul rsub ropp eq ->
  forall (M F : R -> R) (x tau : R) (Jx Cinv : R -> R) (gam : R),
  (forall v, rsub (M (Cinv v)) (rmul (rmul tau gam) (Jx (Cinv v))) = v) ->
  (forall u v, M (radd u v) = radd (M u) (M v)) ->
  forall (c : R) (A G : list (list R)) (b : list R) (bhat : option (list R)) (xn : R) (xe : option R) (ks : list R),
  length A = length G -> length b = length A -> fold_right radd rO b = rI ->
  (forall v, M (rmul tau v) = rmul tau (M v)) ->
  (forall s v, In s b -> M (rmul s v) = rmul s (M v)) ->
  ros_step R rO radd rmul F x tau Jx Cinv A G b bhat = (xn, xe, ks) ->
  (forall z, Jx z = rO) -> (forall z, F z = c) ->
  M xn = radd (M x) (rmul tau c).
Proof. exact ros_const_rhs_exact_l. Qed.
Print Assumptions rosenbrock_const_rhs_exact.

(* B1. _constant_step_method with its state, for every step function that returns F(x_new) or
   None as third component: one state per time; every call starts from the previously returned
   state (call k from solutions[k]) with the step size tau and a cached Fx that is None or
   F(that state); a failing call ends the run with the states so far; times t0 + k tau; and if
   every step adds d to phi (A1/A2: phi = M ., d = tau c) then phi(solutions[k]) = phi(x0) + k d:
   y' = M^-1 c is integrated exactly over the whole run. *)
Theorem constant_driver_states :
  forall (X FX : Type) (stepper : X -> Q -> option FX -> sres X FX) (Fof : X -> FX)
         (G : Type) (gadd : G -> G -> G) (phi : X -> G) (d : G),
  stepper_ok X FX stepper Fof ->
  forall (t0 tau quot : Q) (x0 : X) (times : list Q) (sols : list X) (calls : list (call X FX)),
  const_run X FX stepper t0 tau quot x0 = (times, sols, calls) ->
  length times = length sols /\ 1 <= length sols <= S (const_num_iter quot) /\
  Forall (fun c => Fx_inv X FX Fof (fst (fst c)) (snd c)) calls /\
  Forall (fun c => snd (fst c) = tau) calls /\
  map (fun c => fst (fst c)) calls = firstn (length calls) sols /\
  (length calls = length sols - 1 \/
   (length calls = length sols /\
    exists c, last calls c = c /\ In c calls /\ stepper (fst (fst c)) tau (snd c) = SFail)) /\
  nth 0 times 0%Q = t0 /\
  (forall k, 1 <= k < length times -> nth k times 0%Q = (t0 + inject_Z (Z.of_nat k) * tau)%Q) /\
  (step_adds X FX stepper Fof G gadd phi d ->
   forall k, k < length sols -> phi (nth k sols x0) = Nat.iter k (fun u => gadd u d) (phi x0)).
Proof. exact const_run_l. Qed.
Print Assumptions constant_driver_states.

(* B2. _adaptive_step_method with its state, for every step function (contract as above), error
   ratio function, value of the real power, and every number of loop iterations: if the loop
   returns, there is one state per time; EVERY call of the step function -- also after rejected
   steps and Newton failures -- received one of the returned states together with a cached Fx
   that is None or F(that state); and the run is an instance of the outcome-list model: its
   times are [adaptive_times] and its step sizes [adaptive_taus] of the outcomes it produced, so
   adaptive_driver_times / _accepts_only_passing / _step_factor_bounds (Props.v) apply to it. *)
Theorem adaptive_driver_states :
  forall (X FX : Type) (stepper : X -> Q -> option FX -> sres X FX) (Fof : X -> FX)
         (ratio : X -> X -> X -> Q) (powf : Q -> Q),
  stepper_ok X FX stepper Fof ->
  forall (fuel : nat) (t0 tau0 t_end : Q) (x0 : X) (times : list Q) (sols : list X)
         (calls : list (call X FX)) (evs : list event),
  adaptive_run X FX stepper ratio powf fuel t0 tau0 t_end x0 = Some (times, sols, calls, evs) ->
  length times = length sols /\
  Forall (fun c : call X FX => Fx_inv X FX Fof (fst (fst c)) (snd c) /\ In (fst (fst c)) sols) calls /\
  length evs = length calls /\
  adaptive_times t0 tau0 t_end evs = Some times /\
  map (fun c : call X FX => snd (fst c)) calls = adaptive_taus t_end (adaptive_init t0 tau0) evs.
Proof. exact adaptive_run_l. Qed.
Print Assumptions adaptive_driver_states.
