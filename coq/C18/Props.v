(* C18 -- property theorems only. *)
From Coq Require Import List Arith ZArith.
From Verif.C18 Require Import Model Proofs.
Import ListNotations.

Theorem int_index_in_range : forall n i k, wrap n i = Some k -> k < n.
Proof. exact wrap_in_range. Qed.
Print Assumptions int_index_in_range.
