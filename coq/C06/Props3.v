(* C06 -- property theorems, part 3: constant folding with the tolerance window of
   ConstExpr.is_constant as a parameter (FoldTol.v).  Same conventions as Props.v. *)
From Coq Require Import List String Bool Arith ZArith QArith Qcanon Field.
From Verif.C06 Require Import Model Proofs FoldTol.
Import ListNotations. Import QcInst. Import QcTol.

(* For ANY predicate near (any tolerance) and any sound equality test: if folding with the window and
   folding with the exact-guarded predicate (near c v && c =? v) return the same tree -- the window made no
   difference -- then the depth-first folding pass preserves the value in every environment.  Nothing is
   assumed about near itself (fold_constants_sound assumes near c v -> c = v for ALL c, v, which the
   window predicate does not satisfy). *)
Theorem fold_constants_sound_window_free :
  forall (F : Type) (f0 f1 : F) (fadd fmul fsub fdiv : F -> F -> F) (fopp finv : F -> F),
  field_theory f0 f1 fadd fmul fsub fopp fdiv finv (@eq F) ->
  forall (near feqb : F -> F -> bool) (fzerob : F -> bool),
  (forall a b, feqb a b = true -> a = b) ->
  forall en e e',
  window_free F f0 f1 fadd fmul fsub fdiv fopp near feqb fzerob e = true ->
  fold_all F f0 f1 fadd fmul fsub fdiv fopp near fzerob e = Some e' ->
  eval F fadd fmul fsub fdiv fopp en e' = eval F fadd fmul fsub fdiv fopp en e.
Proof. exact fold_all_window_free_l. Qed.

Theorem fold1_sound_window_free :
  forall (F : Type) (f0 f1 : F) (fadd fmul fsub fdiv : F -> F -> F) (fopp finv : F -> F),
  field_theory f0 f1 fadd fmul fsub fopp fdiv finv (@eq F) ->
  forall (near feqb : F -> F -> bool) (fzerob : F -> bool),
  (forall a b, feqb a b = true -> a = b) ->
  forall en e e',
  window_free1 F f0 f1 fadd fmul fsub fdiv fopp near feqb fzerob e = true ->
  fold1 F f0 f1 fadd fmul fsub fdiv fopp near fzerob e = Some e' ->
  eval F fadd fmul fsub fdiv fopp en e' = eval F fadd fmul fsub fdiv fopp en e.
Proof. exact fold1_window_free_l. Qed.

(* the rational instance with the tolerance as a parameter (the check passes the literal translated from
   pyiga/vform.py) *)
Theorem fold_constants_sound_tol : forall tol en e e',
  qwindow_free tol e = true -> qfold_all_t tol e = Some e' -> qeval en e' = qeval en e.
Proof. exact qfold_all_window_free_l. Qed.

(* INSIDE the window the code folds by design and the value is NOT preserved: 1e-16 * w -> 0 *)
Theorem fold_inside_window_changes_value_refuted :
  exists e e' en, qfold_all e = Some e' /\ qeval en e' <> qeval en e.
Proof. exact fold_inside_window_changes_value_l. Qed.

(* NOT PROVED: finalize_sound in full (see Props.v); the bound |value change| <= tol * |other operand| for
   constants inside the window (needs an ordered field; only the refuting instance above is proved). *)

Print Assumptions fold_constants_sound_window_free.
Print Assumptions fold1_sound_window_free.
Print Assumptions fold_constants_sound_tol.
Print Assumptions fold_inside_window_changes_value_refuted.
