(* C14 -- proofs about the model of detect_interfaces (ModelGeo.v): soundness and completeness of
   _check_geo_match / _find_matching_boundaries / detect_interfaces with respect to geometric
   coincidence of the sampled faces, determinism of the returned flip, and the link to the dof
   pairs that join_boundaries identifies. *)
From Coq Require Import List Arith Bool Lia QArith Lqa.
From Verif.lib Require Import Slice.
From Verif.C14 Require Import Model ModelGeo.
Import ListNotations.
Close Scope Q_scope.

Lemma list_eqb_spec {A : Type} (e : A -> A -> bool) :
  (forall x y, e x y = true <-> x = y) -> forall a b, list_eqb e a b = true <-> a = b.
Proof.
  intros He. induction a as [|x a IH]; destruct b as [|y b]; cbn [list_eqb];
    try (split; intros H; discriminate H).
  - split; intros; reflexivity.
  - rewrite andb_true_iff, He, IH. split; [intros [-> ->]; reflexivity | intros E; injection E; auto].
Qed.

Lemma all_flips_length k : forall f, In f (all_flips k) -> length f = k.
Proof.
  induction k as [|k IH]; intros f H; cbn [all_flips] in H.
  - destruct H as [<-|[]]; reflexivity.
  - apply in_app_or in H. destruct H as [H|H]; apply in_map_iff in H; destruct H as [g [<- Hg]];
      cbn [length]; f_equal; apply IH; exact Hg.
Qed.

Lemma all_flips_complete f : In f (all_flips (length f)).
Proof.
  induction f as [|b f IH]; cbn [length all_flips]; [left; reflexivity|].
  apply in_or_app. destruct b; [right|left]; apply in_map; exact IH.
Qed.

Lemma find_first {A : Type} (p : A -> bool) l x : find p l = Some x ->
  exists l1 l2, l = l1 ++ x :: l2 /\ p x = true /\ forall y, In y l1 -> p y = false.
Proof.
  induction l as [|a l IH]; cbn [find]; [discriminate|]. destruct (p a) eqn:E.
  - intros H; injection H as <-. exists [], l. repeat split; auto. intros y [].
  - intros H. destruct (IH H) as [l1 [l2 [-> [Hx Hl]]]]. exists (a :: l1), l2. repeat split; auto.
    intros y [<-|Hy]; auto.
Qed.

Lemma map_eq_combine {A B C : Type} (f : A -> C) (g : B -> C) l1 : forall l2,
  map f l1 = map g l2 -> forall a b, In (a, b) (combine l1 l2) -> f a = g b.
Proof.
  induction l1 as [|x l1 IH]; intros [|y l2] H a b Hin; simpl in *; try contradiction; try discriminate.
  injection H as H1 H2. destruct Hin as [E|Hin]; [injection E as <- <-; exact H1|eapply IH; eassumption].
Qed.

Lemma in_combine_pairs2 (p1 p2 : nat) (d1 : list nat) : forall (d2 : list nat) (e : dof * dof),
  In e (combine (map (pair p1) d1) (map (pair p2) d2)) ->
  exists i j, e = ((p1, i), (p2, j)) /\ In (i, j) (combine d1 d2).
Proof.
  induction d1 as [|a d1 IH]; intros [|b d2] e H; simpl in H; try contradiction.
  destruct H as [<-|H].
  - exists a, b. split; [reflexivity|left; reflexivity].
  - destruct (IH d2 e H) as [i [j [E Hin]]]. exists i, j. split; [exact E|right; exact Hin].
Qed.

Lemma in_all_bds d ax s : In (ax, s) (all_bds d) <-> ax < d /\ (s = 0 \/ s = 1).
Proof.
  unfold all_bds. rewrite in_flat_map. split.
  - intros [a [Ha H]]. apply in_seq in Ha. destruct H as [H|[H|[]]]; injection H as <- <-; split; auto; lia.
  - intros [Ha Hs]. exists ax. split; [apply in_seq; lia|]. destruct Hs as [->| ->]; [left|right; left]; reflexivity.
Qed.

Section MatchProofs.
Variable P : Type.
Variable peqb : P -> P -> bool.
Hypothesis peqb_spec : forall a b, peqb a b = true <-> a = b.

Lemma opt_eqb_spec a b : opt_eqb P peqb a b = true <-> a = b.
Proof.
  destruct a, b; cbn [opt_eqb]; try (split; intros H; discriminate H).
  - rewrite peqb_spec. split; [intros ->; reflexivity|intros H; injection H; auto].
  - split; intros; reflexivity.
Qed.

(* the two sampled faces coincide point by point when the grid of the second is flipped by f *)
Definition matches sh1 (S1 : list P) ax1 s1 sh2 (S2 : list P) ax2 s2 (f : list bool) : Prop :=
  face_pts P sh1 S1 ax1 s1 [] = face_pts P sh2 S2 ax2 s2 f.
(* same dimension, faces with the same sample grid *)
Definition comparable (sh1 : list nat) ax1 (sh2 : list nat) ax2 : Prop :=
  length sh1 = length sh2 /\ face_shape sh1 ax1 = face_shape sh2 ax2.

Lemma check_sound sh1 S1 ax1 s1 sh2 S2 ax2 s2 f :
  check_geo_match P peqb sh1 S1 ax1 s1 sh2 S2 ax2 s2 = Some f ->
  comparable sh1 ax1 sh2 ax2 /\ length f = length sh2 - 1 /\
  matches sh1 S1 ax1 s1 sh2 S2 ax2 s2 f /\
  (exists l1 l2, all_flips (length sh2 - 1) = l1 ++ f :: l2 /\
                 forall g, In g l1 -> ~ matches sh1 S1 ax1 s1 sh2 S2 ax2 s2 g).
Proof.
  unfold check_geo_match.
  destruct (Nat.eqb_spec (length sh1) (length sh2)) as [EL|]; cbn [negb]; [|discriminate].
  destruct (list_eqb Nat.eqb (face_shape sh1 ax1) (face_shape sh2 ax2)) eqn:EF; cbn [negb]; [|discriminate].
  intros H. apply find_first in H. destruct H as [l1 [l2 [E [Hf Hl]]]].
  apply (list_eqb_spec _ Nat.eqb_eq) in EF.
  split; [split; assumption|]. split.
  { apply all_flips_length. rewrite E. apply in_or_app; right; left; reflexivity. }
  split. { apply (list_eqb_spec _ opt_eqb_spec). exact Hf. }
  exists l1, l2. split; [exact E|]. intros g Hg M. specialize (Hl g Hg). cbv beta in Hl.
  unfold matches in M. rewrite (proj2 (list_eqb_spec _ opt_eqb_spec _ _) M) in Hl. discriminate.
Qed.

Lemma check_complete sh1 S1 ax1 s1 sh2 S2 ax2 s2 f :
  comparable sh1 ax1 sh2 ax2 -> length f = length sh2 - 1 ->
  matches sh1 S1 ax1 s1 sh2 S2 ax2 s2 f ->
  exists f', check_geo_match P peqb sh1 S1 ax1 s1 sh2 S2 ax2 s2 = Some f'.
Proof.
  intros [EL EF] Hl M. unfold check_geo_match. rewrite EL, Nat.eqb_refl. cbn [negb].
  rewrite (proj2 (list_eqb_spec _ Nat.eqb_eq _ _) EF). cbn [negb].
  match goal with |- exists f', find ?p ?l = Some f' => destruct (find p l) eqn:E end; [eexists; reflexivity|].
  exfalso. pose proof (find_none _ _ E f) as N. rewrite <- Hl in N. specialize (N (all_flips_complete f)).
  cbv beta in N. unfold matches in M. rewrite (proj2 (list_eqb_spec _ opt_eqb_spec _ _) M) in N. discriminate.
Qed.

(* a match is found iff the faces are comparable and coincide under SOME flip pattern *)
Lemma check_iff sh1 S1 ax1 s1 sh2 S2 ax2 s2 :
  (exists f, check_geo_match P peqb sh1 S1 ax1 s1 sh2 S2 ax2 s2 = Some f) <->
  (comparable sh1 ax1 sh2 ax2 /\ exists f, length f = length sh2 - 1 /\ matches sh1 S1 ax1 s1 sh2 S2 ax2 s2 f).
Proof.
  split.
  - intros [f H]. destruct (check_sound _ _ _ _ _ _ _ _ _ H) as [C [L [M _]]]. split; [exact C|]. exists f; auto.
  - intros [C [f [L M]]]. eapply check_complete; eassumption.
Qed.

(* the dof pairs that join_boundaries(p1, bd1, p2, bd2, flip=f) identifies carry coinciding points *)
Lemma match_pairs_coincide sh1 S1 ax1 s1 sh2 S2 ax2 s2 f :
  check_geo_match P peqb sh1 S1 ax1 s1 sh2 S2 ax2 s2 = Some f ->
  forall i j, In (i, j) (combine (boundary_dofs sh1 ax1 s1 []) (boundary_dofs sh2 ax2 s2 f)) ->
  nth_error S1 i = nth_error S2 j.
Proof.
  intros H. destruct (check_sound _ _ _ _ _ _ _ _ _ H) as [_ [_ [M _]]].
  apply map_eq_combine. exact M.
Qed.

Lemma automatch_joins_coinciding_l shapes p1 ax1 s1 p2 ax2 s2 f S1 S2 e :
  check_geo_match P peqb (nth p1 shapes []) S1 ax1 s1 (nth p2 shapes []) S2 ax2 s2 = Some f ->
  In e (bjoin_pairs shapes (mk_bjoin p1 ax1 s1 p2 ax2 s2 f)) ->
  fst (fst e) = p1 /\ fst (snd e) = p2 /\ nth_error S1 (snd (fst e)) = nth_error S2 (snd (snd e)).
Proof.
  intros H Hin. unfold bjoin_pairs in Hin. cbn [bj_p1 bj_p2 bj_ax1 bj_ax2 bj_side1 bj_side2 bj_flip] in Hin.
  apply in_combine_pairs2 in Hin. destruct Hin as [i [j [-> Hij]]]. cbn [fst snd].
  split; [reflexivity|]. split; [reflexivity|].
  eapply match_pairs_coincide; eassumption.
Qed.

Lemma find_matching_iff sh1 S1 sh2 S2 bd1 bd2 f :
  In (bd1, bd2, f) (find_matching P peqb sh1 S1 sh2 S2) <->
  In bd1 (all_bds (length sh1)) /\ In bd2 (all_bds (length sh2)) /\
  check_geo_match P peqb sh1 S1 (fst bd1) (snd bd1) sh2 S2 (fst bd2) (snd bd2) = Some f.
Proof.
  unfold find_matching. rewrite in_flat_map. split.
  - intros [b1 [H1 H]]. rewrite in_flat_map in H. destruct H as [b2 [H2 H]].
    destruct (check_geo_match P peqb sh1 S1 (fst b1) (snd b1) sh2 S2 (fst b2) (snd b2)) as [g|] eqn:E; [|destruct H].
    destruct H as [H|[]]. injection H as <- <- <-. auto.
  - intros [H1 [H2 H]]. exists bd1. split; [exact H1|]. rewrite in_flat_map. exists bd2. split; [exact H2|].
    rewrite H. left; reflexivity.
Qed.

Lemma detect_iff ps p1 bd1 p2 bd2 f :
  In (p1, bd1, p2, bd2, f) (detect P peqb ps) <->
  p1 < p2 /\ p2 < length ps /\
  touch (gp_bb P (nth p1 ps (gp_none P))) (gp_bb P (nth p2 ps (gp_none P))) = true /\
  In (bd1, bd2, f) (find_matching P peqb (gp_shape P (nth p1 ps (gp_none P))) (gp_samples P (nth p1 ps (gp_none P)))
                                         (gp_shape P (nth p2 ps (gp_none P))) (gp_samples P (nth p2 ps (gp_none P)))).
Proof.
  unfold detect. rewrite in_flat_map. split.
  - intros [q1 [H1 H]]. rewrite in_flat_map in H. destruct H as [q2 [H2 H]].
    apply in_seq in H1. apply in_seq in H2.
    destruct (touch (gp_bb P (nth q1 ps (gp_none P))) (gp_bb P (nth q2 ps (gp_none P)))) eqn:T; [|destruct H].
    apply in_map_iff in H. destruct H as [[[b1 b2] g] [E Hm]]. cbv beta iota in E.
    injection E as <- <- <- <- <-. repeat split; try lia; assumption.
  - intros [H1 [H2 [T Hm]]]. exists p1. split; [apply in_seq; lia|]. rewrite in_flat_map. exists p2.
    split; [apply in_seq; lia|]. rewrite T. apply in_map_iff. exists (bd1, bd2, f). split; [reflexivity|exact Hm].
Qed.

End MatchProofs.

(* ---- bounding boxes: two boxes that share a point touch ---- *)
Open Scope Q_scope.

Lemma qmax_le a b c : a <= c -> b <= c -> qmax a b <= c.
Proof. intros. unfold qmax. destruct (Qle_bool a b); assumption. Qed.
Lemma qmax_ge_l a b : a <= qmax a b.
Proof.
  unfold qmax. destruct (Qle_bool a b) eqn:E; [apply Qle_bool_iff; exact E|apply Qle_refl].
Qed.
Lemma qmax_ge_r a b : b <= qmax a b.
Proof.
  unfold qmax. destruct (Qle_bool a b) eqn:E; [apply Qle_refl|].
  apply Qlt_le_weak. apply Qnot_le_lt. intros H. apply Qle_bool_iff in H. congruence.
Qed.

Definition inside_box (x : list Q) (b : list (Q * Q)) : Prop :=
  Forall2 (fun xi bi => fst bi <= xi /\ xi <= snd bi) x b.

Lemma gap_zero a b x : fst a <= x /\ x <= snd a -> fst b <= x /\ x <= snd b -> gap a b == 0.
Proof.
  intros [A1 A2] [B1 B2]. unfold gap. apply Qle_antisym; [|apply qmax_ge_l].
  apply qmax_le; [apply Qle_refl|]. apply qmax_le; lra.
Qed.

Lemma mind2_zero x : forall b1 b2, inside_box x b1 -> inside_box x b2 -> mind2 b1 b2 == 0.
Proof.
  induction x as [|xi x IH]; intros b1 b2 H1 H2; inversion H1; inversion H2; subst; cbn [mind2]; [reflexivity|].
  rewrite (gap_zero _ _ xi) by assumption. rewrite IH by assumption. ring.
Qed.

Lemma touch_complete b1 b2 x :
  inside_box x b1 -> inside_box x b2 -> (0 < diam2 b1 \/ 0 < diam2 b2) -> touch b1 b2 = true.
Proof.
  intros H1 H2 Hd. unfold touch, qltb. apply negb_true_iff.
  destruct (Qle_bool _ _) eqn:E; [|reflexivity]. exfalso. apply Qle_bool_iff in E.
  rewrite (mind2_zero x b1 b2 H1 H2) in E.
  pose proof (qmax_ge_l (diam2 b1) (diam2 b2)). pose proof (qmax_ge_r (diam2 b1) (diam2 b2)).
  destruct Hd; lra.
Qed.

(* boxes that are separated along some axis by more than the tolerance do not touch: soundness of
   the filter is not needed for the interface list (the filter can only remove candidates). *)
Close Scope Q_scope.

(* every geometrically coinciding pair of faces of two patches whose bounding boxes share a point is
   reported, and nothing else *)
Section Detect.
Variable P : Type.
Variable peqb : P -> P -> bool.
Hypothesis peqb_spec : forall a b, peqb a b = true <-> a = b.

Lemma detect_sound_l ps p1 bd1 p2 bd2 f :
  In (p1, bd1, p2, bd2, f) (detect P peqb ps) ->
  let G1 := nth p1 ps (gp_none P) in let G2 := nth p2 ps (gp_none P) in
  p1 < p2 /\ p2 < length ps /\
  fst bd1 < length (gp_shape P G1) /\ (snd bd1 = 0 \/ snd bd1 = 1) /\
  fst bd2 < length (gp_shape P G2) /\ (snd bd2 = 0 \/ snd bd2 = 1) /\
  comparable (gp_shape P G1) (fst bd1) (gp_shape P G2) (fst bd2) /\
  length f = length (gp_shape P G2) - 1 /\
  matches P (gp_shape P G1) (gp_samples P G1) (fst bd1) (snd bd1) (gp_shape P G2) (gp_samples P G2) (fst bd2) (snd bd2) f.
Proof.
  intros H G1 G2. apply (detect_iff P peqb) in H. destruct H as [H1 [H2 [_ Hm]]].
  apply (find_matching_iff P peqb) in Hm. destruct Hm as [B1 [B2 C]].
  destruct bd1 as [a1 s1], bd2 as [a2 s2]. apply in_all_bds in B1. apply in_all_bds in B2. cbn [fst snd] in *.
  destruct (check_sound P peqb peqb_spec _ _ _ _ _ _ _ _ _ C) as [Cm [L [M _]]].
  repeat split; try tauto; try lia; try apply Cm; assumption.
Qed.

Lemma detect_complete_l ps p1 ax1 s1 p2 ax2 s2 f x :
  let G1 := nth p1 ps (gp_none P) in let G2 := nth p2 ps (gp_none P) in
  p1 < p2 -> p2 < length ps ->
  ax1 < length (gp_shape P G1) -> (s1 = 0 \/ s1 = 1) -> ax2 < length (gp_shape P G2) -> (s2 = 0 \/ s2 = 1) ->
  comparable (gp_shape P G1) ax1 (gp_shape P G2) ax2 -> length f = length (gp_shape P G2) - 1 ->
  matches P (gp_shape P G1) (gp_samples P G1) ax1 s1 (gp_shape P G2) (gp_samples P G2) ax2 s2 f ->
  (* boxes_share_point: holds when the bounding boxes contain the (coinciding) face samples *)
  inside_box x (gp_bb P G1) -> inside_box x (gp_bb P G2) ->
  (0 < diam2 (gp_bb P G1) \/ 0 < diam2 (gp_bb P G2))%Q ->
  exists f', In (p1, (ax1, s1), p2, (ax2, s2), f') (detect P peqb ps).
Proof.
  intros G1 G2 H1 H2 A1 Hs1 A2 Hs2 C L M X1 X2 D.
  destruct (check_complete P peqb peqb_spec _ _ _ _ _ _ _ _ f C L M) as [f' Hf].
  exists f'. apply (detect_iff P peqb). split; [exact H1|]. split; [exact H2|].
  split; [eapply touch_complete; eassumption|].
  apply (find_matching_iff P peqb). cbn [fst snd].
  split; [apply in_all_bds; auto|]. split; [apply in_all_bds; auto|]. exact Hf.
Qed.

End Detect.
