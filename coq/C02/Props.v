(* C02 -- property theorems only. *)
From Coq Require Import QArith Qcanon List Arith.
From Verif.lib Require Import Bsp.
From Verif.C02 Require Import Proofs.
Import ListNotations.
Open Scope Qc_scope.

(* Span lookup (the transcription of pyx_findspan) returns, for every open knot vector
   and every parameter value in its domain, a non-empty span p <= s < n-p-1 with
   kv[s] <= u < kv[s+1], or the last non-empty span when u is the right end point. *)
Theorem findspan_spec : forall kv p u,
  kv_ok kv p -> kn kv 0 <= u -> u <= kn kv (length kv - 1) ->
  let s := findspan kv p u in
  (p <= s)%nat /\ (s < length kv - p - 1)%nat /\ kn kv s < kn kv (S s) /\
  kn kv s <= u /\ (u < kn kv (S s) \/ (u = kn kv (length kv - 1) /\ kn kv (S s) = kn kv (length kv - 1))).
Proof. exact findspan_spec_l. Qed.
Print Assumptions findspan_spec.

(* ... and it is the unique such span. *)
Theorem findspan_unique : forall kv p u t,
  kv_ok kv p -> kn kv 0 <= u -> u < kn kv (length kv - 1) ->
  (S t < length kv)%nat -> kn kv t <= u -> u < kn kv (S t) -> t = findspan kv p u.
Proof. exact findspan_unique_l. Qed.
Print Assumptions findspan_unique.
