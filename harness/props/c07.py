"""C07 -- Geometry maps evaluate consistently on every route and constructions are exact.

Stages: (1) Coq obligations coq/C07/Props.v; (2) correspondence of the exact model
(coq/C07/Model.v over coq/lib/Bsp.v) with /repo's bspline.py / geometry.py on generated
spline / NURBS functions (every evaluation route, boundaries, operations), floats handed to
Coq as exact rationals and compared within the forward rounding bound derived below;
(3) the property predicate evaluated directly on the implementation with the independent
Fraction oracle of c07_oracle.py (the search for a failing input).

Rounding bounds (never tuned): a computed B-spline quantity  sum_I C_I prod_d N_d  differs from
its exact value by at most  2 * sum_I |C_I| [ prod_d(|N_d| + e_d) - prod_d|N_d| + (nterms+sdim+2) eps prod_d(|N_d|+e_d) ]
with e_d = 8(p+1) 2^k eps p!/(p-k)!/h^k the per-entry bound of the C02 tie; NURBS values, Jacobians
and Hessians are bounded by evaluating the expressions of geometry.py in interval arithmetic on those
enclosures (one relative rounding eps per operation).  Coefficient arrays produced by operations are
compared with 16 eps * (#terms+3) * magnitude.  Bounds are rounded up to a power of two and doubled.
"""
import math
from fractions import Fraction

from harness.core import clist, log, parse_coq_list_of_nat
from harness.props import c07_oracle as O

PROPS = 'C07/Props.v'
EPS = O.EPS
fr = O.fr


def hx(x):
    return float(x).hex()


# ---------------------------------------------------------------------------
# generators

def gen_kv(rng, p, maxspans=3):
    nb = rng.randint(1, maxspans) + 1
    a = Fraction(rng.choice([0, 0, -8, 4, 1]), 8)
    b = [a]
    for _ in range(nb - 1):
        b.append(b[-1] + Fraction(rng.choice([1, 2, 2, 4, 4, 8]), 8))
    mults = [p + 1] + [rng.randint(1, max(p, 1)) for _ in range(nb - 2)] + [p + 1]
    kv = []
    for x, m in zip(b, mults):
        kv += [x] * m
    return kv, b, mults


def gen_coord(rng, b, kind=None):
    kind = kind or rng.choice(['random', 'random', 'random', 'knot', 'end'])
    if kind == 'end':
        return rng.choice([b[0], b[-1]])
    if kind == 'knot':
        return rng.choice(b)
    t = Fraction(rng.randint(1, 63), 64)
    return b[0] + (b[-1] - b[0]) * t


def gen_func(rng, sdim, kind, tail, pmax=3):
    kvs = []
    brk = []
    for _ in range(sdim):
        p = rng.randint(1, pmax)
        kv, b, mults = gen_kv(rng, p, 3 if sdim < 3 else 2)
        kvs.append({'p': p, 'kv': [hx(x) for x in kv], 'mults': mults})
        brk.append(b)
    N = [len(k['kv']) - k['p'] - 1 for k in kvs]
    ntot = 1
    for n in N:
        ntot *= n
    m = 1
    for t in tail:
        m *= t
    C = [Fraction(rng.randint(-32, 32), 8) for _ in range(ntot * m)]
    f = {'kind': kind, 'kvs': kvs, 'tail': list(tail), 'C': [hx(c) for c in C]}
    if kind == 'nurbs':
        f['W'] = [hx(Fraction(rng.randint(4, 24), 8)) for _ in range(ntot)]
    return f, brk


def gen_case(rng, sdim, kind, tail, thorough):
    f, brk = gen_func(rng, sdim, kind, tail, 4 if thorough and sdim < 3 else 3)
    grid = []
    for d in range(sdim):
        npts = 2 if (sdim == 3 or not thorough) else 3
        ax = sorted({gen_coord(rng, brk[d]) for _ in range(npts)})
        while len(ax) < 2:
            ax = sorted(set(ax) | {gen_coord(rng, brk[d], 'random')})
        grid.append([hx(x) for x in ax])
    npts = rng.choice([2, 3, 4])
    # scattered points in xyz order: coordinate j belongs to kvs[sdim-1-j]
    pts = [[hx(gen_coord(rng, brk[sdim - 1 - j])) for j in range(sdim)] for _ in range(npts)]
    shape = [2, 2] if npts == 4 and rng.random() < 0.7 else [npts]
    case = {'f': f, 'grid': grid, 'pts': pts, 'pts_shape': shape, 'brk': [[hx(x) for x in b] for b in brk]}
    case['ops'] = gen_ops(rng, case, thorough)
    return case


BDNAMES = ['left', 'right', 'bottom', 'top', 'front', 'back']


def gen_ops(rng, case, thorough):
    f = case['f']
    sdim = len(f['kvs'])
    tail = f['tail']
    kind = f['kind']
    ops = []
    vec = len(tail) == 1
    m = tail[0] if vec else None
    dy = lambda lo, hi: hx(Fraction(rng.randint(lo, hi), 4))
    # boundaries: every side by pair, names where they exist
    if sdim >= 2:
        specs = [[ax, side] for ax in range(sdim) for side in (0, 1)]
        names = BDNAMES[:2 * sdim]
        for spec in rng.sample(specs, 2 if not thorough else len(specs)) + rng.sample(names, 1 if not thorough else len(names)):
            ax = spec[0] if not isinstance(spec, str) else sdim - 1 - BDNAMES.index(spec) // 2
            g = [a for k, a in enumerate(case['grid']) if k != ax]
            # points of the boundary function in xyz order (coordinate of axis `ax` removed)
            pts = []
            for x in case['pts'][:2]:
                y = list(x)
                del y[sdim - 1 - ax]
                pts.append(y)
            ops.append({'op': 'boundary', 'arg': spec, 'grid': g, 'pts': pts})
            ops.append({'op': 'boundary_function', 'arg': spec, 'grid': g, 'pts': pts})
    for spec in BDNAMES + [[0, 0], [sdim - 1, 1], [sdim, 0], [-1, 1], [0, 2]]:
        ops.append({'op': 'parse_bdspec', 'arg': spec, 'dim': sdim})
    G = {'grid': case['grid'], 'pts': case['pts'][:2]}
    if len(tail) <= 1:
        ops.append(dict(op='translate', arg=[dy(-8, 8) for _ in range(m)] if vec and rng.random() < 0.8 else dy(-8, 8), **G))
        ops.append(dict(op='scale', arg=[dy(-8, 8) for _ in range(m)] if vec and rng.random() < 0.8 else dy(-8, 8), **G))
    if vec:
        rows = rng.randint(1, 3)
        ops.append(dict(op='apply_matrix', arg=[[dy(-8, 8) for _ in range(m)] for _ in range(rows)], **G))
        ops.append(dict(op='getitem', arg=rng.randrange(m), **G))
        if m == 2:
            ops.append(dict(op='rotate_2d', arg=hx(rng.choice([0.5, -1.25, 2.0, math.pi / 2, 3.0, -0.1])), **G))
    ops.append(dict(op='copy', **G))
    if len(tail) <= 1:
        ops.append(dict(op='as_nurbs', **G))
        ops.append(dict(op='as_vector', **G))
    if sdim >= 2:
        k = f['kvs']
        supp = []
        for d in range(sdim):
            b = [fr(h) for h in case['brk'][d]]
            supp.append([hx(b[0] + (b[-1] - b[0]) / 4), hx(b[-1] - (b[-1] - b[0]) / 4)])
        ops.append(dict(op='restrict_support', arg=supp, bd=rng.choice(BDNAMES[:2 * sdim]), **G))
    if kind == 'bsp' and len(tail) <= 1 and sdim <= 2:
        ops.append({'op': 'cylinderize', 'z0': dy(-4, 4), 'z1': dy(5, 9), 'support': [hx(Fraction(1, 2)), hx(Fraction(3, 2))],
                    'grid': [[hx(Fraction(3, 4)), hx(Fraction(5, 4))]] + case['grid']})
    if len(tail) <= 1 and sdim <= 2:
        for name in ('outer_sum', 'outer_product', 'tensor_product'):
            osd = rng.randint(1, 3 - sdim)
            okind = rng.choice(['bsp', 'bsp', 'nurbs'])
            otail = list(tail) if name != 'tensor_product' else rng.choice([[], [1], [2]])
            other, obrk = gen_func(rng, osd, okind, otail, 2)
            og = [[hx(gen_coord(rng, obrk[d], 'random')), hx(gen_coord(rng, obrk[d], 'knot'))] for d in range(osd)]
            og = [sorted(set(a), key=float.fromhex) for a in og]
            self_is = rng.choice([1, 2])
            grid = case['grid'] + og if self_is == 1 else og + case['grid']
            ops.append({'op': name, 'other': other, 'self_is': self_is, 'grid': grid, 'ogrid': og})
    if vec and kind == 'bsp' and sdim == m and sdim <= 2 and False:
        pass
    return ops


def gen_cases(ctx):
    rng = ctx.rng
    thorough = ctx.tier == 'thorough'
    cases = []
    dist = {}
    reps = 6 if thorough else 1
    combos = []
    for sdim in (1, 2, 3):
        combos += [(sdim, 'bsp', []), (sdim, 'bsp', [2]), (sdim, 'bsp', [3]), (sdim, 'bsp', [2, 2]),
                   (sdim, 'nurbs', []), (sdim, 'nurbs', [2]), (sdim, 'nurbs', [3]), (sdim, 'bsp', [1])]
    for _ in range(reps):
        for (sdim, kind, tail) in combos:
            cases.append(gen_case(rng, sdim, kind, tail, thorough))
            key = '%s/sdim%d/tail%s' % (kind, sdim, 'x'.join(map(str, tail)) or '-')
            dist[key] = dist.get(key, 0) + 1
    return cases, dist


# ---------------------------------------------------------------------------
# exact side

def tailclass(tail):
    return 'scalar' if not tail else ('vector' if len(tail) == 1 else 'matrix')


def oracle_func(fs, premult=True):
    """Func of the oracle for a function spec; NURBS: premultiplied numerator + weight (m+1 comps)"""
    kvs = [([fr(h) for h in k['kv']], k['p']) for k in fs['kvs']]
    N = [len(kv) - p - 1 for kv, p in kvs]
    m = 1
    for t in fs['tail']:
        m *= t
    C = [fr(h) for h in fs['C']]
    if fs['kind'] == 'bsp':
        return O.Func(kvs, N, m, C)
    W = [fr(h) for h in fs['W']]
    flat = []
    for i, w in enumerate(W):
        flat += [C[i * m + c] * w for c in range(m)] + [w]
    return O.Func(kvs, N, m + 1, flat)


def exact_at(of, kind, xs):
    """(val[m], jac[m][sdim], hess[m][nh]) exact and (b0,b1,b2) rounding bounds at xs"""
    if kind == 'bsp':
        (v, ve), (J, Je), (Hh, He) = O.bsp_jets(of, xs)
        b = (max(ve), max(max(r) for r in Je), max(max(r) for r in He))
        return (v, J, Hh), b
    val, jac, hess = O.nurbs_jets(of, xs)
    return (val, jac, hess), O.nurbs_bounds(of, xs)


def grid_points(grid):
    """all grid points in C order of the grid index; each as xyz coordinates"""
    import itertools
    axes = [[fr(h) for h in ax] for ax in grid]
    return [list(reversed(us)) for us in itertools.product(*axes)]


def getarr(r, shape_expected=None):
    """values of a guarded result as Fractions or None; shape check"""
    if 'ok' not in r:
        return None
    if shape_expected is not None and list(r['ok']['shape']) != list(shape_expected):
        return 'shape'
    return [fr(h) for h in r['ok']['v']]


class Checker:
    """Evaluates the conjuncts of the property on the implementation's outputs for one case."""

    def __init__(self, case, res):
        self.case = case
        self.res = res
        self.bad = []            # (code, text, detail)
        f = case['f']
        self.kind = f['kind']
        self.sdim = len(f['kvs'])
        self.tail = f['tail']
        self.m = 1
        for t in self.tail:
            self.m *= t
        self.of = oracle_func(f)
        self.nh = self.sdim * (self.sdim + 1) // 2

    def fail(self, code, text, **detail):
        self.bad.append((code, text, detail))

    def cmp(self, code, impl, exact, bound, what, xs=None):
        if impl is None:
            return
        for a, b in zip(impl, exact):
            if abs(a - b) > bound:
                self.fail(code, '%s: implementation %r, exact %r (bound %.3g)' % (what, float(a), float(b), float(bound)),
                          point=[float(x) for x in xs] if xs else None)
                return

    def route(self, r, name, shape):
        """array of a route, or None after recording why it is missing"""
        if 'err' in r:
            self.fail('%s-raises-%s' % (name, r['err']), '%s raised %s: %s' % (name, r['err'], r.get('msg')))
            return None
        if list(r['ok']['shape']) != list(shape):
            self.fail('%s-shape' % name, '%s has shape %s, documented shape %s' % (name, r['ok']['shape'], list(shape)))
            return None
        return [fr(h) for h in r['ok']['v']]

    def run_eval(self):
        case, ev = self.case, self.res['eval']
        sdim, m, nh, tail = self.sdim, self.m, self.nh, self.tail
        G = [len(ax) for ax in case['grid']]
        gp = grid_points(case['grid'])
        sp = [[fr(h) for h in x] for x in case['pts']]
        self.points = []      # per point: dict with xs, exact, bounds, impl route outputs (lists of Fractions or None)
        ge = self.route(ev['grid_eval'], 'grid_eval', G + tail)
        gj = self.route(ev['grid_jac'], 'grid_jacobian', G + tail + [sdim])
        hess_ok = len(tail) <= 1
        if hess_ok:
            htail = ([] if (not tail or (self.kind == 'bsp' and m == 1)) else tail) + [nh]
            gh = self.route(ev['grid_hess'], 'grid_hessian', G + htail)
        else:
            gh = None
            if 'err' not in ev['grid_hess'] or ev['grid_hess']['err'] != 'AssertionError':
                self.fail('grid_hessian-matrix', 'grid_hessian of a matrix-valued function did not refuse (documented: scalar and vector only)')
        g2 = self.route(ev['grid_eval_2d'], 'grid_eval(2-D axes)', G + tail)
        if ge is not None and g2 is not None and ge != g2:
            self.fail('grid_eval-2d-axes', 'grid_eval with (1,n)-shaped axes differs from 1-D axes')
        pshape = case['pts_shape']
        pe = self.route(ev['pw_eval'], 'pointwise_eval', pshape + tail)
        pj = self.route(ev['pw_jac'], 'pointwise_jacobian', pshape + tail + [sdim])
        ca = self.route(ev['call_array_x'], '__call__(array x)', [len(sp)] + tail) if 'call_array_x' in ev else None

        def piece(arr, k, size):
            return None if arr is None else arr[k * size:(k + 1) * size]
        for k, xs in enumerate(gp):
            self.points.append({'xs': xs, 'grid': True, 'vgrid': piece(ge, k, m), 'jgrid': piece(gj, k, m * sdim),
                                'hgrid': piece(gh, k, m * nh), 'vcall': None, 'vpw': None, 'jpw': None})
        for k, xs in enumerate(sp):
            c = ev['call'][k]
            vcall = None
            if 'err' in c:
                self.fail('call-raises-%s' % c['err'], '__call__ raised %s: %s' % (c['err'], c.get('msg')), point=[float(x) for x in xs])
            elif list(c['ok']['shape']) != tail:
                self.fail('call-shape', '__call__ at scalar coordinates returns shape %s, expected %s' % (c['ok']['shape'], tail))
            else:
                vcall = [fr(h) for h in c['ok']['v']]
            j1 = getarr(ev['jac1'][k])
            h1 = getarr(ev['hess1'][k]) if hess_ok else None
            self.points.append({'xs': xs, 'grid': False, 'vgrid': None, 'jgrid': j1, 'hgrid': h1, 'vcall': vcall,
                                'vpw': piece(pe, k, m), 'jpw': piece(pj, k, m * sdim)})
        # exact reference and the comparisons
        for P in self.points:
            xs = P['xs']
            (v, J, Hh), (b0, b1, b2) = exact_at(self.of, self.kind, xs)
            P['exact'] = (v, [x for row in J for x in row], [x for row in Hh for x in row])
            P['bounds'] = tuple(2 * O.pow2_ceil(b) for b in (b0, b1, b2))
            b0, b1, b2 = P['bounds']
            ex = P['exact']
            self.cmp('grid_eval-vs-ref', P['vgrid'], ex[0], b0, 'grid_eval differs from the exact map', xs)
            self.cmp('call-vs-ref', P['vcall'], ex[0], b0, '__call__ differs from the exact map', xs)
            self.cmp('pointwise_eval-vs-ref', P['vpw'], ex[0], b0, 'pointwise_eval differs from the exact map (and from __call__/grid_eval)', xs)
            self.cmp('grid_jacobian-vs-ref', P['jgrid'], ex[1], b1, 'grid_jacobian differs from the exact derivative (dim x sdim, x first)', xs)
            self.cmp('pointwise_jacobian-vs-ref', P['jpw'], ex[1], b1, 'pointwise_jacobian differs from the exact derivative', xs)
            self.cmp('grid_hessian-vs-ref', P['hgrid'], ex[2], b2, 'grid_hessian differs from the exact second derivatives (xx,xy,xz,yy,yz,zz)', xs)
            # route against route (the property's first conjunct), independent of the oracle
            if P['vcall'] is not None and P['vpw'] is not None:
                self.cmp('routes-call-vs-pointwise', P['vpw'], P['vcall'], 2 * b0, 'pointwise_eval differs from __call__', xs)
            if P['jgrid'] is not None and P['jpw'] is not None:
                self.cmp('routes-jac-grid-vs-pointwise', P['jpw'], P['jgrid'], 2 * b1, 'pointwise_jacobian differs from grid_jacobian', xs)
        if ca is not None:
            # f(X, y0, z0) with an array X: the value at (X[k], y0, z0)
            for k in range(len(sp)):
                xs = [sp[k][0]] + sp[0][1:]
                (v, _, _), (b0, _, _) = exact_at(self.of, self.kind, xs)
                self.cmp('call-array', piece(ca, k, m), v, 2 * O.pow2_ceil(b0), '__call__ with an array coordinate differs from the exact map', xs)
        if not self.res.get('unchanged', True):
            self.fail('mutated', 'evaluating / operating on the function changed its kvs/coeffs/support')


# ---------------------------------------------------------------------------
# Coq case files

HEADER = '''From Coq Require Import QArith Qcanon ZArith List Bool.
From Verif.lib Require Import Bsp.
From Verif.C07 Require Import Model Check.
Import ListNotations.
'''


def cqc(x):
    x = Fraction(x)
    return '(q (%d) %d)' % (x.numerator, x.denominator)


def cql(xs):
    return clist(list(xs), cqc)


def coq_kvs(kvs):
    return clist(['(%s, %d%%nat)' % (cql([fr(h) for h in k['kv']]), k['p']) for k in kvs])


def coq_func(fs):
    N = [len(k['kv']) - k['p'] - 1 for k in fs['kvs']]
    m = 1
    for t in fs['tail']:
        m *= t
    Ns = clist(['%d%%nat' % n for n in N])
    C = cql([fr(h) for h in fs['C']])
    if fs['kind'] == 'bsp':
        return '(mk_bsp %s (arr %s %d%%nat %s) %d%%nat)' % (coq_kvs(fs['kvs']), Ns, m, C, m), m
    W = cql([fr(h) for h in fs['W']])
    return '(mk_nurbs %s (arr %s %d%%nat %s) (arr0 %s %s) %d%%nat)' % (coq_kvs(fs['kvs']), Ns, m, C, Ns, W, m), m


def coq_pt(P):
    L = lambda a: cql(a) if a is not None else '[]'
    b0, b1, b2 = P['bounds']
    return '(%s, (%s, %s, %s), (%s, %s, %s), (%s, %s), %s)' % (
        cql(P['xs']), cqc(b0), cqc(b1), cqc(b2), L(P['vcall']), L(P['vgrid']), L(P['vpw']), L(P['jgrid']), L(P['jpw']), L(P['hgrid']))
