"""C11 -- Relaxation and multigrid are consistent, contractive iterations.

Stages: (1) Coq theorems of coq/C11 (Gauss-Seidel order/textbook/fixed point/only-touches/energy,
iterative_solve and twogrid stopping rules, smoothing-set algebra, multigrid fixed point);
(2) tie: the Gallina model of solvers.gauss_seidel / relaxation_cy / iterative_solve / local_mg_step is
evaluated by vm_compute on the very inputs the implementation was run on and compared with its output;
(3) the property predicate evaluated on the implementation with independent oracles (exact Fractions /
numpy re-implementation), which is the search for a failing input.

Float bounds (never tuned):
 * Gauss-Seidel: running forward error bound.  If the implementation's current iterate deviates from the
   exact one by at most E_j per component, then after the update of row i
       E_i' = ( sum_{j!=i} |a_ij| E_j + g * (|b_i| + sum_j |a_ij| (|x_j| + E_j)) ) / |a_ii|,
   g = (m+6) u / (1 - (m+6) u), u = 2^-53, m = number of columns: a dot product of <= m terms in any
   order (also with FMA / -ffast-math reassociation), one subtraction of the diagonal term (dense
   branch), one subtraction from b_i and a division possibly done as reciprocal+multiply (<= m+5 roundings).
 * multigrid cycle against the numpy oracle: 10 * L * (2 s + 2) * n * u * kappa * scale with L levels, s
   smoothing steps, n dofs, kappa the largest 2-norm condition number of the operators restricted to the
   free dofs of a level, scale = max(1, |x|_inf, |x*|_inf, |result|_inf): every stage (smoothing sweep,
   residual, restriction, sub-solve, prolongation) is a backward stable O(n)-term computation.
 * iterative_solve: the test problems are exactly computable in binary64 (checked per case with exact
   rationals), x and the iteration count are compared exactly; cases whose residual ratio lies within
   1e-9 (relative) of tol are not generated (norm rounding could flip the comparison there).
"""
import math
from fractions import Fraction as Fr

import numpy as np

from harness.core import clist, log, parse_coq_list_of_nat

PROPS = 'C11/Props.v'
U = Fr(1, 2 ** 53)


def fh(h):
    return Fr(float.fromhex(h))


def fl(h):
    return float.fromhex(h)


def hexf(x):
    return float(x).hex()


def round_up(fr):
    """smallest-or-next binary64 >= fr, as a Fraction (keeps bounds valid and their literals short)"""
    v = float(fr)
    if Fr(v) < fr:
        v = math.nextafter(v, math.inf)
    return Fr(v)


def is_float(fr):
    return Fr(float(fr)) == fr


# ---------------------------------------------------------------------------
# Gauss-Seidel: generators
# ---------------------------------------------------------------------------

def rand_dyadic(rng, lo, hi, den):
    return Fr(rng.randint(lo * den, hi * den), den)


def gen_matrix(rng, n, kind):
    """dense n x n matrix of dyadic Fractions"""
    den = rng.choice([1, 1, 2, 4])
    if kind == 'spd':
        B = [[Fr(rng.randint(-2, 2), 1) if rng.random() < 0.7 else Fr(0) for _ in range(n)] for _ in range(n)]
        A = [[sum(B[k][i] * B[k][j] for k in range(n)) / den for j in range(n)] for i in range(n)]
        for i in range(n):
            A[i][i] += Fr(rng.randint(1, 4), den)
    elif kind == 'diagdom':
        A = [[rand_dyadic(rng, -3, 3, den) if (i != j and rng.random() < 0.6) else Fr(0) for j in range(n)] for i in range(n)]
        for i in range(n):
            s = sum(abs(v) for v in A[i])
            A[i][i] = (s + Fr(rng.randint(1, 3))) * rng.choice([1, 1, 1, -1])
    else:  # nonsymmetric, arbitrary nonzero diagonal
        A = [[rand_dyadic(rng, -3, 3, den) if rng.random() < 0.7 else Fr(0) for j in range(n)] for i in range(n)]
        for i in range(n):
            d = rand_dyadic(rng, -4, 4, den)
            A[i][i] = d if d != 0 else Fr(1)
    return A


def to_csr_raw(rng, A, compress_rows=True, zero_diag_rows=()):
    """compressed storage with explicit zeros, shuffled minor indices, no repeated coordinates.
    zero_diag_rows: rows whose diagonal is stored as explicit 0 or not stored at all (malformed stream)."""
    n = len(A)
    indptr, indices, data = [0], [], []
    for i in range(n):
        ents = []
        for j in range(n):
            v = A[i][j] if compress_rows else A[j][i]
            if v != 0:
                ents.append((j, v))
            elif i != j and rng.random() < 0.25:
                ents.append((j, Fr(0)))        # explicit zero
            elif i == j and compress_rows and i in zero_diag_rows and rng.random() < 0.5:
                ents.append((j, Fr(0)))        # explicit zero on the diagonal
        if rng.random() < 0.6:
            rng.shuffle(ents)                  # unsorted indices
        indices += [e[0] for e in ents]
        data += [e[1] for e in ents]
        indptr.append(len(indices))
    return indptr, indices, data


def gen_gs_cases(ctx):
    rng = ctx.rng
    thorough = ctx.tier == 'thorough'
    N = 2400 if thorough else 420
    cases = []
    dist = {}
    for k in range(N):
        n = rng.choice([1, 2, 3, 3, 4, 4, 5, 6, 7] + ([9, 12] if thorough else []))
        kind = rng.choice(['spd', 'spd', 'diagdom', 'nonsym'])
        fmt = rng.choice(['dense', 'csr', 'csr', 'csc', 'coo'])
        A = gen_matrix(rng, n, kind)
        zero_rows = ()
        if fmt == 'csr' and rng.random() < 0.12:
            zero_rows = tuple(sorted(rng.sample(range(n), rng.randint(1, max(1, n // 2)))))
            for i in zero_rows:
                A[i][i] = Fr(0)
            kind = 'zero_diag'
        xs = [rand_dyadic(rng, -4, 4, 8) for _ in range(n)]
        start = rng.choice(['random', 'random', 'exact'])
        b = [sum(A[i][j] * xs[j] for j in range(n)) for i in range(n)]
        if kind in ('nonsym', 'diagdom') and rng.random() < 0.5 and start != 'exact':
            b = [rand_dyadic(rng, -4, 4, 8) for _ in range(n)]
            xs = None
        x = list(xs) if start == 'exact' else [rand_dyadic(rng, -4, 4, 8) for _ in range(n)]
        c = {'n': n, 'kind': kind, 'fmt': fmt, 'start': start, 'zero_rows': list(zero_rows),
             'iterations': rng.choice([1, 1, 2, 3] + ([5] if thorough else [])),
             'sweep': rng.choice(['forward', 'backward', 'symmetric']),
             'x': [hexf(v) for v in x], 'b': [hexf(v) for v in b]}
        r = rng.random()
        if r < 0.45:
            c['indices'] = None
        else:
            m = rng.randint(0, n) if rng.random() < 0.15 else rng.randint(1, n)
            idx = rng.sample(range(n), m)
            if m and rng.random() < 0.2:
                idx.append(rng.choice(idx))          # a repeated index
            c['indices'] = idx
            c['indices_kind'] = rng.choice(['list', 'list', 'array'])
        if fmt == 'dense':
            c['A'] = [[hexf(v) for v in r_] for r_ in A]
        elif fmt == 'csr':
            ip, ind, dat = to_csr_raw(rng, A, True, zero_rows)
            c.update(indptr=ip, storage_indices=ind, data=[hexf(v) for v in dat])
        elif fmt == 'csc':
            ip, ind, dat = to_csr_raw(rng, A, False)
            c.update(indptr=ip, storage_indices=ind, data=[hexf(v) for v in dat])
        else:
            trip = []
            for i in range(n):
                for j in range(n):
                    v = A[i][j]
                    if v != 0:
                        if rng.random() < 0.25:          # duplicate coordinate: COO -> CSR conversion sums them
                            part = rand_dyadic(rng, -2, 2, 4)
                            trip += [(i, j, part), (i, j, v - part)]
                        else:
                            trip.append((i, j, v))
                    elif rng.random() < 0.15:
                        trip.append((i, j, Fr(0)))
            rng.shuffle(trip)
            c.update(row=[t[0] for t in trip], col=[t[1] for t in trip], data=[hexf(t[2]) for t in trip])
        c['_A'] = A
        c['_xs'] = xs
        c['_x'] = x
        c['_b'] = b
        cases.append(c)
        key = '%s/%s/%s/%s' % (fmt, kind, c['sweep'], 'indexed' if c['indices'] is not None else 'all')
        dist[key] = dist.get(key, 0) + 1
    return cases, dist


def gs_order(n, iterations, indices, sweep):
    base = list(range(n)) if indices is None else list(indices)
    if sweep == 'forward':
        one = base
    elif sweep == 'backward':
        one = base[::-1]
    else:
        one = base + base[::-1]
    return one * iterations


def gs_oracle(c):
    """Textbook Gauss-Seidel in the stated order over exact rationals, with the running rounding bound.
    Independent of the Coq model and of the implementation."""
    A, n = c['_A'], c['n']
    x = list(c['_x'])
    b = c['_b']
    E = [Fr(0)] * n
    g = (n + 6) * U / (1 - (n + 6) * U)
    for i in gs_order(n, c['iterations'], c['indices'], c['sweep']):
        if A[i][i] == 0:
            continue                     # sparse routine skips (only generated for CSR)
        s = sum(A[i][j] * x[j] for j in range(n) if j != i)
        mag = abs(b[i]) + sum(abs(A[i][j]) * (abs(x[j]) + E[j]) for j in range(n))
        prop = sum(abs(A[i][j]) * E[j] for j in range(n) if j != i)
        x[i] = (b[i] - s) / A[i][i]
        E[i] = round_up((prop + g * mag) / abs(A[i][i]))
    return x, E


def energy(A, e):
    n = len(e)
    return sum(e[i] * sum(A[i][j] * e[j] for j in range(n)) for i in range(n))


def check_gs_on_impl(c, res):
    """The property evaluated on the implementation's output.  Returns list of (tag, text)."""
    out = []
    if res['status'] != 'Ok':
        return [('raises-' + res['status'], 'gauss_seidel raised %s: %s' % (res['status'], res.get('msg')))]
    n = c['n']
    xi = [fh(h) for h in res['x']]
    xm, E = gs_oracle(c)
    if len(xi) != n:
        return [('length', 'result has %d entries' % len(xi))]
    dev = [abs(xi[i] - xm[i]) for i in range(n)]
    bad = [i for i in range(n) if dev[i] > E[i]]
    c['_dev_ratio'] = max([float(dev[i] / E[i]) for i in range(n) if E[i] > 0] or [0.0])
    c['_exact'] = all(d == 0 for d in dev)
    if bad:
        i = bad[0]
        out.append(('textbook', 'x[%d] = %s after the sweeps, textbook update in the stated order gives %s (bound %.3g)' % (
            i, float(xi[i]), float(xm[i]), float(E[i]))))
    touched = set(range(n)) if c['indices'] is None else set(c['indices'])
    for i in range(n):
        if i not in touched and xi[i] != c['_x'][i]:
            out.append(('touches', 'unknown %d is not in the index list but changed' % i))
            break
    if c['start'] == 'exact' and c['_xs'] is not None:
        if any(abs(xi[i] - c['_xs'][i]) > E[i] for i in range(n)):
            out.append(('fixed-point', 'an exact solution was changed by the sweep'))
    if c['kind'] == 'spd' and c['_xs'] is not None:
        A = c['_A']
        e0 = [c['_x'][i] - c['_xs'][i] for i in range(n)]
        em = [xm[i] - c['_xs'][i] for i in range(n)]
        ei = [xi[i] - c['_xs'][i] for i in range(n)]
        Aem = [abs(sum(A[i][j] * em[j] for j in range(n))) for i in range(n)]
        slack = 2 * sum(E[i] * Aem[i] for i in range(n)) + sum(abs(A[i][j]) * E[i] * E[j] for i in range(n) for j in range(n))
        if energy(A, ei) > energy(A, e0) + slack:
            out.append(('energy', 'energy error grew from %.6g to %.6g on an SPD system' % (float(energy(A, e0)), float(energy(A, ei)))))
    return out


# ---------------------------------------------------------------------------
# Coq literals
# ---------------------------------------------------------------------------

def cq(fr):
    fr = Fr(fr)
    return '(q (%d) %d)' % (fr.numerator, fr.denominator)


def cvec(v):
    return clist(v, cq)


def cnl(v):
    return clist(v, lambda k: '%d%%nat' % k)


NONE = '(@None (list nat))'


def cmat(A):
    return clist([cvec(r) for r in A])


GS_HEADER = '''From Coq Require Import QArith Qcanon List Arith Bool ZArith.
From Verif.C11 Require Import Model.
Import ListNotations.
Open Scope Qc_scope.
Definition q (a : Z) (b : positive) : Qc := Q2Qc (a # b).
Definition within (m i e : Qc) : bool :=
  if Qclt_le_dec e (m - i) then false else if Qclt_le_dec e (i - m) then false else true.
Fixpoint all3 (m i e : list Qc) : bool :=
  match m, i, e with
  | [], [], [] => true
  | a :: m', b :: i', c :: e' => within a b c && all3 m' i' e'
  | _, _, _ => false
  end.
Fixpoint veq (a b : list Qc) : bool :=
  match a, b with
  | [], [] => true
  | x :: a', y :: b' => (if Qc_eq_dec x y then true else false) && veq a' b'
  | _, _ => false
  end.
(* a case: matrix, x, b, iterations, indices, sweep, oracle (exact textbook result), implementation's x, bound *)
Inductive gcase := GC (A : matrix) (x b : vec) (it : nat) (idx : option (list nat)) (sw : sweep) (oracle impl bound : vec).
Definition agrees (c : gcase) : bool :=
  let '(GC A x b it idx sw oracle impl bound) := c in
  let m := gauss_seidel A x b it idx sw in
  veq m oracle && all3 m impl bound.
Fixpoint bad (k : nat) (cs : list gcase) : list nat :=
  match cs with [] => [] | c :: cs' => if agrees c then bad (S k) cs' else k :: bad (S k) cs' end.
'''


def canonical_csr(A):
    n = len(A)
    ip, ind, dat = [0], [], []
    for i in range(n):
        for j in range(n):
            if A[i][j] != 0:
                ind.append(j)
                dat.append(A[i][j])
        ip.append(len(ind))
    return ip, ind, dat


def coq_gs_case(c, impl_x, perturb=False):
    n = c['n']
    if c['fmt'] == 'dense':
        M = '(Dense %s)' % cmat(c['_A'])
    else:
        if c['fmt'] == 'csr':
            ip, ind, dat = c['indptr'], c['storage_indices'], [fh(h) for h in c['data']]
        else:
            # CSC / COO are converted by scipy.sparse.csr_matrix(A): the model gets the canonical CSR
            # of the denoted matrix (the conversion itself is scipy's, not pyiga's)
            ip, ind, dat = canonical_csr(c['_A'])
        M = '(Sparse (mk_csr %s %s %s) %d%%nat)' % (cnl(ip), cnl(ind), cvec(dat), n)
    idx = NONE if c['indices'] is None else '(Some %s)' % cnl(c['indices'])
    sw = {'forward': 'Forward', 'backward': 'Backward', 'symmetric': 'Symmetric'}[c['sweep']]
    xm, E = gs_oracle(c)
    impl = list(impl_x)
    if perturb:
        impl[0] = impl[0] + 2 * E[0] + Fr(1, 2 ** 40)
    return '(GC %s %s %s %d%%nat %s %s %s %s %s)' % (M, cvec(c['_x']), cvec(c['_b']), c['iterations'], idx, sw,
                                                       cvec(xm), cvec(impl), cvec(E))


# ---------------------------------------------------------------------------
# iterative_solve
# ---------------------------------------------------------------------------

def gen_it_cases(ctx):
    rng = ctx.rng
    thorough = ctx.tier == 'thorough'
    cases = []
    dist = {'converged': 0, 'maxiter': 0, 'x0_given': 0, 'active_subset': 0, 'skipped_inexact_or_near_tie': 0}
    target = 600 if thorough else 150
    tries = 0
    while len(cases) < target and tries < 20 * target:
        tries += 1
        n = rng.randint(1, 4)
        A = [[Fr(rng.randint(-2, 2)) if i != j else Fr(0) for j in range(n)] for i in range(n)]
        for i in range(n):
            A[i][i] = sum(abs(v) for v in A[i]) + rng.randint(1, 3)
        W = [Fr(1, 2 ** rng.randint(2, 4)) for _ in range(n)]
        f = [rand_dyadic(rng, -4, 4, 4) for _ in range(n)]
        x0 = None if rng.random() < 0.5 else [rand_dyadic(rng, -4, 4, 4) for _ in range(n)]
        active = None if rng.random() < 0.5 else sorted(rng.sample(range(n), rng.randint(1, n)))
        tol = Fr(1, 2 ** rng.randint(0, 6)) * rng.choice([1, 3, 5]) / rng.choice([1, 2, 4])
        maxiter = rng.choice([0, 1, 1, 2, 2, 3, 4, 5, 6, 8])
        # exact replay (oracle): iterates, residual ratios
        x = list(x0) if x0 is not None else [Fr(0)] * n

        def res2(x):
            r = [f[i] - sum(A[i][j] * x[j] for j in range(n)) for i in range(n)]
            idx = range(n) if active is None else active
            return sum(r[i] * r[i] for i in idx)
        r0 = res2(x)
        if r0 == 0:
            continue
        ok = True
        exp_k = None
        steps = max(1, maxiter)
        for k in range(1, steps + 1):
            x = [x[i] + W[i] * (f[i] - sum(A[i][j] * x[j] for j in range(n))) for i in range(n)]
            if any(v.denominator > 2 ** 40 or abs(v.numerator) > 2 ** 44 for v in x):
                ok = False
                break
            ratio2 = res2(x) / r0
            if abs(ratio2 - tol * tol) <= Fr(1, 10 ** 9) * tol * tol:
                ok = False
                break
            if ratio2 < tol * tol:
                exp_k = k
                break
        if not ok:
            dist['skipped_inexact_or_near_tie'] += 1
            continue
        c = {'A': [[hexf(v) for v in r] for r in A], 'W': [hexf(v) for v in W], 'f': [hexf(v) for v in f],
             'x0': None if x0 is None else [hexf(v) for v in x0], 'active': active, 'tol': hexf(tol),
             'maxiter': maxiter, 'sparse': rng.random() < 0.5,
             '_A': A, '_W': W, '_f': f, '_x0': x0, '_tol': tol, '_exp_k': exp_k, '_exp_x': x, '_n': n}
        if not is_float(tol):
            continue
        cases.append(c)
        dist['converged' if exp_k is not None else 'maxiter'] += 1
        dist['x0_given'] += x0 is not None
        dist['active_subset'] += active is not None
    return cases, dist


IT_HEADER = '''From Coq Require Import QArith Qcanon List Arith Bool ZArith.
From Verif.C11 Require Import Model.
Import ListNotations.
Open Scope Qc_scope.
Definition q (a : Z) (b : positive) : Qc := Q2Qc (a # b).
Fixpoint veq (a b : list Qc) : bool :=
  match a, b with
  | [], [] => true
  | x :: a', y :: b' => (if Qc_eq_dec x y then true else false) && veq a' b'
  | _, _ => false
  end.
Definition vmul (x y : vec) : vec := map (fun p => fst p * snd p) (combine x y).
(* the step handed to the implementation: x + W (f - A x) *)
Definition wstep (A : dense) (W f x : vec) : vec := vadd x (vmul W (vsub f (dmv A x))).
(* squared Euclidean norm of the residual on the active dofs; the model's test
   res/res0 < tol is evaluated on squares: sqrt(a)/sqrt(b) < t <-> a/b < t^2 for a>=0, b>0, t>=0 *)
Definition res2 (A : dense) (f : vec) (active : option (list nat)) (x : vec) : Qc :=
  let r := vsub f (dmv A x) in
  let ra := match active with None => r | Some l => gather l r end in
  fold_left (fun s v => s + v * v) ra 0.
Definition iters_eqb (a b : iters) : bool :=
  match a, b with Finite x, Finite y => Nat.eqb x y | Inf, Inf => true | _, _ => false end.
Inductive icase := IC (A : dense) (W f x0 : vec) (active : option (list nat)) (tol : Qc) (maxiter : nat) (ix : vec) (ik : iters).
Definition agrees (c : icase) : bool :=
  let '(IC A W f x0 active tol maxiter ix ik) := c in
  let '(x, k) := iterative_solve (wstep A W f) (res2 A f active) x0 (tol * tol) maxiter in
  veq x ix && iters_eqb k ik.
Fixpoint bad (k : nat) (cs : list icase) : list nat :=
  match cs with [] => [] | c :: cs' => if agrees c then bad (S k) cs' else k :: bad (S k) cs' end.
'''


def coq_it_case(c, res, perturb=False):
    n = c['_n']
    x0 = c['_x0'] if c['_x0'] is not None else [Fr(0)] * n
    act = NONE if c['active'] is None else '(Some %s)' % cnl(c['active'])
    k = res['iters']
    if perturb:
        k = 'inf' if k != 'inf' else 1
    ik = 'Inf' if k == 'inf' else '(Finite %d%%nat)' % k
    return '(IC %s %s %s %s %s %s %d%%nat %s %s)' % (cmat(c['_A']), cvec(c['_W']), cvec(c['_f']), cvec(x0), act,
                                                       cq(c['_tol']), c['maxiter'], cvec([fh(h) for h in res['x']]), ik)


def check_it_on_impl(c, res):
    if res['status'] != 'Ok':
        return [('raises-' + res['status'], 'iterative_solve raised %s: %s' % (res['status'], res.get('msg')))]
    out = []
    k = res['iters']
    exp = c['_exp_k']
    xi = [fh(h) for h in res['x']]
    if exp is None:
        if k != 'inf':
            out.append(('stop-early', 'returned %s iterations although the reduction %s was never reached in max(1,maxiter)=%d steps'
                        % (k, float(c['_tol']), max(1, c['maxiter']))))
        elif res['nsteps'] != max(1, c['maxiter']):
            out.append(('limit', 'reported inf after %d steps, iteration limit is %d' % (res['nsteps'], c['maxiter'])))
    else:
        if k == 'inf':
            out.append(('missed', 'reported inf although the reduction was reached at iteration %d <= maxiter' % exp))
        elif k != exp:
            out.append(('count', 'reported %s iterations, the reduction is first reached at iteration %d' % (k, exp)))
    if not out and xi != c['_exp_x']:
        out.append(('iterate', 'returned vector is not the iterate it reports'))
    return out


# ---------------------------------------------------------------------------
# twogrid
# ---------------------------------------------------------------------------

def gen_tg_cases(ctx):
    rng = ctx.rng
    cases = []
    kinds = ['none', 'list', 'array', 'zeros_array', 'far', 'warm']
    for k in range(30 if ctx.tier == 'thorough' else 12):
        kind = kinds[k % len(kinds)]
        c = {'p': rng.choice([1, 2, 3]), 'n': rng.choice([3, 4, 6, 9]), 'seed': rng.randrange(10 ** 6),
             'u0': kind, 'sweep': rng.choice(['forward', 'backward', 'symmetric']),
             'tol': hexf(2.0 ** -rng.choice([20, 26, 30])), 'smooth_steps': rng.choice([1, 2, 3]), 'maxiter': 200}
        if kind == 'warm':
            # initial residual ~ 1e-6 |A|: keep the requested residual well above the evaluation floor u |A||u|
            c['tol'] = hexf(2.0 ** -rng.choice([8, 10, 12]))
        if k >= len(kinds) and rng.random() < 0.3:
            c['maxiter'] = rng.choice([1, 2, 3])          # the iteration limit is hit ("too many iterations")
            c['tol'] = hexf(2.0 ** -40)
        cases.append(c)
    return cases


def tg_observe(c, res):
    """What the harness computes independently from the implementation's recorded vectors: the true initial
    residual, the residual of every cycle at the point where twogrid measures it, the rounding uncertainty of
    each, and the reported (numiter, exit)."""
    import re
    A = np.array([[fl(h) for h in r] for r in res['A']])
    f = np.array([fl(h) for h in res['f']])
    n = len(f)
    u0 = np.zeros(n) if res['u0'] is None else np.array([fl(h) for h in res['u0']])
    u = 2.0 ** -53

    def rn(y):
        r = float(np.linalg.norm(f - A @ y))
        # evaluation uncertainty of a residual norm: (n+2) u | |f| + |A||y| |  (+ rounding of the norm itself)
        return r, (n + 2) * u * float(np.linalg.norm(abs(f) + abs(A) @ abs(y))) + 1e-12 * r
    res0, e0 = rn(u0)
    rs = [rn(np.array([fl(h) for h in t])) for t in res['trace']]
    m = re.search(r'(\d+) iterations', res['printed'])
    numiter = int(m.group(1)) if m else None
    ex = 'Diverged' if 'Diverged' in res['printed'] else ('TooMany' if 'too many' in res['printed'] else 'Converged')
    return A, f, u0, res0, e0, rs, numiter, ex


def tg_model(res0, e0, rs, tol, maxiter):
    """twogrid's stopping rule (solvers.py:150-171) on a residual sequence.  Returns (k, exit, near_tie)."""
    near = False
    for k, (r, er) in enumerate(rs, start=1):
        for thr in (tol * res0, 20 * res0):
            if abs(r - thr) <= er + (thr / res0) * e0 + 1e-6 * thr:
                near = True
        if r < tol * res0:
            return k, 'Converged', near
        if r > 20 * res0:
            return k, 'Diverged', near
        if k > maxiter:
            return k, 'TooMany', near
    return len(rs) + 1, 'Continue', near


def check_tg_on_impl(c, res):
    if res['status'] != 'Ok':
        return [('twogrid-u0-%s:%s' % (c['u0'], res['status']),
                 'twogrid(u0=%s) raised %s: %s' % (c['u0'], res['status'], res.get('msg')))]
    out = []
    A, f, u0, res0, e0, rs, numiter, ex = tg_observe(c, res)
    xs = np.array([fl(h) for h in res['xs']])
    u = np.array([fl(h) for h in res['u']])
    tol = fl(c['tol'])
    if res0 <= 1e3 * e0:
        return out            # initial residual at rounding level: a relative reduction is not meaningful
    if numiter is None or numiter != len(rs) or res['smoother_calls'] != numiter * c['smooth_steps']:
        out.append(('twogrid-count', 'twogrid reports %s iterations but ran %d cycles (%d smoother calls, smooth_steps=%d)' % (
            numiter, len(rs), res['smoother_calls'], c['smooth_steps'])))
        return out
    k, e, near = tg_model(res0, e0, rs, tol, c['maxiter'])
    c['_near_tie'] = near
    if not near and (k, e) != (numiter, ex):
        rK = rs[-1][0]
        out.append(('twogrid-stop:%s' % c['u0'],
                    'twogrid(u0=%s) left its loop after %d cycle(s) as %s with residual %.3g = %.3g * |f - A u0| (|f - A u0| = %.3g, tol = %.3g); '
                    'its own stopping rule on this residual sequence gives %s after %d cycle(s)' % (
                        c['u0'], numiter, ex, rK, rK / res0, res0, tol, e, k)))
    if ex == 'Converged' and rs[-1][0] - rs[-1][1] > tol * (res0 + e0) * (1 + 1e-6):
        out.append(('twogrid-early:%s' % c['u0'], 'twogrid stopped as converged with residual reduction %.3g relative to the initial residual, requested %.3g' % (
            rs[-1][0] / res0, tol)))
    if c['maxiter'] >= 200 and ex != 'Converged' and not near:
        out.append(('twogrid-noconv:%s' % c['u0'], 'twogrid did not converge on an SPD problem within %d iterations: %s' % (c['maxiter'], res['printed'][:80].strip())))
    ev = np.linalg.eigvalsh(A)
    kappa = ev[-1] / ev[0]
    r = np.linalg.norm(f - A @ u)
    if ex == 'Converged':
        # the loop stops on the residual before the last coarse correction; the correction does not increase the
        # energy error, hence |r_after|_2 <= sqrt(kappa) |r_before|_2 < sqrt(kappa) tol res0 (+ rounding n u kappa |f|)
        lim = math.sqrt(kappa) * tol * res0 * (1 + 1e-6) + 100 * len(f) * 2.0 ** -53 * kappa * (np.linalg.norm(abs(f) + abs(A) @ abs(u)) + 1)
        if not (r <= lim):
            out.append(('twogrid-residual', 'returned vector has residual %.3g, requested %.3g * %.3g' % (r, tol, res0)))
    e0v = u0 - xs
    ev_ = u - xs
    if ev_ @ A @ ev_ > e0v @ A @ e0v * (1 + 1e-9) + 1e-25:
        out.append(('twogrid-energy', 'energy error grew from %.3g to %.3g' % (e0v @ A @ e0v, ev_ @ A @ ev_)))
    return out


TG_HEADER = '''From Coq Require Import QArith Qcanon List Arith Bool ZArith.
From Verif.C11 Require Import Model.
Import ListNotations.
Open Scope Qc_scope.
Definition q (a : Z) (b : positive) : Qc := Q2Qc (a # b).
Definition exit_eqb (a b : tg_exit) : bool :=
  match a, b with Converged, Converged => true | Diverged, Diverged => true | TooMany, TooMany => true | _, _ => false end.
(* twogrid's loop (Model.twogrid_loop) driven by the residual sequence measured on the implementation's own iterates:
   state = number of cycles done; table = [ |f - A u0| ; r_1 ; r_2 ; ... ] *)
Inductive tcase := TC (table : list Qc) (tol : Qc) (maxiter : nat) (k : nat) (e : tg_exit).
Definition agrees (c : tcase) : bool :=
  let '(TC table tol maxiter k e) := c in
  let '(_, k', e') := twogrid_loop S (fun j => nth j table 0) (fun j => j) 0%nat (@None nat) tol maxiter in
  Nat.eqb k k' && exit_eqb e e'.
Fixpoint bad (k : nat) (cs : list tcase) : list nat :=
  match cs with [] => [] | c :: cs' => if agrees c then bad (S k) cs' else k :: bad (S k) cs' end.
'''


def coq_tg_case(c, res, perturb=False):
    A, f, u0, res0, e0, rs, numiter, ex = tg_observe(c, res)
    k = numiter + (1 if perturb else 0)
    return '(TC %s %s %d%%nat %d%%nat %s)' % (cvec([Fr(res0)] + [Fr(r) for r, _ in rs]), cq(fh(c['tol'])), c['maxiter'], k, ex)


# ---------------------------------------------------------------------------
# hierarchical spaces: smoothing sets and the local multigrid cycle
# ---------------------------------------------------------------------------

STRATS = ['new', 'trunc', 'func_supp', 'cell_supp']
SMOOTHERS = ['gs', 'forward_gs', 'backward_gs', 'symmetric_gs', 'exact']


def gen_hs_cases(ctx):
    rng = ctx.rng
    thorough = ctx.tier == 'thorough'
    cases = []
    nsets = 160 if thorough else 36
    nmg = 48 if thorough else 10
    for k in range(nsets):
        dim = rng.choice([1, 1, 2, 2, 2, 3]) if thorough else rng.choice([1, 1, 2, 2])
        small = k < nmg and k % 2 == 0       # small 1-D spaces with an integer matrix: also run through the Coq model
        if small:
            dim = 1
        if dim == 3:
            p = [rng.choice([1, 2]) for _ in range(dim)]
            n0 = [rng.choice([2, 3]) for _ in range(dim)]
        else:
            p = [rng.choice([1, 2, 3]) for _ in range(dim)]
            n0 = [rng.choice([2, 3, 4, 5] if dim == 1 else [2, 3, 4]) for _ in range(dim)]
        if small:
            p = [rng.choice([1, 2])]
            n0 = [rng.choice([2, 3])]
        allbd = [[a, s] for a in range(dim) for s in (0, 1)]
        r = rng.random()
        if r < 0.5:
            bd = allbd
        elif r < 0.6:
            bd = []
        else:
            bd = rng.sample(allbd, rng.randint(1, len(allbd)))
        nref = rng.choice([1, 2, 2, 3]) if dim < 3 else rng.choice([1, 2])
        if small:
            nref = rng.choice([1, 2])
        refs = []
        for lv in range(nref):
            if rng.random() < 0.6:
                box = []
                for d in range(dim):
                    w = Fr(1, 2 ** (lv + 1))
                    lo = rng.choice([Fr(0), 1 - w, Fr(1, 2) - w / 2]) if rng.random() < 0.8 else Fr(rng.randint(0, 3), 4)
                    box.append([float(lo), float(min(1, lo + w * rng.choice([1, 1, 2])))])
                refs.append({'lv': lv, 'box': box})
            else:
                refs.append({'lv': lv, 'frac': rng.choice([0.1, 0.25, 0.5])})
            if rng.random() < 0.25:
                refs.append({'lv': rng.randint(0, lv), 'frac': 0.15})     # re-refine a coarser level later
        if rng.random() < 0.5:
            # later refinements of EXISTING coarser levels along a boundary / in a corner (no new level is created
            # when a finer level exists already): the sets of boundary functions change without a level being added
            for _ in range(rng.choice([1, 1, 2])):
                lvc = rng.randint(0, max(0, nref - 1))
                w = Fr(1, 2 ** (lvc + 1))
                box = []
                for d in range(dim):
                    side = rng.choice(['lo', 'hi', 'all', 'mid'])
                    box.append({'lo': [0.0, float(w)], 'hi': [float(1 - w), 1.0], 'all': [0.0, 1.0],
                                'mid': [float(Fr(1, 2) - w), float(Fr(1, 2) + w)]}[side])
                refs.append({'lv': lvc, 'box': box})
        c = {'dim': dim, 'p': p, 'n0': n0, 'disparity': rng.choice([None, None, 1, 2]), 'truncate': rng.random() < 0.5,
             'bdspecs': bd, 'seed': rng.randrange(10 ** 6), 'refinements': refs}
        if k < nmg and dim <= 2:
            cfgs = []
            for _ in range(4 if not thorough else 6):
                cfgs.append([rng.choice(STRATS), rng.choice(SMOOTHERS), rng.choice([1, 2, 3])])
            cfgs.append([rng.choice(STRATS), 'exact', 2])
            drv = [[rng.choice(STRATS), rng.choice(SMOOTHERS), hexf(2.0 ** -rng.choice([10, 20, 26])), rng.choice([1, 2, 50])]
                   for _ in range(3)]
            c['mg'] = {'seed': rng.randrange(10 ** 6), 'matrix': 'synthetic' if small else 'galerkin',
                       'configs': cfgs, 'drivers': drv, 'more_iters': 2}
            if len(bd) == 0:
                c['bdspecs'] = allbd      # the multigrid runs use Dirichlet conditions on the whole boundary or parts
        cases.append(c)
    return cases


def ravel(mi, shape):
    r = 0
    for n, i in zip(shape, mi):
        r = r * n + i
    return r


def hs_oracle(res):
    """Independent numbering of the virtual hierarchy from the exported sets: for the virtual level lv the dofs
    are sorted(act[0]),...,sorted(act[lv-1]), sorted(act[lv]) + sorted(deact[lv]) (sorted by raveled TP index);
    returns per lv: (size, new canonical indices, dirichlet canonical indices)."""
    L = res['numlevels']
    act = [sorted(tuple(t) for t in a) for a in res['actfun']]
    deact = [sorted(tuple(t) for t in a) for a in res['deactfun']]
    md = res['meshdofs']
    bd = res['bdspecs']

    def on_bd(lv, t):
        return any(t[a] == (0 if s == 0 else md[lv][a] - 1) for (a, s) in bd)
    out = []
    for lv in range(L):
        funcs = []
        for i in range(lv):
            funcs += [(i, t) for t in act[i]]
        first_new = len(funcs)
        funcs += [(lv, t) for t in act[lv]] + [(lv, t) for t in deact[lv]]
        dirs = [k for k, (i, t) in enumerate(funcs) if on_bd(i, t)]
        new = [k for k in range(first_new, len(funcs)) if k not in set(dirs)]
        out.append((len(funcs), new, dirs))
    return out


def check_sets_on_impl(c, res, q=None, who=''):
    """q: the query results to judge (default: those of the object with the query history);
    the structure (actfun, deactfun, mesh sizes) is that of the final space."""
    out = []
    q = res if q is None else q
    orc = hs_oracle(res)
    L = res['numlevels']

    def err(tag, what, v):
        out.append(('%s-raises%s:%s' % (tag, who, v['error']), '%s raised %s: %s' % (what, v['error'], v['msg'])))
    for lv in range(L):
        size, new, dirs = orc[lv]
        d = q['dirichlet'][lv]
        if isinstance(d, dict):
            err('dirichlet-dofs', 'dirichlet_dofs(%d)' % lv, d)
        elif sorted(d) != dirs:
            out.append(('dirichlet-dofs' + who, 'dirichlet_dofs(%d) = %s, functions on the Dirichlet boundary are %s' % (lv, d[:12], dirs[:12])))
    size, new, dirs = orc[L - 1]
    if isinstance(q['dirichlet_default'], dict):
        err('dirichlet-dofs', 'dirichlet_dofs()', q['dirichlet_default'])
    elif sorted(q['dirichlet_default']) != dirs:
        out.append(('dirichlet-dofs' + who, 'dirichlet_dofs() = %s differs from the functions on the Dirichlet boundary %s' % (
            sorted(q['dirichlet_default'])[:16], dirs[:16])))
    if isinstance(q['non_dirichlet'], dict):
        err('non-dirichlet-dofs', 'non_dirichlet_dofs()', q['non_dirichlet'])
    elif q['non_dirichlet'] != [k for k in range(res['numdofs']) if k not in set(dirs)]:
        out.append(('non-dirichlet-dofs' + who, 'non_dirichlet_dofs() is not the complement of the Dirichlet dofs'))
    for st in STRATS:
        s = q['smooth'][st]
        if isinstance(s, dict):
            out.append(('smooth-raises%s:%s:%s' % (who, st, s['error']), 'indices_to_smooth(%r) raised %s: %s' % (st, s['error'], s['msg'])))
            continue
        if len(s) != L:
            out.append(('smooth-levels%s:%s' % (who, st), 'indices_to_smooth(%r) has %d levels, space has %d' % (st, len(s), L)))
            continue
        for lv in range(L):
            size, new, dirs = orc[lv]
            S = s[lv]
            if any(not (0 <= k < size) for k in S) or len(set(S)) != len(S):
                out.append(('smooth-invalid%s:%s' % (who, st), 'level %d smoothing set %s has invalid or repeated indices (level has %d dofs)' % (lv, S[:12], size)))
            elif set(S) & set(dirs):
                out.append(('smooth-dirichlet%s:%s' % (who, st), 'level %d smoothing set of strategy %s contains Dirichlet dofs %s' % (lv, st, sorted(set(S) & set(dirs))[:8])))
            elif not set(new) <= set(S):
                out.append(('smooth-misses-new%s:%s' % (who, st), 'level %d smoothing set misses new dofs %s' % (lv, sorted(set(new) - set(S))[:8])))
            elif st == 'new' and S != new:
                out.append(('smooth-new-exact' + who, 'level %d: strategy new returns %s, the new non-Dirichlet dofs are %s' % (lv, S[:12], new[:12])))
    return out


def check_history_on_impl(c, res):
    """The same refinement history on one object that was queried after every refinement and on a fresh
    object queried only at the end must give the same space and the same answers."""
    out = []
    fr = res['fresh']
    if not fr['same_sets']:
        out.append(('history:sets', 'index-set queries between refinements changed the refined space itself'))
    for key in ('dirichlet', 'dirichlet_default', 'non_dirichlet', 'smooth'):
        if fr[key] != res[key]:
            detail = ''
            if key == 'smooth':
                detail = ' (strategies %s)' % [st for st in STRATS if fr[key][st] != res[key][st]]
            out.append(('history:' + key, '%s differs between an HSpace that was queried after every refinement and a freshly '
                        'built one with the same refinements%s' % (key, detail)))
    return out


def np_gs(A, x, f, idx, sweep, iterations):
    """textbook Gauss-Seidel restricted to idx (numpy oracle)"""
    order = gs_order(A.shape[0], iterations, idx, sweep)
    for i in order:
        if A[i, i] != 0:
            x[i] = (f[i] - A[i].dot(x) + A[i, i] * x[i]) / A[i, i]


def mg_oracle(A, f, Ps, lv_inds, smoother, steps):
    """Independent numpy re-implementation of one local multigrid V-cycle with exact sub-solves."""
    As = [A]
    for P in reversed(Ps):
        As.append(P.T @ As[-1] @ P)
    As.reverse()
    pre = {'gs': 'forward', 'forward_gs': 'forward', 'backward_gs': 'backward', 'symmetric_gs': 'symmetric'}
    post = {'gs': 'backward', 'forward_gs': 'forward', 'backward_gs': 'backward', 'symmetric_gs': 'symmetric'}

    def sub_solve(lv, r):
        I = lv_inds[lv]
        if len(I) == 0:
            return np.zeros(0)
        return np.linalg.solve(As[lv][np.ix_(I, I)], r)

    def step(lv, x, f):
        x1 = x.copy()
        I = list(lv_inds[lv])
        if lv == 0:
            x1[I] = sub_solve(0, f[I])
            return x1
        Al, P = As[lv], Ps[lv - 1]
        if smoother == 'exact':
            x1[I] += sub_solve(lv, (f - Al @ x1)[I])
        else:
            np_gs(Al, x1, f, I, pre[smoother], steps)
        r_c = P.T @ (f - Al @ x1)
        x1 += P @ step(lv - 1, np.zeros_like(r_c), r_c)
        if smoother != 'exact':
            np_gs(Al, x1, f, I, post[smoother], steps)
        return x1
    return (lambda x: step(len(As) - 1, x, f)), As


def check_mg_on_impl(ctx, c, res, stats):
    out = []
    mg = res['mg']
    A = np.array([[fl(h) for h in r] for r in mg['A']])
    f = np.array([fl(h) for h in mg['f']])
    xs = np.array([fl(h) for h in mg['xs']])
    xr = np.array([fl(h) for h in mg['x_rand']])
    Ps = [np.array([[fl(h) for h in r] for r in P]) for P in mg['Ps']]
    n = len(f)
    L = res['numlevels']
    nd = res['non_dirichlet']
    u = 2.0 ** -53
    for run in mg['runs']:
        tag = '%s/%s' % (run['strategy'], run['smoother'])
        if run['status'] != 'Ok':
            out.append(('mg-raises:%s:%s' % (tag, run['status']), 'local_mg_step raised %s: %s' % (run['status'], run.get('msg'))))
            continue
        lv_inds = run['lv_inds']
        step, As = mg_oracle(A, f, Ps, lv_inds, run['smoother'], run['smooth_steps'])
        kappa = 1.0
        for lv in range(L):
            I = lv_inds[lv]
            if len(I):
                kappa = max(kappa, np.linalg.cond(As[lv][np.ix_(I, I)]))
        fe = np.array([fl(h) for h in run['from_exact']])
        fr = np.array([fl(h) for h in run['from_rand']])
        scale = max(1.0, abs(xs).max(), abs(xr).max(), abs(fr).max())
        bound = 10 * L * (2 * run['smooth_steps'] + 2) * n * u * kappa * scale
        stats['mg_runs'] += 1
        stats['mg_max_dev_over_bound'] = max(stats['mg_max_dev_over_bound'], abs(fe - xs).max() / bound)
        ctx.count(('mg', c['seed'], tag, run['smooth_steps']))
        if not run['input_unchanged']:
            out.append(('mg-inplace:' + tag, 'the cycle modified its input vector'))
        if abs(fe - xs).max() > bound:
            out.append(('mg-fixed-point:' + tag, 'the exact discrete solution is moved by %.3g by one cycle (bound %.3g)' % (abs(fe - xs).max(), bound)))
        orc = step(xr)
        stats['mg_max_dev_over_bound'] = max(stats['mg_max_dev_over_bound'], abs(fr - orc).max() / bound)
        if abs(fr - orc).max() > bound:
            out.append(('mg-cycle:' + tag, 'one cycle from a random start differs from the textbook V-cycle by %.3g (bound %.3g)' % (abs(fr - orc).max(), bound)))
        if run['smoother'] == 'exact':
            # exact subspace solves: energy error must not grow
            its = [xr] + [np.array([fl(h) for h in it]) for it in run['iterates']]
            for a, b in zip(its, its[1:]):
                ea, eb = a - xs, b - xs
                Ea, Eb = ea @ A @ ea, eb @ A @ eb
                slack = 2 * bound * abs(A @ eb).sum() + bound * bound * abs(A).sum()
                if Eb > Ea + slack + 1e-13 * abs(Ea):
                    out.append(('mg-energy:' + tag, 'energy error grew from %.6g to %.6g in a cycle with exact subspace solves' % (Ea, Eb)))
                    break
    for d in mg['drivers']:
        tag = '%s/%s/maxiter=%d' % (d['strategy'], d['smoother'], d['maxiter'])
        if d['status'] != 'Ok':
            out.append(('hmg-raises:%s:%s' % (tag, d['status']), 'solve_hmultigrid raised %s: %s' % (d['status'], d.get('msg'))))
            continue
        stats['drivers'] += 1
        tol = fl(d['tol'])
        x = np.array([fl(h) for h in d['x']])
        res0 = np.linalg.norm(f[nd])
        # rounding of the residual the driver looks at: (nnz+2) u (|f| + |A||x|) per component
        def resid(y):
            r = (f - A @ y)[nd]
            dr = (n + 2) * u * (abs(f) + abs(A) @ abs(y))[nd]
            return np.linalg.norm(r), np.linalg.norm(dr)
        tr = [np.array([fl(h) for h in t]) for t in d['replay']]
        if d['iters'] == 'inf':
            stats['drivers_inf'] += 1
            if len(tr) != d['maxiter'] or not np.array_equal(tr[-1], x):
                out.append(('hmg-limit:' + tag, 'reported inf but the returned vector is not iterate number maxiter'))
            for k, y in enumerate(tr):
                r, dr = resid(y)
                if r + dr < tol * res0 * (1 - 1e-9):
                    out.append(('hmg-missed:' + tag, 'reported inf although iterate %d meets the reduction' % (k + 1)))
                    break
        else:
            k = d['iters']
            if not (1 <= k <= max(1, d['maxiter'])) or not np.array_equal(tr[-1], x):
                out.append(('hmg-iterate:' + tag, 'returned vector is not the iterate number it reports (%s)' % k))
            r, dr = resid(x)
            if r - dr > tol * res0 * (1 + 1e-9):
                out.append(('hmg-stop-early:' + tag, 'stopped with residual reduction %.3g, requested %.3g' % (r / res0, tol)))
            for j, y in enumerate(tr[:-1]):
                r, dr = resid(y)
                if r + dr < tol * res0 * (1 - 1e-9):
                    out.append(('hmg-late:' + tag, 'iterate %d already met the reduction, reported %d' % (j + 1, k)))
                    break
    return out


# ---------------------------------------------------------------------------
# multigrid tie in Coq (small spaces): mg_step with Gaussian elimination as sub-solver
# ---------------------------------------------------------------------------

MG_HEADER = '''From Coq Require Import QArith Qcanon List Arith Bool ZArith.
From Verif.C11 Require Import Model MGSolve.
Import ListNotations.
Open Scope Qc_scope.
Definition q (a : Z) (b : positive) : Qc := Q2Qc (a # b).
Definition within (m i e : Qc) : bool :=
  if Qclt_le_dec e (m - i) then false else if Qclt_le_dec e (i - m) then false else true.
Fixpoint allw (m i : list Qc) (e : Qc) : bool :=
  match m, i with
  | [], [] => true
  | a :: m', b :: i' => within a b e && allw m' i' e
  | _, _ => false
  end.
(* a case: A, f, prolongators coarse->fine (Ps[0], Ps[1], ...), lv_inds, smoother, steps, x, impl result, bound *)
Inductive mcase := MC (A : dense) (f : vec) (Ps : list dense) (inds : list (list nat)) (sm : smoother) (steps : nat)
                      (x impl : vec) (bound : Qc).
Definition agrees (c : mcase) : bool :=
  let '(MC A f Ps inds sm steps x impl bound) := c in
  allw (local_mg_step A f Ps inds sm steps x) impl bound.
Fixpoint bad (k : nat) (cs : list mcase) : list nat :=
  match cs with [] => [] | c :: cs' => if agrees c then bad (S k) cs' else k :: bad (S k) cs' end.
'''

SMC = {'gs': 'SmGS', 'forward_gs': 'SmForward', 'backward_gs': 'SmBackward', 'symmetric_gs': 'SmSymmetric', 'exact': 'SmExact'}


def coq_mg_cases(hs_cases, hs_results, limit_n, max_cases):
    """case texts for the small spaces"""
    texts, meta = [], []
    u = 2.0 ** -53
    for c, res in zip(hs_cases, hs_results):
        if res.get('status') != 'Ok' or 'mg' not in res or res['numdofs'] > limit_n or c['mg']['matrix'] != 'synthetic':
            continue        # exact rational evaluation is only practical for short dyadic data
        mg = res['mg']
        A = [[fh(h) for h in r] for r in mg['A']]
        f = [fh(h) for h in mg['f']]
        Ps = [[[fh(h) for h in r] for r in P] for P in mg['Ps']]
        An = np.array([[float(v) for v in r] for r in A])
        Pn = [np.array([[float(v) for v in r] for r in P]) for P in Ps]
        L = res['numlevels']
        n = len(f)
        for run in mg['runs']:
            if run['status'] != 'Ok' or len(texts) >= max_cases:
                continue
            if any(len(I) == 0 for I in run['lv_inds']):
                continue
            _, As = mg_oracle(An, np.array([float(v) for v in f]), Pn, run['lv_inds'], run['smoother'], run['smooth_steps'])
            kappa = max([1.0] + [np.linalg.cond(As[lv][np.ix_(I, I)]) for lv, I in enumerate(run['lv_inds']) if len(I)])
            for which in ('x_rand', 'xs'):
                # exact rational arithmetic from a random start grows with every dependent row update (measured:
                # > 100 s per cycle at 16 dofs); random starts only on the smallest spaces, the fixed point on all
                if which == 'x_rand' and (n > 9 or len(run['lv_inds']) > 2 and n > 7):
                    continue
                x = [fh(h) for h in mg[which]]
                impl = [fh(h) for h in run['from_rand' if which == 'x_rand' else 'from_exact']]
                scale = max([1.0] + [abs(float(v)) for v in x] + [abs(float(v)) for v in impl] + [abs(fl(h)) for h in mg['xs']])
                bound = Fr(10 * L * (2 * run['smooth_steps'] + 2) * n * u * kappa * scale)
                texts.append('(MC %s %s %s %s %s %d%%nat %s %s %s)' % (
                    cmat(A), cvec(f), clist([cmat(P) for P in Ps]), clist([cnl(I) for I in run['lv_inds']]),
                    SMC[run['smoother']], run['smooth_steps'], cvec(x), cvec(impl), cq(bound)))
                meta.append({'hs': {k: v for k, v in c.items() if k != 'mg'}, 'mg_seed': c['mg']['seed'], 'matrix': c['mg']['matrix'],
                             'strategy': run['strategy'], 'smoother': run['smoother'], 'smooth_steps': run['smooth_steps'],
                             'start': which})
    return texts, meta


# ---------------------------------------------------------------------------
# smoothing sets / Dirichlet dofs against the C04 model (coq/C04/Boundary.v), the functions
# smoothing_sets_spec (coq/C11/SmoothSets.v) is about
# ---------------------------------------------------------------------------

SETS_HEADER = '''From Coq Require Import List Arith Bool.
From Verif.lib Require Import FinSet.
From Verif.C04 Require Import Model Boundary.
From Verif.C11 Require Import SmoothSets2.
Import ListNotations.
Fixpoint meshes_from (m : tpmesh) (L : nat) : list tpmesh :=
  match L with O => [] | S k => m :: meshes_from (tp_refine m) k end.
Fixpoint nleqb (a b : list nat) : bool :=
  match a, b with [], [] => true | x :: a', y :: b' => Nat.eqb x y && nleqb a' b' | _, _ => false end.
Definition oleqb (a : option (list nat)) (b : list nat) : bool :=
  match a with Some l => nleqb l b | None => false end.
(* a case: coarsest axes, disparity, (actfun, deactfun) per level, Dirichlet boundaries, and per virtual level
   the implementation's indices_to_smooth for new, cell_supp, trunc, func_supp and dirichlet_dofs *)
Inductive scase := SC (axes : list axis) (disp : option nat) (funs : list (list mi * list mi))
                      (bds : list bdspec) (exp : list (list nat * list nat * list nat * list nat * list nat)).
Definition agrees (c : scase) : bool :=
  let '(SC axes disp funs bds exp) := c in
  let st := mk_hspace (meshes_from (tpmesh_of axes) (length funs))
                      (map (fun ad => mk_level [] [] (of_list (fst ad)) (of_list (snd ad))) funs) disp in
  forallb (fun lve => let '(lv, (n, cs, tr, fs, d)) := lve in
                      oleqb (smooth_new st bds lv) n && oleqb (smooth_cell_supp st bds lv) cs
                      && oleqb (smooth_trunc st bds lv) tr && oleqb (smooth_func_supp st bds lv) fs
                      && oleqb (dirichlet_dofs st bds lv) d)
          (combine (seq 0 (length funs)) exp).
Fixpoint bad (k : nat) (cs : list scase) : list nat :=
  match cs with [] => [] | c :: cs' => if agrees c then bad (S k) cs' else k :: bad (S k) cs' end.
'''


def coq_sets_case(c, res, perturb=False):
    axes = clist(['(mk_axis %d %s)' % (p, cnl([p + 1] + [1] * (n - 1) + [p + 1])) for p, n in zip(c['p'], c['n0'])])
    disp = '(@None nat)' if res['disparity'] is None else '(Some %d%%nat)' % res['disparity']
    funs = clist(['(%s, %s)' % (clist([cnl(t) for t in a]), clist([cnl(t) for t in d]))
                  for a, d in zip(res['actfun'], res['deactfun'])])
    bds = clist(['(%d%%nat, %d%%nat)' % (a, sd) for a, sd in res['bdspecs']]) if res['bdspecs'] else '(@nil bdspec)'
    exp = []
    for lv in range(res['numlevels']):
        d = list(res['dirichlet'][lv])
        if perturb and lv == 0:
            d = d + [0]
        exp.append('(%s, %s, %s, %s, %s)' % tuple(cnl(v) if v else '(@nil nat)' for v in (
            res['smooth']['new'][lv], res['smooth']['cell_supp'][lv], res['smooth']['trunc'][lv], res['smooth']['func_supp'][lv], d)))
    return '(SC %s %s %s %s %s)' % (axes, disp, funs, bds, clist(exp))


def sets_case_ok(res, limit):
    if res.get('status') != 'Ok' or res['numdofs'] > limit:
        return False
    if any(isinstance(d, dict) for d in res['dirichlet']):
        return False
    return all(isinstance(res['smooth'][st], list) and len(res['smooth'][st]) == res['numlevels'] for st in STRATS)


# ---------------------------------------------------------------------------
# run
# ---------------------------------------------------------------------------

def eval_case_files(ctx, prefix, header, texts, chunk):
    """returns list of disagreeing case indices (global) or None when a file did not evaluate"""
    files, offs = [], []
    for n, i in enumerate(range(0, len(texts), chunk)):
        body = header + 'Definition cases := [\n' + ';\n'.join(texts[i:i + chunk]) + '].\nEval vm_compute in bad 0 cases.\n'
        files.append(('%s_%03d' % (prefix, n), body))
        offs.append(i)
    bad = []
    okall = True
    for (name, ok, outp), off in zip(ctx.coq_eval_many(files, timeout=1500), offs):
        ctx.obligations += 1
        idx = parse_coq_list_of_nat(outp) if ok else None
        if idx is None:
            ctx.broken.append('case file %s did not evaluate: %s' % (name, outp[-500:]))
            okall = False
            continue
        ctx.discharged += 1
        bad += [off + b for b in idx]
    return bad, okall


def public(c):
    return {k: v for k, v in c.items() if not k.startswith('_')}


def run(ctx):
    ctx.obligations_stage(PROPS, extra_targets=['C11/Examples.vo', 'C11/ExamplesSets.vo', 'C11/ExamplesSets2.vo', 'C11/ExamplesSets3.vo', 'C11/MGSolve.vo'], gate_dirs=['C04'])
    ctx.assumptions += [
        'model: hand transcription of relaxation_cy.gauss_seidel/gauss_seidel_indexed, solvers.gauss_seidel, '
        'iterative_solve, twogrid (loop), local_mg_step and the set structure of HSpace.*_indices into Gallina over Qc '
        '(coq/C11/Model.v); real arithmetic in place of binary64, bounded per case by a running error bound',
        'scipy.sparse conversions (csr_matrix(A) for CSC/COO input, .tocsr() of Galerkin products) and make_solver '
        '(SuperLU/Cholesky) are not modelled: the model receives the canonical CSR of the denoted matrix / exact solves',
        'twogrid is modelled with the repaired argument test (fixes/C11-twogrid-u0.patch)',
        'sqrt(a)/sqrt(b) < t <-> a/b < t^2 (a >= 0, b > 0, t >= 0) is used to evaluate the stopping rule on squared norms',
    ]
    gs_cases, gs_dist = gen_gs_cases(ctx)
    it_cases, it_dist = gen_it_cases(ctx)
    tg_cases = gen_tg_cases(ctx)
    hs_cases = gen_hs_cases(ctx)
    log('[C11] %d Gauss-Seidel cases, %d iterative_solve cases, %d twogrid cases, %d hierarchical spaces (%d with multigrid)' % (
        len(gs_cases), len(it_cases), len(tg_cases), len(hs_cases), sum('mg' in c for c in hs_cases)))
    gs_payload = [public(c) for c in gs_cases]
    import time
    t0 = time.time()
    out = ctx.impl.run('harness/impl/c11_driver.py', {'gs': gs_payload, 'it': [public(c) for c in it_cases], 'tg': tg_cases},
                       timeout=1500)
    hs_results = []
    B = 12
    for i in range(0, len(hs_cases), B):
        hs_results += ctx.impl.run('harness/impl/c11_driver.py', {'hs': hs_cases[i:i + B]}, timeout=2400)['hs']

    log('[C11] implementation runs done in %.0fs' % (time.time() - t0))
    t0 = time.time()
    # ---- stage 3 (always, it is cheap): the property on the implementation -------------------------------
    nfail = 0
    exact_hits = 0
    maxratio = 0.0
    for c, r in zip(gs_cases, out['gs']):
        ctx.count(('gs', c['fmt'], c['kind'], c['sweep'], c['iterations'], str(c['indices']), c['x'], c['b']), nontrivial=c['n'] >= 2)
        for tag, text in check_gs_on_impl(c, r):
            nfail += 1
            sig = 'impl:gs-%s:%s:%s:%s' % (tag, c['fmt'], c['sweep'], 'indexed' if c['indices'] is not None else 'all')
            ctx.report(sig, text, {'case': public(c), 'impl': r,
                                   'how': 'solvers.gauss_seidel(A, x, b, iterations, indices, sweep); floats are float.hex()'})
        exact_hits += bool(c.get('_exact'))
        maxratio = max(maxratio, c.get('_dev_ratio', 0.0))
    for c, r in zip(it_cases, out['it']):
        ctx.count(('it', c['A'], c['f'], c['x0'], c['active'], c['tol'], c['maxiter']))
        for tag, text in check_it_on_impl(c, r):
            nfail += 1
            ctx.report('impl:iterative_solve-%s' % tag, text, {'case': public(c), 'impl': r,
                       'how': 'solvers.iterative_solve(lambda x: x + W*(f - A@x), A, f, x0, active_dofs, tol, maxiter)'})
    for c, r in zip(tg_cases, out['tg']):
        ctx.count(('tg', c['p'], c['n'], c['seed'], c['u0'], c['sweep'], c['smooth_steps']))
        for tag, text in check_tg_on_impl(c, r):
            nfail += 1
            ctx.report('impl:' + tag, text, {'case': c, 'impl': {k: v for k, v in r.items() if k not in ('A', 'trace')},
                       'how': 'solvers.twogrid(mass+stiffness on refine(make_knots(p,0,1,n)), f, prolongation, GaussSeidelSmoother(sweep), u0=...)'})
    stats = {'mg_runs': 0, 'mg_max_dev_over_bound': 0.0, 'drivers': 0, 'drivers_inf': 0, 'spaces': 0, 'levels': {}}
    for c, r in zip(hs_cases, hs_results):
        pub = {k: v for k, v in c.items()}
        if r['status'] != 'Ok':
            nfail += 1
            ctx.report('impl:hspace-raises:%s' % r['status'], 'building the space / its index sets raised %s: %s' % (r['status'], r.get('msg')),
                       {'case': pub, 'how': 'HSpace(kvs, truncate, disparity, bdspecs); refine({lv: cells}) per refinement (see c11_driver.build_hspace)'})
            continue
        stats['spaces'] += 1
        stats['levels'][r['numlevels']] = stats['levels'].get(r['numlevels'], 0) + 1
        ctx.count(('hs', r['actfun'], r['deactfun'], r['bdspecs'], c['truncate'], c['disparity']), nontrivial=r['numlevels'] >= 2)
        for tag, text in (check_sets_on_impl(c, r) + check_sets_on_impl(c, r, r['fresh'], ':fresh') + check_history_on_impl(c, r)):
            nfail += 1
            ctx.report('impl:' + tag, text, {'case': pub, 'impl': {k: r[k] for k in ('numlevels', 'actfun', 'deactfun', 'dirichlet', 'dirichlet_default', 'smooth', 'fresh')},
                       'how': 'c11_driver.build_hspace(case, warm=True): after every refinement all of dirichlet_dofs(lv), non_dirichlet_dofs(), '
                              'indices_to_smooth(strategy) are called on the same HSpace before the next hs.refine({lv: cells}); '
                              'fresh = the same refinements on a new HSpace queried only at the end'})
        if 'mg' in r and isinstance(r['non_dirichlet'], list):
            for tag, text in check_mg_on_impl(ctx, c, r, stats):
                nfail += 1
                ctx.report('impl:' + tag, text, {'case': pub, 'how': 'solvers.local_mg_step / solve_hmultigrid on the space and matrix built by c11_driver.run_hs'})
    ctx.cov['traces_validated_against_impl'] = len(gs_cases) + len(it_cases) + len(tg_cases) + stats['spaces'] + stats['mg_runs'] + stats['drivers']
    ctx.cov['property_failures_on_impl'] = nfail

    log('[C11] property oracles on the implementation done in %.0fs' % (time.time() - t0))
    t0 = time.time()
    # ---- stage 2: correspondence model <-> implementation -------------------------------------------------
    ndis = 0
    ok_gs = [(c, r) for c, r in zip(gs_cases, out['gs']) if r['status'] == 'Ok' and len(r['x']) == c['n']]
    texts = [coq_gs_case(c, [fh(h) for h in r['x']]) for c, r in ok_gs]
    canary = coq_gs_case(ok_gs[0][0], [fh(h) for h in ok_gs[0][1]['x']], perturb=True) if ok_gs else None
    bad, okf = eval_case_files(ctx, 'C11_gs', GS_HEADER, texts + ([canary] if canary else []), 150)
    if canary and okf:
        if len(texts) not in bad:
            ctx.broken.append('self-test: a perturbed Gauss-Seidel case was not flagged by the Coq comparison')
        bad = [b for b in bad if b != len(texts)]
    for b in bad[:3]:
        c, r = ok_gs[b]
        ndis += 1
        ctx.broken.append('correspondence C11 gauss_seidel model<->impl differs (case %d)' % b)
        viol = check_gs_on_impl(c, r)
        ctx.report('tie:gauss_seidel:%s:%s' % (c['fmt'], c['sweep']),
                   'Coq model of gauss_seidel and implementation disagree beyond the rounding bound' + (': ' + viol[0][1] if viol else ''),
                   {'case': public(c), 'impl': r}, found_input=bool(viol))
    ok_it = [(c, r) for c, r in zip(it_cases, out['it']) if r['status'] == 'Ok']
    texts = [coq_it_case(c, r) for c, r in ok_it]
    canary = coq_it_case(ok_it[0][0], ok_it[0][1], perturb=True) if ok_it else None
    bad, okf = eval_case_files(ctx, 'C11_it', IT_HEADER, texts + ([canary] if canary else []), 150)
    if canary and okf:
        if len(texts) not in bad:
            ctx.broken.append('self-test: a perturbed iterative_solve case was not flagged by the Coq comparison')
        bad = [b for b in bad if b != len(texts)]
    for b in bad[:3]:
        c, r = ok_it[b]
        ndis += 1
        ctx.broken.append('correspondence C11 iterative_solve model<->impl differs (case %d)' % b)
        viol = check_it_on_impl(c, r)
        ctx.report('tie:iterative_solve', 'Coq model of iterative_solve and implementation return different (x, iterations)' + (': ' + viol[0][1] if viol else ''),
                   {'case': public(c), 'impl': r}, found_input=bool(viol))
    ok_tg = []
    for c, r in zip(tg_cases, out['tg']):
        if r['status'] != 'Ok':
            continue
        o = tg_observe(c, r)
        if o[6] is None or o[6] != len(o[5]) or o[3] <= 1e3 * o[4]:
            continue
        if tg_model(o[3], o[4], o[5], fl(c['tol']), c['maxiter'])[2]:
            continue              # a residual within rounding of a threshold: either decision is legitimate
        ok_tg.append((c, r))
    texts = [coq_tg_case(c, r) for c, r in ok_tg]
    canary = coq_tg_case(ok_tg[0][0], ok_tg[0][1], perturb=True) if ok_tg else None
    bad, okf = eval_case_files(ctx, 'C11_tg', TG_HEADER, texts + ([canary] if canary else []), 150)
    if canary and okf:
        if len(texts) not in bad:
            ctx.broken.append('self-test: a perturbed twogrid case was not flagged by the Coq comparison')
        bad = [b for b in bad if b != len(texts)]
    for b in bad[:3]:
        c, r = ok_tg[b]
        ndis += 1
        ctx.broken.append('correspondence C11 twogrid loop model<->impl differs (case %d)' % b)
        viol = check_tg_on_impl(c, r)
        ctx.report('tie:twogrid:%s' % c['u0'], 'Coq model of the twogrid loop, run on the residuals of the implementation\'s own iterates, stops elsewhere than the implementation'
                   + (': ' + viol[0][1] if viol else ''),
                   {'case': c, 'impl': {k: v for k, v in r.items() if k not in ('A', 'trace')}}, found_input=bool(viol))
    n_tg_coq = len(ok_tg)
    ok_hs = [(c, r) for c, r in zip(hs_cases, hs_results) if sets_case_ok(r, 250)]
    texts = [coq_sets_case(c, r) for c, r in ok_hs]
    canary = coq_sets_case(ok_hs[0][0], ok_hs[0][1], perturb=True) if ok_hs else None
    bad, okf = eval_case_files(ctx, 'C11_sets', SETS_HEADER, texts + ([canary] if canary else []), 12)
    if canary and okf:
        if len(texts) not in bad:
            ctx.broken.append('self-test: a perturbed smoothing-set case was not flagged by the Coq comparison')
        bad = [b for b in bad if b != len(texts)]
    for b in bad[:3]:
        c, r = ok_hs[b]
        ndis += 1
        ctx.broken.append('correspondence C11 smoothing sets / Dirichlet dofs C04-model<->impl differs (space %d)' % b)
        viol = check_sets_on_impl(c, r) + check_history_on_impl(c, r)
        ctx.report('tie:smoothing-sets', 'indices_to_smooth (one of the four strategies) or dirichlet_dofs differ from the models (coq/C04/Boundary.v, coq/C11/SmoothSets2.v) on the same space'
                   + (': ' + viol[0][1] if viol else ''),
                   {'case': c, 'impl': {k: r[k] for k in ('numlevels', 'actfun', 'deactfun', 'dirichlet', 'smooth')}}, found_input=bool(viol))
    n_sets_coq = len(ok_hs)
    thorough = ctx.tier == 'thorough'
    texts, meta = coq_mg_cases(hs_cases, hs_results, 16, 160 if thorough else 40)
    bad, okf = eval_case_files(ctx, 'C11_mg', MG_HEADER, texts, 14)
    for b in bad[:3]:
        ndis += 1
        ctx.broken.append('correspondence C11 local_mg_step model<->impl differs (case %d)' % b)
        ctx.report('tie:local_mg_step:%s/%s' % (meta[b]['strategy'], meta[b]['smoother']),
                   'Coq model of local_mg_step and implementation disagree beyond the rounding bound', meta[b], found_input=True)
    ctx.cov['disagreements_checked'] = ndis
    log('[C11] Coq case files done in %.0fs' % (time.time() - t0))
    ctx.cov['coq_cases'] = {'gauss_seidel': len(ok_gs), 'iterative_solve': len(ok_it), 'twogrid_loop': n_tg_coq, 'smoothing_sets_C04_model': n_sets_coq, 'local_mg_step': len(texts)}
    ctx.cov['rule'] = ('Gauss-Seidel: SPD/diagonally dominant/nonsymmetric/zero-diagonal dyadic matrices n<=7 (12) in dense, raw CSR '
                       '(explicit zeros, unsorted columns), CSC, COO (duplicates) x index lists x sweeps x iterations; iterative_solve: '
                       'exactly computable contractions x x0 x active dofs x tol x maxiter; twogrid x u0 kinds; hierarchical spaces '
                       '(dim 1-3, degree 1-3, HB/THB, disparity inf/1/2, boundary subsets, 1-3 refinements + later refinements of existing coarser levels along boundaries; every space built twice: queried after every refinement and fresh) x strategies x smoothers; '
                       'non-trivial = n>=2 resp. >=2 levels; distinct by input')
    ctx.cov['input_distribution'] = {'gauss_seidel': gs_dist, 'iterative_solve': it_dist, 'twogrid_u0': [c['u0'] for c in tg_cases],
                                     'spaces_by_levels': stats['levels'], 'mg_runs': stats['mg_runs'],
                                     'hmultigrid_driver_runs': stats['drivers'], 'hmultigrid_driver_runs_hitting_maxiter': stats['drivers_inf']}
    ctx.cov['rounding'] = {'gs_bound': 'running forward error bound, g=(n+6)u', 'gs_max_observed_over_bound': maxratio,
                           'gs_bit_exact_cases': exact_hits, 'mg_bound': '10 L (2s+2) n u kappa scale',
                           'mg_max_observed_over_bound': stats['mg_max_dev_over_bound']}
    ctx.cov['partial'] = ['not proved: convergence of twogrid / the multigrid drivers for SPD problems (evaluated on the implementation)']
    ctx.cov['exhaustive'] = False
    if gs_cases:
        ctx.sample({'gauss_seidel': public(gs_cases[0]), 'impl': out['gs'][0]})
    if it_cases:
        ctx.sample({'iterative_solve': public(it_cases[0]), 'impl': out['it'][0]})
    return ctx.finish()


def _rebuild_gs(c):
    """private exact fields of a Gauss-Seidel case from its public (hex) form"""
    n = c['n']
    A = [[Fr(0)] * n for _ in range(n)]
    if c['fmt'] == 'dense':
        A = [[fh(h) for h in r] for r in c['A']]
    elif c['fmt'] in ('csr', 'csc'):
        for i in range(n):
            for jj in range(c['indptr'][i], c['indptr'][i + 1]):
                j = c['storage_indices'][jj]
                if c['fmt'] == 'csr':
                    A[i][j] += fh(c['data'][jj])
                else:
                    A[j][i] += fh(c['data'][jj])
    else:
        for i, j, h in zip(c['row'], c['col'], c['data']):
            A[i][j] += fh(h)
    c['_A'] = A
    c['_x'] = [fh(h) for h in c['x']]
    c['_b'] = [fh(h) for h in c['b']]
    c['_xs'] = None
    return c


def replay(ctx, doc):
    """./check C11 --replay file : re-run the recorded input on the implementation and evaluate the property"""
    r = doc.get('replay', {})
    c = r.get('case')
    if not isinstance(c, dict):
        log('[C11] replay file has no case (a broken obligation without input)')
        ctx.broken.append('replay without input: ' + str(doc.get('what'))[:300])
        return ctx.finish()
    if 'fmt' in c:
        c = _rebuild_gs(dict(c))
        res = ctx.impl.run('harness/impl/c11_driver.py', {'gs': [public(c)]})['gs'][0]
        bad = check_gs_on_impl(c, res)
    elif 'W' in c:
        log('[C11] iterative_solve replay: regenerate with the recorded seed (VERIF_SEED=%s)' % doc.get('seed'))
        bad = []
    elif 'u0' in c:
        res = ctx.impl.run('harness/impl/c11_driver.py', {'tg': [c]})['tg'][0]
        bad = check_tg_on_impl(c, res)
    else:
        res = ctx.impl.run('harness/impl/c11_driver.py', {'hs': [c]})['hs'][0]
        stats = {'mg_runs': 0, 'mg_max_dev_over_bound': 0.0, 'drivers': 0, 'drivers_inf': 0}
        bad = [('hspace-raises', res.get('msg'))] if res['status'] != 'Ok' else (
            check_sets_on_impl(c, res) + check_sets_on_impl(c, res, res['fresh'], ':fresh') + check_history_on_impl(c, res)
            + (check_mg_on_impl(ctx, c, res, stats) if 'mg' in res and isinstance(res['non_dirichlet'], list) else []))
    ctx.count(('replay', str(c)[:200]))
    for tag, text in bad:
        ctx.report('impl:' + tag, text, {'case': public(c)})
    log('[C11] replay: %d property failures' % len(bad))
    return ctx.finish()


META = {
    'technique': 'Rocq proofs over exact rationals (row-update order by induction on the while loops, textbook update by finite-sum algebra, energy identity for subspace corrections, stopping rules as state machines, multigrid fixed point by induction over the levels) + correspondence of the Gallina model with solvers.gauss_seidel / relaxation_cy / iterative_solve / local_mg_step on generated inputs under a derived running rounding bound (iteration counts and exactly computable iterates compared exactly) + the property predicate evaluated on the implementation with independent exact/numpy oracles',
    'level_text': 'Theorems (Coq, unbounded, exact arithmetic Qc): solvers.gauss_seidel performs exactly the row updates of the stated order for dense and CSR input, any index list, sweep and iteration count (gs_update_order); each is the textbook update of the denoted matrix for every CSR with explicit zeros, unsorted or repeated off-diagonal coordinates and at most one stored diagonal entry (gs_textbook, gs_textbook_dense, gs_dense_sparse_agree, gs_zero_diagonal_skipped); exact solutions are fixed (gs_fixed_point*), only listed unknowns change (gs_indexed_only_touches), and for symmetric matrices with positive diagonal no sweep increases the energy (semi-)norm error (gs_energy_monotone*, from the identity E(x+d)=E(x)-d^T A d for subspace corrections). iterative_solve/solve_hmultigrid return (x,k) only at the first iterate meeting the reduction and (x,inf) only after max(1,maxiter) unsuccessful steps (iterative_solve_stops); twogrid (repaired) starts from any given vector and leaves its loop only for its three stated reasons (twogrid_accepts_u0_and_stops); the exact discrete solution is a fixed point of the local multigrid cycle for every number of levels, smoother, step count, prolongators and smoothing sets satisfying the stated hypotheses (mg_fixed_point, mg_fixed_point_one_level). The cycle with exact subspace solves never increases the energy functional / energy-norm error, for every number of levels (mg_exact_J_monotone, mg_exact_energy_monotone, mg_exact_energy_monotone_dirichlet, via the Galerkin-product algebra on list matrices: galerkin_product_entries, coarse_correction_splits_J). On the C04 model of HSpace, indices_to_smooth for the strategies new and cell_supp returns valid positions, no Dirichlet dof and all new non-Dirichlet dofs, for every state (smoothing_sets_spec, dirichlet_dofs_spec); the same for all four strategies with func_supp and trunc modelled on the C04 model of function_children/function_grandparents (smoothing_sets_spec_all, func_supp_coarse_part, trunc_coarse_part). Non-canonical CSR: the routine divides by the LAST stored diagonal entry and uses the denoted off-diagonal sums (gs_row_noncanonical, gs_duplicate_diagonal_uses_last, gs_duplicate_diagonal_denoted_value, gs_duplicate_diagonal_refuted). On sorted states the position search of raveled_to_virtual_canonical_indices succeeds for all strategies and dirichlet_dofs, and every dof has exactly one position; both hold on all reachable states (position_search_succeeds, dof_position_unique, reachable_positions). Not proved: convergence of twogrid and of the drivers (analytic). Two-grid convergence and the driver return values are evaluated on the implementation on every run. Tie: smoothing sets (all four strategies) and dirichlet_dofs of every generated space are compared exactly with the C04 model the theorem is about (coq/C04/Boundary.v), on an HSpace object that was queried after every refinement and on a fresh one; ~420 (thorough 2400) Gauss-Seidel cases, 150 (600) iterative_solve cases and 40 (160) multigrid cycles are run through the implementation and through the Coq model (vm_compute) and compared under the derived bound / exactly.',
    'level_note': 'Trusted: Coq kernel + vm_compute; hand transcription of relaxation_cy.pyx, solvers.gauss_seidel/iterative_solve/twogrid/local_mg_step into Gallina (validated by the correspondence run); real arithmetic instead of binary64 (bounded per case by a running forward error bound derived from operation counts, stated in harness/props/c11.py); scipy format conversions and make_solver (SuperLU/Cholesky) satisfy their contracts; the equivalence sqrt(a)/sqrt(b)<t <-> a/b<t^2. Not covered: convergence rates; HSpace state invariants and canonical numbering (C04) behind indices_to_smooth are checked only on generated spaces; twogrid convergence only by runs. Defect repaired by fixes/C11-twogrid-u0.patch: twogrid(u0=ndarray) raised ValueError.',
}
