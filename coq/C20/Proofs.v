(* C20 -- lemmas about the cache protocol (see Model.v). *)
From Coq Require Import List Arith Bool Lia.
From Verif.C20 Require Import Model.
Import ListNotations.

(* ------------------------------------------------------------------------- *)
(* paths and updates                                                         *)
(* ------------------------------------------------------------------------- *)

Lemma role_eqb_eq a b : role_eqb a b = true <-> a = b.
Proof. destruct a, b; simpl; split; congruence. Qed.

Lemma path_eqb_eq x y : path_eqb x y = true <-> x = y.
Proof.
  destruct x as [r n|p r], y as [r' n'|p' r']; simpl; try (split; congruence).
  - rewrite andb_true_iff, role_eqb_eq, Nat.eqb_eq. split; [intros [-> ->]; auto | intros H; inversion H; auto].
  - rewrite andb_true_iff, role_eqb_eq, Nat.eqb_eq. split; [intros [-> ->]; auto | intros H; inversion H; auto].
Qed.

Lemma upd_same {A} (f : path -> A) x v : upd f x v x = v.
Proof. unfold upd. destruct (path_eqb x x) eqn:E; auto. assert (x = x) by auto. apply path_eqb_eq in H. congruence. Qed.

Lemma upd_other {A} (f : path -> A) x v y : y <> x -> upd f x v y = f y.
Proof. unfold upd. intros H. destruct (path_eqb y x) eqn:E; auto. apply path_eqb_eq in E. contradiction. Qed.

(* Digest idealisation made explicit: different forms never share a path. *)
Lemma digest_names_l : forall r r' n n', Final r n = Final r' n' -> r = r' /\ n = n'.
Proof. intros. inversion H; auto. Qed.

(* ------------------------------------------------------------------------- *)
(* what one step of one process can change (both protocols)                  *)
(* ------------------------------------------------------------------------- *)

Lemma procs_setproc st p q p' :
  procs (setproc st p q) p' = if Nat.eqb p' p then Some q else procs st p'.
Proof. reflexivity. Qed.

(* a step of p changes no other process, keeps p's form, never makes it Killed *)
Lemma step_proc_procs pr orc st p q :
  exists q', pform q' = pform q /\
             (ppc q' = PDone Killed -> ppc q = PDone Killed) /\
             rank (ppc q') <= rank (ppc q) /\
             (is_done (ppc q) = false -> rank (ppc q') < rank (ppc q)) /\
             (procs st p = Some q ->
              forall p', procs (step_proc pr orc st p q) p' = if Nat.eqb p' p then Some q' else procs st p').
Proof.
  destruct q as [n c g]. unfold step_proc; simpl.
  destruct c as [| |r w| | | |o].
  - destruct (load orc (files st (Final So n))); eexists; (split; [|split; [|split; [|split]]]);
      try (intros; reflexivity); simpl; try discriminate; try lia; auto.
  - eexists; (split; [|split; [|split; [|split]]]); try (intros; reflexivity); simpl; try discriminate; try lia; auto.
  - unfold stage, begin, goto; simpl.
    destruct pr, r, w; simpl;
      repeat match goal with
             | |- context [match files ?s ?x with _ => _ end] => destruct (files s x)
             | |- context [if stale ?a ?b ?c then _ else _] => destruct (stale a b c)
             end;
      eexists; (split; [|split; [|split; [|split]]]); try (intros; reflexivity); simpl; try discriminate; try lia; auto.
  - eexists; (split; [|split; [|split; [|split]]]); try (intros; reflexivity); simpl; try discriminate; try lia; auto.
  - eexists; (split; [|split; [|split; [|split]]]); try (intros; reflexivity); simpl; try discriminate; try lia; auto.
  - destruct (load orc (files st (Final So n))); eexists; (split; [|split; [|split; [|split]]]);
      try (intros; reflexivity); simpl; try discriminate; try lia; auto.
  - exists (mkproc n (PDone o) g). simpl. repeat split; auto; try discriminate.
    intros H p'. destruct (Nat.eqb p' p) eqn:E; auto. apply Nat.eqb_eq in E. subst. auto.
Qed.

(* ------------------------------------------------------------------------- *)
(* termination: every step of a live process lowers its rank                 *)
(* ------------------------------------------------------------------------- *)

Definition rk (st : state) (p : pid) : nat :=
  match procs st p with Some q => rank (ppc q) | None => 0 end.
Definition live (st : state) (p : pid) : Prop := procs st p <> None.

Lemma step_keeps_proc pr orc st l p q :
  procs st p = Some q ->
  exists q', procs (step pr orc st l) p = Some q' /\ pform q' = pform q /\
             rank (ppc q') <= rank (ppc q) /\
             (l = Step p -> is_done (ppc q) = false -> rank (ppc q') < rank (ppc q)) /\
             (ppc q' = PDone Killed -> ppc q = PDone Killed \/ l = Kill p).
Proof.
  intros H. destruct l as [p0 n|p0|p0]; simpl.
  - destruct (procs st p0) eqn:E.
    + exists q. repeat split; auto; try discriminate.
    + exists q. rewrite procs_setproc. destruct (Nat.eqb p p0) eqn:E2.
      * apply Nat.eqb_eq in E2. subst. congruence.
      * repeat split; auto; try discriminate.
  - destruct (procs st p0) as [q0|] eqn:E.
    + destruct (step_proc_procs pr orc st p0 q0) as (q' & Hf & Hk & Hle & Hlt & Hp).
      rewrite (Hp E). destruct (Nat.eqb p p0) eqn:E2.
      * apply Nat.eqb_eq in E2. subst p0. assert (q0 = q) by congruence. subst q0.
        exists q'. repeat split; auto.
      * exists q. repeat split; auto.
        intros HH. inversion HH. subst. rewrite Nat.eqb_refl in E2. discriminate.
    + exists q. repeat split; auto. intros HH. inversion HH. subst. congruence.
  - destruct (procs st p0) as [q0|] eqn:E.
    + destruct (is_done (ppc q0)) eqn:D.
      * exists q. repeat split; auto; try discriminate.
      * unfold goto. rewrite procs_setproc. destruct (Nat.eqb p p0) eqn:E2.
        -- apply Nat.eqb_eq in E2. subst p0. assert (q0 = q) by congruence. subst q0.
           eexists. split; [reflexivity|]. simpl. repeat split; auto; try lia; try discriminate.
        -- exists q. repeat split; auto; try discriminate.
    + exists q. repeat split; auto; try discriminate.
Qed.

Lemma rank_zero_done c : rank c = 0 -> is_done c = true.
Proof. destruct c as [| |r w| | | |o]; simpl; try discriminate; auto. destruct r, w; simpl; discriminate. Qed.

Definition is_step_of (p : pid) (l : label) : bool :=
  match l with Step p' => Nat.eqb p' p | _ => false end.
Definition steps_of (p : pid) (tr : list label) : nat := length (filter (is_step_of p) tr).

(* a process that takes [rank] steps of its own -- whatever the others do in between -- is done *)
Lemma liveness_l pr orc : forall tr st p q,
  procs st p = Some q ->
  rank (ppc q) <= steps_of p tr ->
  exists q', procs (run pr orc tr st) p = Some q' /\ pform q' = pform q /\ is_done (ppc q') = true.
Proof.
  induction tr as [|l tr IH]; intros st p q H Hc.
  - simpl in *. exists q. repeat split; auto. apply rank_zero_done. unfold steps_of in Hc; simpl in Hc. lia.
  - simpl. destruct (step_keeps_proc pr orc st l p q H) as (q' & Hq' & Hf & Hle & Hlt & _).
    unfold steps_of in Hc. simpl in Hc.
    destruct (IH _ p q' Hq') as (q'' & A & B & C).
    + unfold steps_of. destruct (is_step_of p l) eqn:E; simpl in Hc; [|lia].
      destruct l as [p0 n|p0|p0]; simpl in E; try discriminate. apply Nat.eqb_eq in E. subst p0.
      destruct (is_done (ppc q)) eqn:D.
      * assert (rank (ppc q) = 0) by (destruct (ppc q); simpl in *; try discriminate; auto). lia.
      * specialize (Hlt eq_refl eq_refl). lia.
    + exists q''. repeat split; auto. congruence.
Qed.

(* ------------------------------------------------------------------------- *)
(* the repaired protocol: inductive invariant                                *)
(* ------------------------------------------------------------------------- *)

Section NewProtocol.
Variable orc : oracle.

(* an entry under its final name that a request survives and that denotes the right form *)
Definition final_ok (n : form) (f : fstate) : Prop :=
  match f with
  | Absent => True
  | Complete c => c = n
  | Partial k c => orc k = ImpErr \/ (orc k = Loads /\ c = n)
  end.

Definition proc_inv (st : state) (p : pid) (q : proc) : Prop :=
  let n := pform q in
  let T r := files st (Tmp p r) in
  match ppc q with
  | PImport | PMkdtemp | PWrite Pyx W0 => forall r, T r = Absent
  | PWrite Pyx _ => preg q = n /\ T Cfile = Absent /\ T Obj = Absent /\ T So = Absent
  | PWrite Cfile W0 => T Pyx = Complete n /\ T Cfile = Absent /\ T Obj = Absent /\ T So = Absent
  | PWrite Cfile _ => preg q = n /\ T Obj = Absent /\ T So = Absent
  | PWrite Obj W0 => T Cfile = Complete n /\ T Obj = Absent /\ T So = Absent
  | PWrite Obj _ => preg q = n /\ T So = Absent
  | PWrite So W0 => T Obj = Complete n /\ T So = Absent
  | PWrite So _ => preg q = n
  | PReplace => T So = Complete n
  | PCleanup | PReimport => files st (Final So n) = Complete n
  | PDone o => o = Ok n \/ o = Killed
  end.

Record Inv (st : state) : Prop := {
  inv_final : forall n, final_ok n (files st (Final So n));
  inv_fresh : forall p, procs st p = None -> forall r, files st (Tmp p r) = Absent;
  inv_procs : forall p q, procs st p = Some q -> proc_inv st p q }.

Lemma inv_init : Inv init.
Proof. split; simpl; auto. intros; discriminate. Qed.

(* the only shared file a step of the repaired protocol touches is the final .so of its
   own form, and it only ever installs the finished artefact there *)
Lemma step_proc_frame st p q :
  proc_inv st p q ->
  let st' := step_proc New orc st p q in
  (forall p' r, p' <> p -> files st' (Tmp p' r) = files st (Tmp p' r)) /\
  (forall n, files st' (Final So n) = files st (Final So n) \/
             (n = pform q /\ files st' (Final So n) = Complete n)) /\
  (forall r n, r <> So -> files st' (Final r n) = files st (Final r n)).
Proof.
  destruct q as [n c g]. unfold proc_inv, step_proc; simpl. intros HI.
  assert (TF: forall p' r r' v, p' <> p -> upd (files st) (Tmp p r') v (Tmp p' r) = files st (Tmp p' r)).
  { intros. apply upd_other. congruence. }
  assert (FF: forall r' v r0 n0, upd (files st) (Tmp p r') v (Final r0 n0) = files st (Final r0 n0)).
  { intros. apply upd_other. congruence. }
  destruct c as [| |r w| | | |o].
  - destruct (load orc (files st (Final So n))); simpl; repeat split; auto.
  - simpl; repeat split; auto.
  - unfold stage, begin, goto; simpl.
    destruct r, w; simpl;
      repeat match goal with
             | |- context [match files ?s ?x with _ => _ end] => destruct (files s x)
             | |- context [if stale ?a ?b ?c then _ else _] => destruct (stale a b c)
             end; simpl; repeat split; intros; auto.
  - simpl. repeat split; intros.
    + rewrite upd_other by congruence. rewrite upd_other by congruence. auto.
    + destruct (Nat.eq_dec n0 n).
      * subst n0. right. split; auto. rewrite upd_other by congruence. rewrite upd_same. auto.
      * left. rewrite upd_other by congruence. rewrite upd_other by congruence. auto.
    + rewrite upd_other by congruence. rewrite upd_other by congruence. auto.
  - simpl. repeat split; intros; auto.
    destruct (Nat.eqb p' p) eqn:E; auto. apply Nat.eqb_eq in E. contradiction.
  - destruct (load orc (files st (Final So n))); simpl; repeat split; auto.
  - simpl; repeat split; auto.
Qed.

(* the invariant of a process depends only on its own private files and its final .so *)
Lemma proc_inv_frame st st' p q :
  (forall r, files st' (Tmp p r) = files st (Tmp p r)) ->
  (files st (Final So (pform q)) = Complete (pform q) -> files st' (Final So (pform q)) = Complete (pform q)) ->
  proc_inv st p q -> proc_inv st' p q.
Proof.
  intros HT HF. unfold proc_inv. destruct (ppc q) as [| |r w| | | |o]; try (destruct r, w);
    repeat rewrite HT; auto.
  all: intros; try rewrite HT; auto.
Qed.

Lemma stale_absent st x y : files st y = Absent -> stale st x y = true.
Proof. intros H. unfold stale. rewrite H. reflexivity. Qed.

Ltac fs :=
  repeat (rewrite upd_same || (rewrite upd_other by congruence)).

Lemma step_proc_own st p q :
  procs st p = Some q ->
  final_ok (pform q) (files st (Final So (pform q))) ->
  proc_inv st p q ->
  forall q', procs (step_proc New orc st p q) p = Some q' ->
  proc_inv (step_proc New orc st p q) p q'.
Proof.
  destruct q as [n c g]. unfold step_proc; simpl. intros HP HF HI q'.
  destruct c as [| |r w| | | |o].
  - (* PImport *)
    unfold proc_inv in HI; simpl in HI. unfold load.
    destruct (files st (Final So n)) as [|k c|c] eqn:E; simpl in HF.
    + unfold goto, setproc; simpl; rewrite Nat.eqb_refl. intros H; inversion H; subst; clear H.
      unfold proc_inv; simpl. auto.
    + destruct HF as [HF|[HF1 HF2]]; [rewrite HF|rewrite HF1];
        unfold goto, setproc; simpl; rewrite Nat.eqb_refl; intros H; inversion H; subst; clear H;
        unfold proc_inv; simpl; auto.
    + subst c. unfold goto, setproc; simpl; rewrite Nat.eqb_refl. intros H; inversion H; subst; clear H.
      unfold proc_inv; simpl. auto.
  - unfold goto, setproc; simpl; rewrite Nat.eqb_refl. intros H; inversion H; subst; clear H.
    unfold proc_inv in *; simpl in *. auto.
  - (* the four build stages *)
    unfold proc_inv in HI; simpl in HI.
    destruct r, w; unfold stage, begin, goto; simpl;
      repeat match goal with
             | H : _ /\ _ |- _ => destruct H
             end;
      repeat match goal with
             | H : files st ?x = _ |- context [files st ?x] => rewrite H
             end;
      repeat (rewrite stale_absent by (auto; fail));
      unfold setproc; simpl; rewrite Nat.eqb_refl; intros H'; inversion H'; subst; clear H';
      unfold proc_inv; simpl; fs; auto.
  - (* PReplace *)
    unfold proc_inv in HI; simpl in HI.
    unfold goto, setproc; simpl; rewrite Nat.eqb_refl. intros H; inversion H; subst; clear H.
    unfold proc_inv; simpl. fs. auto.
  - unfold proc_inv in HI; simpl in HI.
    unfold goto, setproc; simpl; rewrite Nat.eqb_refl. intros H; inversion H; subst; clear H.
    unfold proc_inv; simpl. auto.
  - unfold proc_inv in HI; simpl in HI. rewrite HI. simpl.
    unfold goto, setproc; simpl; rewrite Nat.eqb_refl. intros H; inversion H; subst; clear H.
    unfold proc_inv; simpl. auto.
  - intros H. unfold proc_inv in *; simpl in *.
    assert (q' = mkproc n (PDone o) g) by congruence. subst q'. simpl. auto.
Qed.
End NewProtocol.
