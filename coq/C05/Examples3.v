(* C05 -- non-vacuity for coq/C05/Props3.v *)
From Coq Require Import QArith Qcanon ZArith List Arith Bool Lia.
From Verif.lib Require Import Bsp.
From Verif.C02 Require Import Proofs.
From Verif.C05 Require Import Model Proofs Hier Bridge BoundaryTrace.
Import ListNotations.
Open Scope Qc_scope.

Definition q (n : Z) (d : positive) : Qc := Q2Qc (n # d).
(* degree 2, non-uniform, a double interior knot: 0,0,0,1/4,1/2,1/2,1,1,1 *)
Definition ex_bs := map (fun z => q z 4) [0;1;2;4]%Z.
Definition ex_mults := [3;1;2;3]%nat.
Definition ex_kv := expand ex_bs ex_mults.
Definition ex_axis := M4.mk_axis 2 ex_mults.

Example ex_kv_is : ex_kv = map (fun z => q z 4) [0;0;0;1;2;2;4;4;4]%Z.
Proof. vm_compute. reflexivity. Qed.
Example ex_ok : kv_ok ex_kv 2.
Proof. apply open_kv_ok. vm_compute. reflexivity. Qed.
Example ex_increasing : increasing ex_bs.
Proof. repeat split. Qed.
Example ex_spans : spans ex_bs (mids ex_bs).
Proof. apply spans_mids; [discriminate|exact ex_increasing]. Qed.
Example ex_axis_of : axis_of ex_axis ex_bs ex_kv.
Proof. apply expand_axis_of; [reflexivity|repeat constructor]. Qed.
Example ex_in_dom : Forall (in_dom ex_kv) (mids ex_bs).
Proof. exact (spans_in_dom ex_axis ex_bs ex_kv _ ex_axis_of ex_spans). Qed.

(* hypotheses of dyadic_child_pattern are met with a non-zero entry, and the pattern is not everything *)
Example ex_nonzero : get2 (prolongation_spec ex_kv 2 (mids ex_bs)) 4 2 <> 0.
Proof. vm_compute. discriminate. Qed.
Example ex_child : C4.is_child_1d ex_axis 2 4 = true.
Proof. vm_compute. reflexivity. Qed.
Example ex_not_child : C4.is_child_1d ex_axis 2 1 = false /\ get2 (prolongation_spec ex_kv 2 (mids ex_bs)) 1 2 = 0.
Proof. split; vm_compute; reflexivity. Qed.
(* test (a sample, not a theorem): on this axis the child pattern is attained exactly *)
Example ex_pattern_exact :
  forallb (fun j => forallb (fun i =>
     Bool.eqb (negb (qeqb (get2 (prolongation_spec ex_kv 2 (mids ex_bs)) j i) 0)) (C4.is_child_1d ex_axis i j))
     (seq 0 (numdofs ex_kv 2))) (seq 0 (numdofs (refine_kv ex_kv 2 (mids ex_bs)) 2)) = true.
Proof. vm_compute. reflexivity. Qed.
Example ex_posmap : map (posmap ex_kv 2 (mids ex_bs)) (seq 0 9) = map (C4.phi ex_axis) (seq 0 9).
Proof. vm_compute. reflexivity. Qed.
Example ex_check_bridge :
  check_bridge ex_kv 2 ex_bs ex_mults (refine_kv ex_kv 2 (mids ex_bs))
               (prolongation_spec ex_kv 2 (mids ex_bs)) 0 = true.
Proof. vm_compute. reflexivity. Qed.

(* boundary_restriction: 3 axes, the middle one is the boundary axis, both sides *)
Definition ex_kv1 := map (fun z => q z 1) [0;0;1;2;2]%Z.       (* p = 1 *)
Example ex_open_ends : open_ends ex_kv 2.
Proof. split; [exact ex_ok|vm_compute; reflexivity]. Qed.
Example ex_trace_right :
  TPN ([(ex_kv1, 1%nat)] ++ [(ex_kv1, 1%nat)]) (1 * 3 + 2) ([q 1 2] ++ [q 3 2])
  = TPN ([(ex_kv1, 1%nat)] ++ (ex_kv, 2%nat) :: [(ex_kv1, 1%nat)]) ((1 * 6 + 5) * 3 + 2) ([q 1 2] ++ q 1 1 :: [q 3 2])
  /\ TPN ([(ex_kv1, 1%nat)] ++ [(ex_kv1, 1%nat)]) (1 * 3 + 2) ([q 1 2] ++ [q 3 2]) <> 0
  /\ end_idx ex_kv 2 1 = 5%nat /\ qeqb (end_pt ex_kv 1) (q 1 1) = true.
Proof. split; [apply Qc_is_canon; vm_compute; reflexivity|]. split; [vm_compute; discriminate|]. split; vm_compute; reflexivity. Qed.
Example ex_trace_left_vanish :
  TPN ([(ex_kv1, 1%nat)] ++ (ex_kv, 2%nat) :: [(ex_kv1, 1%nat)]) ((1 * 6 + 1) * 3 + 2) ([q 1 2] ++ end_pt ex_kv 0 :: [q 3 2]) = 0.
Proof. apply Qc_is_canon. vm_compute. reflexivity. Qed.
