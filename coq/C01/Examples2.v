(* C01 -- non-vacuity of Props2.v: a forest with a symmetric 2x2 variable whose defining expression has
   syntactically different but equal (0,1) and (1,0) entries meets every hypothesis, the emitted program writes three
   slots, and the promise `symmetric=True` cannot be dropped. *)
From Coq Require Import List String Bool Arith Lia.
From Verif.C06 Require Import Model.
From Verif.C01 Require Import Model Proofs Kernel Kernel2 Kernel3.
Import ListNotations.
Open Scope string_scope. Open Scope nat_scope.

Definition xlay (n : string) (k : nat) : loc := if String.eqb n "B" then LField k else LLocal n k.
Definition xshp (n : string) : list nat := if String.eqb n "B" then [2; 2] else [].
Definition xsz (n : string) : nat := if String.eqb n "B" then 3 else 1.
Definition xsym (n : string) : bool := String.eqb n "B".

Notation VRa := (VR "a" [] [] false).
(* B = [[a, a*2], [2*a, 5]], symmetric=True *)
Definition xB : texpr nat := TLM 2 2 [VRa; Op OMul VRa (Const 2); Op OMul (Const 2) VRa; Const 5].
(* the same with a (1,0) entry that breaks the promise *)
Definition xBbad : texpr nat := TLM 2 2 [VRa; Op OMul VRa (Const 2); Const 1; Const 5].
Definition xen : env nat := mkEnv (fun _ _ _ _ => 7) (fun _ _ _ _ => 3) (fun _ => 1) 1 1 (fun _ x => x).
Definition xnc : nctx nat := mkN nat (fun _ _ => 7) (fun _ => 1) (fun _ x => x).
Definition xst : store nat := fun _ => 3.
(* integrand: B[1,0] * u + B[0,1] *)
Definition xes : list (expr nat) :=
  [Op OAdd (Op OMul (VR "B" [1; 0] [0; 0] false) (PD "u" None [0; 0] false)) (VR "B" [0; 1] [0; 0] false)].

Example ex2_lay_inj : forall n k n' k', xlay n k = xlay n' k' -> n = n' /\ k = k'.
Proof.
  intros n k n' k' H. unfold xlay in H.
  destruct (String.eqb_spec n "B"), (String.eqb_spec n' "B"); subst; inversion H; subst; try congruence; auto.
Qed.

Example ex2_wf : wf_prog3 nat 0 xlay xshp xsz xsym ["a"] [("B", xB)].
Proof.
  simpl. split; [|split; [intros [H|[]]; discriminate | exact I]].
  eexists. eexists. split; [vm_compute; reflexivity|]. split; [vm_compute; reflexivity|].
  split; [|split; [reflexivity|split; [intros H; discriminate | intros _; exists 2; split; reflexivity]]].
  vm_compute. repeat constructor.
Qed.

Example ex2_promise : sym_promise nat 0 Nat.add Nat.mul Nat.sub Nat.div (fun x => x) xsym xen [("B", xB)].
Proof.
  simpl. split; [|exact I]. intros _ i j Hi Hj.
  destruct i as [|[|i]]; destruct j as [|[|j]]; try lia; reflexivity.
Qed.

Example ex2_agree : Agree3 nat xlay xshp xsz xsym xst xen ["a"].
Proof. intros n Ix D p _ _ _. reflexivity. Qed.

Example ex2_ctx : Ctx nat xnc xen.
Proof. repeat split. Qed.

Example ex2_wfe : Forall (wfe3 nat xshp xsz xsym (names_after nat ["a"] [("B", xB)])) xes.
Proof.
  constructor; [|constructor]. vm_compute.
  split; [split; [split; [left; reflexivity | exists 1, 0; repeat split; auto] | exact I]
         | split; [left; reflexivity | exists 0, 1; repeat split; auto]].
Qed.

(* the emitted program writes the three slots of the upper triangle; both references read slot 1 *)
Example ex2_program :
  omap (compile_kv nat xlay xshp xsym) (writes nat 0 xsym "B" xB [VRa; Op OMul VRa (Const 2); Op OMul (Const 2) VRa; Const 5])
  = Some [(0, CRead nat (LLocal "a" 0)); (1, COp nat OMul (CRead nat (LLocal "a" 0)) (CConst nat 2)); (2, CConst nat 5)]
  /\ omap (compile3 nat xlay xshp xsym) xes
     = Some [COp nat OAdd (COp nat OMul (CRead nat (LField 1)) (CPD nat "u" [0; 0])) (CRead nat (LField 1))].
Proof. vm_compute. auto. Qed.

(* both sides of kernel_denotes_integrand_sym on this forest: 6 * 7 + 6 = 48 *)
Example ex2_values :
  match omap (compile3 nat xlay xshp xsym) xes with
  | Some cs => map (ceval nat Nat.add Nat.mul Nat.sub Nat.div (fun x => x) xnc
                      (run_defs3 nat 0 Nat.add Nat.mul Nat.sub Nat.div (fun x => x) xlay xshp xsym xnc xst [("B", xB)])) cs
  | None => [] end = [48]
  /\ map (eval nat Nat.add Nat.mul Nat.sub Nat.div (fun x => x)
            (eval_defs nat 0 Nat.add Nat.mul Nat.sub Nat.div (fun x => x) xen [("B", xB)])) xes = [48].
Proof. vm_compute. auto. Qed.

(* the promise is necessary: with B[1,0] = 1 <> B[0,1] = 6 the program (which never evaluates the (1,0) entry) still
   gives 48, the C06 value of the forest is 1 * 7 + 6 = 13 *)
Example ex2_promise_needed :
  match omap (compile3 nat xlay xshp xsym) xes with
  | Some cs => map (ceval nat Nat.add Nat.mul Nat.sub Nat.div (fun x => x) xnc
                      (run_defs3 nat 0 Nat.add Nat.mul Nat.sub Nat.div (fun x => x) xlay xshp xsym xnc xst [("B", xBbad)])) cs
  | None => [] end = [48]
  /\ map (eval nat Nat.add Nat.mul Nat.sub Nat.div (fun x => x)
            (eval_defs nat 0 Nat.add Nat.mul Nat.sub Nat.div (fun x => x) xen [("B", xBbad)])) xes = [13].
Proof. vm_compute. auto. Qed.

(* the symmetric variable lives in fields[]: it survives precompute_fields (hypothesis of precompute_then_kernel_equals_forest_sym) *)
Example ex2_glob : forall n k, In n ["B"] -> is_glob (xlay n k) = true.
Proof. intros n k [H|[]]. subst. reflexivity. Qed.
Example ex2_nobf : nobf_defs3 nat 0 xsym [("B", xB)].
Proof. constructor; [vm_compute; reflexivity | constructor]. Qed.
